import MuduoVerif.Proofs.Codec
import MuduoVerif.Proofs.Http
import MuduoVerif.Proofs.CodecSkelTie
import MuduoVerif.Proofs.CodecObjects
import MuduoVerif.Proofs.CodecEx
import MuduoVerif.Proofs.HttpSkelTie
/-!
# C18 — stream decoders: segmentation-invariant, bounded, reject malformed input

Property theorems only; lemmas live in `Proofs/Stream.lean`, `Proofs/Codec.lean`,
`Proofs/Http.lean`.  The models (`Model/Codec.lean`, `Model/Http.lean`) use the constants,
guards, offsets and decision trees of `Generated/Codec.lean` / `Generated/Http.lean`
(re-extracted from /repo on every run).
-/
namespace MuduoVerif.C18
open MuduoVerif.Codec MuduoVerif.Gen.Codec
open MuduoVerif.Stream (Dec Res Out feedAll_flatten feed_conserves drain_unfold drain_not_stuck)
open MuduoVerif.Buffer (intBytes)

/-! ## the length-prefixed, checksummed framing (`ProtobufCodecLite`, `RpcCodec`) -/

/-- **segmentation invariance**: delivering a stream to a fresh decoder in any chunks gives
the same decoder (unconsumed bytes, hence consumed count; error flag) and the same events
(messages in order, first error) as delivering it in one piece.  Any tag, any payload
parser, any raw callback, any stream, any segmentation (empty chunks included). -/
theorem seg_invariant (c : Cfg) (chunks : List Bytes) :
    feedAll c Codec.init chunks = feed c Codec.init chunks.flatten :=
  feedAll_flatten (stepOk c) chunks Codec.init (init_settled c)

/-- the same from any decoder at rest (after an error, or with a partial frame buffered) -/
theorem seg_invariant_from (c : Cfg) (d : Dec Unit) (hd : d.dead = true ∨ step c () d.buf = .need)
    (chunks : List Bytes) : feedAll c d chunks = feed c d chunks.flatten :=
  feedAll_flatten (stepOk c) chunks d ⟨trivial, hd⟩

/-- two segmentations of the same stream are indistinguishable -/
theorem seg_any_two (c : Cfg) (chunks₁ chunks₂ : List Bytes) (h : chunks₁.flatten = chunks₂.flatten) :
    feedAll c Codec.init chunks₁ = feedAll c Codec.init chunks₂ := by
  rw [seg_invariant, seg_invariant, h]

/-- **consumed count**: what the decoder holds after any deliveries is the stream minus a
prefix (bytes are consumed from the front, in order, never more than were received) -/
theorem consumed_prefix (c : Cfg) (chunks : List Bytes) :
    ∃ k, k ≤ chunks.flatten.length ∧ (feedAll c Codec.init chunks).1.buf = chunks.flatten.drop k := by
  rw [seg_invariant]
  obtain ⟨k, hk, hr⟩ := feed_conserves (stepOk c) Codec.init trivial chunks.flatten
  exact ⟨k, by simpa [Codec.init] using hk, by simpa [Codec.init, feed] using hr⟩

/-- **first error ends the stream**: the events of any run are messages, followed by exactly
one error iff the decoder is abandoned -/
theorem events_shape (c : Cfg) (chunks : List Bytes) :
    ∃ ps : List Bytes,
      ((feedAll c Codec.init chunks).1.dead = false ∧ (feedAll c Codec.init chunks).2 = ps.map .msg) ∨
      ((feedAll c Codec.init chunks).1.dead = true ∧
        ∃ e, e ≠ .kNoError ∧ (feedAll c Codec.init chunks).2 = ps.map .msg ++ [.err e]) := by
  rw [seg_invariant]
  exact decode_shape c chunks.flatten

/-- **round trip** under the explicit size guard (`_partial`: the guard is not in the code,
see `roundtrip_excluded` - finding F12): what `fillEmptyBuffer` produced decodes to exactly
the payload that was encoded, everything is consumed, no error -/
theorem roundtrip_partial (c : Cfg) (p : Bytes)
    (hmax : c.tag.length + p.length + kChecksumLen ≤ kMaxMessageLen)
    (hp : c.parsePayload p = true) (hraw : c.rawSkip (encode c p) = false) :
    decode c (encode c p) = ({ s := (), buf := [], dead := false }, [.msg p]) := by
  have := decode_encode_append c p [] hmax hp hraw
  rw [List.append_nil] at this
  rw [this, decode_short c [] (by simp only [List.length_nil]; omega)]

/-- a whole stream of encoded messages, followed by an incomplete tail, delivered in any
segmentation, decodes to exactly those messages in order, the tail is kept -/
theorem roundtrip_stream (c : Cfg) (ps : List Bytes) (tail : Bytes) (chunks : List Bytes)
    (hmax : ∀ p ∈ ps, c.tag.length + p.length + kChecksumLen ≤ kMaxMessageLen)
    (hp : ∀ p ∈ ps, c.parsePayload p = true) (hraw : ∀ p ∈ ps, c.rawSkip (encode c p) = false)
    (htail : tail.length < c.tag.length + 8)
    (hch : chunks.flatten = (ps.map (encode c)).flatten ++ tail) :
    feedAll c Codec.init chunks = ({ s := (), buf := tail, dead := false }, ps.map .msg) := by
  rw [seg_invariant, hch]
  exact decode_stream c ps tail hmax hp hraw htail

/-- the full round-trip statement (no size guard) ... -/
def roundtrip_full : Prop :=
  ∀ (c : Cfg) (p : Bytes), c.parsePayload p = true → c.rawSkip (encode c p) = false →
    c.tag.length + p.length + kChecksumLen < 2 ^ 31 →
    decode c (encode c p) = ({ s := (), buf := [], dead := false }, [.msg p])

/-- **F12, the excluded branch**: the encoder has no size check; a message whose frame body
is larger than `kMaxMessageLen` (and fits the int32 length field) is encoded, and the decoder
rejects the result with `InvalidLength`, consuming nothing -/
theorem roundtrip_excluded (c : Cfg) (p : Bytes)
    (hbig : kMaxMessageLen < c.tag.length + p.length + kChecksumLen)
    (h31 : c.tag.length + p.length + kChecksumLen < 2 ^ 31) :
    decode c (encode c p) = ({ s := (), buf := encode c p, dead := true }, [.err .kInvalidLength]) := by
  have h := step_encode_oversize c p [] hbig h31
  rw [List.append_nil] at h
  exact decode_fail c _ _ h

/-- ... is false on the code as it is (negation witness: a 64 MiB payload of zeros, tag "RPC0") -/
theorem roundtrip_full_false : ¬ roundtrip_full := by
  intro h
  have key : ∀ p : Bytes, p.length = 67108864 → False := by
    intro p hlen
    have h1 := h { tag := rpcTag, parsePayload := fun _ => true } p rfl rfl
      (by simp only [hlen]; decide)
    have h2 := roundtrip_excluded { tag := rpcTag, parsePayload := fun _ => true } p
      (by simp only [hlen]; decide) (by simp only [hlen]; decide)
    rw [h1] at h2
    have := congrArg (fun r => r.1.dead) h2
    simp at this
  exact key (List.replicate 67108864 0) List.length_replicate

/-! ### classification of malformed frames

`frame body` is an arbitrary frame: a big-endian length field that announces `body`, then
`body` (any bytes at all); `storedChecksum body` is the signed big-endian value of its last
four bytes, `computedChecksum body` the Adler-32 (as int32) of everything before them.  The
theorems follow the order of the code's tests. -/

/-- a length field outside `[tag+4, 64 MiB]` (negative, zero, too small, too large - whatever
follows it): `InvalidLength`, no message, nothing consumed -/
theorem classify_length (c : Cfg) (stream : Bytes) (h : c.tag.length + 8 ≤ stream.length)
    (hr : asInt32 stream 0 > (kMaxMessageLen : Int) ∨ asInt32 stream 0 < (c.tag.length : Int) + kChecksumLen) :
    decode c stream = ({ s := (), buf := stream, dead := true }, [.err .kInvalidLength]) :=
  decode_fail c _ _ (step_bad_length c stream h hr)

/-- length in range, frame complete, stored checksum ≠ Adler-32 of tag+payload:
`CheckSumError`, no message, nothing consumed -/
theorem classify_checksum (c : Cfg) (body rest : Bytes)
    (hmin : c.tag.length + kChecksumLen ≤ body.length) (hmax : body.length ≤ kMaxMessageLen)
    (hraw : c.rawSkip (frame body) = false)
    (hck : storedChecksum body ≠ computedChecksum body) :
    decode c (frame body ++ rest)
      = ({ s := (), buf := frame body ++ rest, dead := true }, [.err .kCheckSumError]) :=
  decode_fail c _ _ (step_frame_checksum c body rest hmin hmax hraw hck)

/-- checksum right, tag different: `UnknownMessageType` -/
theorem classify_tag (c : Cfg) (body rest : Bytes)
    (hmin : c.tag.length + kChecksumLen ≤ body.length) (hmax : body.length ≤ kMaxMessageLen)
    (hraw : c.rawSkip (frame body) = false)
    (hck : storedChecksum body = computedChecksum body)
    (htag : body.take c.tag.length ≠ c.tag) :
    decode c (frame body ++ rest)
      = ({ s := (), buf := frame body ++ rest, dead := true }, [.err .kUnknownMessageType]) :=
  decode_fail c _ _ (step_frame_tag c body rest hmin hmax hraw hck htag)

/-- checksum and tag right, payload rejected by protobuf: `ParseError` -/
theorem classify_parse (c : Cfg) (body rest : Bytes)
    (hmin : c.tag.length + kChecksumLen ≤ body.length) (hmax : body.length ≤ kMaxMessageLen)
    (hraw : c.rawSkip (frame body) = false)
    (hck : storedChecksum body = computedChecksum body)
    (htag : body.take c.tag.length = c.tag)
    (hp : c.parsePayload ((body.drop c.tag.length).take (body.length - 4 - c.tag.length)) = false) :
    decode c (frame body ++ rest)
      = ({ s := (), buf := frame body ++ rest, dead := true }, [.err .kParseError]) :=
  decode_fail c _ _ (step_frame_parse c body rest hmin hmax hraw hck htag hp)

/-- ... and a frame that passes all four tests is delivered: the classification is complete -/
theorem classify_good (c : Cfg) (body rest : Bytes)
    (hmin : c.tag.length + kChecksumLen ≤ body.length) (hmax : body.length ≤ kMaxMessageLen)
    (hraw : c.rawSkip (frame body) = false)
    (hck : storedChecksum body = computedChecksum body)
    (htag : body.take c.tag.length = c.tag)
    (hp : c.parsePayload ((body.drop c.tag.length).take (body.length - 4 - c.tag.length)) = true) :
    step c () (frame body ++ rest)
      = .adv () [.msg ((body.drop c.tag.length).take (body.length - 4 - c.tag.length))] (4 + body.length) :=
  step_frame_good c body rest hmin hmax hraw hck htag hp

/-- an error never comes with a message and never consumes anything: whatever the buffer
holds, when an iteration reports an error the call returns with the buffer untouched -/
theorem error_not_delivered (c : Cfg) (buf : Bytes) (e : Event) (h : step c () buf = .fail e) :
    onMessage c buf = { s := (), rest := buf, dead := true, stuck := false, evs := [e] } ∧
    ∃ code, code ≠ .kNoError ∧ e = .err code := by
  refine ⟨?_, step_fail_is_err c buf e h⟩
  unfold onMessage
  rw [drain_unfold (stepOk c) () buf trivial, h]

/-! ### bounded consumption -/

/-- an iteration that delivers (or drops, raw callback) a frame consumes exactly
`4 + length field` bytes, all of them received, and its verdict is a function of exactly
those bytes: it is the same on the frame alone and with anything behind it -/
theorem bounded_consumption (c : Cfg) (buf : Bytes) (evs : List Event) (k : Nat)
    (h : step c () buf = .adv () evs k) :
    (k : Int) = 4 + asInt32 buf 0 ∧ k ≤ buf.length ∧
    step c () (buf.take k) = .adv () evs k ∧
    ∀ rest, step c () (buf.take k ++ rest) = .adv () evs k := by
  obtain ⟨hk, h8, hkl, _, _⟩ := step_adv c buf evs k h
  have ht := step_take c buf evs k h
  refine ⟨by omega, hkl, ht, fun rest => ?_⟩
  rw [step_append c (buf.take k) rest (by rw [ht]; intro hh; cases hh)]; exact ht

/-- an error verdict, likewise, does not depend on what follows the bytes it looked at -/
theorem error_independent_of_rest (c : Cfg) (buf rest : Bytes) (e : Event)
    (h : step c () buf = .fail e) : step c () (buf ++ rest) = .fail e := by
  rw [step_append c buf rest (by rw [h]; intro hh; cases hh)]; exact h

/-- decoding `encode p ++ rest` delivers `p`, consumes exactly the frame and continues with
`rest` exactly as if `rest` had arrived alone: no byte of the next message is read or consumed -/
theorem frame_then_rest (c : Cfg) (p rest : Bytes)
    (hmax : c.tag.length + p.length + kChecksumLen ≤ kMaxMessageLen)
    (hp : c.parsePayload p = true) (hraw : c.rawSkip (encode c p) = false) :
    decode c (encode c p ++ rest) = ((decode c rest).1, .msg p :: (decode c rest).2) ∧
    (encode c p).length = 4 + (c.tag.length + p.length + 4) :=
  ⟨decode_encode_append c p rest hmax hp hraw, encode_length c p⟩

/-! ## the example codec (`examples/protobuf/codec/codec.cc`): round trip -/

/-- **every message the example codec encodes decodes to an equal message**: for every type name (non-empty: the wire
format stores it with its NUL and the decoder demands `nameLen >= 2`) that `createMessage` knows and every payload
protobuf parses for that type, of ANY size within the decoder's limit, the frame `ProtobufCodec::fillEmptyBuffer`
builds (`Ex.encode`: length, name length, name + NUL, payload, Adler-32 of those three) is decoded by
`ProtobufCodec::onMessage` (`Ex.step` / `Ex.feed`) to exactly that type name and payload, the whole frame and nothing
else is consumed, whatever follows it in the buffer.  Sizes are unbounded naturals here: the growth of the real
`Buffer` while the encoder writes is the implementation's business and is watched by the differential run. -/
theorem ex_roundtrip (c : Ex.Cfg) (typeName payload : Bytes) (hname : 1 ≤ typeName.length)
    (hmax : 4 + (typeName.length + 1) + payload.length + 4 ≤ Gen.ExCodec.kMaxMessageLen)
    (hk : c.typeKnown typeName = true) (hp : c.parsePayload typeName payload = true) :
    Ex.feed c Ex.init (Ex.encode typeName payload) = ({ s := (), buf := [], dead := false }, [.msg typeName payload]) ∧
    ∀ rest, Ex.step c () (Ex.encode typeName payload ++ rest)
      = .adv () [.msg typeName payload] (Ex.encode typeName payload).length :=
  ⟨Ex.feed_encode c typeName payload hname hmax hk hp, fun rest => Ex.step_encode c typeName payload rest hname hmax hk hp⟩

/-- the hypotheses of `ex_roundtrip` are satisfiable -/
example : ∃ (c : Ex.Cfg) (t p : Bytes), 1 ≤ t.length ∧ 4 + (t.length + 1) + p.length + 4 ≤ Gen.ExCodec.kMaxMessageLen ∧
    c.typeKnown t = true ∧ c.parsePayload t p = true :=
  ⟨{ typeKnown := fun _ => true, parsePayload := fun _ _ => true }, [77], [8, 1], by decide, by decide, rfl, rfl⟩

/-! ## a message handed out stays the message -/

/-- **the messages one `onMessage` call delivers are fresh objects**: for every codec, every decoder state and every
chunk, the pointers the message callback receives during that call (`Heap.handed`) refer to pairwise distinct
objects, and when `onMessage` has returned each of them still holds exactly the payload it was delivered with - so a
consumer that keeps the `shared_ptr`s sees, in any segmentation, the messages that were sent.  `heldAfter` runs the
call's events over an explicit heap (allocation counter, current object, per-object content) under the allocation
discipline of the current source, `Gen.Codec.allocPerFrame` (T1: `prototype_->New()` is an unconditional statement of
the loop body in front of `parse`); with `allocPerFrame = false` this theorem does not compile and
`shared_object_is_overwritten` shows what the consumer would hold. -/
theorem delivered_messages_are_fresh (c : Cfg) (d : Dec Unit) (chunk : Bytes) :
    ((heldAfter (feed c d chunk).2).map (·.1)).Nodup ∧
    (heldAfter (feed c d chunk).2).map (·.2) = (delivered (feed c d chunk).2).map some := by
  have h := heapOf_perFrame (feed c d chunk).2 {} Heap.inv_empty
  have hp : allocPerFrame = true := rfl
  unfold heldAfter
  rw [hp]
  refine ⟨?_, ?_⟩
  · rw [held_fst]; exact h.1.nodup
  · rw [h.2]; simp [Heap.held]

/-- the statement is not vacuous: with one object for all frames of a call (allocated lazily, or in front of the
loop) two delivered messages are the same object and the first is overwritten by the second; with an object per
frame they are two objects with their own contents (kernel evaluation of the heap model) -/
theorem shared_object_is_overwritten :
    (heapOf false {} [.msg [1], .msg [2]]).held = [(0, some [2]), (0, some [2])] ∧
    (heapOf true {} [.msg [1], .msg [2]]).held = [(0, some [1]), (1, some [2])] := by decide

/-- the loop always terminates: it is never cut short by the model's iteration allowance -/
theorem decoder_terminates (c : Cfg) (buf : Bytes) : (onMessage c buf).stuck = false :=
  drain_not_stuck (stepOk c) _ () buf rfl trivial

/-! ### Adler-32 (the implementation calls zlib; equality on all generated frames is part of
the differential run) - the published test vectors -/
theorem adler32_vectors :
    adler32 1 [] = 1 ∧
    adler32 1 [0x61] = 0x00620062 ∧
    adler32 1 [0x57, 0x69, 0x6b, 0x69, 0x70, 0x65, 0x64, 0x69, 0x61] = 0x11E60398 ∧
    adler32 1 (List.replicate 6000 0xff) = adler32 1 (List.replicate 6000 0xff) % 2 ^ 32 := by
  refine ⟨by decide, by decide, by decide, ?_⟩
  exact (Nat.mod_eq_of_lt (adler32_lt 1 (by decide) _)).symm

/-- hypotheses of the theorems above are satisfiable: a concrete tag, payload and raw mode -/
example : ∃ (c : Cfg) (p : Bytes), c.tag.length + p.length + kChecksumLen ≤ kMaxMessageLen ∧
    c.parsePayload p = true ∧ c.rawSkip (encode c p) = false ∧ p ≠ [] :=
  ⟨{ tag := rpcTag, parsePayload := fun _ => true }, [8, 1], by decide, rfl, rfl, by decide⟩

/-! ## the HTTP request parser (`HttpContext`, `HttpRequest`) -/

/-! ### the request line against a declarative spec

The spec below is written from the HTTP/1.x grammar with byte literals only - it uses nothing of
`Generated/Http.lean` or `Model/Http.lean` except the names of the `Method` / `Version`
enumerators:

    request-line = method SP request-target SP "HTTP/1." ( "0" / "1" )
    method       = "GET" / "POST" / "HEAD" / "PUT" / "DELETE"        ; what the library supports
    request-target = 1*( any octet except SP and CTL ), not beginning with "?" (the path is not empty)

It is deliberately lenient on the *form* of the target (origin, absolute, authority and asterisk
form all pass; octets above 0x7f pass), so that only unambiguous violations count. -/

def SP : UInt8 := 0x20
/-- CTL = %x00-1F / %x7F -/
def CTL (b : UInt8) : Prop := b.toNat ≤ 0x1f ∨ b.toNat = 0x7f
/-- the method tokens and what they denote -/
def methods : List (List UInt8 × Gen.Http.Method) :=
  [([0x47, 0x45, 0x54], .kGet),                       -- GET
   ([0x50, 0x4f, 0x53, 0x54], .kPost),                -- POST
   ([0x48, 0x45, 0x41, 0x44], .kHead),                -- HEAD
   ([0x50, 0x55, 0x54], .kPut),                       -- PUT
   ([0x44, 0x45, 0x4c, 0x45, 0x54, 0x45], .kDelete)]  -- DELETE
/-- "HTTP/1." -/
def httpVersionPrefix : List UInt8 := [0x48, 0x54, 0x54, 0x50, 0x2f, 0x31, 0x2e]
/-- the minor-version digit and what it denotes -/
def minorVersions : List (UInt8 × Gen.Http.Version) := [(0x30, .kHttp10), (0x31, .kHttp11)]

def ValidTarget (t : List UInt8) : Prop :=
  t ≠ [] ∧ t.head? ≠ some 0x3f ∧ ∀ b ∈ t, b ≠ SP ∧ ¬ CTL b

def ValidLine (line : List UInt8) : Prop :=
  ∃ m t d, m ∈ methods.map (·.1) ∧ ValidTarget t ∧ d ∈ minorVersions.map (·.1) ∧
    line = m ++ [SP] ++ t ++ [SP] ++ httpVersionPrefix ++ [d]

private theorem targetOk_iff (t : List UInt8) (hsp : Gen.Http.targetSep ∉ t) :
    Http.targetOk t ↔ ValidTarget t := by
  unfold Http.targetOk ValidTarget
  rw [Http.find_ne_zero_iff, Http.findIf_eq_length_iff]
  have hq : Gen.Http.querySep = 0x3f := rfl
  rw [hq]
  constructor
  · rintro ⟨⟨h1, h2⟩, h3⟩
    refine ⟨h1, h2, fun b hb => ⟨fun e => hsp (by rw [e] at hb; exact hb), ?_⟩⟩
    have := h3 b hb
    simp only [decide_eq_false_iff_not] at this
    intro hc; apply this
    unfold Gen.Http.isControl; unfold CTL at hc; omega
  · rintro ⟨h1, h2, h3⟩
    refine ⟨⟨h1, h2⟩, fun b hb => ?_⟩
    simp only [decide_eq_false_iff_not]
    intro hc; apply (h3 b hb).2
    unfold Gen.Http.isControl at hc; unfold CTL; omega

/-- **request line**: `processRequestLine` accepts a line iff it is
`METHOD SP request-target SP "HTTP/1." ("0"|"1")` with one of the five supported methods and a
request-target that is non-empty, free of SP and CTL and has a non-empty path.  (Full strength
since the fix of F19: before it, an empty target, a target consisting of a query only, and
control bytes in the target were accepted.) -/
theorem line_valid_iff (line : List UInt8) :
    (Http.processRequestLine line).isSome ↔ ValidLine line := by
  have hmeth : Gen.Http.methodTable.map (·.1) = methods.map (·.1) := by decide
  have hver : Gen.Http.versionTable.map (·.1) = [0x31, 0x30] := by decide
  have hms : Gen.Http.methodSep = SP := rfl
  have hts : Gen.Http.targetSep = SP := rfl
  constructor
  · intro h
    cases h1 : Http.splitAt Gen.Http.methodSep line with
    | none =>
      rw [Http.processRequestLine_no_sep line ((Http.splitAt_eq_none_iff _ _).mp h1)] at h
      cases h
    | some mr =>
      obtain ⟨m, rest⟩ := mr
      obtain ⟨hline, hm⟩ := (Http.splitAt_eq_some_iff _ _ _ _).mp h1
      cases h2 : Http.splitAt Gen.Http.targetSep rest with
      | none =>
        rw [hline, Http.processRequestLine_one_sep m rest hm ((Http.splitAt_eq_none_iff _ _).mp h2)] at h
        cases h
      | some tv =>
        obtain ⟨t, ver⟩ := tv
        obtain ⟨hrest, ht⟩ := (Http.splitAt_eq_some_iff _ _ _ _).mp h2
        rw [hline, hrest, Http.processRequestLine_parts m t ver hm ht] at h
        split at h
        · rename_i hc
          obtain ⟨hma, hto⟩ := hc
          rw [Option.isSome_map] at h
          obtain ⟨d, hd, hv⟩ := (Http.versionOf_isSome_iff ver).mp h
          refine ⟨m, t, d, ?_, (targetOk_iff t ht).mp hto, ?_, ?_⟩
          · rw [← hmeth]; exact (Http.setMethod_accepted_iff m).mp hma
          · rw [hver] at hd
            simp only [minorVersions, List.map_cons, List.map_nil, List.mem_cons, List.not_mem_nil, or_false] at hd ⊢
            exact hd.symm
          · rw [hline, hrest, hv, hms, hts]
            have : Gen.Http.versionPrefix = httpVersionPrefix := rfl
            rw [this]
            simp only [List.append_assoc, List.cons_append, List.nil_append]
        · cases h
  · rintro ⟨m, t, d, hm, ht, hd, rfl⟩
    have hm_sp : ∀ m ∈ methods.map (·.1), Gen.Http.methodSep ∉ m := by decide
    have ht_sp : Gen.Http.targetSep ∉ t := fun h => (ht.2.2 _ h).1 hts
    have hform : m ++ [SP] ++ t ++ [SP] ++ httpVersionPrefix ++ [d]
        = m ++ Gen.Http.methodSep :: (t ++ Gen.Http.targetSep :: (Gen.Http.versionPrefix ++ [d])) := by
      have : Gen.Http.versionPrefix = httpVersionPrefix := rfl
      rw [this, hms, hts]
      simp only [List.append_assoc, List.cons_append, List.nil_append]
    rw [hform, Http.processRequestLine_parts m t _ (hm_sp m hm) ht_sp]
    rw [if_pos ⟨(Http.setMethod_accepted_iff m).mpr (by rw [hmeth]; exact hm), (targetOk_iff t ht_sp).mpr ht⟩]
    rw [Option.isSome_map]
    refine (Http.versionOf_isSome_iff _).mpr ⟨d, ?_, rfl⟩
    rw [hver]
    simp only [minorVersions, List.map_cons, List.map_nil, List.mem_cons, List.not_mem_nil, or_false] at hd ⊢
    exact hd.symm

/-- ... and what an accepted line sets: the method and version the tokens denote, the path = the
target up to the first "?", the query = the rest of the target from that "?" on -/
theorem line_valid_result (e : List UInt8 × Gen.Http.Method) (t : List UInt8) (v : UInt8 × Gen.Http.Version)
    (he : e ∈ methods) (ht : ValidTarget t) (hv : v ∈ minorVersions) :
    Http.processRequestLine (e.1 ++ [SP] ++ t ++ [SP] ++ httpVersionPrefix ++ [v.1]) =
      some { method := e.2, path := t.takeWhile (· != 0x3f), query := t.dropWhile (· != 0x3f), version := v.2 } := by
  have hmt : methods = Gen.Http.methodTable := by decide
  have hms : Gen.Http.methodSep = SP := rfl
  have hts : Gen.Http.targetSep = SP := rfl
  have hm_sp : ∀ e ∈ methods, Gen.Http.methodSep ∉ e.1 := by decide
  have ht_sp : Gen.Http.targetSep ∉ t := fun h => (ht.2.2 _ h).1 hts
  have hform : e.1 ++ [SP] ++ t ++ [SP] ++ httpVersionPrefix ++ [v.1]
      = e.1 ++ Gen.Http.methodSep :: (t ++ Gen.Http.targetSep :: (Gen.Http.versionPrefix ++ [v.1])) := by
    have : Gen.Http.versionPrefix = httpVersionPrefix := rfl
    rw [this, hms, hts]
    simp only [List.append_assoc, List.cons_append, List.nil_append]
  have he' : e ∈ Gen.Http.methodTable := hmt ▸ he
  have hv' : v ∈ Gen.Http.versionTable := by
    have : ∀ v ∈ minorVersions, v ∈ Gen.Http.versionTable := by decide
    exact this v hv
  rw [hform, Http.processRequestLine_parts e.1 t _ (hm_sp e he) ht_sp]
  rw [if_pos ⟨(Http.setMethod_accepted_iff e.1).mpr (List.mem_map.mpr ⟨e, he', rfl⟩), (targetOk_iff t ht_sp).mpr ht⟩]
  rw [Http.versionOf_append v hv', Http.setMethod_of_mem e he', Http.take_find, Http.drop_find]
  rfl

/-- the three repaired halves of F19, stated directly: whatever the method token and whatever
follows the second separator, a request-target that is empty, or begins with "?" (empty path),
or contains a control byte makes the line invalid -/
theorem malformed_target_rejected (m t ver : List UInt8) (hm : SP ∉ m) (ht : SP ∉ t)
    (hbad : t = [] ∨ t.head? = some 0x3f ∨ ∃ b ∈ t, CTL b) :
    Http.processRequestLine (m ++ [SP] ++ t ++ [SP] ++ ver) = none := by
  have hform : m ++ [SP] ++ t ++ [SP] ++ ver
      = m ++ Gen.Http.methodSep :: (t ++ Gen.Http.targetSep :: ver) := by
    have hms : Gen.Http.methodSep = SP := rfl
    have hts : Gen.Http.targetSep = SP := rfl
    rw [hms, hts]
    simp only [List.append_assoc, List.cons_append, List.nil_append]
  rw [hform, Http.processRequestLine_parts m t ver hm ht, if_neg]
  rintro ⟨_, hto⟩
  obtain ⟨h1, h2, h3⟩ := (targetOk_iff t ht).mp hto
  rcases hbad with h | h | ⟨b, hb, hc⟩
  · exact h1 h
  · exact h2 h
  · exact (h3 b hb).2 hc

/-- the hypotheses of the theorems above are satisfiable, and the witnesses of the old defects are
invalid lines: `GET /x?y=1 HTTP/1.1` is valid; `GET  HTTP/1.1`, `GET ? HTTP/1.1` and
`GET /<01> HTTP/1.0` are rejected -/
theorem line_examples :
    ValidLine [0x47, 0x45, 0x54, 0x20, 0x2f, 0x78, 0x3f, 0x79, 0x3d, 0x31, 0x20, 0x48, 0x54, 0x54, 0x50, 0x2f, 0x31, 0x2e, 0x31] ∧
    Http.processRequestLine [0x47, 0x45, 0x54, 0x20, 0x2f, 0x78, 0x3f, 0x79, 0x3d, 0x31, 0x20, 0x48, 0x54, 0x54, 0x50, 0x2f, 0x31, 0x2e, 0x31]
      = some { method := .kGet, path := [0x2f, 0x78], query := [0x3f, 0x79, 0x3d, 0x31], version := .kHttp11 } ∧
    Http.processRequestLine [0x47, 0x45, 0x54, 0x20, 0x20, 0x48, 0x54, 0x54, 0x50, 0x2f, 0x31, 0x2e, 0x31] = none ∧
    Http.processRequestLine [0x47, 0x45, 0x54, 0x20, 0x3f, 0x20, 0x48, 0x54, 0x54, 0x50, 0x2f, 0x31, 0x2e, 0x31] = none ∧
    Http.processRequestLine [0x47, 0x45, 0x54, 0x20, 0x2f, 0x01, 0x20, 0x48, 0x54, 0x54, 0x50, 0x2f, 0x31, 0x2e, 0x30] = none := by
  refine ⟨?_, by decide, by decide, by decide, by decide⟩
  rw [← line_valid_iff]; decide

/-! ### segmentation invariance, complete lines only, termination

`Http.feed` is one delivery to a connection served the way `HttpServer::onMessage` does it
(`parseRequest`; on failure give up; on `gotAll()` hand the request over and `reset()`), repeated
while complete requests keep coming out of the buffer.  `Http.Parsing ctx`: the parser stands at
a line boundary of an unfinished request (state `kExpectRequestLine` / `kExpectHeaders`) - the
states in which the server calls it. -/

/-- **segmentation invariance**: delivering a request stream to a fresh connection in any chunks
gives the same requests in the same order, the same first error, the same unconsumed bytes
(hence consumed count) and the same request under construction as delivering it in one piece -/
theorem http_seg_invariant (chunks : List (List UInt8)) :
    Http.feedAll Http.init chunks = Http.feed Http.init chunks.flatten := by
  rw [Http.feedAll_eq chunks Http.init Http.Parsing.fresh, Http.feed_eq Http.init Http.Parsing.fresh]
  exact feedAll_flatten Http.stepOk chunks Http.init Http.init_settled

/-- the same from any connection at rest (abandoned, or waiting for the rest of a line) -/
theorem http_seg_invariant_from (d : Dec Http.Ctx) (hI : Http.Parsing d.s)
    (hd : d.dead = true ∨ Http.findCRLF d.buf = none) (chunks : List (List UInt8)) :
    Http.feedAll d chunks = Http.feed d chunks.flatten := by
  rw [Http.feedAll_eq chunks d hI, Http.feed_eq d hI]
  refine feedAll_flatten Http.stepOk chunks d ⟨hI, hd.imp id fun h => ?_⟩
  rcases Http.lineStep_cases hI d.buf with ⟨_, hn⟩ | ⟨j, hj, _⟩
  · unfold Http.step; rw [hn]
  · rw [h] at hj; cases hj

/-- two segmentations of the same stream are indistinguishable -/
theorem http_seg_any_two (chunks₁ chunks₂ : List (List UInt8)) (h : chunks₁.flatten = chunks₂.flatten) :
    Http.feedAll Http.init chunks₁ = Http.feedAll Http.init chunks₂ := by
  rw [http_seg_invariant, http_seg_invariant, h]

/-- **only complete lines are consumed**: an iteration of the parser that consumes `k` bytes has
found a CR LF at offset `k - 2` inside the received bytes (it consumes exactly that line and its
terminator), and its verdict is the same whatever arrives behind that line; without a CR LF in
the buffer the whole driver consumes nothing, reports nothing and keeps its state -/
theorem only_complete_lines (ctx : Http.Ctx) (hI : Http.Parsing ctx) (buf : List UInt8) :
    (∀ ctx' evs k, Http.step ctx buf = .adv ctx' evs k →
      ∃ j, k = j + 2 ∧ k ≤ buf.length ∧ buf.drop j = 13 :: 10 :: buf.drop k ∧
        ∀ more, Http.step ctx (buf.take k ++ more) = .adv ctx' evs k) ∧
    (Http.findCRLF buf = none →
      Http.serve ctx buf = { s := ctx, rest := buf, dead := false, stuck := false, evs := [] }) := by
  constructor
  · intro ctx' evs k h
    rcases Http.lineStep_cases hI buf with ⟨_, hn⟩ | ⟨j, hj, hc⟩
    · unfold Http.step at h; rw [hn] at h; cases h
    · obtain ⟨hj2, hdrop⟩ := Http.findCRLF_some buf j hj
      have hk : k = j + 2 := by
        unfold Http.step at h
        rcases hc with hf | ⟨c, hc, _⟩ | ⟨c, hc, _⟩
        · rw [hf] at h; cases h
        · rw [hc] at h; simp only [Out.adv.injEq] at h; exact h.2.2.symm
        · rw [hc] at h; simp only [Out.adv.injEq] at h; exact h.2.2.symm
      subst hk
      refine ⟨j, rfl, hj2, hdrop, fun more => ?_⟩
      -- the first j+2 bytes already hold the CR LF at j
      have htake : Http.findCRLF (buf.take (j + 2)) = some j := by
        have h1 : buf = buf.take (j + 2) ++ buf.drop (j + 2) := (List.take_append_drop _ _).symm
        cases hf : Http.findCRLF (buf.take (j + 2)) with
        | some i =>
          have := Http.findCRLF_append _ (buf.drop (j + 2)) i hf
          rw [← h1, hj] at this
          exact this.symm
        | none =>
          exfalso
          refine Http.findCRLF_none _ hf j [] ?_
          have h2 : (buf.take (j + 2)).drop j = (buf.drop j).take 2 := by
            rw [List.drop_take]; congr 1; omega
          rw [h2, hdrop]; rfl
      have hstep : Http.step ctx (buf.take (j + 2)) = .adv ctx' evs (j + 2) := by
        unfold Http.step at h ⊢
        have hl : Http.lineStep ctx (buf.take (j + 2) ++ buf.drop (j + 2)) = Http.lineStep ctx (buf.take (j + 2)) :=
          Http.lineStep_append ctx _ _ j htake
        rw [List.take_append_drop] at hl
        rw [← hl]; exact h
      exact Http.stepOk.adv_mono more hI hstep
  · intro hn
    rw [Http.serve_eq_drain ctx buf hI, drain_unfold Http.stepOk ctx buf hI]
    rcases Http.lineStep_cases hI buf with ⟨_, hne⟩ | ⟨j, hj, _⟩
    · unfold Http.step; rw [hne]
    · rw [hn] at hj; cases hj

/-- **termination** under the stated precondition: called in a state the server calls it in,
`parseRequest` returns, and so does the whole drain driver -/
theorem http_terminates (ctx : Http.Ctx) (hI : Http.Parsing ctx) (buf : List UInt8) :
    (Http.parseRequest ctx buf).stuck = false ∧ (Http.serve ctx buf).stuck = false := by
  refine ⟨(Http.parseLoop_drain _ ctx buf hI (Nat.lt_succ_self _)).2.1, ?_⟩
  rw [Http.serve_eq_drain ctx buf hI]
  exact drain_not_stuck Http.stepOk _ ctx buf rfl hI

/-- **termination finding**: the `while (hasMore)` loop of `parseRequest` has no arm for
`kGotAll` and an empty one for `kExpectBody`; called in one of these states it never returns
(whatever the buffer holds, for every iteration allowance the model is still running).  The
real driver `HttpServer::onMessage` resets the context after `gotAll()`, so it does not get there. -/
theorem parse_spins (ctx : Http.Ctx) (h : ctx.state = .kGotAll ∨ ctx.state = .kExpectBody) (buf : List UInt8) :
    (∀ n, (Http.parseLoop n ctx buf).stuck = true ∧ (Http.parseLoop n ctx buf).rest = buf) ∧
    (Http.parseRequest ctx buf).stuck = true := by
  have hs : Http.spins ctx.state = true := by
    rcases h with h | h <;> rw [h] <;> decide
  refine ⟨fun n => ?_, ?_⟩
  · rw [Http.parseLoop_spins ctx hs n buf]; exact ⟨rfl, rfl⟩
  · unfold Http.parseRequest; rw [Http.parseLoop_spins ctx hs _ buf]

/-- the invariant is not vacuous: a fresh context satisfies it, and a complete request delivered
in two pieces split between CR and LF comes out as one request -/
theorem http_example :
    Http.Parsing Http.Ctx.fresh ∧
    (Http.feedAll Http.init [[0x47, 0x45, 0x54, 0x20, 0x2f, 0x20, 0x48, 0x54, 0x54, 0x50, 0x2f, 0x31, 0x2e, 0x30, 0x0d],
                             [0x0a, 0x0d, 0x0a]]).2
      = [.request { method := .kGet, version := .kHttp10, path := [0x2f], query := [], headers := [] }] := by
  refine ⟨Http.Parsing.fresh, ?_⟩
  rw [http_seg_invariant]; decide

/-! ## statement order of the modelled functions (T1) -/

/-- **the models follow the code's statement order**: every modelled function of `ProtobufCodecLite.cc`, of the example
`codec.cc`, of `HttpContext.cc` and the `HttpRequest` setters it calls performs the same significant actions (stores,
buffer operations, callbacks, calls of the codec / zlib / protobuf, `retrieve`, `break` / `continue`, `return`), in the
same order, under the same nesting of the same guards and `while` loops as `Model/Codec.lean` / `Model/Http.lean`
(`Model/CodecSkelDecl.lean`, `Model/HttpSkelDecl.lean`); re-extracted from /repo on every run
(`Generated/CodecSkel.lean`, `Generated/HttpSkel.lean`), proved in `Proofs/CodecSkelTie.lean`, `Proofs/HttpSkelTie.lean` -/
theorem statement_order_tied :
    (Gen.CodecSkel.send = CodecSkel.Decl.send ∧
     Gen.CodecSkel.fillEmptyBuffer = CodecSkel.Decl.fillEmptyBuffer ∧
     Gen.CodecSkel.onMessage = CodecSkel.Decl.onMessage ∧
     Gen.CodecSkel.parseFromBuffer = CodecSkel.Decl.parseFromBuffer ∧
     Gen.CodecSkel.serializeToBuffer = CodecSkel.Decl.serializeToBuffer ∧
     Gen.CodecSkel.asInt32 = CodecSkel.Decl.asInt32 ∧
     Gen.CodecSkel.checksum = CodecSkel.Decl.checksum ∧
     Gen.CodecSkel.validateChecksum = CodecSkel.Decl.validateChecksum ∧
     Gen.CodecSkel.parse = CodecSkel.Decl.parse ∧
     Gen.CodecSkel.exFillEmptyBuffer = CodecSkel.Decl.exFillEmptyBuffer ∧
     Gen.CodecSkel.exAsInt32 = CodecSkel.Decl.exAsInt32 ∧
     Gen.CodecSkel.exOnMessage = CodecSkel.Decl.exOnMessage ∧
     Gen.CodecSkel.exCreateMessage = CodecSkel.Decl.exCreateMessage ∧
     Gen.CodecSkel.exParse = CodecSkel.Decl.exParse) ∧
    (Gen.HttpSkel.processRequestLine = HttpSkel.Decl.processRequestLine ∧
     Gen.HttpSkel.parseRequest = HttpSkel.Decl.parseRequest ∧
     Gen.HttpSkel.setVersion = HttpSkel.Decl.setVersion ∧
     Gen.HttpSkel.setMethod = HttpSkel.Decl.setMethod ∧
     Gen.HttpSkel.setPath = HttpSkel.Decl.setPath ∧
     Gen.HttpSkel.setQuery = HttpSkel.Decl.setQuery ∧
     Gen.HttpSkel.setReceiveTime = HttpSkel.Decl.setReceiveTime ∧
     Gen.HttpSkel.addHeader = HttpSkel.Decl.addHeader) :=
  ⟨CodecSkel.skeletons_agree, HttpSkel.skeletons_agree⟩

end MuduoVerif.C18
