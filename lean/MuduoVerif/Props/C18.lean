import MuduoVerif.Proofs.Codec
/-!
# C18 — stream decoders: segmentation-invariant, bounded, reject malformed input

Property theorems only; lemmas live in `Proofs/Stream.lean`, `Proofs/Codec.lean`,
`Proofs/Http.lean`.  The models (`Model/Codec.lean`, `Model/Http.lean`) use the constants,
guards, offsets and decision trees of `Generated/Codec.lean` / `Generated/Http.lean`
(re-extracted from /repo on every run).
-/
namespace MuduoVerif.C18
open MuduoVerif.Codec MuduoVerif.Gen.Codec
open MuduoVerif.Stream (Dec Res Out feedAll_flatten feed_conserves drain_unfold drain_not_stuck)
open MuduoVerif.Buffer (intBytes)

/-! ## the length-prefixed, checksummed framing (`ProtobufCodecLite`, `RpcCodec`) -/

/-- **segmentation invariance**: delivering a stream to a fresh decoder in any chunks gives
the same decoder (unconsumed bytes, hence consumed count; error flag) and the same events
(messages in order, first error) as delivering it in one piece.  Any tag, any payload
parser, any raw callback, any stream, any segmentation (empty chunks included). -/
theorem seg_invariant (c : Cfg) (chunks : List Bytes) :
    feedAll c Codec.init chunks = feed c Codec.init chunks.flatten :=
  feedAll_flatten (stepOk c) chunks Codec.init (init_settled c)

/-- the same from any decoder at rest (after an error, or with a partial frame buffered) -/
theorem seg_invariant_from (c : Cfg) (d : Dec Unit) (hd : d.dead = true ∨ step c () d.buf = .need)
    (chunks : List Bytes) : feedAll c d chunks = feed c d chunks.flatten :=
  feedAll_flatten (stepOk c) chunks d ⟨trivial, hd⟩

/-- two segmentations of the same stream are indistinguishable -/
theorem seg_any_two (c : Cfg) (chunks₁ chunks₂ : List Bytes) (h : chunks₁.flatten = chunks₂.flatten) :
    feedAll c Codec.init chunks₁ = feedAll c Codec.init chunks₂ := by
  rw [seg_invariant, seg_invariant, h]

/-- **consumed count**: what the decoder holds after any deliveries is the stream minus a
prefix (bytes are consumed from the front, in order, never more than were received) -/
theorem consumed_prefix (c : Cfg) (chunks : List Bytes) :
    ∃ k, k ≤ chunks.flatten.length ∧ (feedAll c Codec.init chunks).1.buf = chunks.flatten.drop k := by
  rw [seg_invariant]
  obtain ⟨k, hk, hr⟩ := feed_conserves (stepOk c) Codec.init trivial chunks.flatten
  exact ⟨k, by simpa [Codec.init] using hk, by simpa [Codec.init, feed] using hr⟩

/-- **first error ends the stream**: the events of any run are messages, followed by exactly
one error iff the decoder is abandoned -/
theorem events_shape (c : Cfg) (chunks : List Bytes) :
    ∃ ps : List Bytes,
      ((feedAll c Codec.init chunks).1.dead = false ∧ (feedAll c Codec.init chunks).2 = ps.map .msg) ∨
      ((feedAll c Codec.init chunks).1.dead = true ∧
        ∃ e, e ≠ .kNoError ∧ (feedAll c Codec.init chunks).2 = ps.map .msg ++ [.err e]) := by
  rw [seg_invariant]
  exact decode_shape c chunks.flatten

/-- **round trip** under the explicit size guard (`_partial`: the guard is not in the code,
see `roundtrip_excluded` - finding F12): what `fillEmptyBuffer` produced decodes to exactly
the payload that was encoded, everything is consumed, no error -/
theorem roundtrip_partial (c : Cfg) (p : Bytes)
    (hmax : c.tag.length + p.length + kChecksumLen ≤ kMaxMessageLen)
    (hp : c.parsePayload p = true) (hraw : c.rawSkip (encode c p) = false) :
    decode c (encode c p) = ({ s := (), buf := [], dead := false }, [.msg p]) := by
  have := decode_encode_append c p [] hmax hp hraw
  rw [List.append_nil] at this
  rw [this, decode_short c [] (by simp only [List.length_nil]; omega)]

/-- a whole stream of encoded messages, followed by an incomplete tail, delivered in any
segmentation, decodes to exactly those messages in order, the tail is kept -/
theorem roundtrip_stream (c : Cfg) (ps : List Bytes) (tail : Bytes) (chunks : List Bytes)
    (hmax : ∀ p ∈ ps, c.tag.length + p.length + kChecksumLen ≤ kMaxMessageLen)
    (hp : ∀ p ∈ ps, c.parsePayload p = true) (hraw : ∀ p ∈ ps, c.rawSkip (encode c p) = false)
    (htail : tail.length < c.tag.length + 8)
    (hch : chunks.flatten = (ps.map (encode c)).flatten ++ tail) :
    feedAll c Codec.init chunks = ({ s := (), buf := tail, dead := false }, ps.map .msg) := by
  rw [seg_invariant, hch]
  exact decode_stream c ps tail hmax hp hraw htail

/-- the full round-trip statement (no size guard) ... -/
def roundtrip_full : Prop :=
  ∀ (c : Cfg) (p : Bytes), c.parsePayload p = true → c.rawSkip (encode c p) = false →
    c.tag.length + p.length + kChecksumLen < 2 ^ 31 →
    decode c (encode c p) = ({ s := (), buf := [], dead := false }, [.msg p])

/-- **F12, the excluded branch**: the encoder has no size check; a message whose frame body
is larger than `kMaxMessageLen` (and fits the int32 length field) is encoded, and the decoder
rejects the result with `InvalidLength`, consuming nothing -/
theorem roundtrip_excluded (c : Cfg) (p : Bytes)
    (hbig : kMaxMessageLen < c.tag.length + p.length + kChecksumLen)
    (h31 : c.tag.length + p.length + kChecksumLen < 2 ^ 31) :
    decode c (encode c p) = ({ s := (), buf := encode c p, dead := true }, [.err .kInvalidLength]) := by
  have h := step_encode_oversize c p [] hbig h31
  rw [List.append_nil] at h
  exact decode_fail c _ _ h

/-- ... is false on the code as it is (negation witness: a 64 MiB payload of zeros, tag "RPC0") -/
theorem roundtrip_full_false : ¬ roundtrip_full := by
  intro h
  have key : ∀ p : Bytes, p.length = 67108864 → False := by
    intro p hlen
    have h1 := h { tag := rpcTag, parsePayload := fun _ => true } p rfl rfl
      (by simp only [hlen]; decide)
    have h2 := roundtrip_excluded { tag := rpcTag, parsePayload := fun _ => true } p
      (by simp only [hlen]; decide) (by simp only [hlen]; decide)
    rw [h1] at h2
    have := congrArg (fun r => r.1.dead) h2
    simp at this
  exact key (List.replicate 67108864 0) List.length_replicate

/-! ### classification of malformed frames

`frame body` is an arbitrary frame: a big-endian length field that announces `body`, then
`body` (any bytes at all); `storedChecksum body` is the signed big-endian value of its last
four bytes, `computedChecksum body` the Adler-32 (as int32) of everything before them.  The
theorems follow the order of the code's tests. -/

/-- a length field outside `[tag+4, 64 MiB]` (negative, zero, too small, too large - whatever
follows it): `InvalidLength`, no message, nothing consumed -/
theorem classify_length (c : Cfg) (stream : Bytes) (h : c.tag.length + 8 ≤ stream.length)
    (hr : asInt32 stream 0 > (kMaxMessageLen : Int) ∨ asInt32 stream 0 < (c.tag.length : Int) + kChecksumLen) :
    decode c stream = ({ s := (), buf := stream, dead := true }, [.err .kInvalidLength]) :=
  decode_fail c _ _ (step_bad_length c stream h hr)

/-- length in range, frame complete, stored checksum ≠ Adler-32 of tag+payload:
`CheckSumError`, no message, nothing consumed -/
theorem classify_checksum (c : Cfg) (body rest : Bytes)
    (hmin : c.tag.length + kChecksumLen ≤ body.length) (hmax : body.length ≤ kMaxMessageLen)
    (hraw : c.rawSkip (frame body) = false)
    (hck : storedChecksum body ≠ computedChecksum body) :
    decode c (frame body ++ rest)
      = ({ s := (), buf := frame body ++ rest, dead := true }, [.err .kCheckSumError]) :=
  decode_fail c _ _ (step_frame_checksum c body rest hmin hmax hraw hck)

/-- checksum right, tag different: `UnknownMessageType` -/
theorem classify_tag (c : Cfg) (body rest : Bytes)
    (hmin : c.tag.length + kChecksumLen ≤ body.length) (hmax : body.length ≤ kMaxMessageLen)
    (hraw : c.rawSkip (frame body) = false)
    (hck : storedChecksum body = computedChecksum body)
    (htag : body.take c.tag.length ≠ c.tag) :
    decode c (frame body ++ rest)
      = ({ s := (), buf := frame body ++ rest, dead := true }, [.err .kUnknownMessageType]) :=
  decode_fail c _ _ (step_frame_tag c body rest hmin hmax hraw hck htag)

/-- checksum and tag right, payload rejected by protobuf: `ParseError` -/
theorem classify_parse (c : Cfg) (body rest : Bytes)
    (hmin : c.tag.length + kChecksumLen ≤ body.length) (hmax : body.length ≤ kMaxMessageLen)
    (hraw : c.rawSkip (frame body) = false)
    (hck : storedChecksum body = computedChecksum body)
    (htag : body.take c.tag.length = c.tag)
    (hp : c.parsePayload ((body.drop c.tag.length).take (body.length - 4 - c.tag.length)) = false) :
    decode c (frame body ++ rest)
      = ({ s := (), buf := frame body ++ rest, dead := true }, [.err .kParseError]) :=
  decode_fail c _ _ (step_frame_parse c body rest hmin hmax hraw hck htag hp)

/-- ... and a frame that passes all four tests is delivered: the classification is complete -/
theorem classify_good (c : Cfg) (body rest : Bytes)
    (hmin : c.tag.length + kChecksumLen ≤ body.length) (hmax : body.length ≤ kMaxMessageLen)
    (hraw : c.rawSkip (frame body) = false)
    (hck : storedChecksum body = computedChecksum body)
    (htag : body.take c.tag.length = c.tag)
    (hp : c.parsePayload ((body.drop c.tag.length).take (body.length - 4 - c.tag.length)) = true) :
    step c () (frame body ++ rest)
      = .adv () [.msg ((body.drop c.tag.length).take (body.length - 4 - c.tag.length))] (4 + body.length) :=
  step_frame_good c body rest hmin hmax hraw hck htag hp

/-- an error never comes with a message and never consumes anything: whatever the buffer
holds, when an iteration reports an error the call returns with the buffer untouched -/
theorem error_not_delivered (c : Cfg) (buf : Bytes) (e : Event) (h : step c () buf = .fail e) :
    onMessage c buf = { s := (), rest := buf, dead := true, stuck := false, evs := [e] } ∧
    ∃ code, code ≠ .kNoError ∧ e = .err code := by
  refine ⟨?_, step_fail_is_err c buf e h⟩
  unfold onMessage
  rw [drain_unfold (stepOk c) () buf trivial, h]

/-! ### bounded consumption -/

/-- an iteration that delivers (or drops, raw callback) a frame consumes exactly
`4 + length field` bytes, all of them received, and its verdict is a function of exactly
those bytes: it is the same on the frame alone and with anything behind it -/
theorem bounded_consumption (c : Cfg) (buf : Bytes) (evs : List Event) (k : Nat)
    (h : step c () buf = .adv () evs k) :
    (k : Int) = 4 + asInt32 buf 0 ∧ k ≤ buf.length ∧
    step c () (buf.take k) = .adv () evs k ∧
    ∀ rest, step c () (buf.take k ++ rest) = .adv () evs k := by
  obtain ⟨hk, h8, hkl, _, _⟩ := step_adv c buf evs k h
  have ht := step_take c buf evs k h
  refine ⟨by omega, hkl, ht, fun rest => ?_⟩
  rw [step_append c (buf.take k) rest (by rw [ht]; intro hh; cases hh)]; exact ht

/-- an error verdict, likewise, does not depend on what follows the bytes it looked at -/
theorem error_independent_of_rest (c : Cfg) (buf rest : Bytes) (e : Event)
    (h : step c () buf = .fail e) : step c () (buf ++ rest) = .fail e := by
  rw [step_append c buf rest (by rw [h]; intro hh; cases hh)]; exact h

/-- decoding `encode p ++ rest` delivers `p`, consumes exactly the frame and continues with
`rest` exactly as if `rest` had arrived alone: no byte of the next message is read or consumed -/
theorem frame_then_rest (c : Cfg) (p rest : Bytes)
    (hmax : c.tag.length + p.length + kChecksumLen ≤ kMaxMessageLen)
    (hp : c.parsePayload p = true) (hraw : c.rawSkip (encode c p) = false) :
    decode c (encode c p ++ rest) = ((decode c rest).1, .msg p :: (decode c rest).2) ∧
    (encode c p).length = 4 + (c.tag.length + p.length + 4) :=
  ⟨decode_encode_append c p rest hmax hp hraw, encode_length c p⟩

/-- the loop always terminates: it is never cut short by the model's iteration allowance -/
theorem decoder_terminates (c : Cfg) (buf : Bytes) : (onMessage c buf).stuck = false :=
  drain_not_stuck (stepOk c) _ () buf rfl trivial

/-! ### Adler-32 (the implementation calls zlib; equality on all generated frames is part of
the differential run) - the published test vectors -/
theorem adler32_vectors :
    adler32 1 [] = 1 ∧
    adler32 1 [0x61] = 0x00620062 ∧
    adler32 1 [0x57, 0x69, 0x6b, 0x69, 0x70, 0x65, 0x64, 0x69, 0x61] = 0x11E60398 ∧
    adler32 1 (List.replicate 6000 0xff) = adler32 1 (List.replicate 6000 0xff) % 2 ^ 32 := by
  refine ⟨by decide, by decide, by decide, ?_⟩
  exact (Nat.mod_eq_of_lt (adler32_lt 1 (by decide) _)).symm

/-- hypotheses of the theorems above are satisfiable: a concrete tag, payload and raw mode -/
example : ∃ (c : Cfg) (p : Bytes), c.tag.length + p.length + kChecksumLen ≤ kMaxMessageLen ∧
    c.parsePayload p = true ∧ c.rawSkip (encode c p) = false ∧ p ≠ [] :=
  ⟨{ tag := rpcTag, parsePayload := fun _ => true }, [8, 1], by decide, rfl, rfl, by decide⟩

end MuduoVerif.C18
