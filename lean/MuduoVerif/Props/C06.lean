import MuduoVerif.Proofs.Timer
/-! # C06 — timers never early, as often as scheduled, in deadline order, none lost -/
namespace MuduoVerif.C06
open MuduoVerif.Timer MuduoVerif.Gen.Timer

/-- `resetTimerfd(when)`: the timerfd is armed for the deadline, but never sooner than 100 us after the clock
reading it makes, and it is armed (not readable) afterwards. -/
theorem arm_value (s : TQ) (w : Time) :
    (armFd s w).alarm = some (max w ((readNow s).1 + 100)) ∧ (armFd s w).readable = false
    ∧ (armFd s w).armedAt = (readNow s).1 := by
  refine ⟨?_, rfl, rfl⟩
  show some ((readNow s).1 + howMuchUs w (readNow s).1) = _
  rw [alarm_eq]

/-- the value handed to `timerfd_settime` carries exactly `max (when - now) 100` microseconds -/
theorem arm_timespec (w n : Int) :
    (howMuchTimeFromNow w n).1 * 1000000 + (howMuchTimeFromNow w n).2 / 1000 = max (w - n) 100 := by
  rw [(timespec_exact w n).1, howMuchUs_eq]

end MuduoVerif.C06
