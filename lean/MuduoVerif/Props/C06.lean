import MuduoVerif.Proofs.TimerProps
import MuduoVerif.Proofs.TimerSkelTie
import MuduoVerif.Proofs.LoopSkelTie
/-!
# C06 — timers never early, as often as scheduled, in deadline order, none lost

Property theorems only (lemmas: `Proofs/Timer*.lean`).  Every theorem is about `run ins` for **every** input list `ins`
of the timer-engine model (`Model/Timer.lean`): adds from the loop thread (`In.add .loop`), from timer callbacks
(`In.script` … `Act.add`, nested to any depth), from foreign threads (joined: `In.add .foreign`; split at the hand-over:
`In.addAlloc` / `In.addFinish`), cancels from all three places (incl. self-cancel, same-batch cancel, stale and default
ids), every clock reading (`In.now`) and every allocation address (`In.addr`) chosen by the environment, the timerfd
firing whenever the environment decides (`In.expire`), loop iterations (`In.iter`); unbounded length.

A callback run is recorded in the trace as `Ev.run`; `runRecs` projects the trace to the records
`RunRec = (name, seq, k, addr, rep, first, delta, exp, now)` (newest first): the timer `seq` living at `addr`, created with
the deadline `first`, repeat flag `rep` and interval `delta` (µs), runs for the `k`-th time, queued under the deadline
`exp`, in a batch fired with the clock reading `now`.
-/
namespace MuduoVerif.C06
open MuduoVerif.Timer MuduoVerif.Gen.Timer

/-- `resetTimerfd(when)`: the timerfd is armed for the deadline, but never sooner than 100 us after the clock
reading it makes, and it is armed (not readable) afterwards. -/
theorem arm_value (s : TQ) (w : Time) :
    (armFd s w).alarm = some (max w ((readNow s).1 + 100)) ∧ (armFd s w).readable = false
    ∧ (armFd s w).armedAt = (readNow s).1 := by
  refine ⟨?_, rfl, rfl⟩
  show some ((readNow s).1 + howMuchUs w (readNow s).1) = _
  rw [alarm_eq]

/-- the value handed to `timerfd_settime` carries exactly `max (when - now) 100` microseconds -/
theorem arm_timespec (w n : Int) :
    (howMuchTimeFromNow w n).1 * 1000000 + (howMuchTimeFromNow w n).2 / 1000 = max (w - n) 100 := by
  rw [(timespec_exact w n).1, howMuchUs_eq]

/-- **never_early**: every callback run, in every history, happens in a batch whose clock reading has reached the
deadline the timer was queued under (`exp ≤ now`); that deadline is, for the first run, the one the timer was created
with, and for the k-th run of a repeating timer at least the first deadline plus k-1 intervals. -/
theorem never_early (ins : List In) (name seq k : Nat) (addr : Addr) (rep : Bool) (first : Time) (delta : Int)
    (exp now clock : Time) (h : Ev.run name seq k addr rep first delta exp now clock ∈ (run ins).trace) :
    exp ≤ now ∧ 1 ≤ k ∧ first + ((k : Int) - 1) * delta ≤ exp ∧ (k = 1 → exp = first) := by
  obtain ⟨h1, h2, h3, _, h5⟩ := (run_gh ins).ev_ok _ (mem_runRecs h rfl)
  exact ⟨h2, h1, h3, h5⟩

/-- the deadline a timer is created with: `runAt(t)` → `t`; `runAfter(d)` / `runEvery(d)` → `now + d` with the clock
reading the wrapper makes; the new cell starts with `exp = first`, no restarts -/
theorem created_deadline (s : TQ) (name : Nat) (m : Mode) :
    (∃ s', allocTimer s name m = (none, s')) ∨
    ∃ s1 a c, allocTimer s name m = (some a, allocCell s1 a c) ∧ c.exp = c.first ∧ c.runs = 0 ∧ c.name = name ∧
      c.seq = s1.numCreated + 1 := by
  rcases allocTimer_spec s name m with ⟨s', h, _⟩ | ⟨s1, a, c, _, _, _, h4, h5, h6, h7, h8⟩
  · exact Or.inl ⟨s', h⟩
  · exact Or.inr ⟨s1, a, c, h8, h6, h5, h7, h4⟩

/-- all runs of one timer (one sequence number) carry the same name, address, repeat flag, first deadline and interval -/
theorem same_timer (ins : List In) (r r' : RunRec) (hr : r ∈ runRecs (run ins).trace) (hr' : r' ∈ runRecs (run ins).trace)
    (hs : r.seq = r'.seq) :
    r.name = r'.name ∧ r.addr = r'.addr ∧ r.rep = r'.rep ∧ r.first = r'.first ∧ r.delta = r'.delta :=
  (run_gh ins).r_same r hr r' hr' hs

/-- runs are numbered: the newest run of timer `seq` in any prefix of a history carries the number of runs of `seq` so far -/
theorem numbering (ins : List In) : NumOK (runRecs (run ins).trace) := (run_gh ins).r_num

/-- **once**: a one-shot timer (`runAt` / `runAfter`) runs at most once in any history: if some run of the timer `seq`
is recorded with `rep = false`, it is the only run of `seq` -/
theorem once (ins : List In) (r : RunRec) (hr : r ∈ runRecs (run ins).trace) (hrep : r.rep = false) :
    cnt r.seq (runRecs (run ins).trace) = 1 := by
  have hg := run_gh ins
  have h1 : cnt r.seq (runRecs (run ins).trace) ≤ 1 := by
    refine cnt_le_one_of_k r.seq _ hg.r_num ?_
    intro r' hr' hs
    have hrep' : r'.rep = false := by rw [← (hg.r_same r hr r' hr' hs.symm).2.2.1]; exact hrep
    exact (hg.ev_ok r' hr').2.2.2.1 hrep'
  have h2 := cnt_pos_of_mem r.seq _ hr rfl
  omega

/-- ... and exactly once when it is due in a fired batch: in a state reached by any history, with the timerfd readable,
the next loop iteration runs every timer whose deadline is ≤ the clock reading `handleRead` makes (whatever callbacks
running earlier in the same batch do, including cancelling it), and that run is a new one -/
theorem fires_due (ins : List In) (hr : (run ins).readable = true) (e : Time × Addr) (he : e ∈ (run ins).timers)
    (hle : e.1 ≤ (readNow (run ins)).1) :
    recOf (cellAt (run ins) e.2) e (readNow (run ins)).1 ∈ runRecs (run (ins ++ [.iter])).trace ∧
    recOf (cellAt (run ins) e.2) e (readNow (run ins)).1 ∉ runRecs (run ins).trace := by
  refine ⟨by rw [run_snoc]; exact Timer.fires_due (run_top ins) hr he hle, ?_⟩
  intro hm
  obtain ⟨c, hc, _, _⟩ := (run_top ins).wf.t_live e he
  have h1 := k_le_cnt (run_gh ins).r_num hm
  have h2 := (run_gh ins).r_cnt e.2 c hc
  rw [cellAt_eq hc] at h1
  simp only [recOf, List.not_mem_nil, if_false] at h1 h2
  omega

/-- **batch_order**: a loop iteration runs exactly the timers that are due at the clock reading `handleRead` makes, each
once, in the order of `timers_`, i.e. by (deadline, address); no timer that is due is left out -/
theorem batch_order (ins : List In) :
    runRecs (run (ins ++ [.iter])).trace =
      (if (run ins).readable then
        (((run ins).timers.takeWhile (isExpired (readNow (run ins)).1)).map
          (fun e => recOf (cellAt (run ins) e.2) e (readNow (run ins)).1)).reverse
       else []) ++ runRecs (run ins).trace ∧
    ((run ins).timers.takeWhile (isExpired (readNow (run ins)).1)).Pairwise entryLt ∧
    (∀ e ∈ (run ins).timers.takeWhile (isExpired (readNow (run ins)).1), e ∈ (run ins).timers ∧ e.1 ≤ (readNow (run ins)).1) ∧
    (∀ e ∈ (run ins).timers, e.1 ≤ (readNow (run ins)).1 → e ∈ (run ins).timers.takeWhile (isExpired (readNow (run ins)).1)) := by
  refine ⟨by rw [run_snoc]; exact iter_runs (run_top ins), batch_sorted (run_top ins).wf _, ?_, ?_⟩
  · intro e he
    exact ⟨(List.takeWhile_sublist _).subset he, batch_due _ he⟩
  · intro e he hle
    exact mem_batch_of_due (run_top ins).wf he hle

/-- no step other than a loop iteration runs a callback -/
theorem only_iter_runs (ins : List In) (i : In) (hi : i ≠ .iter) :
    runRecs (run (ins ++ [i])).trace = runRecs (run ins).trace := by
  rw [run_snoc]; exact step_runs _ i hi

/-- **sets_agree**: after every history `timers_` and `activeTimers_` hold the same timers (every entry of one has its
live `Timer` and its counterpart in the other), `timers_` is strictly sorted by (deadline, address) (so: no duplicates),
`activeTimers_` has no duplicates, and both have the same size (the `assert`s of TimerQueue.cc) -/
theorem sets_agree (ins : List In) :
    (∀ e ∈ (run ins).timers, ∃ c, (run ins).heap e.2 = some c ∧ c.exp = e.1 ∧ (e.2, c.seq) ∈ (run ins).active) ∧
    (∀ p ∈ (run ins).active, ∃ c, (run ins).heap p.1 = some c ∧ c.seq = p.2 ∧ (c.exp, p.1) ∈ (run ins).timers) ∧
    (run ins).timers.Pairwise entryLt ∧ (run ins).timers.Nodup ∧ (run ins).active.Nodup ∧
    (run ins).timers.length = (run ins).active.length :=
  have h := (run_top ins).wf
  ⟨h.t_live, h.a_live, h.sorted, h.timers_nodup, h.a_nodup, h.length_eq⟩

/-- ... and also at every point inside an expiry batch (`WFp s B L` with the batch `B`): the invariant is preserved by
every function of the engine, e.g. by a callback's `cancel` -/
theorem sets_agree_in_batch (s : TQ) (B : List (Time × Addr)) (L : List Addr) (h : WFp s B L) (act : Act) :
    WFp (execAct s act) B L ∧ (execAct s act).timers.length = (execAct s act).active.length :=
  ⟨h.execAct act, (h.execAct act).length_eq⟩

/-- **armed**: in every history in which every deadline that was registered or restarted is a valid `Timestamp`
(> 0 µs since the epoch; `ValidTr`), whenever the loop may go back to `poll` with a pending timer, the timerfd is
readable, or armed for a time no later than the earliest pending deadline — or 100 µs after the moment it was armed,
the floor of `howMuchTimeFromNow`.  This holds after any insertion (a new earliest timer, a deadline already in the
past, from inside a callback, from a foreign thread), any expiry batch and any cancellation. -/
theorem armed (ins : List In) (hv : ValidTr (run ins).trace) :
    (∀ e ∈ (run ins).timers, 0 < e.1) ∧
    ((run ins).timers ≠ [] → (run ins).readable = true ∨
      ∃ a, (run ins).alarm = some a ∧ a ≤ max (firstExp (run ins).timers) ((run ins).armedAt + 100)) :=
  ⟨(run_armed ins hv).1, (run_armed ins hv).2 rfl⟩

/-- the excluded branch: when the earliest deadline is not a valid `Timestamp`, `reset()` leaves the timerfd alone -/
theorem armed_excluded_branch (ins : List In) (e : Time × Addr) (r : List (Time × Addr))
    (ht : (run ins).timers = e :: r) (he : e.1 ≤ 0) : rearm (run ins) = run ins :=
  rearm_invalid (run_top ins).wf ht he

/-- ... and then `armed` can fail: a timer with the deadline -5 µs, the clock at -10 µs: after the timerfd fired early
the queue is not re-armed, the timer is pending and never runs (this needs a clock before 1970: with a reading after
1970 a deadline ≤ 0 is already due at every `handleRead`.  What the unchanged code does with `runAt(Timestamp::invalid())`
under a real clock, outside a callback and inside one — `addTimerInLoop` arms the 100 µs floor both times, `reset()`
then leaves the descriptor alone, the timer runs in the next batch — is run on the implementation:
corpus/C06/W4-invalid-deadline.case and the generator's zero / negative deadlines, oracle `disarmed`) -/
theorem armed_needs_valid_deadlines :
    ¬ ∀ ins : List In, (run ins).timers ≠ [] → (run ins).readable = true ∨
      ∃ a, (run ins).alarm = some a ∧ a ≤ max (firstExp (run ins).timers) ((run ins).armedAt + 100) := by
  intro h
  have h1 : (run [.addr 16, .now (-10), .add .loop 1 (.at (-5)), .expire, .now (-10), .iter]).timers ≠ [] := by decide
  have h2 : (run [.addr 16, .now (-10), .add .loop 1 (.at (-5)), .expire, .now (-10), .iter]).readable = false := by decide
  have h3 : (run [.addr 16, .now (-10), .add .loop 1 (.at (-5)), .expire, .now (-10), .iter]).alarm = none := by decide
  rcases h _ h1 with h4 | ⟨a, h4, _⟩
  · rw [h2] at h4; cases h4
  · rw [h3] at h4; cases h4

/-- **eventually_runs**, under `EnvTimerfdFires`: in a state reached by any history with valid deadlines, for any pending
timer `e`: once the clock has reached its deadline (`In.now t`, `e.1 ≤ t`) and the kernel makes the timerfd readable
(`In.expire` — by `armed` the fd is armed or already readable, so this is the environment's only obligation), the next
loop iteration runs it. -/
theorem eventually_runs (ins : List In) (hv : ValidTr (run ins).trace) (hn : (run ins).nows = []) (e : Time × Addr)
    (he : e ∈ (run ins).timers) (t : Time) (hle : e.1 ≤ t) :
    recOf (cellAt (run ins) e.2) e t ∈ runRecs (run (ins ++ [.now t, .expire, .iter])).trace := by
  rw [run_append]
  exact eventually_runs_aux (run_top ins) (run_armed ins) hv hn he hle

/-- the hypotheses of `armed` / `eventually_runs` / `fires_due` are satisfiable by a non-trivial history: a repeating and
a one-shot timer, a callback adding a third one, a foreign add; the repeating timer runs twice, in order -/
example :
    ValidTr (run [.addr 16, .addr 32, .addr 48, .now 1000, .script 1 none (.add 3 (.after 10)), .add .loop 1 (.every 50 true),
      .add .foreign 2 (.at 1020), .iter, .expire, .now 1060, .now 1061, .now 1061, .iter, .expire, .now 1200, .iter]).trace ∧
    (runRecs (run [.addr 16, .addr 32, .addr 48, .now 1000, .script 1 none (.add 3 (.after 10)), .add .loop 1 (.every 50 true),
      .add .foreign 2 (.at 1020), .iter, .expire, .now 1060, .now 1061, .now 1061, .iter, .expire, .now 1200, .iter]).trace).map
        (fun r => (r.seq, r.k, r.exp, r.now)) = [(1, 2, 1110, 1200), (3, 1, 1071, 1200), (1, 1, 1050, 1060), (2, 1, 1020, 1060)] := by
  constructor <;> decide

/-- T1, statement order: in every function of `TimerQueue.cc` / `Timer.cc` the model implements the source performs
the same significant actions - clock readings, system calls, `new Timer` / `delete`, dereferences of a `Timer*`, set
operations, hand-offs to the loop, calls inside the engine, stores, `return` - in the same order and under the same
nesting of the generated guards and loops as `Model/Timer.lean` (`Model/TimerSkelDecl.lean`); re-extracted from /repo on
every run (`Generated/TimerSkel.lean`), proved in `Proofs/TimerSkelTie.lean` -/
theorem statement_order_tied :
    Gen.TimerSkel.howMuchTimeFromNow = TimerSkel.Decl.howMuchTimeFromNow ∧
    Gen.TimerSkel.readTimerfd = TimerSkel.Decl.readTimerfd ∧
    Gen.TimerSkel.resetTimerfd = TimerSkel.Decl.resetTimerfd ∧
    Gen.TimerSkel.addTimer = TimerSkel.Decl.addTimer ∧
    Gen.TimerSkel.cancel = TimerSkel.Decl.cancel ∧
    Gen.TimerSkel.addTimerInLoop = TimerSkel.Decl.addTimerInLoop ∧
    Gen.TimerSkel.cancelInLoop = TimerSkel.Decl.cancelInLoop ∧
    Gen.TimerSkel.handleRead = TimerSkel.Decl.handleRead ∧
    Gen.TimerSkel.getExpired = TimerSkel.Decl.getExpired ∧
    Gen.TimerSkel.reset = TimerSkel.Decl.reset ∧
    Gen.TimerSkel.insert = TimerSkel.Decl.insert ∧
    Gen.TimerSkel.restart = TimerSkel.Decl.restart :=
  TimerSkel.skeletons_agree

/-- **addTime_exact_in_range**: the deadline arithmetic of `runAfter` / `runEvery` / `Timer::restart` has no spurious
wrap-around anywhere in the supported range.  `addTime` is the definition the model uses, translated from `addTime()` of
muduo/base/Timestamp.h with the C type of every intermediate value: a 32-bit intermediate (`int * int`, `static_cast<int>`)
is wrapped at 2^31, 64-bit ones are exact; `addTimeW` is the same text with every 64-bit operation and the
double → `int64_t` conversion wrapped at 2^63 as well (the machine's arithmetic).  For every timestamp `t` and every delay
of `d` microseconds (negative ones included) such that `d` and `t + d` are representable as `int64_t` microseconds, both
are exactly `t + d`.  Trusted, not proved: the `double seconds` handed to `addTime` is the rational `d / 10^6` and the
double operations on it (`seconds * kMicroSecondsPerSecond`, truncation) give the exact rational results — the harness
refuses delays for which the double product is not the integer (`inexact-interval`). -/
theorem addTime_exact_in_range (t d : Int) (hd1 : -9223372036854775808 ≤ d) (hd2 : d < 9223372036854775808)
    (h1 : -9223372036854775808 ≤ t + d) (h2 : t + d < 9223372036854775808) :
    addTime t d = t + d ∧ addTimeW t d = t + d :=
  ⟨addTime_eq t d, addTimeW_eq t d hd1 hd2 h1 h2⟩

/-- ... so the deadline a timer is created with is the clock reading the wrapper makes plus the delay, and a repeating
timer is restarted at the batch's reading plus its interval, for delays and intervals of any size (2147 s, an hour, ten
years): with `never_early` (`first + (k-1)·delta ≤ exp ≤ now`) the k-th run of `runEvery(d)` is no earlier than the
reading at registration plus `k·d` -/
theorem delay_deadline (s : TQ) (d : Int) (pos : Bool) (now : Time) :
    (deadlineOf s (.after d)).1.1 = (readNow s).1 + d ∧ (deadlineOf s (.every d pos)).1.1 = (readNow s).1 + d ∧
    (deadlineOf s (.every d pos)).1.2.2 = d ∧ restart true now d = now + d :=
  ⟨addTime_eq _ _, addTime_eq _ _, rfl, restart_repeating now d⟩

/-- **arm_exact_in_range**: the `timespec` handed to `timerfd_settime` is computed without wrap-around for every deadline
and clock reading whose difference is representable as `int64_t` microseconds (deadlines after 2038, 2106, 2262 …;
`tv_sec` and `tv_nsec` are 64 bits wide in this build, checked by T1): the machine variant (64-bit operations wrapped)
equals the definition the model uses, which carries exactly `max (when - now) 100` microseconds (`arm_timespec`). -/
theorem arm_exact_in_range (w n : Int) (h1 : -9223372036854775808 ≤ w - n) (h2 : w - n < 9223372036854775808) :
    howMuchUsW w n = howMuchUs w n ∧ howMuchTimeFromNowW w n = howMuchTimeFromNow w n :=
  howMuchW_eq w n h1 h2

/-- **timer_api_statement_order_tied** (T1, the API wrappers in front of the timer queue).  `EventLoop::runAt`, `runAfter`,
`runEvery` and `cancel` of /repo's current `EventLoop.cc` have the statement skeleton `Timer.deadlineOf` assumes
(`Model/LoopSkelDecl.lean`; re-extracted on every run by `vlib/gen/loopskel.py`, proved equal in
`Proofs/LoopSkelTie.lean`): (f) `runAt` hands its deadline and the interval `0.0` to `timerQueue_->addTimer`; `runAfter`
computes the deadline `addTime(Timestamp::now(), delay)` - one reading of the clock - and goes through `runAt`;
`runEvery` computes `addTime(Timestamp::now(), interval)` (the first run is one interval from now) BEFORE it hands that
deadline and the interval itself to `addTimer`; `cancel` forwards the id to `timerQueue_->cancel`; each returns what its
callee returned, and does nothing else. -/
theorem timer_api_statement_order_tied :
    (Gen.LoopSkel.runAt = LoopSkel.Decl.runAt ∧
     Gen.LoopSkel.runAfter = LoopSkel.Decl.runAfter ∧
     Gen.LoopSkel.runEvery = LoopSkel.Decl.runEvery ∧
     Gen.LoopSkel.cancel = LoopSkel.Decl.cancel) ∧
    LoopSkel.flat Gen.LoopSkel.runAt = [.call "timerQueue_.addTimer" "cb, time, 0", .ret "<result>"] ∧
    LoopSkel.flat Gen.LoopSkel.runAfter =
      [.assign "time" "addTime(Timestamp::now(), delay)", .call "runAt" "time, cb", .ret "<result>"] ∧
    LoopSkel.flat Gen.LoopSkel.runEvery =
      [.assign "time" "addTime(Timestamp::now(), interval)", .call "timerQueue_.addTimer" "cb, time, interval",
       .ret "<result>"] ∧
    LoopSkel.before (.assign "time" "addTime(Timestamp::now(), interval)")
      (.call "timerQueue_.addTimer" "cb, time, interval") (LoopSkel.flat Gen.LoopSkel.runEvery) = true ∧
    LoopSkel.flat Gen.LoopSkel.cancel = [.call "timerQueue_.cancel" "timerId", .ret "<result>"] :=
  ⟨⟨LoopSkel.skeleton_runAt, LoopSkel.skeleton_runAfter, LoopSkel.skeleton_runEvery, LoopSkel.skeleton_cancel⟩,
   LoopSkel.timer_forwarders⟩

end MuduoVerif.C06
