import MuduoVerif.Proofs.MonitorQueue
import MuduoVerif.Proofs.MonitorLatch
import MuduoVerif.Proofs.ThreadSkelTie
/-!
# C14 — blocking queues and latch: FIFO, bounded, nothing lost, nobody left waiting

All statements are about every state reachable in the transition systems of `Model/Monitor.lean`
(`qstep`, `lstep`): any number of threads, any programs, any capacity, every interleaving of lock
acquisitions, critical sections and spurious wake-ups, every choice `notify` makes among the waiters.
The systems interpret the statement skeletons and guards extracted from /repo (`Generated/Monitor.lean`);
`Proofs/MonitorTie.lean` pins them to the skeleton the proofs are about.
-/
namespace MuduoVerif.C14
open MuduoVerif.Monitor

variable {cap : Option Nat} {prog : Nat → List QOp} {sched : List Nat} {s : QState}

/-- FIFO: what `take`/`drain` returned so far (in mutex order), followed by what is still queued, is
exactly what was `put` (in mutex order) — every element is returned at most once, nothing is invented,
nothing overtakes, and what has not been returned yet is still in the queue. -/
theorem fifo (hr : QReach (qinit cap prog sched) s) : taken s.log ++ s.q = puts s.log :=
  (qinv_reach (qinv_init cap prog sched) hr).fifo

/-- the elements of one producer come out in that producer's order: per producer, the returned
elements are a prefix of the elements it put -/
theorem fifo_per_producer (hr : QReach (qinit cap prog sched) s) (p : Nat) :
    (taken s.log).filter (fun x => x.1 = p) <+: (puts s.log).filter (fun x => x.1 = p) := by
  rw [← fifo hr, List.filter_append]
  exact List.prefix_append _ _

/-- … and the producer's order is its program order: the operations a thread has completed, followed
by those it has not, are its program -/
theorem program_order (hr : QReach (qinit cap prog sched) s) (p : Nat) : opsOf p s.log ++ s.prog p = prog p :=
  qreach_hist hr rfl p

/-- a bounded queue never holds more than its capacity -/
theorem bounded (hr : QReach (qinit cap prog sched) s) (c : Nat) (hc : cap = some c) : s.q.length ≤ c := by
  refine (qinv_reach (qinv_init cap prog sched) hr).bnd c ?_
  rw [qreach_cap hr]; exact hc

/-- no wake-up is lost on `notEmpty_`: while somebody waits unsignalled there are at least as many
signalled consumers on their way as there are elements -/
theorem no_lost_signal_notEmpty (hr : QReach (qinit cap prog sched) s) (hW : s.ne.W ≠ []) :
    s.q.length ≤ s.ne.S.length :=
  (qinv_reach (qinv_init cap prog sched) hr).sigE hW

/-- no wake-up is lost on `notFull_` -/
theorem no_lost_signal_notFull (hr : QReach (qinit cap prog sched) s) (c : Nat) (hc : cap = some c)
    (hW : s.nf.W ≠ []) : c - s.q.length ≤ s.nf.S.length := by
  refine (qinv_reach (qinv_init cap prog sched) hr).sigF c ?_ hW
  rw [qreach_cap hr]; exact hc

/-- who is inside `wait()` on `notEmpty_` is in `take`, who is inside `wait()` on `notFull_` is in `put` -/
theorem parked_where (hr : QReach (qinit cap prog sched) s) (t : Nat) :
    ((t ∈ s.ne.W ∨ t ∈ s.ne.S) → ∃ rest, s.prog t = .take :: rest) ∧
    ((t ∈ s.nf.W ∨ t ∈ s.nf.S) → ∃ v rest, s.prog t = .put v :: rest) :=
  let h := qinv_reach (qinv_init cap prog sched) hr
  ⟨h.st.role .notEmpty t, h.st.role .notFull t⟩

/-- nobody is left waiting while its condition holds: in every reachable state in which no thread can
take a step, every thread that is not finished is parked, unsignalled, in `take` facing an empty queue
or in `put` facing a full one -/
theorem nobody_stuck (hr : QReach (qinit cap prog sched) s) (hb : QBlocked s) (t : Nat) (ht : s.prog t ≠ []) :
    (t ∈ s.ne.W ∧ (∃ rest, s.prog t = .take :: rest) ∧ s.q = []) ∨
    (t ∈ s.nf.W ∧ (∃ v rest, s.prog t = .put v :: rest) ∧ ∃ c, cap = some c ∧ s.q.length = c) := by
  have h := qinv_reach (qinv_init cap prog sched) hr
  obtain ⟨hown, hE, hF⟩ := q_blocked_facts h hb
  have hacq := (hb t).1
  simp only [qstep] at hacq
  have hW : t ∈ s.ne.W ∨ t ∈ s.nf.W := by
    by_cases h1 : t ∈ s.ne.W
    · exact Or.inl h1
    · by_cases h2 : t ∈ s.nf.W
      · exact Or.inr h2
      · rw [if_pos ⟨hown, ht, h1, h2⟩] at hacq; cases hacq
  rcases hW with hW | hW
  · left
    refine ⟨hW, h.st.role .notEmpty t (Or.inl hW), ?_⟩
    have := h.sigE (by intro h0; rw [h0] at hW; cases hW)
    rw [hE] at this
    exact List.eq_nil_of_length_eq_zero (by simpa using this)
  · right
    refine ⟨hW, h.st.role .notFull t (Or.inl hW), ?_⟩
    have hne : s.nf.W ≠ [] := by intro h0; rw [h0] at hW; cases hW
    cases hc : s.cap with
    | none => exact absurd (h.unb hc).1 hne
    | some c =>
      refine ⟨c, (qreach_cap hr).symm.trans hc, ?_⟩
      have h1 := h.sigF c hc hne
      have h2 := h.bnd c hc
      rw [hF] at h1
      simp only [List.length_nil] at h1
      omega

variable {n : Int} {lprog : Nat → List LOp} {ls : LState}

/-- latch: once the count has reached zero every thread inside `wait()` has been signalled — one
`countDown` releases all waiters -/
theorem latch_releases_all (hr : LReach (linit n lprog sched) ls) (h0 : ls.count ≤ 0) : ls.ne.W = [] :=
  (linv_reach (linv_init n lprog sched) hr).released h0

/-- latch: in a reachable state in which no thread can take a step, every unfinished thread is parked
in `wait()` and the count is still positive -/
theorem latch_nobody_stuck (hr : LReach (linit n lprog sched) ls) (hb : LBlocked ls) (t : Nat) (ht : ls.prog t ≠ []) :
    t ∈ ls.ne.W ∧ (∃ rest, ls.prog t = .wait :: rest) ∧ 0 < ls.count := by
  have h := linv_reach (linv_init n lprog sched) hr
  obtain ⟨hown, _⟩ := l_blocked_facts h hb
  have hacq := (hb t).1
  simp only [lstep] at hacq
  have hF : t ∉ ls.nf.W := fun hx => h.st.role .notFull t (Or.inl hx)
  have hW : t ∈ ls.ne.W := by
    by_cases h1 : t ∈ ls.ne.W
    · exact h1
    · rw [if_pos ⟨hown, ht, h1, hF⟩] at hacq; cases hacq
  refine ⟨hW, h.st.role .notEmpty t (Or.inl hW), ?_⟩
  by_cases hc : 0 < ls.count
  · exact hc
  · have := h.released (by omega)
    rw [this] at hW; cases hW

/-! ### the hypotheses are satisfiable -/

/-- capacity 1, a consumer that arrives first and waits, two puts of one producer: both come out, in order -/
example : ∃ s, QReach (qinit (some 1) demoProg []) s ∧ taken s.log = [(1, 5), (1, 6)] ∧ s.q = [] := by
  have h : ((runQ (qinit (some 1) demoProg []) demoActs).map fun s => (taken s.log, s.q)) = some ([(1, 5), (1, 6)], []) := by
    decide +kernel
  cases hr : runQ (qinit (some 1) demoProg []) demoActs with
  | none => rw [hr] at h; cases h
  | some s =>
    rw [hr] at h
    simp only [Option.map_some, Option.some.injEq, Prod.mk.injEq] at h
    exact ⟨s, runQ_reach hr, h.1, h.2⟩

/-- a lone consumer: a reachable state in which nobody can move (the hypotheses of `nobody_stuck`) -/
example : QReach (qinit none loneProg []) loneParked ∧ QBlocked loneParked ∧ loneParked.prog 1 ≠ [] := by
  refine ⟨?_, ?_, by decide⟩
  · refine .step (.body 1) (.step (.acq 1) .refl (s' := { qinit none loneProg [] with owner := some 1 }) rfl) ?_
    rfl
  · intro t
    refine ⟨?_, rfl⟩
    simp only [qstep]
    rw [if_neg]
    rintro ⟨_, hp, h1, _⟩
    by_cases ht : t = 1
    · subst ht; exact h1 (by decide)
    · exact hp (by simp [loneParked, loneProg, ht])

/-- two waiters, one `countDown` on a latch of 1: both are signalled -/
example : ∃ ls, LReach (linit 1 latchProg []) ls ∧ ls.count ≤ 0 ∧ ls.ne.S = [1, 2] ∧ ls.ne.W = [] := by
  have h : ((runL (linit 1 latchProg []) [.acq 1, .body 1, .acq 2, .body 2, .acq 3, .body 3]).map
      fun s => (s.count, s.ne.S, s.ne.W)) = some (0, [1, 2], []) := by decide +kernel
  cases hr : runL (linit 1 latchProg []) [.acq 1, .body 1, .acq 2, .body 2, .acq 3, .body 3] with
  | none => rw [hr] at h; cases h
  | some s =>
    rw [hr] at h
    simp only [Option.map_some, Option.some.injEq, Prod.mk.injEq] at h
    exact ⟨s, runL_reach hr, by rw [h.1]; decide, h.2.1, h.2.2⟩

end MuduoVerif.C14

namespace MuduoVerif.C14

/-! ## the primitives the monitors are built from (`Mutex.h`, `Condition.h`, `Condition.cc`, `CountDownLatch.cc`) -/

/-- **primitives_tied**: the atomic steps of `Model/Monitor.lean` - `acq` / end of the guard's scope, `Mon.parkOn` +
`Mon.enter` ("wait releases the mutex and parks; re-acquires before returning"), `WS.one`, `WS.all`, the latch
operations - are what muduo's wrappers ask pthread for: the statement skeletons of `MutexLock` (constructor,
destructor with its `holder_ == 0` assertion, `lock` = `pthread_mutex_lock` THEN the holder, `unlock` = the holder THEN
`pthread_mutex_unlock`, `UnassignGuard`, `MutexLockGuard`), of `Condition` (`wait` = clear the holder;
`pthread_cond_wait` on this condition and that mutex; assign the holder - `notify` = `pthread_cond_signal`,
`notifyAll` = `pthread_cond_broadcast`, unconditionally - `waitForSeconds`) and of `CountDownLatch` (constructor,
`wait`, `countDown`, `getCount`), re-extracted from /repo on every run (`Generated/ThreadSkel.lean`), are the declared
ones (`Model/ThreadSkelDecl.lean`).  The semantics of the `pthread_*` functions themselves stays trusted. -/
theorem primitives_tied :
    (Gen.ThreadSkel.mutexCtor = ThreadSkel.Decl.mutexCtor ∧
     Gen.ThreadSkel.mutexDtor = ThreadSkel.Decl.mutexDtor ∧
     Gen.ThreadSkel.isLockedByThisThread = ThreadSkel.Decl.isLockedByThisThread ∧
     Gen.ThreadSkel.assertLocked = ThreadSkel.Decl.assertLocked ∧
     Gen.ThreadSkel.mutexLock = ThreadSkel.Decl.mutexLock ∧
     Gen.ThreadSkel.mutexUnlock = ThreadSkel.Decl.mutexUnlock ∧
     Gen.ThreadSkel.unassignHolder = ThreadSkel.Decl.unassignHolder ∧
     Gen.ThreadSkel.assignHolder = ThreadSkel.Decl.assignHolder ∧
     Gen.ThreadSkel.unassignGuardCtor = ThreadSkel.Decl.unassignGuardCtor ∧
     Gen.ThreadSkel.unassignGuardDtor = ThreadSkel.Decl.unassignGuardDtor ∧
     Gen.ThreadSkel.lockGuardCtor = ThreadSkel.Decl.lockGuardCtor ∧
     Gen.ThreadSkel.lockGuardDtor = ThreadSkel.Decl.lockGuardDtor) ∧
    (Gen.ThreadSkel.condCtor = ThreadSkel.Decl.condCtor ∧
     Gen.ThreadSkel.condDtor = ThreadSkel.Decl.condDtor ∧
     Gen.ThreadSkel.condWait = ThreadSkel.Decl.condWait ∧
     Gen.ThreadSkel.condNotify = ThreadSkel.Decl.condNotify ∧
     Gen.ThreadSkel.condNotifyAll = ThreadSkel.Decl.condNotifyAll ∧
     Gen.ThreadSkel.condWaitForSeconds = ThreadSkel.Decl.condWaitForSeconds) ∧
    (Gen.ThreadSkel.latchCtor = ThreadSkel.Decl.latchCtor ∧
     Gen.ThreadSkel.latchWait = ThreadSkel.Decl.latchWait ∧
     Gen.ThreadSkel.latchCountDown = ThreadSkel.Decl.latchCountDown ∧
     Gen.ThreadSkel.latchGetCount = ThreadSkel.Decl.latchGetCount) :=
  ⟨ThreadSkel.skeletons_agree.1, ThreadSkel.skeletons_agree.2.1, ThreadSkel.skeletons_agree.2.2.1⟩

/-- **timed_wait_deadline_valid**: the absolute deadline `Condition::waitForSeconds` hands to `pthread_cond_timedwait`
(`Gen.ThreadSkel.waitForSecondsDeadline`: the two assignments of the function, translated; `ns` is
`static_cast<int64_t>(seconds * kNanoSecondsPerSecond)`) is, for every valid clock reading (`0 ≤ tv_nsec < 10^9`) and
every wait `ns ≥ 0`, a valid `timespec` (`0 ≤ tv_nsec < 10^9`) that is exactly `ns` nanoseconds after the reading: no
time is lost in the split into seconds and nanoseconds, the carry goes into `tv_sec`.  The hypothesis `ns ≥ 0` is not
checked by the code and is needed: `ThreadSkel.deadline_invalid_of_negative`. -/
theorem timed_wait_deadline_valid (now : Gen.ThreadSkel.Timespec) (ns : Int)
    (h0 : 0 ≤ now.tv_nsec) (h1 : now.tv_nsec < 1000000000) (hns : 0 ≤ ns) :
    0 ≤ (Gen.ThreadSkel.waitForSecondsDeadline now ns).tv_nsec ∧
    (Gen.ThreadSkel.waitForSecondsDeadline now ns).tv_nsec < 1000000000 ∧
    (Gen.ThreadSkel.waitForSecondsDeadline now ns).tv_sec * 1000000000 +
        (Gen.ThreadSkel.waitForSecondsDeadline now ns).tv_nsec =
      now.tv_sec * 1000000000 + now.tv_nsec + ns :=
  ThreadSkel.deadline_valid now ns h0 h1 hns

/-- the hypotheses are satisfiable and the carry is real: 0.7 s past the second plus a wait of 2.5 s is 0.2 s past the
third second after it -/
example : Gen.ThreadSkel.waitForSecondsDeadline ⟨100, 700000000⟩ 2500000000 = ⟨103, 200000000⟩ := by decide

end MuduoVerif.C14
