import MuduoVerif.Proofs.RaceExamples
import MuduoVerif.Proofs.OwnerSkelTie
/-!
# C08 — the thread-safe API is free of data races; the loop-confined API fails fast off-thread

Property theorems only.  Structure of the argument:

* `lockset_sound` — once, for all traces: an execution in which every access is initialising or
  obeys the discipline of its location (immutable / atomic / guarded by m / confined to a thread)
  has no data race (conflicting accesses of different threads are ordered by happens-before);
* `table_ok`, `fields_ok`, `confined_guarded`, `lists_covered` — per run, by `decide` over the
  table that T1 regenerates from /repo's clang AST: every member access of every cross-thread
  operation (and of what it calls on `this`), of every loop-confined operation and loop callback
  of the same classes obeys the hand-written policy of `Model/Race.lean` in its syntactic context
  (locks in scope, dominating owner-thread checks, atomic operations); member declarations and
  `GUARDED_BY` annotations agree with the policy; every confined operation starts with the
  owner-thread assertion of its own loop; the property's lists are all present;
* `policy_fields_exist`, `annotations_agree` — the hand-written policy (`Model/Race.lean`
  `policies`: one line per member, justified there) has no stale entry and agrees with the code's
  own `GUARDED_BY` annotations;
* `row_event_discipline`, `table_race_free` — the bridge: an execution whose access events are
  instances of table rows with *truthful* contexts respects the discipline, hence is race-free.
  What "truthful" means is spelled out as the hypotheses `hlocks`, `hctx`, `hown`, `hpre` of
  `row_event_discipline` (the conjuncts of `InstanceOfTable`);
* `ts_ops_do_not_assert` — no thread-safe operation is loop-confined in disguise;
* `assert_aborts` — model of `assertInLoopThread()`: on a foreign thread a confined operation
  produces (at most debug-only reads and) an `abort` event and nothing of its body.

What this does **not** cover is listed in `vlib/props/c08.py` (trusted base): the policy is
hand-written; the extractor sees accesses to members of `this` only (no aliasing, nothing inside
the standard library or user callbacks); memory orderings weaker than the lock discipline.
-/
namespace MuduoVerif.C08
open MuduoVerif.Race MuduoVerif.Gen.Race

/-- **lockset soundness**: for every trace with mutual exclusion of mutexes and every assignment
of disciplines to locations, if every access is initialising (happens-before every access of the
location by other threads) or obeys its location's discipline — guarded ⇒ the thread holds the
mutex at that event; confined ⇒ the thread is the owner; atomic ⇒ the event is atomic;
immutable ⇒ the event is a read; unused ⇒ there is no such access — then any two conflicting
accesses of different threads to one location are ordered by happens-before. -/
theorem lockset_sound (tr : Trace) (pol : Loc → Disc) (wf : WellFormed tr)
    (h : Respects tr pol) : RaceFree tr :=
  respects_raceFree wf h

/-- the per-run obligation: every row of the generated access table respects the policy -/
theorem table_ok : rows.all rowOk = true := by decide +kernel

/-- every member of every analysed class has a policy that fits its declaration (atomic ⇒
`std::atomic`/`AtomicIntegerT`; immutable ⇒ written by set-up methods only; guarded m ⇒ m is a
`MutexLock` member; sync ⇒ mutex/condition/latch) and agrees with its `GUARDED_BY` annotation -/
theorem fields_ok : fields.all fieldOk = true := by decide +kernel

/-- every loop-confined operation has the owner-thread assertion of its class's own loop as an
unconditional top-level statement; (with `table_ok`) nothing but debug-only `assert` reads and
accesses that need no confinement precede it; and the operations the property names are there -/
theorem confined_guarded :
    confinedOps.all confinedOk = true ∧ roots.all confinedListed = true ∧
    requiredConfined.all (fun (c, f) => confinedOps.any (fun o => o.cls == c && o.fn == f)) = true := by
  decide +kernel

/-- the cross-thread operations the property names are roots of the table, and every function
the policy declares callable from any thread is itself analysed (thread-safe or fail-fast root) -/
theorem lists_covered :
    requiredRoots.all rootPresent = true ∧ safeCallees.all calleeCovered = true := by
  decide +kernel

/-- no operation of the thread-safe lists reaches an owner-thread assertion unconditionally (directly
or through a method of its class called unconditionally at top level): none of them is loop-confined
in disguise, i.e. none aborts when called from a foreign thread.  (`TcpServer::start` reaches
`EventLoopThreadPool::start` only under its once-only test: its *first* call is loop-thread only,
which the plug-in states as an assumption and observes with an abort child.) -/
theorem ts_ops_do_not_assert : tsAsserting.isEmpty = true := by decide

/-- **one row, one event**: an event that is an instance of a (non-exempt, non-synchronisation)
row of the generated table, in a context that is *truthful*, obeys the trace-level discipline of its
member.  Truthful means, spelled out as hypotheses:
* `hlocks` — the thread holds every mutex whose `MutexLockGuard` the row has in scope;
* `hctx` — a dominating `assertInLoopThread()` / `isInLoopThread()` test of the class's own loop (or
  a loop callback: channel, timer, queued functor) means the thread is the owner;
* `hown` — the single-owner API is called by the owner;
* `hpre` — a debug-only read inside `assert(...)` *ahead of* the owner assertion of a loop-confined
  operation (`assert(!looping_)` in `loop()`, `assert(!started_)` in `EventLoopThreadPool::start`)
  is covered for calls made on the owner thread only.  On a foreign thread that read is followed by
  `abort` and by nothing else (`assert_aborts`); it is outside this theorem and named in the
  plug-in's `level_note`. -/
theorem row_event_discipline (r : Row) (hr : r ∈ rows) (cp : ClassPolicy) (p : Policy)
    (hcp : policyOfClass r.cls = some cp) (hp : lookup r.field cp.fields = some p)
    (hex : (r.rootKind == .other && (cp.setup.contains r.fn || cp.notThreadSafe.contains r.fn)) = false)
    (hthis : (r.field == "(this)") = false) (hsync : p ≠ .sync)
    (tr : Trace) (i : Nat) (t : Tid) (e : Ev) (mtx : String → Mtx) (owner : Tid)
    (hk : kindMatches r.kind e)
    (hlocks : ∀ m, r.locks.contains m = true → Holds tr t (mtx m) i)
    (hctx : (r.inLoop.any cp.ownerChecks.contains || r.rootKind == .handler) = true → t = owner)
    (hown : r.rootKind = .owner → t = owner)
    (hpre : r.inAssert = true → r.rootKind = .confined → t = owner) :
    DiscOk tr (p.disc mtx owner) i t e := by
  have hrow : rowOk r = true := List.all_eq_true.mp table_ok r hr
  unfold rowOk at hrow
  rw [hcp] at hrow
  simp only [hex, hthis, hp, Bool.false_eq_true, if_false, Bool.and_eq_true] at hrow
  refine selfOk_discOk mtx owner hk hsync hlocks hctx (fun h => hown (by simpa using h)) ?_ hrow.1
  intro h
  simp only [Bool.and_eq_true, beq_iff_eq] at h
  exact hpre h.1.1.1 h.1.2

/-- an access event of a trace is an instance of a table row with a truthful context -/
def InstanceOfTable (tr : Trace) (pol : Loc → Disc) (i : Nat) (t : Tid) (e : Ev) (x : Loc) : Prop :=
  ∃ r ∈ rows, ∃ cp p mtx owner,
    policyOfClass r.cls = some cp ∧ lookup r.field cp.fields = some p ∧
    (r.rootKind == .other && (cp.setup.contains r.fn || cp.notThreadSafe.contains r.fn)) = false ∧
    (r.field == "(this)") = false ∧ p ≠ .sync ∧
    pol x = p.disc mtx owner ∧ kindMatches r.kind e ∧
    (∀ m, r.locks.contains m = true → Holds tr t (mtx m) i) ∧
    ((r.inLoop.any cp.ownerChecks.contains || r.rootKind == .handler) = true → t = owner) ∧
    (r.rootKind = .owner → t = owner) ∧ (r.inAssert = true → r.rootKind = .confined → t = owner)

/-- **the table discipline gives race freedom**: in every execution with mutual exclusion in
which each access is initialising or an instance of a row of the generated table with a truthful
context, conflicting accesses of different threads are ordered by happens-before. -/
theorem table_race_free (tr : Trace) (pol : Loc → Disc) (wf : WellFormed tr)
    (h : ∀ i t e x, Access tr i t e x → Initial tr i t x ∨ InstanceOfTable tr pol i t e x) :
    RaceFree tr := by
  apply lockset_sound tr pol wf
  intro i t e x ha
  rcases h i t e x ha with hi | ⟨r, hr, cp, p, mtx, owner, h1, h2, h3, h4, h5, h6, h7, h8, h9, h10, h11⟩
  · exact Or.inl hi
  · right
    rw [h6]
    exact row_event_discipline r hr cp p h1 h2 h3 h4 h5 tr i t e mtx owner h7 h8 h9 h10 h11

/-- **the owner-thread assertion aborts**: a loop-confined operation of the guarded shape —
debug-only reads, `assertInLoopThread()`, body — executed by a thread other than the loop's owner
yields exactly those reads and an `abort` event: no write and no event of the body occurs; on
the owner thread the assertion is transparent. -/
theorem assert_aborts (o t : Tid) (pre : List Ev) (body : List Act) (hpre : ∀ e ∈ pre, e.isWrite = false) :
    (t ≠ o →
      runOp o t (pre.map Act.access ++ Act.assertOwner :: body) = pre.map (fun e => ⟨t, e⟩) ++ [⟨t, .abort⟩] ∧
      ∀ ev ∈ runOp o t (pre.map Act.access ++ Act.assertOwner :: body), ev.ev.isWrite = false) ∧
    runOp o o (pre.map Act.access ++ Act.assertOwner :: body) = pre.map (fun e => ⟨o, e⟩) ++ runOp o o body := by
  refine ⟨fun hne => ?_, runOp_owner o pre body⟩
  rw [runOp_foreign o t pre body hne]
  refine ⟨rfl, ?_⟩
  intro ev hev
  rcases List.mem_append.mp hev with h | h
  · obtain ⟨e, he, rfl⟩ := List.mem_map.mp h
    exact hpre e he
  · simp only [List.mem_singleton] at h
    subst h
    rfl

/-- every mutex the policy names is a `MutexLock` member and every `GUARDED_BY` annotation of the
code names the same mutex as the policy (part of `fields_ok`, singled out) -/
theorem annotations_agree :
    (fields.filter (fun f => f.guardedBy != "")).all
      (fun f => match policyOfClass f.cls with
        | none => false
        | some cp => match lookup f.name cp.fields with
          | some (.guarded m) => m == f.guardedBy
          | some .sync => f.tc == .cond
          | _ => false) = true := by
  decide +kernel


/-- the policy has no stale entries: every member it names is a declared member of an analysed
class (so a renamed or removed member cannot keep a policy nobody checks), and every class of the
table has exactly the policy entry `policyOfClass` finds -/
theorem policy_fields_exist :
    policies.all (fun cp => cp.fields.all (fun (f, _) =>
      fields.any (fun g => g.cls == cp.cls && g.name == f))) = true ∧
    policies.all (fun cp => (policies.filter (fun cq => cq.cls == cp.cls)).length == 1) = true := by
  decide +kernel

/-! ### non-vacuity -/

/-- a disciplined two-thread execution (constructor write published by `fork`, a member under a
mutex, an atomic member, a confined member) satisfies the hypotheses of `lockset_sound` -/
example : WellFormed goodTrace ∧ Respects goodTrace goodPol ∧ RaceFree goodTrace :=
  ⟨goodTrace_wf, goodTrace_respects, lockset_sound _ _ goodTrace_wf goodTrace_respects⟩

/-- a racy execution (second thread writes without the lock) is well-formed, is rejected by the
discipline, and does have a data race -/
example : WellFormed racyTrace ∧ ¬ Respects racyTrace goodPol ∧ ¬ RaceFree racyTrace :=
  ⟨racyTrace_wf, racyTrace_rejected, racyTrace_races⟩

/-- the table is not trivially accepted: the pre-fix shape of `TcpConnection::send` (a plain read
of `state_` on a foreign thread) is rejected by the same check -/
example : rowOk {
    cls := "TcpConnection", root := "send", rootKind := .ts, fn := "send",
    file := "TcpConnection.cc", line := 94, field := "state_", kind := .rd, callee := "",
    locks := [], inLoop := [], inAssert := false } = false := by decide +kernel

/-- … and so is an unlocked read of `pendingFunctors_` or an owner-less touch of `connections_` -/
example : rowOk {
    cls := "EventLoop", root := "queueSize", rootKind := .ts, fn := "queueSize",
    file := "EventLoop.cc", line := 191, field := "pendingFunctors_", kind := .rd, callee := "",
    locks := [], inLoop := [], inAssert := false } = false
  ∧ rowOk {
    cls := "TcpServer", root := "start", rootKind := .ts, fn := "start",
    file := "TcpServer.cc", line := 62, field := "connections_", kind := .rd, callee := "",
    locks := [], inLoop := [], inAssert := false } = false := by decide +kernel

/-- the guarded shape is what the generated confined operations have: e.g. `EventLoop::loop`
reads `looping_` in `assert(!looping_)`, then asserts, then runs -/
example : runOp 1 2 ([Ev.rd 0].map Act.access ++ Act.assertOwner :: [Act.access (.wr 0), Act.access (.wr 1)])
    = [⟨2, .rd 0⟩, ⟨2, .abort⟩] := by decide

/-- the bridge is not vacuous either: the generated table has a thread-safe row reading
`EventLoop::pendingFunctors_` under `mutex_` (in `queueSize`), and the one-access execution
`acq m; rd x; rel m` of a foreign thread is an instance of it with a truthful context, so
`table_race_free` applies to it -/
example : ∃ r ∈ rows, r.cls = "EventLoop" ∧ r.fn = "queueSize" ∧ r.field = "pendingFunctors_" ∧
    InstanceOfTable [⟨5, .acq 0⟩, ⟨5, .rd 7⟩, ⟨5, .rel 0⟩] (fun _ => .guarded 0) 1 5 (.rd 7) 7 := by
  have hfind : (rows.find? (fun r => r.cls == "EventLoop" && r.fn == "queueSize" && r.field == "pendingFunctors_"
      && r.rootKind == .ts && r.kind == .rd && r.locks == ["mutex_"])).isSome = true := by decide +kernel
  obtain ⟨r, hr⟩ := Option.isSome_iff_exists.mp hfind
  have hmem := List.mem_of_find?_eq_some hr
  have hp := List.find?_some hr
  simp only [Bool.and_eq_true, beq_iff_eq] at hp
  obtain ⟨⟨⟨⟨⟨hcls, hfn⟩, hfield⟩, hrk⟩, hkind⟩, hlocks⟩ := hp
  refine ⟨r, hmem, hcls, hfn, hfield, r, hmem, (policies.find? (·.cls == "EventLoop")).get (by decide), .guarded "mutex_",
    (fun _ => 0), 5, ?_, ?_, ?_, ?_, ?_, rfl, ?_, ?_, fun _ => rfl, fun _ => rfl, fun _ _ => rfl⟩
  · simp [policyOfClass, hcls]
  · rw [hfield]; decide
  · rw [hrk]; rfl
  · rw [hfield]; decide
  · intro h; cases h
  · rw [hkind]; exact ⟨7, rfl⟩
  · intro m _
    exact ⟨0, by omega, rfl, by intro k h1 h2; omega⟩

/-! ### the set-up setters of a connection and the hand-over -/

/-- **the library's own set-up calls precede the hand-over**: the policy exempts the rows of `TcpConnection`'s set-up
setters (`setConnectionCallback`, `setMessageCallback`, `setWriteCompleteCallback`, `setCloseCallback` write the
`confined` callback members from whatever thread calls them) on the ground that they run "before the object is shared".
For the one caller inside the library that shares the object with ANOTHER thread this is a fact about statement order,
read off /repo's current `TcpServer::newConnection` (`Generated/OwnerSkel.lean`, re-extracted on every run,
`Proofs/OwnerSkelTie.lean`): the acceptor thread hands the connection to its io loop exactly once
(`ioLoop->runInLoop(connectEstablished)`), all four setters are called before that statement and nothing touches the
connection after it - from there on the io thread may be reading and calling the members.  (`TcpClient::newConnection`
runs `connectEstablished` inline on the same loop thread: `ClientSkel`, C12.) -/
theorem setup_before_handover :
    (match policyOfClass "TcpConnection" with
      | some cp => ["setConnectionCallback", "setMessageCallback", "setWriteCompleteCallback", "setCloseCallback"].all cp.setup.contains
      | none => false) = true ∧
    OwnerSkel.HandoverLast "conn" "TcpConnection::connectEstablished(conn)"
      ["setConnectionCallback", "setMessageCallback", "setWriteCompleteCallback", "setCloseCallback"]
      Gen.OwnerSkel.newConnection :=
  ⟨by decide, OwnerSkel.handover_is_last⟩

end MuduoVerif.C08
