def hello := "world"
