import MuduoVerif.Generated.Poller
/-!
# Model of the dispatch engine (C09)

`Channel` (interest word, `revents_`, `index_`, `addedToLoop_`), both poller back-ends
(`PollPoller`: `pollfds_` + `channels_`; `EPollPoller`: `channels_`, the result array size
and — as the *environment's* state — the kernel's epoll interest list, on which
`epoll_ctl` succeeds or fails the way Linux does), `Channel::handleEventWithGuard`, and
`EventLoop::loop`'s dispatch over the snapshot of active channels with scripted
operations inside callbacks.  Every guard, mask and constant comes from
`Generated/Poller.lean` (T1).  Readiness is input.

Descriptors are abstract: channel `c` owns descriptor `(c : Int)` (one channel object
per descriptor at a time; `recreate` models destroying the object and constructing a new
one on the same descriptor).  Ids 0 and 1 are the loop's own timer and wake-up channels.
Core Lean only.
-/
namespace MuduoVerif.Poller
open MuduoVerif.Gen.Poller

inductive Backend | epoll | poll
deriving DecidableEq, Repr

inductive Kind | close | error | read | write
deriving DecidableEq, Repr

inductive OpKind | enableR | disableR | enableW | disableW | disableAll | remove | recreate
deriving DecidableEq, Repr

/-- the fields of a `Channel` object that matter here -/
structure Chan where
  events : Nat := 0
  revents : Nat := 0
  index : Int := -1
  added : Bool := false
deriving Repr

/-- result of one `epoll_ctl` -/
inductive CtlRes | ok | eexist | enoent
deriving DecidableEq, Repr

/-- `EPOLL_CTL_ADD/DEL/MOD` of <sys/epoll.h> (Linux ABI) -/
def ctlADD : Nat := 1
def ctlDEL : Nat := 2
def ctlMOD : Nat := 3

/-- observable events -/
inductive Ev
  | ctl (op : Nat) (c : Nat) (mask : Nat) (res : CtlRes)
  | syserr
  | fatal
  | abort (what : String)
  | op (c : Nat) (k : OpKind) (events : Nat) (index : Int)
  | reject (c : Nat) (k : OpKind)
  | cb (c : Nat) (k : Kind) (revents : Nat) (events : Nat)
  | wait (size : Nat) (timeout : Nat)
  | grow (size : Nat)
  | badEnv
deriving DecidableEq, Repr

/-- an operation scripted to run inside channel `j`'s next callback of kind `kind` -/
structure Hook where
  j : Nat
  kind : Kind
  c : Nat
  op : OpKind
deriving DecidableEq, Repr

structure State where
  be : Backend
  chans : Nat → Chan
  /-- `Poller::channels_`: descriptor → channel -/
  cmap : Int → Option Nat
  /-- `PollPoller::pollfds_`: (`fd` field, `events` field) -/
  pollfds : List (Int × Nat)
  /-- the kernel's epoll interest list: descriptor → mask (environment state) -/
  kernel : Int → Option Nat
  /-- `EPollPoller::events_.size()` -/
  evsize : Nat
  iteration : Nat
  /-- `EventLoop::activeChannels_`, `eventHandling_`, `currentActiveChannel_` -/
  active : List Nat
  handling : Bool
  cur : Option Nat
  hooks : List Hook
  /-- the process is gone (failed assertion / LOG_SYSFATAL) -/
  dead : Bool
  out : List Ev

def fdOf (c : Nat) : Int := c

def emit (s : State) (e : Ev) : State := { s with out := s.out ++ [e] }

def abort (s : State) (what : String) : State := { s with out := s.out ++ [.abort what], dead := true }

def setChan (s : State) (c : Nat) (ch : Chan) : State :=
  { s with chans := fun x => if x = c then ch else s.chans x }

def setCmap (s : State) (fd : Int) (v : Option Nat) : State :=
  { s with cmap := fun x => if x = fd then v else s.cmap x }

/-! ## PollPoller -/

/-- `PollPoller::updateChannel` -/
def pollUpdate (s : State) (c : Nat) : State :=
  let ch := s.chans c
  if pollIsNew ch.index then
    if s.cmap (fdOf c) ≠ none then abort s "channels_.find(channel->fd()) == channels_.end()"
    else
      { s with
        pollfds := s.pollfds ++ [(if pollNewIgnores ch.events then pollNewIgnoreFd (fdOf c) else fdOf c, ch.events)]
        chans := fun x => if x = c then { ch with index := (s.pollfds.length : Int) } else s.chans x
        cmap := fun x => if x = fdOf c then some c else s.cmap x }
  else
    let idx := ch.index.toNat
    if s.cmap (fdOf c) ≠ some c then abort s "channels_[channel->fd()] == channel"
    else
      match s.pollfds[idx]? with
      | none => abort s "0 <= idx && idx < pollfds_.size()"
      | some pfd =>
        if pfd.1 ≠ fdOf c ∧ pfd.1 ≠ pollIgnoreFd (fdOf c) then abort s "pfd.fd == channel->fd() || pfd.fd == -channel->fd()-1"
        else
          let entry : Int × Nat := (if pollUpdateIgnores ch.events then pollIgnoreFd (fdOf c) else fdOf c, ch.events)
          { s with pollfds := s.pollfds.set idx entry }

/-- `PollPoller::removeChannel` -/
def pollRemove (s : State) (c : Nat) : State :=
  let ch := s.chans c
  let idx := ch.index.toNat
  if s.cmap (fdOf c) ≠ some c then abort s "channels_[channel->fd()] == channel"
  else if ¬ isNoneEvent ch.events then abort s "channel->isNoneEvent()"
  else if ch.index < 0 then abort s "0 <= idx"
  else
    match s.pollfds[idx]? with
    | none => abort s "idx < pollfds_.size()"
    | some pfd =>
      if pfd ≠ (pollIgnoreFd (fdOf c), ch.events) then abort s "pfd.fd == -channel->fd()-1 && pfd.events == channel->events()"
      else
        let cmap' : Int → Option Nat := fun x => if x = fdOf c then none else s.cmap x
        if pollRemoveIsLast idx s.pollfds.length then
          { s with
            cmap := cmap'
            pollfds := s.pollfds.dropLast
            chans := fun x => if x = c then { ch with index := pollIndexAfterRemove } else s.chans x }
        else
          match s.pollfds.getLast? with
          | none => abort s "pollfds_ is empty"
          | some last =>
            let endFd := if pollEndIsIgnored last.1 then pollDecodeFd last.1 else last.1
            match cmap' endFd with
            | none => abort s "channels_[channelAtEnd] is null"
            | some m =>
              { s with
                cmap := cmap'
                pollfds := (s.pollfds.set idx last).dropLast
                chans := fun x =>
                  if x = c then { ch with index := pollIndexAfterRemove }
                  else if x = m then { s.chans m with index := (idx : Int) }
                  else s.chans x }

/-! ## EPollPoller -/

/-- `EPollPoller::update` = one `epoll_ctl` against the kernel's interest list -/
def ctl (s : State) (op : Nat) (c : Nat) : State :=
  let fd := fdOf c
  let mask := (s.chans c).events
  let present := (s.kernel fd).isSome
  if op = ctlADD then
    if present then
      (if epCtlFailureIsSyserr op then emit (emit s (.ctl op c mask .eexist)) .syserr
       else { emit (emit s (.ctl op c mask .eexist)) .fatal with dead := true })
    else { emit s (.ctl op c mask .ok) with kernel := fun x => if x = fd then some mask else s.kernel x }
  else
    if ¬ present then
      (if epCtlFailureIsSyserr op then emit (emit s (.ctl op c mask .enoent)) .syserr
       else { emit (emit s (.ctl op c mask .enoent)) .fatal with dead := true })
    else if op = ctlDEL then
      { emit s (.ctl op c mask .ok) with kernel := fun x => if x = fd then none else s.kernel x }
    else
      { emit s (.ctl op c mask .ok) with kernel := fun x => if x = fd then some mask else s.kernel x }

def setIndex (s : State) (c : Nat) (i : Int) : State :=
  { s with chans := fun x => if x = c then { s.chans c with index := i } else s.chans x }

/-- `EPollPoller::updateChannel` -/
def epollUpdate (s : State) (c : Nat) : State :=
  let ch := s.chans c
  if epAddBranch ch.index then
    if epIsNew ch.index then
      if s.cmap (fdOf c) ≠ none then abort s "channels_.find(fd) == channels_.end()"
      else if epNewSkips ch.events then setIndex (setCmap s (fdOf c) (some c)) c epIndexAfterNewSkip
      else ctl (setIndex (setCmap s (fdOf c) (some c)) c epIndexAfterAdd) epCtlAdd c
    else
      if s.cmap (fdOf c) ≠ some c then abort s "channels_[fd] == channel"
      else if epDeletedSkips ch.events then s
      else ctl (setIndex s c epIndexAfterAdd) epCtlAdd c
  else
    if s.cmap (fdOf c) ≠ some c then abort s "channels_[fd] == channel"
    else if ch.index ≠ kAdded then abort s "index == kAdded"
    else if epExistingDeletes ch.events then setIndex (ctl s epCtlNoInterest c) c epIndexAfterDel
    else ctl s epCtlModify c

/-- `EPollPoller::removeChannel` -/
def epollRemove (s : State) (c : Nat) : State :=
  let ch := s.chans c
  if s.cmap (fdOf c) ≠ some c then abort s "channels_[fd] == channel"
  else if ¬ isNoneEvent ch.events then abort s "channel->isNoneEvent()"
  else if ¬ (ch.index = kAdded ∨ ch.index = kDeleted) then abort s "index == kAdded || index == kDeleted"
  else
    let s1 := setCmap s (fdOf c) none
    if epRemoveDels ch.index then setIndex (ctl s1 epCtlRemove c) c epIndexAfterRemove
    else setIndex s1 c epIndexAfterRemove

/-! ## Channel operations -/

def updateChannel (s : State) (c : Nat) : State :=
  match s.be with
  | .poll => pollUpdate s c
  | .epoll => epollUpdate s c

def removeChannel (s : State) (c : Nat) : State :=
  match s.be with
  | .poll => pollRemove s c
  | .epoll => epollRemove s c

/-- new interest word of the five `enable*/disable*` members -/
def newEvents : OpKind → Nat → Nat
  | .enableR, e => enableReading e
  | .disableR, e => disableReading e
  | .enableW, e => enableWriting e
  | .disableW, e => disableWriting e
  | .disableAll, e => disableAll e
  | _, e => e

/-- the documented preconditions of `Channel::remove()`: registered, no interest left
(`assert(isNoneEvent())`), and — while the loop dispatches — only the channel whose
callback is running or one that is not in the current batch (`EventLoop::removeChannel`) -/
def removeOk (s : State) (c : Nat) : Prop :=
  (s.chans c).added = true ∧ isNoneEvent (s.chans c).events ∧
    (s.handling = true → s.cur = some c ∨ c ∉ s.active)
instance : Decidable (removeOk s c) := by unfold removeOk; infer_instance

/-- destroying the `Channel` object and constructing a new one on the same descriptor:
only when it is not registered (`~Channel` asserts it) and not from inside a callback -/
def recreateOk (s : State) (c : Nat) : Prop := (s.chans c).added = false ∧ s.handling = false
instance : Decidable (recreateOk s c) := by unfold recreateOk; infer_instance

/-- `events_ <op>= k` and `addedToLoop_ = true` of the `enable*/disable*` members (before `update()`) -/
def setInterest (s : State) (c : Nat) (k : OpKind) : State :=
  { s with
    chans := fun x => if x = c then { s.chans c with events := newEvents k (s.chans c).events, added := true } else s.chans x }

def report (s : State) (c : Nat) (k : OpKind) : State :=
  if s.dead then s else emit s (.op c k (s.chans c).events (s.chans c).index)

/-- one user operation on channel `c` (between polls or inside a callback) -/
def applyOp (s : State) (c : Nat) (k : OpKind) : State :=
  if s.dead then s
  else match k with
    | .remove =>
      if removeOk s c then
        report (removeChannel (setChan s c { s.chans c with added := false }) c) c k
      else emit s (.reject c k)
    | .recreate =>
      if recreateOk s c then report (setChan s c {}) c k else emit s (.reject c k)
    | _ =>
      report (updateChannel (setInterest s c k) c) c k

/-! ## dispatch -/

def Hook.isFor (h : Hook) (j : Nat) (k : Kind) : Bool := h.j = j ∧ h.kind = k

/-- the scripted operations of this callback, in the order they were scripted; one-shot -/
def runHooks (s : State) (j : Nat) (k : Kind) : State :=
  (s.hooks.filter (·.isFor j k)).foldl (fun s h => applyOp s h.c h.op)
    { s with hooks := s.hooks.filter (fun h => !h.isFor j k) }

/-- the callback of kind `k` of channel `c` runs -/
def fire (s : State) (c : Nat) (k : Kind) : State :=
  runHooks (emit s (.cb c k (s.chans c).revents (s.chans c).events)) c k

def disp : Kind → Nat → Prop
  | .close, r => dispClose r
  | .error, r => dispError r
  | .read, r => dispRead r
  | .write, r => dispWrite r
instance : Decidable (disp k r) := by cases k <;> unfold disp <;> infer_instance

/-- the re-test of the channel's current interest (fix 30ca83c) -/
def subscribed : Kind → Nat → Prop
  | .close, e => guardClose e
  | .error, e => guardError e
  | .read, e => guardRead e
  | .write, e => guardWrite e
instance : Decidable (subscribed k e) := by cases k <;> unfold subscribed <;> infer_instance

/-- one of the four `if`s of `Channel::handleEventWithGuard` -/
def stage (k : Kind) (s : State) (c : Nat) : State :=
  if s.dead then s
  else if disp k (s.chans c).revents ∧ subscribed k (s.chans c).events then fire s c k
  else s

/-- `Channel::handleEventWithGuard` -/
def handleEvent (s : State) (c : Nat) : State :=
  stage .write (stage .read (stage .error (stage .close s c) c) c) c

/-- the `for` loop of `EventLoop::loop` over the snapshot -/
def dispatch (s : State) (active : List Nat) : State :=
  active.foldl (fun s c => handleEvent { s with cur := some c } c) s

/-- revents reported for channel `c` (0 = not reported) -/
def lookupRev (ready : List (Nat × Nat)) (c : Nat) : Nat :=
  match ready.find? (fun p => p.1 = c) with
  | some p => p.2
  | none => 0

/-- `PollPoller::fillActiveChannels`: scan `pollfds_` while `numEvents > 0` -/
def pollFill (s : State) (ready : List (Nat × Nat)) : List (Int × Nat) → Nat → List Nat → State × List Nat
  | [], _, acc => (s, acc.reverse)
  | _ :: _, 0, acc => (s, acc.reverse)
  | pfd :: rest, n + 1, acc =>
    let rev : Nat := if pfd.1 < 0 then 0 else lookupRev ready pfd.1.toNat
    if pollActive (rev : Int) then
      match s.cmap pfd.1 with
      | none => (abort s "ch != channels_.end()", acc.reverse)
      | some c => pollFill (setChan s c { s.chans c with revents := rev }) ready rest n (c :: acc)
    else pollFill s ready rest (n + 1) acc

/-- `EPollPoller::fillActiveChannels` (the kernel hands back the channel pointers) -/
def epollFill (s : State) : List (Nat × Nat) → List Nat → State × List Nat
  | [], acc => (s, acc.reverse)
  | (c, rev) :: rest, acc =>
    if s.cmap (fdOf c) ≠ some c then (abort s "it != channels_.end() && it->second == channel", acc.reverse)
    else epollFill (setChan s c { s.chans c with revents := rev }) rest (c :: acc)

/-- `Poller::poll` given what the kernel reported -/
def pollerPoll (s : State) (ready : List (Nat × Nat)) (nret : Nat) : State × List Nat :=
  match s.be with
  | .poll =>
    let s := emit s (.wait s.pollfds.length kPollTimeMs)
    if nret > 0 then pollFill s ready s.pollfds nret [] else (s, [])
  | .epoll =>
    let s := emit s (.wait s.evsize kPollTimeMs)
    if epHasEvents (nret : Int) then
      -- the first assertion of `fillActiveChannels` (and the environment's well-formedness: the kernel wrote as
      -- many entries as it says), under `numEvents > 0` as in the source
      if ready.length > s.evsize ∨ nret ≠ ready.length then (abort (emit s .badEnv) "numEvents <= events_.size()", [])
      else
        let (s1, act) := epollFill s ready []
        if epArrayFull nret s1.evsize then
          ({ emit s1 (.grow (epGrowTo s1.evsize)) with evsize := epGrowTo s1.evsize }, act)
        else (s1, act)
    else (s, [])

/-- one iteration of `EventLoop::loop` -/
def iter (s : State) (ready : List (Nat × Nat)) (nret : Nat) : State :=
  if s.dead then s
  else
    let (s1, act) := pollerPoll s ready nret
    if s1.dead then s1
    else
      let s2 := dispatch { s1 with iteration := s1.iteration + 1, active := act, handling := true } act
      { s2 with cur := none, handling := false }

inductive In
  | op (c : Nat) (k : OpKind)
  | hook (h : Hook)
  | iter (ready : List (Nat × Nat)) (nret : Nat)
deriving Repr

def step (s : State) : In → State
  | .op c k => applyOp s c k
  | .hook h => if s.dead then s else { s with hooks := s.hooks ++ [h] }
  | .iter ready nret => iter s ready nret

def run (s : State) (ins : List In) : State := ins.foldl step s

def empty (be : Backend) : State :=
  { be := be, chans := fun _ => {}, cmap := fun _ => none, pollfds := [], kernel := fun _ => none,
    evsize := kInitEventListSize, iteration := 0, active := [], handling := false, cur := none,
    hooks := [], dead := false, out := [] }

def timerChan : Nat := 0
def wakeChan : Nat := 1

/-- the state after `EventLoop`'s constructor: the timer queue's and the wake-up channel read-enabled -/
def init (be : Backend) : State :=
  { applyOp (applyOp (empty be) timerChan .enableR) wakeChan .enableR with out := [] }

/-! ## what the kernel is asked to watch, and the specification of it -/

/-- the descriptor → mask map the kernel watches: `poll(2)` ignores entries with a negative
`fd`; `epoll` watches exactly its interest list -/
def watched (s : State) (fd : Int) (mask : Nat) : Prop :=
  match s.be with
  | .poll => 0 ≤ fd ∧ (fd, mask) ∈ s.pollfds
  | .epoll => s.kernel fd = some mask

/-- specification: exactly the registered channels with some interest, with their interest word -/
def specWatched (s : State) (fd : Int) (mask : Nat) : Prop :=
  ∃ c : Nat, fd = fdOf c ∧ (s.chans c).added = true ∧ (s.chans c).events = mask ∧ mask ≠ 0

end MuduoVerif.Poller
