import MuduoVerif.Generated.Poller
/-!
# Statement skeletons of the dispatch engine (C09): vocabulary and the skeletons the model implements

`Model/Poller.lean` takes every constant, mask and branch guard from `Generated/Poller.lean`; the ORDER and NESTING of
the statements inside each function is hand-written there.  This file states, function by function, the skeleton that
the model's definition implements (`Decl.*`, written by reading `Model/Poller.lean`, each with a pointer to the model
definition).  `vlib/gen/pollerskel.py` extracts the skeleton of the same functions from /repo's current
`EPollPoller.cc`, `PollPoller.cc`, `Channel.cc` and `EventLoop.cc` (`Generated/PollerSkel.lean`, in the vocabulary
below), and `Proofs/PollerSkelTie.lean` proves the two equal by `decide`.  A source change that calls `set_index`
on the other side of `update`, reads `channelAtEnd` after the swap, computes `idx` before `push_back`, tells the
loop before `addedToLoop_` is stored, runs the error callback before the close callback, resets `eventHandling_`
before `currentActiveChannel_`, merges two independent `if`s into `if / else if`, drops an `else`, adds, drops or
duplicates a statement in one of these functions changes the extracted skeleton and breaks that proof.

An `ite` is named after the generated guard (`Gen.Poller.<name>`) the model branches on at that point; the five
conditions `vlib/gen/poller.py` does not translate (`numEvents > 0` of `PollPoller::poll`, the failure test of
`epoll_ctl`, `tied_`, `guard`, `eventHandling_`) are printed.  Core Lean only.

What the model does not have, and the extraction therefore leaves out (the same list heads
`Generated/PollerSkel.lean`): log statements below ERROR and the guarded `printActiveChannels()`;
`assertInLoopThread()`; the three assertions `channel->ownerLoop() == this` (one loop), `n == 1` (count returned by
`channels_.erase`) and `channel->fd() == pfd->fd` (`cmap` is keyed by `fdOf` by construction); locals declared without
an initialiser; casts; time stamps; errno bookkeeping and the report of a failed wait (`nret : Nat`); Channel's own
`eventHandling_`; stores to `pollfd::revents` (the entries of `State.pollfds` are `(fd, events)`); an `if` that only
logs; `MUDUO_VERIF_POINT`.

Where the model is coarser than the skeleton it implements (nothing is left out of the extraction for these; each is
repeated at the definition concerned):
* A1 `Channel::handleEvent`: the model's channels are not tied (`tied_ = false`; the tie belongs to the connection
  engine, `ConnSkel`'s `chan .tie`): `Poller.dispatch` calls `Poller.handleEvent` (= `handleEventWithGuard`) directly,
  i.e. it implements the else-branch of the declared skeleton.
* A2 one test of the model for two adjacent assertions of the source, or two for one: `s.cmap (fdOf c) ≠ some c` is
  `assert(channels_.find(fd) != channels_.end()); assert(channels_[fd] == channel)` (`none`: the first fails, another
  channel: the second); `ch.index < 0` and `s.pollfds[idx]? = none` are the two conjuncts of `assert(0 <= idx && idx <
  pollfds_.size())`.  The labels of the model's `abort` events abbreviate the source text in a few places; the
  skeletons carry the source text.
* A3 `Channel::remove` / `EventLoop::removeChannel`: the two assertions that state the documented preconditions
  (`isNoneEvent()`, "the current channel or one outside the active list") are the guard `Poller.removeOk`: a request
  outside them is rejected (`Ev.reject`) by model and harness alike instead of aborting the process.
* A4 `doPendingFunctors()` at the end of an iteration: the functor queue is the loop engine's (`Model/Loop.lean`); in
  this engine the operations between two polls are the inputs `In.op`, which `Poller.run` applies after `Poller.iter`
  has returned, i.e. after `handling := false` - the position the call has in the skeleton.
-/
namespace MuduoVerif.PollerSkel
open MuduoVerif.Gen.Poller

/-- `::epoll_wait`, `::poll`, `::epoll_ctl` -/
inductive SysOp | epollWait | poll | epollCtl
deriving DecidableEq, Repr

/-- mutating member calls through a `Channel*` -/
inductive ChanOp | setIndex | setRevents | handleEvent
deriving DecidableEq, Repr

/-- `channels_[key] = value`, `channels_.erase(key)` -/
inductive MapOp | insert | erase
deriving DecidableEq, Repr

/-- mutating operations of `pollfds_`, `events_`, `activeChannels_` / `*activeChannels` -/
inductive VecOp | pushBack | popBack | resize | clear | iterSwap
deriving DecidableEq, Repr

/-- the four callbacks of a channel -/
inductive Cb | close | error | read | write
deriving DecidableEq, Repr

/-- virtual calls through `EventLoop::poller_` -/
inductive PollerFn | poll | updateChannel | removeChannel | hasChannel
deriving DecidableEq, Repr

/-- calls through `Channel::loop_` -/
inductive LoopFn | updateChannel | removeChannel
deriving DecidableEq, Repr

/-- log statements that are events of the model (`Ev.syserr`, `Ev.fatal`) -/
inductive LogLevel | syserr | sysfatal | error | fatal
deriving DecidableEq, Repr

/-- one significant action; strings are canonical prints of source expressions (casts dropped, `->` as `.`), the
text of an assertion is its source text -/
inductive Act
  | sys (op : SysOp) (args : String)
  | zero (args : String)                                  -- `memZero(&x, sizeof x)`
  | assertion (text : String)                             -- `assert(text)`: `abort` in the model
  | chan (ptr : String) (op : ChanOp) (args : String)     -- `ptr->op(args)`
  | chanMap (op : MapOp) (key value : String)
  | vec (array : String) (op : VecOp) (args : String)
  | cb (k : Cb)                                           -- `xCallback_(..)`
  | call (fn : String) (args : String)                    -- direct call of a member function of the same class
  | poller (fn : PollerFn) (args : String)                -- `poller_->fn(args)`
  | loop (fn : LoopFn) (args : String)                    -- `loop_->fn(args)`
  | log (level : LogLevel)
  | assign (var : String) (value : String)                -- declaration with an initialiser / assignment (`&x`: reference)
  | ret
deriving DecidableEq, Repr

/-- a statement: an action, `if (guard) { thn } else { els }`, or `for (var : range) { body }` -/
inductive Skel
  | act (a : Act)
  | ite (guard : String) (thn els : List Skel)
  | each (var range : String) (body : List Skel)
deriving Repr

/-! `deriving DecidableEq` does not handle the nesting through `List`; the instance is written out
(structural recursion, so `decide` evaluates it in the kernel). -/
mutual
def Skel.decEq : (x y : Skel) → Decidable (x = y)
  | .act a, .act a' => if h : a = a' then isTrue (by rw [h]) else isFalse (by intro e; cases e; exact h rfl)
  | .ite g t e, .ite g' t' e' =>
    if hg : g = g' then
      match Skel.decEqL t t' with
      | isTrue ht =>
        match Skel.decEqL e e' with
        | isTrue he => isTrue (by rw [hg, ht, he])
        | isFalse he => isFalse (by intro q; cases q; exact he rfl)
      | isFalse ht => isFalse (by intro q; cases q; exact ht rfl)
    else isFalse (by intro q; cases q; exact hg rfl)
  | .each v r b, .each v' r' b' =>
    if hv : v = v' then
      if hr : r = r' then
        match Skel.decEqL b b' with
        | isTrue hb => isTrue (by rw [hv, hr, hb])
        | isFalse hb => isFalse (by intro q; cases q; exact hb rfl)
      else isFalse (by intro q; cases q; exact hr rfl)
    else isFalse (by intro q; cases q; exact hv rfl)
  | .act _, .ite .. => isFalse (by intro e; cases e)
  | .act _, .each .. => isFalse (by intro e; cases e)
  | .ite .., .act _ => isFalse (by intro e; cases e)
  | .ite .., .each .. => isFalse (by intro e; cases e)
  | .each .., .act _ => isFalse (by intro e; cases e)
  | .each .., .ite .. => isFalse (by intro e; cases e)
def Skel.decEqL : (x y : List Skel) → Decidable (x = y)
  | [], [] => isTrue rfl
  | [], _ :: _ => isFalse (by intro e; cases e)
  | _ :: _, [] => isFalse (by intro e; cases e)
  | a :: as, b :: bs =>
    match Skel.decEq a b with
    | isTrue h =>
      match Skel.decEqL as bs with
      | isTrue h' => isTrue (by rw [h, h'])
      | isFalse h' => isFalse (by intro q; cases q; exact h' rfl)
    | isFalse h => isFalse (by intro q; cases q; exact h rfl)
end
instance : DecidableEq Skel := Skel.decEq
instance : DecidableEq (List Skel) := Skel.decEqL

/-! ## The skeleton each model function implements

Conventions of the reading.  `s.chans c` is the `Channel` object (`channel->index()` = `ch.index`, `events()` =
`ch.events`, `set_index` = `setIndex` / `index := ..`, `set_revents` = `revents := ..`), `fdOf c` is `channel->fd()`,
`s.cmap` is `channels_` (`setCmap .. (some c)` = `channels_[fd] = channel`, `setCmap .. none` = `erase`, `s.cmap fd`
= `find` / `[]`), `s.pollfds` is `pollfds_` (`++ [e]` = `push_back`, `dropLast` = `pop_back`, `set idx last` followed
by `dropLast` = `iter_swap(begin()+idx, end()-1); pop_back()`, `set idx entry` = the stores through the reference
`pfd`), `s.evsize` is `events_.size()`, `s.active` / the accumulator of `pollFill` / `epollFill` is `*activeChannels`
(`c :: acc`, reversed at the end = `push_back`), `s.handling` / `s.cur` / `s.iteration` are `EventLoop`'s
`eventHandling_` / `currentActiveChannel_` / `iteration_`, `(s.chans c).added` is `addedToLoop_`.
`abort s "<text>"` is a failing `assert(<text>)` (the process is gone: every later test is reached only when the
earlier ones passed, which is the source's sequence of assertions); `emit s (.wait size timeout)` is the call of
`::poll` / `::epoll_wait`; `emit s (.ctl op c mask res)` is the call of `::epoll_ctl`; `.syserr` / `.fatal` are
`LOG_SYSERR` / `LOG_SYSFATAL`.  `if g .. then A else B` on a generated guard `g` is `ite "g" A B`; a branch of the
model that ends a function early (`then s`, `then setIndex ..`) while the other branch goes on is the source's
`{ ..; return; }` followed by the common tail; `List.foldl` / structural recursion over a list is `for`.  A record
update that changes several fields at once stands for the stores in the order the source performs them; `let`s name
values read before it (`let ch := s.chans c`, `let idx := ..`, `last`).  Locals that only name a value (`fd`, `index`,
`idx`, `channel`, `it`, `ch`, `pfd`, `channelAtEnd`, `guard`) are `let`s / pattern variables of the model. -/
namespace Decl

/-! ### EPollPoller.cc -/

/-- `Poller.pollerPoll`, `.epoll`: `emit s (.wait s.evsize kPollTimeMs)` (`epoll_wait` on an array of `events_.size()`
entries with the time-out handed in); `if epHasEvents nret then` `epollFill s ready []`, then `if epArrayFull nret
s1.evsize then { .. evsize := epGrowTo s1.evsize }` `else (s, [])` -/
def epollPoll : List Skel :=
  [ .act (.sys .epollWait "epollfd_, &*events_.begin(), events_.size(), timeoutMs"),
    .ite "epHasEvents"
      [ .act (.call "fillActiveChannels" "numEvents, activeChannels"),
        .ite "epArrayFull" [.act (.vec "events_" .resize "events_.size() * 2")] [] ]
      [],
    .act .ret ]

/-- `Poller.pollerPoll`, under `epHasEvents`: the test `ready.length > s.evsize ∨ nret ≠ ready.length` (`abort ..
"numEvents <= events_.size()"`; its second disjunct is the environment's well-formedness: the kernel wrote as many
entries as it says), then `Poller.epollFill`: for each reported `(c, rev)` (the kernel hands back the channel pointer `data.ptr`):
`if s.cmap (fdOf c) ≠ some c then abort ..` (A2: both assertions), `setChan s c { .. revents := rev }`, `c :: acc` -/
def epollFillActiveChannels : List Skel :=
  [ .act (.assertion "implicit_cast<size_t>(numEvents) <= events_.size()"),
    .each "i" "i = 0; i < numEvents; ++i"
      [ .act (.assign "channel" "events_[i].data.ptr"),
        .act (.assign "fd" "channel.fd()"),
        .act (.assign "it" "channels_.find(fd)"),
        .act (.assertion "it != channels_.end()"),
        .act (.assertion "it->second == channel"),
        .act (.chan "channel" .setRevents "events_[i].events"),
        .act (.vec "activeChannels" .pushBack "channel") ] ]

/-- `Poller.epollUpdate`: `let ch := s.chans c`; `if epAddBranch ch.index then (if epIsNew ch.index then` `cmap ≠ none
→ abort`, `setCmap s (fdOf c) (some c)`, `if epNewSkips ch.events then setIndex .. epIndexAfterNewSkip` (return) `else`
`cmap ≠ some c → abort` (A2), `if epDeletedSkips ch.events then s` (return)`)`, and in both arms the common tail
`ctl (setIndex .. epIndexAfterAdd) epCtlAdd c` (`set_index(kAdded)` first, then `update(EPOLL_CTL_ADD = 1, ..)`);
`else` `cmap ≠ some c → abort` (A2), `ch.index ≠ kAdded → abort`, `if epExistingDeletes ch.events then setIndex (ctl s
epCtlNoInterest c) c epIndexAfterDel` (`update(EPOLL_CTL_DEL = 2, ..)` first, then `set_index(kDeleted)`) `else ctl s
epCtlModify c` (`EPOLL_CTL_MOD = 3`) -/
def epollUpdateChannel : List Skel :=
  [ .act (.assign "index" "channel.index()"),
    .ite "epAddBranch"
      [ .act (.assign "fd" "channel.fd()"),
        .ite "epIsNew"
          [ .act (.assertion "channels_.find(fd) == channels_.end()"),
            .act (.chanMap .insert "fd" "channel"),
            .ite "epNewSkips"
              [ .act (.chan "channel" .setIndex "kDeleted"),
                .act .ret ]
              [] ]
          [ .act (.assertion "channels_.find(fd) != channels_.end()"),
            .act (.assertion "channels_[fd] == channel"),
            .ite "epDeletedSkips" [.act .ret] [] ],
        .act (.chan "channel" .setIndex "kAdded"),
        .act (.call "update" "1, channel") ]
      [ .act (.assign "fd" "channel.fd()"),
        .act (.assertion "channels_.find(fd) != channels_.end()"),
        .act (.assertion "channels_[fd] == channel"),
        .act (.assertion "index == kAdded"),
        .ite "epExistingDeletes"
          [ .act (.call "update" "2, channel"),
            .act (.chan "channel" .setIndex "kDeleted") ]
          [ .act (.call "update" "3, channel") ] ] ]

/-- `Poller.epollRemove`: `cmap ≠ some c → abort` (A2), `¬ isNoneEvent → abort`, `¬ (index = kAdded ∨ index = kDeleted)
→ abort`, `let s1 := setCmap s (fdOf c) none`, `if epRemoveDels ch.index then setIndex (ctl s1 epCtlRemove c) c
epIndexAfterRemove else setIndex s1 c epIndexAfterRemove` (`update(EPOLL_CTL_DEL = 2, ..)` under the guard,
`set_index(kNew)` in both arms = after the `if`) -/
def epollRemoveChannel : List Skel :=
  [ .act (.assign "fd" "channel.fd()"),
    .act (.assertion "channels_.find(fd) != channels_.end()"),
    .act (.assertion "channels_[fd] == channel"),
    .act (.assertion "channel->isNoneEvent()"),
    .act (.assign "index" "channel.index()"),
    .act (.assertion "index == kAdded || index == kDeleted"),
    .act (.chanMap .erase "fd" ""),
    .ite "epRemoveDels" [.act (.call "update" "2, channel")] [],
    .act (.chan "channel" .setIndex "kNew") ]

/-- `Poller.ctl`: `let fd := fdOf c`, `let mask := (s.chans c).events` (a fresh `epoll_event` whose fields are the
interest word and the channel), `emit s (.ctl op c mask res)` - one `epoll_ctl`, whose result `res` the kernel's
interest list decides; on a failure (`eexist` / `enoent`) `if epCtlFailureIsSyserr op then .syserr else .fatal` -/
def epollUpdate : List Skel :=
  [ .act (.zero "&event, sizeof(event)"),
    .act (.assign "event.events" "channel.events()"),
    .act (.assign "event.data.ptr" "channel"),
    .act (.assign "fd" "channel.fd()"),
    .act (.sys .epollCtl "epollfd_, operation, fd, &event"),
    .ite "epoll_ctl(epollfd_, operation, fd, &event) < 0"
      [ .ite "epCtlFailureIsSyserr" [.act (.log .syserr)] [.act (.log .sysfatal)] ]
      [] ]

/-! ### PollPoller.cc -/

/-- `Poller.pollerPoll`, `.poll`: `emit s (.wait s.pollfds.length kPollTimeMs)` (`::poll` over the whole array);
`if nret > 0 then pollFill s ready s.pollfds nret [] else (s, [])` -/
def pollPoll : List Skel :=
  [ .act (.sys .poll "&*pollfds_.begin(), pollfds_.size(), timeoutMs"),
    .ite "numEvents > 0" [.act (.call "fillActiveChannels" "numEvents, activeChannels")] [],
    .act .ret ]

/-- `Poller.pollFill`: scan `pollfds_` while entries and `n` remain (`[]` and `_ :: _, 0` end the loop); `if pollActive
rev then` `n + 1 ↦ n`, `match s.cmap pfd.1 with | none => abort .. "ch != channels_.end()" | some c =>` `setChan s c { ..
revents := rev }`, `c :: acc` -/
def pollFillActiveChannels : List Skel :=
  [ .each "pfd" "pfd = pollfds_.begin(); (pfd != pollfds_.end()) && (numEvents > 0); ++pfd"
      [ .ite "pollActive"
          [ .act (.assign "numEvents" "--numEvents"),
            .act (.assign "ch" "channels_.find(pfd.fd)"),
            .act (.assertion "ch != channels_.end()"),
            .act (.assign "channel" "ch.second"),
            .act (.chan "channel" .setRevents "pfd.revents"),
            .act (.vec "activeChannels" .pushBack "channel") ]
          [] ] ]

/-- `Poller.pollUpdate`: `if pollIsNew ch.index then` `cmap ≠ none → abort`; the new entry `(if pollNewIgnores ch.events
then pollNewIgnoreFd (fdOf c) else fdOf c, ch.events)` (`pfd.fd = fd; pfd.events = events; if (..) pfd.fd = -fd-1`) is
appended; `index := s.pollfds.length` (= `pollfds_.size() - 1` after the `push_back`); `cmap (fdOf c) := some c`
`else` `let idx := ch.index.toNat`; `cmap ≠ some c → abort` (A2); `s.pollfds[idx]? = none → abort` (the range assertion);
`pfd.1 ≠ fdOf c ∧ pfd.1 ≠ pollIgnoreFd (fdOf c) → abort`; `pollfds.set idx (if pollUpdateIgnores ch.events then
pollIgnoreFd (fdOf c) else fdOf c, ch.events)` -/
def pollUpdateChannel : List Skel :=
  [ .ite "pollIsNew"
      [ .act (.assertion "channels_.find(channel->fd()) == channels_.end()"),
        .act (.assign "pfd.fd" "channel.fd()"),
        .act (.assign "pfd.events" "channel.events()"),
        .ite "pollNewIgnores" [.act (.assign "pfd.fd" "-channel.fd() - 1")] [],
        .act (.vec "pollfds_" .pushBack "pfd"),
        .act (.assign "idx" "pollfds_.size() - 1"),
        .act (.chan "channel" .setIndex "idx"),
        .act (.chanMap .insert "channel.fd()" "channel") ]
      [ .act (.assertion "channels_.find(channel->fd()) != channels_.end()"),
        .act (.assertion "channels_[channel->fd()] == channel"),
        .act (.assign "idx" "channel.index()"),
        .act (.assertion "0 <= idx && idx < static_cast<int>(pollfds_.size())"),
        .act (.assign "&pfd" "pollfds_[idx]"),
        .act (.assertion "pfd.fd == channel->fd() || pfd.fd == -channel->fd()-1"),
        .act (.assign "pfd.fd" "channel.fd()"),
        .act (.assign "pfd.events" "channel.events()"),
        .ite "pollUpdateIgnores" [.act (.assign "pfd.fd" "-channel.fd() - 1")] [] ] ]

/-- `Poller.pollRemove`: `cmap ≠ some c → abort` (A2); `¬ isNoneEvent → abort`; `ch.index < 0 → abort`, `s.pollfds[idx]? =
none → abort` (A2: the two conjuncts of the range assertion); `pfd ≠ (pollIgnoreFd (fdOf c), ch.events) → abort`; `cmap'`
(`erase`); `if pollRemoveIsLast idx s.pollfds.length then` `dropLast` `else` `last := getLast` (read before the swap),
`(s.pollfds.set idx last).dropLast` (swap .. pop), `endFd := if pollEndIsIgnored last.1 then pollDecodeFd last.1 else
last.1`, `cmap' endFd = some m`, `m`'s `index := idx`; in both arms `c`'s `index := pollIndexAfterRemove` (after the `if`) -/
def pollRemoveChannel : List Skel :=
  [ .act (.assertion "channels_.find(channel->fd()) != channels_.end()"),
    .act (.assertion "channels_[channel->fd()] == channel"),
    .act (.assertion "channel->isNoneEvent()"),
    .act (.assign "idx" "channel.index()"),
    .act (.assertion "0 <= idx && idx < static_cast<int>(pollfds_.size())"),
    .act (.assign "&pfd" "pollfds_[idx]"),
    .act (.assertion "pfd.fd == -channel->fd()-1 && pfd.events == channel->events()"),
    .act (.chanMap .erase "channel.fd()" ""),
    .ite "pollRemoveIsLast"
      [ .act (.vec "pollfds_" .popBack "") ]
      [ .act (.assign "channelAtEnd" "pollfds_.back().fd"),
        .act (.vec "pollfds_" .iterSwap "pollfds_.begin() + idx, pollfds_.end() - 1"),
        .ite "pollEndIsIgnored" [.act (.assign "channelAtEnd" "-channelAtEnd - 1")] [],
        .act (.chan "channels_[channelAtEnd]" .setIndex "idx"),
        .act (.vec "pollfds_" .popBack "") ],
    .act (.chan "channel" .setIndex "-1") ]

/-! ### Channel.cc -/

/-- `Poller.applyOp`, the five `enable* / disable*` members: `updateChannel (setInterest s c k) c` - `setInterest` stores
`events` (the header's `events_ <op>= k`, `Gen.Poller.enableReading ..`) and `added := true`, then the loop is told -/
def channelUpdate : List Skel :=
  [ .act (.assign "addedToLoop_" "true"),
    .act (.loop .updateChannel "this") ]

/-- `Poller.applyOp`, `.remove`: `if removeOk s c then` (A3: `isNoneEvent` is one conjunct of the guard) `removeChannel
(setChan s c { .. added := false }) c` -/
def channelRemove : List Skel :=
  [ .act (.assertion "isNoneEvent()"),
    .act (.assign "addedToLoop_" "false"),
    .act (.loop .removeChannel "this") ]

/-- `Poller.dispatch`: `handleEvent { s with cur := some c } c` - A1: the model's channels are not tied, it implements
the else-branch -/
def channelHandleEvent : List Skel :=
  [ .ite "tied_"
      [ .act (.assign "guard" "tie_.lock()"),
        .ite "guard" [.act (.call "handleEventWithGuard" "receiveTime")] [] ]
      [ .act (.call "handleEventWithGuard" "receiveTime") ] ]

/-- `Poller.handleEvent` = `stage .write (stage .read (stage .error (stage .close s c) c) c) c`; `stage k`: `if disp k
revents ∧ subscribed k events then fire s c k` - the outer test of `revents_` (`disp`: `dispClose` ..) and, inside it,
the re-test of the current interest (`subscribed`: `guardClose` ..), no `else` on either -/
def channelHandleEventWithGuard : List Skel :=
  [ .ite "dispClose" [.ite "guardClose" [.act (.cb .close)] []] [],
    .ite "dispError" [.ite "guardError" [.act (.cb .error)] []] [],
    .ite "dispRead" [.ite "guardRead" [.act (.cb .read)] []] [],
    .ite "dispWrite" [.ite "guardWrite" [.act (.cb .write)] []] [] ]

/-! ### EventLoop.cc -/

/-- `Poller.iter`: `pollerPoll s ready nret` (starting from an empty list: `clear`, then `poller_->poll` with
`kPollTimeMs`); `{ s1 with iteration := s1.iteration + 1, active := act, handling := true }`; `dispatch`: `act.foldl (fun s
c => handleEvent { s with cur := some c } c)`; `{ s2 with cur := none, handling := false }`.  A4: `doPendingFunctors()`
is where `Poller.run` applies the `In.op`s that follow - after `handling := false` -/
def loopIteration : List Skel :=
  [ .act (.vec "activeChannels_" .clear ""),
    .act (.poller .poll "kPollTimeMs, &activeChannels_"),
    .act (.assign "iteration_" "++iteration_"),
    .act (.assign "eventHandling_" "true"),
    .each "channel" "activeChannels_"
      [ .act (.assign "currentActiveChannel_" "channel"),
        .act (.chan "currentActiveChannel_" .handleEvent "pollReturnTime_") ],
    .act (.assign "currentActiveChannel_" "nullptr"),
    .act (.assign "eventHandling_" "false"),
    .act (.call "doPendingFunctors" "") ]

/-- `Poller.updateChannel`: `match s.be with | .poll => pollUpdate s c | .epoll => epollUpdate s c` - the virtual call -/
def loopUpdateChannel : List Skel :=
  [ .act (.poller .updateChannel "channel") ]

/-- `Poller.removeOk`'s third conjunct `s.handling = true → s.cur = some c ∨ c ∉ s.active` (A3), then
`Poller.removeChannel`: `match s.be with | .poll => pollRemove s c | .epoll => epollRemove s c` -/
def loopRemoveChannel : List Skel :=
  [ .ite "eventHandling_"
      [ .act (.assertion "currentActiveChannel_ == channel || std::find(activeChannels_.begin(), activeChannels_.end(), channel) == activeChannels_.end()") ]
      [],
    .act (.poller .removeChannel "channel") ]

/-- the model has no operation of its own for it: `Poller::hasChannel` is the value `s.cmap (fdOf c) = some c` the
assertions test -/
def loopHasChannel : List Skel :=
  [ .act (.poller .hasChannel "channel"),
    .act .ret ]

end Decl
end MuduoVerif.PollerSkel
