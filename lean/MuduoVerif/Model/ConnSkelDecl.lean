import MuduoVerif.Generated.Conn
/-!
# Statement skeletons of the connection engine: vocabulary and the skeletons the model implements

`Model/Conn.lean` takes every branch guard and hand-off kind from `Generated/Conn.lean`; the ORDER and
NESTING of the statements inside each member function is hand-written there.  This file states, function by
function, the skeleton that the model's definition implements (`Decl.*`, written by reading `Model/Conn.lean`,
each with a pointer to the model definition).  `vlib/gen/connskel.py` extracts the skeleton of the same
functions from /repo's current sources (`Generated/ConnSkel.lean`, in the vocabulary below), and
`Proofs/ConnSkelTie.lean` proves the two equal by `decide`.  A source change that merges two independent
`if`s into `if / else if`, moves a callback before a channel update, swaps two callbacks, adds or drops a
statement in one of these functions changes the extracted skeleton and breaks that proof.

An `ite` is named after the generated guard (`Gen.Conn.<name>`) the model branches on at that point.
Core Lean only.
-/
namespace MuduoVerif.ConnSkel
open MuduoVerif.Gen.Conn

/-- `channel_->op()` -/
inductive ChanOp | enableReading | disableReading | enableWriting | disableWriting | disableAll | remove | tie
deriving DecidableEq, Repr

/-- which callback is invoked (directly): the user's callbacks of `TcpConnection` (`connection`, `message`,
`writeComplete`, `highWater`), the owner's `closeCallback_` (`close`), and the four callbacks of `Channel`
(`read`, `write`, `error`, `closeEvent`) -/
inductive CbKind | connection | message | writeComplete | highWater | close | read | write | error | closeEvent
deriving DecidableEq, Repr

inductive SysOp | write | readFd | shutdownWrite | getSocketError | setTcpNoDelay
deriving DecidableEq, Repr

inductive BufKind | append | retrieve | retrieveAll
deriving DecidableEq, Repr

/-- one significant action; strings are canonical prints of source expressions (casts dropped, `->` as `.`) -/
inductive Act
  | setState (s : StateE)                                -- `setState(s)`, or the store of a compare-and-swap gate
  | chan (op : ChanOp)
  | cb (which : CbKind)                                  -- `xxxCallback_(..)`
  | queue (what : String)                                -- `loop_->queueInLoop(functor running what)`
  | run (what : String)                                  -- `loop_->runInLoop(..)`
  | timer (delay : String) (what : String)               -- `loop_->runAfter(delay, ..)`
  | call (fn : String)                                   -- direct call of another member function
  | sys (op : SysOp) (args : String)
  | bufOp (op : BufKind) (buf : String) (args : String)
  | assign (var : String) (value : String)               -- store to a member, or to a local that feeds a guard
  | assertion (text : String)                            -- `assert(..)` over members
  | lockWeak (weak : String) (into : String)             -- `shared_ptr into(weak.lock())`: a trampoline pins the object
  | invoke (fn : String) (args : String)                 -- `fn(args)`: a function object that is a parameter / member of a trampoline
  | ret
deriving DecidableEq, Repr

/-- a statement: an action, or `if (guard) { thn } else { els }` -/
inductive Skel
  | act (a : Act)
  | ite (guard : String) (thn els : List Skel)
deriving Repr

/-! `deriving DecidableEq` does not handle the nesting through `List`; the instance is written out
(structural recursion, so `decide` evaluates it in the kernel). -/
mutual
def Skel.decEq : (x y : Skel) → Decidable (x = y)
  | .act a, .act a' => if h : a = a' then isTrue (by rw [h]) else isFalse (by intro e; cases e; exact h rfl)
  | .act _, .ite .. => isFalse (by intro e; cases e)
  | .ite .., .act _ => isFalse (by intro e; cases e)
  | .ite g t e, .ite g' t' e' =>
    if hg : g = g' then
      match Skel.decEqL t t' with
      | isTrue ht =>
        match Skel.decEqL e e' with
        | isTrue he => isTrue (by rw [hg, ht, he])
        | isFalse he => isFalse (by intro q; cases q; exact he rfl)
      | isFalse ht => isFalse (by intro q; cases q; exact ht rfl)
    else isFalse (by intro q; cases q; exact hg rfl)
def Skel.decEqL : (x y : List Skel) → Decidable (x = y)
  | [], [] => isTrue rfl
  | [], _ :: _ => isFalse (by intro e; cases e)
  | _ :: _, [] => isFalse (by intro e; cases e)
  | a :: as, b :: bs =>
    match Skel.decEq a b with
    | isTrue h =>
      match Skel.decEqL as bs with
      | isTrue h' => isTrue (by rw [h, h'])
      | isFalse h' => isFalse (by intro q; cases q; exact h' rfl)
    | isFalse h => isFalse (by intro q; cases q; exact h rfl)
end
instance : DecidableEq Skel := Skel.decEq
instance : DecidableEq (List Skel) := Skel.decEqL

/-! ## The skeleton each model function implements

Conventions of the reading.  A state store is `{ c with st := s }`; `enableReading c` … `disableAll c` are the
channel operations; `callback c k _` runs a user callback; `enqueue c t` is `queueInLoop`; `handOff c foreign d t f`
is `runInLoop`/`queueInLoop` according to the generated `d`; `emit .. (.sysWrite ..)`/`popWrite` is the `write`
system call and its scripted result; `outBuf ++ ..` / `outBuf.drop ..` are `Buffer::append` / `Buffer::retrieve`
(the model's buffers are lists: the operations are list splices).  `if g .. then A else B` on a generated guard
`g` is `ite "g" A B`; a `match` on the result of a system call stands for the `if` chain over the guards
extracted from those tests (`directWriteOk`, `handleWriteTook`, `readGotData`, `readGotEof`). -/
namespace Decl

/-- `Conn.sendInLoop`, `Conn.sendDirect`, `Conn.queueRemainder`.
`sendInLoop`: `if sendGivesUp .. then <note> else if directWrite .. then sendDirect <popWrite, sysWrite> else
queueRemainder .. data 0 false` - the early `return` is the `else`; the initial `nwrote = 0`, `remaining = len`,
`faultError = false` are the arguments `0`, `data.length - 0`, `false` of that last call.
`sendDirect`: `.took n` (= `directWriteOk`): `remaining := data.length - n`, `if sendWholeWC .. then enqueue
.writeComplete`; `.err e`: `queueRemainder c data 0 (writeErrLogged e && writeErrFatal e)` - `nwrote = 0` and the
fatal test nested in the logged test (a conjunction).
`queueRemainder`: `if queueRest .. then (if hwmCross c.outBuf.length .. then enqueue (.highWater (oldLen + remaining)));
outBuf := outBuf ++ data.drop nwrote; if sendEnablesWriting .. then enableWriting`. -/
def sendInLoop : List Skel :=
  [ .act (.assign "nwrote" "0"),
    .act (.assign "remaining" "len"),
    .act (.assign "faultError" "false"),
    .ite "sendGivesUp" [.act .ret] [],
    .ite "directWrite"
      [ .act (.sys .write "channel_.fd(), data, len"),
        .ite "directWriteOk"
          [ .act (.assign "remaining" "len - nwrote"),
            .ite "sendWholeWC" [.act (.queue "notifyWriteComplete(writeCompleteCallback_)")] [] ]
          [ .act (.assign "nwrote" "0"),
            .ite "writeErrLogged" [.ite "writeErrFatal" [.act (.assign "faultError" "true")] []] [] ] ]
      [],
    .ite "queueRest"
      [ .act (.assign "oldLen" "outputBuffer_.readableBytes()"),
        .ite "hwmCross" [.act (.queue "notifyHighWaterMark(highWaterMarkCallback_, oldLen + remaining)")] [],
        .act (.bufOp .append "outputBuffer_" "data + nwrote, remaining"),
        .ite "sendEnablesWriting" [.act (.chan .enableWriting)] [] ]
      [] ]

/-- `Conn.act _ .shutdown`: `if shutdownAccepts c.st then handOff { c with st := .kDisconnecting } .. shutdownDispatch
.shutdownInLoop ..`; `shutdownDispatch = .queue` (`Generated/Conn.lean`), the store is the one of the
compare-and-swap (`gateAtomic`) -/
def shutdown : List Skel :=
  [ .ite "shutdownAccepts" [.act (.setState .kDisconnecting), .act (.queue "shutdownInLoop")] [] ]

/-- `Conn.shutdownInLoop`: `if shutdownNow .. then emit { c with shutWr := true } .sysShutdownWr else c` -/
def shutdownInLoop : List Skel :=
  [ .ite "shutdownNow" [.act (.sys .shutdownWrite "")] [] ]

/-- `Conn.act _ .forceClose`: `if forceCloseAccepts c.st then handOff { c with st := .kDisconnecting } ..
forceCloseDispatch .forceCloseInLoop ..` with `forceCloseDispatch = .queue` -/
def forceClose : List Skel :=
  [ .ite "forceCloseAccepts" [.act (.setState .kDisconnecting), .act (.queue "forceCloseInLoop")] [] ]

/-- `Conn.act _ (.forceCloseDelay us)`: `if forceCloseDelayAccepts c.st then` store `.kDisconnecting` and add a timer
at `now + us` (directly, or through `.addDelayTimer` from another thread: `runAfter`); `Conn.fireDelay` runs
`actLoop c .forceClose` when it fires -/
def forceCloseWithDelay : List Skel :=
  [ .ite "forceCloseDelayAccepts" [.act (.setState .kDisconnecting), .act (.timer "seconds" "forceClose")] [] ]

/-- `Conn.runTask _ .forceCloseInLoop`: `if forceCloseInLoopActs c.st then handleClose c else c` -/
def forceCloseInLoop : List Skel :=
  [ .ite "forceCloseInLoopActs" [.act (.call "handleClose")] [] ]

/-- `Conn.startReadInLoop`: `if startReadActs .. then { enableReading c with reading := true } else c` -/
def startReadInLoop : List Skel :=
  [ .ite "startReadActs" [.act (.chan .enableReading), .act (.assign "reading_" "true")] [] ]

/-- `Conn.stopReadInLoop`: `if stopReadActs .. then { disableReading c with reading := false } else c` -/
def stopReadInLoop : List Skel :=
  [ .ite "stopReadActs" [.act (.chan .disableReading), .act (.assign "reading_" "false")] [] ]

/-- `Conn.connectEstablished`: `if c.asserts && c.st ≠ .kConnecting then <abort "state_ == kConnecting"> else
callback (enableReading { c with st := .kConnected }) .up .up`.  `channel_->tie(..)`: the model's channel is always
tied (`Conn.handleEvent`: `if !c.alive then c`). -/
def connectEstablished : List Skel :=
  [ .act (.assertion "state_ == kConnecting"),
    .act (.setState .kConnected),
    .act (.chan .tie),
    .act (.chan .enableReading),
    .act (.cb .connection) ]

/-- `Conn.connectDestroyed`: `if destroyedWhileConnected c.st then removeChannel (callback (disableAll { c with st :=
.kDisconnected }) .down .down) else removeChannel c` -/
def connectDestroyed : List Skel :=
  [ .ite "destroyedWhileConnected"
      [.act (.setState .kDisconnected), .act (.chan .disableAll), .act (.cb .connection)] [],
    .act (.chan .remove) ]

/-- `Conn.handleRead`, `Conn.handleReadRes`: `popRead`/`.sysReadv` is `inputBuffer_.readFd` (`deliver` appends what
was read); `.got (n+1)`: message callback (`consume` is what the user's callback retrieves); `.got 0`: `handleClose`;
`.err _ => c`: `handleError`, which does not change the model's state (see `handleError`) -/
def handleRead : List Skel :=
  [ .act (.sys .readFd "inputBuffer_: channel_.fd(), &savedErrno"),
    .ite "readGotData" [.act (.cb .message)]
      [.ite "readGotEof" [.act (.call "handleClose")] [.act (.call "handleError")]] ]

/-- `Conn.handleWrite`, `Conn.handleWriteRes`, `Conn.afterDrain`: `if handleWriteActs .. then <popWrite, sysWrite
c.outBuf.length>`; `.took (n+1)` (= `handleWriteTook`): `outBuf := outBuf.drop (n+1)`; `if drained .. then afterDrain`;
`afterDrain`: `disableWriting`; `if drainWC .. then enqueue .writeComplete`; (independently) `if drainShutdown ..
then handOff .. drainShutdownDispatch .drainShutdownInLoop ..` with `drainShutdownDispatch = .queue` -/
def handleWrite : List Skel :=
  [ .ite "handleWriteActs"
      [ .act (.sys .write "channel_.fd(), outputBuffer_.peek(), outputBuffer_.readableBytes()"),
        .ite "handleWriteTook"
          [ .act (.bufOp .retrieve "outputBuffer_" "n"),
            .ite "drained"
              [ .act (.chan .disableWriting),
                .ite "drainWC" [.act (.queue "notifyWriteComplete(writeCompleteCallback_)")] [],
                .ite "drainShutdown" [.act (.queue "shutdownInLoop")] [] ]
              [] ]
          [] ]
      [] ]

/-- `Conn.handleClose`: `if c.asserts && !handleCloseOk c then <abort handleCloseAssertText> else .. emit (callback
(disableAll { c with st := .kDisconnected }) .down .down) .closeCb ..` (what follows is the owner's close callback:
`owner := false`, `enqueue .connectDestroyed`) -/
def handleClose : List Skel :=
  [ .act (.assertion "state_ == kConnected || state_ == kDisconnecting"),
    .act (.setState .kDisconnected),
    .act (.chan .disableAll),
    .act (.cb .connection),
    .act (.cb .close) ]

/-- `handleError` only reads `SO_ERROR` for the log line: no model state depends on it (`Conn.handleReadRes`:
`.err _ => c`; `Conn.handleEvent` has no error branch) -/
def handleError : List Skel :=
  [ .act (.sys .getSocketError "channel_.fd()") ]

/-- `Conn.handleEvent`, `Conn.guarded`: close, then (error: `handleError`, no effect on the model) read, then write;
each callback under the reported condition `disp*` and, inside it, the channel's current interest `disp*Sub` -/
def handleEventWithGuard : List Skel :=
  [ .ite "dispClose" [.ite "dispCloseSub" [.act (.cb .closeEvent)] []] [],
    .ite "dispError" [.ite "dispErrorSub" [.act (.cb .error)] []] [],
    .ite "dispRead" [.ite "dispReadSub" [.act (.cb .read)] []] [],
    .ite "dispWrite" [.ite "dispWriteSub" [.act (.cb .write)] []] [] ]

/-! ### the remaining public entry points and forwarders -/

/-- `Conn.act c foreign .startRead = handOff c foreign startReadDispatch .startReadInLoop startReadInLoop`: the request
is handed to the loop UNCONDITIONALLY (inline on the loop thread, queued from any other) - nothing is tested in the
calling thread; whether anything is to be done is decided by `startReadInLoop` (`startReadActs`), on the loop thread,
where `reading` is current.  (A test of `reading_` in front of the hand-off reads a value that does not yet reflect
the requests still queued: `stopRead(); startRead();` from another thread would drop the resume.) -/
def startRead : List Skel := [ .act (.run "startReadInLoop") ]

/-- `Conn.act c foreign .stopRead = handOff c foreign stopReadDispatch .stopReadInLoop stopReadInLoop`: as `startRead` -/
def stopRead : List Skel := [ .act (.run "stopReadInLoop") ]

/-- `Conn.act c foreign (.send d)`: `if sendAcceptsPiece c.st then (if foreign then enqueue .. (.sendInLoop d) else
sendInLoop .. d false) else c`: the state test, then the explicit `isInLoopThread()` test; from another thread a
COPY of the bytes (`as_string()`) travels with the functor -/
def sendPiece : List Skel :=
  [ .ite "sendAcceptsPiece"
      [ .ite "loop_.isInLoopThread()" [.act (.call "sendInLoop")] [.act (.run "sendInLoop(message.as_string())")] ]
      [] ]

/-- the same for `send(Buffer*)` (`C01.overloads_agree`: `sendAcceptsBuf = sendAcceptsPiece`, same dispatch and hold);
the caller's buffer is emptied in both branches - after the call on the loop thread, into the functor's copy otherwise -/
def sendBuf : List Skel :=
  [ .ite "sendAcceptsBuf"
      [ .ite "loop_.isInLoopThread()"
          [.act (.call "sendInLoop"), .act (.bufOp .retrieveAll "buf" "")]
          [.act (.run "sendInLoop(buf.retrieveAllAsString())")] ]
      [] ]

/-- `send(const void*, int)` forwards to `send(StringPiece)`; `sendInLoop(StringPiece)` forwards to
`sendInLoop(const void*, size_t)`: the model has one `Act.send` / one `Conn.sendInLoop` for all of them -/
def sendPtr : List Skel := [ .act (.call "send") ]
def sendInLoopPiece : List Skel := [ .act (.call "sendInLoop") ]

/-- a socket option: no state of the model depends on it (the model has no operation for it) -/
def setTcpNoDelay : List Skel := [ .act (.sys .setTcpNoDelay "on") ]

/-! ### the trampolines that run the connection's weak functors, and the default callbacks

`Conn.runTask` starts with `if !c.alive && !t.strong then .. if t.hold = .weak then c else <uaf>`: a functor that
holds a weak reference and finds the object gone does NOTHING, and one that finds it alive runs with the object
pinned for the duration of the call.  In the source that is the trampoline the functor runs: lock the weak pointer,
test the result, call with the locked pointer - and nothing before, after or in an `else`. -/

/-- `Conn.runTask _ (.writeComplete b)`: object gone (`!c.alive`, the functor's hold is `wcHold = .weak`): `c`;
otherwise `callback c .wc (.wc ..)`, the user's callback with the connection as its argument -/
def notifyWriteComplete : List Skel :=
  [ .act (.lockWeak "weak" "conn"),
    .ite "conn" [.act (.invoke "cb" "conn")] [] ]

/-- `Conn.runTask _ (.highWater b n)`: the same with `hwmHold`; the callback gets the connection and the backlog `n`
that was bound when the notification was scheduled -/
def notifyHighWaterMark : List Skel :=
  [ .act (.lockWeak "weak" "conn"),
    .ite "conn" [.act (.invoke "cb" "conn, len")] [] ]

/-- `Conn.runTask` for the functors made by `makeWeakCallback` (`.sendInLoop`, `.shutdownInLoop`,
`.drainShutdownInLoop`, `.startReadInLoop`, `.stopReadInLoop`: hold `.weak`) and `Conn.fireDelay` (`if c.alive then
actLoop c .forceClose else if forceCloseDelayHold.. = .weak then c`): the member function runs on the locked object
with the bound arguments, or nothing happens -/
def weakCallbackCall : List Skel :=
  [ .act (.lockWeak "object_" "ptr"),
    .ite "ptr" [.act (.invoke "function_" "ptr.get(), args...")] [] ]

/-- `Conn.callback c .up/.down _` with no hook: the event is recorded (`emit`) and nothing is done to the connection
(in particular no `forceClose()`): the default connection callback only logs -/
def defaultConnectionCallback : List Skel := []

/-- `Conn.consume` with the default `retrieveMax := 1 <<< 40` (`inBuf.drop retrieveMax = []`): a message callback that
does not look at the data drops ALL of it - what `defaultMessageCallback` does when the user installs none -/
def defaultMessageCallback : List Skel :=
  [ .act (.bufOp .retrieveAll "buf" "") ]

end Decl
end MuduoVerif.ConnSkel
