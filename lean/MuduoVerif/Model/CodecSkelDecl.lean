/-!
# Statement skeletons of the codec engine: vocabulary and the skeletons the model implements

`Model/Codec.lean` takes every constant, guard, offset and the decision tree of each `parse` from
`Generated/Codec.lean`; the ORDER and NESTING of the statements inside each function - what is appended to the buffer
in which order, when the frame is retrieved, which branch leaves the decoder loop and which goes round again, where
the raw callback is asked - is hand-written there.  This file states, function by function, the skeleton that the
model's definition implements (`Decl.*`, written by reading `Model/Codec.lean` and `Model/Stream.lean`, each with a
pointer to the model definition it mirrors).  `vlib/gen/codecskel.py` extracts the skeleton of the same functions from
/repo's current `muduo/net/protobuf/ProtobufCodecLite.cc` and `examples/protobuf/codec/codec.cc`
(`Generated/CodecSkel.lean`, in the vocabulary below) and `Proofs/CodecSkelTie.lean` proves the two equal by `decide`.
A source change that swaps two statements, moves a call into or out of an `if`, merges two `if`s into `if / else if`,
drops an `else` or a `break`, duplicates or drops a statement in one of these functions changes the extracted
skeleton and breaks that proof.

An `ite` / `loop` is named after the generated definition (`Gen.Codec.<name>` / `Gen.ExCodec.<name>`) the model
branches on at that point (`headerAvailable`, `lenOutOfRange`, `frameAvailable`; `checksumOk`, `tagOk`, `nameLenOk`,
`typeKnown`, `payloadOk` are the inputs of the generated `parseDecision`); a condition without a generated definition
is printed.  Expressions are canonical prints of the source expressions (casts dropped, `->` as `.`, minimal
parentheses).  The actions an expression performs precede the action that uses its value; the calls a condition
performs precede its `ite`.  Core Lean only; imports nothing.

Classes of statements that are NOT part of a skeleton (the generator ignores exactly these):
* I1 protobuf's own debug check `GOOGLE_DCHECK(message.IsInitialized()) << ..` - protobuf is not modelled (whether a
  payload parses is the parameter `parsePayload`, the serialised message is the parameter `payload` of `encode`);
* I2 casts of every kind, parentheses, temporaries - the model computes over `Nat` / `Int` / byte lists;
* I3 declarations of locals without an initialiser, default-constructed smart pointers and strings (`MessagePtr message;`);
* I4 `MUDUO_VERIF_POINT` and empty statements.

Where the model ABSTRACTS from something the code does, the code's action is declared (so that moving it is noticed)
and the function's comment says what the model has in its place:
* the `google::protobuf::Message` object (`prototype_->New()`, `createMessage`, `message.get()`): the model hands the
  payload bytes over, the verdicts of protobuf (`ParseFromArray`, descriptor / prototype look-up) are the parameters
  `parsePayload`, `typeKnown`; serialisation (`ByteSizeLong`, `ensureWritableBytes`, `SerializeWithCachedSizesToArray`,
  the consistency check, `hasWritten`) is "append the parameter `payload`";
* the two `assert`s of `fillEmptyBuffer`: the first is the precondition "`buf` is empty" (`encode` builds the frame
  from nothing), the second holds by construction (`(tag ++ payload ++ checksum).length`);
* `memcpy` + `networkToHost32` is `toSigned 32 (decodeBE ..)`; zlib's `adler32` is the hand-written `Codec.adler32`
  (cross-checked by the differential run on every generated frame).
-/
namespace MuduoVerif.CodecSkel

/-- mutating operations of `muduo::net::Buffer` -/
inductive BufOp | append | appendInt32 | prepend | retrieve | ensureWritableBytes | hasWritten
deriving DecidableEq, Repr

/-- `messageCallback_`, `errorCallback_`, `rawCb_` -/
inductive CbKind | message | error | raw
deriving DecidableEq, Repr

/-- one significant action; strings are canonical prints of source expressions -/
inductive Act
  | assign (var : String) (value : String)          -- a store (initialised local, assignment, `p.reset(v)`); `<result>` = result of the action before
  | call (fn : String) (args : String)              -- another function of the codec (member, static member, the free `asInt32`)
  | lib (fn : String) (args : String)               -- `adler32`, `memcmp`, `memcpy`, `ByteSizeConsistencyError`
  | pb (obj : String) (fn : String) (args : String) -- a protobuf call on a message / descriptor pool / message factory
  | alloc (what : String)                           -- `prototype->New()`
  | bufOp (op : BufOp) (buf : String) (args : String)
  | cb (which : CbKind) (args : String)             -- `xxxCallback_(..)`
  | connSend (args : String)                        -- `conn->send(..)`
  | assertion (cond : String)                       -- `assert(cond)`
  | ret (value : String)                            -- `return value`
  | brk                                             -- `break`
  | cont                                            -- `continue`
deriving DecidableEq, Repr

/-- a statement: an action, `if (guard) { thn } else { els }`, or `while (guard) { body }` -/
inductive Skel
  | act (a : Act)
  | ite (guard : String) (thn els : List Skel)
  | loop (guard : String) (body : List Skel)
deriving Repr

/-! `deriving DecidableEq` does not handle the nesting through `List`; the instance is written out
(structural recursion, so `decide` evaluates it in the kernel). -/
mutual
def Skel.decEq : (x y : Skel) → Decidable (x = y)
  | .act a, .act a' => if h : a = a' then isTrue (by rw [h]) else isFalse (by intro e; cases e; exact h rfl)
  | .act _, .ite .. => isFalse (by intro e; cases e)
  | .act _, .loop .. => isFalse (by intro e; cases e)
  | .ite .., .act _ => isFalse (by intro e; cases e)
  | .ite .., .loop .. => isFalse (by intro e; cases e)
  | .loop .., .act _ => isFalse (by intro e; cases e)
  | .loop .., .ite .. => isFalse (by intro e; cases e)
  | .ite g t e, .ite g' t' e' =>
    if hg : g = g' then
      match Skel.decEqL t t' with
      | isTrue ht =>
        match Skel.decEqL e e' with
        | isTrue he => isTrue (by rw [hg, ht, he])
        | isFalse he => isFalse (by intro q; cases q; exact he rfl)
      | isFalse ht => isFalse (by intro q; cases q; exact ht rfl)
    else isFalse (by intro q; cases q; exact hg rfl)
  | .loop g b, .loop g' b' =>
    if hg : g = g' then
      match Skel.decEqL b b' with
      | isTrue hb => isTrue (by rw [hg, hb])
      | isFalse hb => isFalse (by intro q; cases q; exact hb rfl)
    else isFalse (by intro q; cases q; exact hg rfl)
def Skel.decEqL : (x y : List Skel) → Decidable (x = y)
  | [], [] => isTrue rfl
  | [], _ :: _ => isFalse (by intro e; cases e)
  | _ :: _, [] => isFalse (by intro e; cases e)
  | a :: as, b :: bs =>
    match Skel.decEq a b with
    | isTrue h =>
      match Skel.decEqL as bs with
      | isTrue h' => isTrue (by rw [h, h'])
      | isFalse h' => isFalse (by intro q; cases q; exact h' rfl)
    | isFalse h => isFalse (by intro q; cases q; exact h rfl)
end
instance : DecidableEq Skel := Skel.decEq
instance : DecidableEq (List Skel) := Skel.decEqL

/-! ## The skeleton each model function implements

Conventions of the reading.
* The decoder loop.  `Stream.loop step` (`Model/Stream.lean`) is the `while`: `drain` runs it on the buffer.  The
  `loop` node's guard is the outermost test of `Codec.step` (`if headerAvailable .. then .. else .need`: the loop is
  left when the guard fails); inside the body `.need` is `break`, `.fail e` is "error callback with `e`, then `break`"
  (`loop`: `.fail e => { .. dead := true, evs := [e] }` - nothing consumed, the loop is left), `.adv () evs k` is "the
  callbacks `evs`, then `retrieve(k)`, then round again" (`loop`: `.adv s' evs k => (loop step n s' (buf.drop k)).pre
  evs`) - by falling off the end of the body, or by `continue` where statements follow in the body.
* `asInt32 buf 0` read from the front of the buffer is `buf->peekInt32()`; `buf.length` is `readableBytes()`.
* `slice buf frameOffset (frameLen len)` is the pointer / length pair `buf->peek()+kHeaderLen, len` handed to `parse`.
* List concatenation in `encode` is the sequence of `append` operations, left to right; the outer
  `intBytes 4 (..).length ++ ..` is the final `prepend` of the length of what is readable then.
* `if g .. then A else B` on a generated guard `g` is `ite "g" A B`; `parseDecision a b c` applied to the three
  (four) verdicts is the nest of `ite`s over those verdicts in the order `Generated/Codec.lean` records - the model
  computes all verdicts (they are pure), the code computes a verdict only when the earlier ones are true: each
  verdict's computation is declared in front of its `ite`. -/
namespace Decl

/-! ### `muduo::net::ProtobufCodecLite` -/

/-- `Codec.encode` is the content of the buffer that `send` hands to the connection: a fresh (empty) `Buffer`,
`fillEmptyBuffer`, `conn->send`.  (The model has no connection: the driver compares the frame.) -/
def send : List Skel :=
  [ .act (.assign "buf" "Buffer()"),
    .act (.call "fillEmptyBuffer" "&buf, message"),
    .act (.connSend "&buf") ]

/-- `Codec.encode c payload = intBytes 4 (c.tag ++ payload ++ ck).length ++ (c.tag ++ payload ++ ck)` with
`ck = intBytes 4 (checksum32 adlerInit (c.tag ++ payload))`: the tag, then the serialised message (`payload`:
`serializeToBuffer`), then the checksum OF WHAT IS READABLE THEN (tag and payload), then - prepended - the length of
what is readable then (tag, payload and checksum), big-endian (`hostToNetwork32`, `intBytes`). -/
def fillEmptyBuffer : List Skel :=
  [ .act (.assertion "buf.readableBytes() == 0"),
    .act (.bufOp .append "buf" "tag_"),
    .act (.call "serializeToBuffer" "message, buf"),
    .act (.assign "byte_size" "<result>"),
    .act (.call "checksum" "buf.peek(), buf.readableBytes()"),
    .act (.assign "checkSum" "<result>"),
    .act (.bufOp .appendInt32 "buf" "checkSum"),
    .act (.assertion "buf.readableBytes() == tag_.size() + byte_size + kChecksumLen"),
    .act (.assign "len" "hostToNetwork32(buf.readableBytes())"),
    .act (.bufOp .prepend "buf" "&len, sizeof(len)") ]

/-- `Codec.step` under `Stream.loop` (= `Codec.onMessage`, `Codec.feed`): mirrors the recursion
`Stream.loop (Codec.step c)`.  `step`: `if headerAvailable .. then (if lenOutOfRange .. then .fail (.err lengthError)
else if frameAvailable .. then (if c.rawSkip <the frame, header included> then .adv () [] consumed else match parse ..
with | .kNoError => .adv () [.msg ..] consumed | e => .fail (.err e)) else .need) else .need`.
`c.rawSkip frame` is the whole condition `rawCb_ && !rawCb_(..)` (default `fun _ => false`: no raw callback); the call
it performs is declared in front of it.  `prototype_->New()` / `message.get()`: the message object protobuf parses
into - the model delivers the payload bytes (`.msg (payloadOf ..)`). -/
def onMessage : List Skel :=
  [ .loop "headerAvailable"
      [ .act (.assign "len" "buf.peekInt32()"),
        .ite "lenOutOfRange"
          [ .act (.cb .error "conn, buf, receiveTime, kInvalidLength"),
            .act .brk ]
          [ .ite "frameAvailable"
              [ .act (.cb .raw "conn, StringPiece(buf.peek(), kHeaderLen + len), receiveTime"),
                .ite "rawCb_ && !rawCb_(conn, StringPiece(buf.peek(), kHeaderLen + len), receiveTime)"
                  [ .act (.bufOp .retrieve "buf" "kHeaderLen + len"),
                    .act .cont ]
                  [],
                .act (.alloc "prototype_.New()"),
                .act (.assign "message" "<result>"),
                .act (.call "parse" "buf.peek() + kHeaderLen, len, message.get()"),
                .act (.assign "errorCode" "<result>"),
                .ite "errorCode == kNoError"
                  [ .act (.cb .message "conn, message, receiveTime"),
                    .act (.bufOp .retrieve "buf" "kHeaderLen + len") ]
                  [ .act (.cb .error "conn, buf, receiveTime, errorCode"),
                    .act .brk ] ]
              [ .act .brk ] ] ] ]

/-- `Cfg.parsePayload`: protobuf's verdict on the payload bytes (a parameter of the model; the driver records the
real verdicts and feeds them to the model) -/
def parseFromBuffer : List Skel :=
  [ .act (.pb "message" "ParseFromArray" "buf.data(), buf.size()"),
    .act (.ret "<result>") ]

/-- the `payload` argument of `Codec.encode`, appended behind the tag: room for it (`ensureWritableBytes`), the bytes
written at `beginWrite()`, `hasWritten(byte_size)`; returns its length.  `ByteSizeLong` must precede
`SerializeWithCachedSizesToArray` (it caches the sizes); the consistency check is protobuf's own. -/
def serializeToBuffer : List Skel :=
  [ .act (.pb "message" "ByteSizeLong" ""),
    .act (.assign "byte_size" "ToIntSize(message.ByteSizeLong())"),
    .act (.bufOp .ensureWritableBytes "buf" "byte_size + kChecksumLen"),
    .act (.assign "start" "buf.beginWrite()"),
    .act (.pb "message" "SerializeWithCachedSizesToArray" "start"),
    .act (.assign "end" "<result>"),
    .ite "end - start != byte_size"
      [ .act (.pb "message" "ByteSizeLong" ""),
        .act (.lib "ByteSizeConsistencyError" "byte_size, ToIntSize(message.ByteSizeLong()), end - start") ]
      [],
    .act (.bufOp .hasWritten "buf" "byte_size"),
    .act (.ret "byte_size") ]

/-- `Codec.asInt32 bs off = toSigned 32 (decodeBE (slice bs off 4))`: four bytes copied, read big-endian, signed -/
def asInt32 : List Skel :=
  [ .act (.assign "be32" "0"),
    .act (.lib "memcpy" "&be32, buf, sizeof(be32)"),
    .act (.ret "networkToHost32(be32)") ]

/-- `Codec.checksum32 adlerInit bs = toSigned 32 (adler32 adlerInit bs)` (`adlerInit = 1` is generated) -/
def checksum : List Skel :=
  [ .act (.lib "adler32" "1, buf, len"),
    .act (.ret "<result>") ]

/-- `Codec.validateChecksum body = (checksum32 adlerInit (slice body checksumFrom (checksumLen ..)) == asInt32 body
(checksumAt ..))`: the stored value (`asInt32`), the computed value (`checksum`), their comparison; both pure -/
def validateChecksum : List Skel :=
  [ .act (.call "asInt32" "buf + len - kChecksumLen"),
    .act (.assign "expectedCheckSum" "<result>"),
    .act (.call "checksum" "buf, len - kChecksumLen"),
    .act (.assign "checkSum" "<result>"),
    .act (.ret "checkSum == expectedCheckSum") ]

/-- `Codec.parse c body = parseDecision (validateChecksum body) (tagMatches c body) (c.parsePayload (payloadOf c body))`
with the generated `parseDecision checksumOk tagOk payloadOk = if checksumOk then (if tagOk then (if payloadOk then
.kNoError else .kParseError) else .kUnknownMessageType) else .kCheckSumError`; `tagMatches` is the `memcmp`,
`payloadOf` is `data` / `dataLen` -/
def parse : List Skel :=
  [ .act (.assign "error" "kNoError"),
    .act (.call "validateChecksum" "buf, len"),
    .ite "checksumOk"
      [ .act (.lib "memcmp" "buf, tag_.data(), tag_.size()"),
        .ite "tagOk"
          [ .act (.assign "data" "buf + tag_.size()"),
            .act (.assign "dataLen" "len - kChecksumLen - tag_.size()"),
            .act (.call "parseFromBuffer" "StringPiece(data, dataLen), message"),
            .ite "payloadOk"
              [ .act (.assign "error" "kNoError") ]
              [ .act (.assign "error" "kParseError") ] ]
          [ .act (.assign "error" "kUnknownMessageType") ] ]
      [ .act (.assign "error" "kCheckSumError") ],
    .act (.ret "error") ]

/-! ### the example `ProtobufCodec` (examples/protobuf/codec/codec.cc) -/

/-- `Codec.Ex.encode typeName payload`: `body := intBytes 4 (typeName.length + 1) ++ (typeName ++ [0]) ++ payload`
(name length, the name with its NUL - `append(typeName.c_str(), nameLen)` -, the serialised message, inline here),
then `intBytes 4 (checksum32 adlerInit body)` - the checksum of what is readable then -, then the length of all that
prepended -/
def exFillEmptyBuffer : List Skel :=
  [ .act (.assertion "buf.readableBytes() == 0"),
    .act (.assign "typeName" "message.GetTypeName()"),
    .act (.assign "nameLen" "typeName.size() + 1"),
    .act (.bufOp .appendInt32 "buf" "nameLen"),
    .act (.bufOp .append "buf" "typeName.c_str(), nameLen"),
    .act (.pb "message" "ByteSizeLong" ""),
    .act (.assign "byte_size" "ToIntSize(message.ByteSizeLong())"),
    .act (.bufOp .ensureWritableBytes "buf" "byte_size"),
    .act (.assign "start" "buf.beginWrite()"),
    .act (.pb "message" "SerializeWithCachedSizesToArray" "start"),
    .act (.assign "end" "<result>"),
    .ite "end - start != byte_size"
      [ .act (.pb "message" "ByteSizeLong" ""),
        .act (.lib "ByteSizeConsistencyError" "byte_size, ToIntSize(message.ByteSizeLong()), end - start") ]
      [],
    .act (.bufOp .hasWritten "buf" "byte_size"),
    .act (.lib "adler32" "1, buf.peek(), buf.readableBytes()"),
    .act (.assign "checkSum" "<result>"),
    .act (.bufOp .appendInt32 "buf" "checkSum"),
    .act (.assertion "buf.readableBytes() == sizeof(nameLen) + nameLen + byte_size + sizeof(checkSum)"),
    .act (.assign "len" "hostToNetwork32(buf.readableBytes())"),
    .act (.bufOp .prepend "buf" "&len, sizeof(len)") ]

/-- `Codec.asInt32` (the free function of codec.cc; same body as `ProtobufCodecLite::asInt32`) -/
def exAsInt32 : List Skel :=
  [ .act (.assign "be32" "0"),
    .act (.lib "memcpy" "&be32, buf, sizeof(be32)"),
    .act (.ret "networkToHost32(be32)") ]

/-- `Codec.Ex.step` under `Stream.loop` (`Codec.Ex.feed`): mirrors the recursion `Stream.loop (Ex.step c)`; as
`onMessage` above without the raw callback.  `match parse .. with | .kNoError => .adv .. | e => .fail (.err e)` is the
test `errorCode == kNoError && message`: `parseDecision` yields `.kNoError` only on the branch where `typeKnown` holds,
i.e. where `message` is not null, so the second conjunct adds nothing. -/
def exOnMessage : List Skel :=
  [ .loop "headerAvailable"
      [ .act (.assign "len" "buf.peekInt32()"),
        .ite "lenOutOfRange"
          [ .act (.cb .error "conn, buf, receiveTime, kInvalidLength"),
            .act .brk ]
          [ .ite "frameAvailable"
              [ .act (.assign "errorCode" "kNoError"),
                .act (.call "parse" "buf.peek() + kHeaderLen, len, &errorCode"),
                .act (.assign "message" "<result>"),
                .ite "errorCode == kNoError && message"
                  [ .act (.cb .message "conn, message, receiveTime"),
                    .act (.bufOp .retrieve "buf" "kHeaderLen + len") ]
                  [ .act (.cb .error "conn, buf, receiveTime, errorCode"),
                    .act .brk ] ]
              [ .act .brk ] ] ] ]

/-- `Ex.Cfg.typeKnown typeName`: "`createMessage(typeName)` finds a descriptor and a prototype" - a parameter of the
model (protobuf's registry is environment): the result is non-null exactly when both look-ups succeed -/
def exCreateMessage : List Skel :=
  [ .act (.assign "message" "NULL"),
    .act (.pb "generated_pool()" "FindMessageTypeByName" "typeName"),
    .act (.assign "descriptor" "<result>"),
    .ite "descriptor"
      [ .act (.pb "generated_factory()" "GetPrototype" "descriptor"),
        .act (.assign "prototype" "<result>"),
        .ite "prototype"
          [ .act (.alloc "prototype.New()"),
            .act (.assign "message" "<result>") ]
          [] ]
      [],
    .act (.ret "message") ]

/-- `Codec.Ex.parse c body = parseDecision (validateChecksum body) (nameLenOk (nameLenOf body) body.length)
(c.typeKnown (typeNameOf body)) (c.parsePayload (typeNameOf body) (payloadOf body))` with the generated
`parseDecision checksumOk nameLenOk typeKnown payloadOk` (nested in that order; `*error` is `kNoError` on entry).
`Ex.validateChecksum` is inline here (`asInt32` of the stored value, `adler32`, comparison = `checksumOk`);
`nameLenOf` is `asInt32(buf)`, `typeNameOf` the string built from the iterator pair, `payloadOf` is `data` / `dataLen` -/
def exParse : List Skel :=
  [ .act (.call "asInt32" "buf + len - kHeaderLen"),
    .act (.assign "expectedCheckSum" "<result>"),
    .act (.lib "adler32" "1, buf, len - kHeaderLen"),
    .act (.assign "checkSum" "<result>"),
    .ite "checksumOk"
      [ .act (.call "asInt32" "buf"),
        .act (.assign "nameLen" "<result>"),
        .ite "nameLenOk"
          [ .act (.assign "typeName" "string(buf + kHeaderLen, buf + kHeaderLen + nameLen - 1)"),
            .act (.call "createMessage" "typeName"),
            .act (.assign "message" "createMessage(typeName)"),
            .ite "typeKnown"
              [ .act (.assign "data" "buf + kHeaderLen + nameLen"),
                .act (.assign "dataLen" "len - nameLen - 2 * kHeaderLen"),
                .act (.pb "message" "ParseFromArray" "data, dataLen"),
                .ite "payloadOk"
                  [ .act (.assign "*error" "kNoError") ]
                  [ .act (.assign "*error" "kParseError") ] ]
              [ .act (.assign "*error" "kUnknownMessageType") ] ]
          [ .act (.assign "*error" "kInvalidNameLen") ] ]
      [ .act (.assign "*error" "kCheckSumError") ],
    .act (.ret "message") ]

end Decl
end MuduoVerif.CodecSkel
