import MuduoVerif.Generated.LogFile
/-!
# Model of `muduo::LogFile` + `FileUtil::AppendFile` (C16, sequential half)

`LogFile` as a pure function.  Inputs: the operations (`append rec`, `flush`, `roll`), every value
returned by `time()` (a clock sequence `clk : Nat → Int`, read in call order — it need not be
monotone) and every result of `fwrite_unlocked` (count accepted + what `ferror` says afterwards).
State: `count_`, `startOfPeriod_`, `lastRoll_`, `lastFlush_`, `writtenBytes_` of the current
`AppendFile`, the files created so far (named by the second they were created in) with their
contents and flush points.  All guards, the period arithmetic and the loop tests come from
`Generated/LogFile.lean` (re-extracted from /repo on every run).  Core Lean only.
-/
namespace MuduoVerif.LogFile
open MuduoVerif.Gen.LogFile

abbrev Bytes := List UInt8

/-- what the environment decides about one `fwrite_unlocked` call -/
structure FwRes where
  /-- bytes accepted (the model clamps it to the request: stdio never accepts more) -/
  n : Nat
  /-- result of `ferror` after the call (consulted by the code only after a short count) -/
  err : Bool
  deriving Repr, DecidableEq

/-- outcome of `AppendFile::append` -/
structure AppendOut where
  /-- the bytes handed to the stream, in call order -/
  out : Bytes
  /-- `written` when the loop is left (added to `writtenBytes_`) -/
  counted : Nat
  /-- the loop was left through `break` (the stream reported an error) -/
  failed : Bool
  /-- (offset, request, accepted) of every `fwrite_unlocked` call -/
  calls : List (Nat × Nat × Nat)
  deriving Repr

/-- the bytes one call hands to the stream: `n` bytes starting at `logline + written` -/
def chunk (rec : Bytes) (written n : Nat) : Bytes := (rec.drop (appendOffset written)).take n

/-- `AppendFile::append`: `while (written != len)`.  One result of the environment is consumed per
call; when the scripted results are used up the stream accepts the whole request (this is also the
convention of the harness), which makes the function total. -/
def appendLoop (rec : Bytes) (written : Nat) : List FwRes → AppendOut
  | [] =>
    if appendContinues written rec.length then
      let remain := appendRemain rec.length written
      { out := chunk rec written (appendRequest remain), counted := appendAdvance written (appendRequest remain),
        failed := false, calls := [(appendOffset written, appendRequest remain, appendRequest remain)] }
    else { out := [], counted := written, failed := false, calls := [] }
  | r :: rs =>
    if appendContinues written rec.length then
      let remain := appendRemain rec.length written
      let n := min r.n (appendRequest remain)
      if appendShort n remain ∧ r.err = true then
        { out := chunk rec written n, counted := written, failed := true,
          calls := [(appendOffset written, appendRequest remain, n)] }
      else
        let o := appendLoop rec (appendAdvance written n) rs
        { out := chunk rec written n ++ o.out, counted := o.counted, failed := o.failed,
          calls := (appendOffset written, appendRequest remain, n) :: o.calls }
    else { out := [], counted := written, failed := false, calls := [] }

/-- `AppendFile::append` from the start of the record -/
def appendFile (rec : Bytes) (fws : List FwRes) : AppendOut := appendLoop rec 0 fws

structure Cfg where
  rollSize : Int
  flushInterval : Int
  checkEveryN : Int
  deriving Repr

/-- one log file: named by the second `rollFile` read from the clock -/
structure File where
  name : Int
  content : Bytes
  /-- length of `content` at every `fflush` / at `fclose` -/
  flushedAt : List Nat
  deriving Repr

/-- observable events, newest first in `St.log` -/
inductive Ev where
  | time (v : Int)
  | opened (name : Int)
  | closed (name : Int) (size : Nat)
  | flushed (name : Int) (size : Nat)
  | fw (name : Int) (off req n : Nat)
  | failed (name : Int)
  deriving Repr, DecidableEq

structure St where
  count : Int
  startOfPeriod : Int
  lastRoll : Int
  lastFlush : Int
  /-- `file_->writtenBytes()` -/
  written : Int
  /-- files already closed, in creation order -/
  closed : List File
  /-- `file_` -/
  cur : File
  /-- number of `time()` calls made so far -/
  tick : Nat
  log : List Ev
  deriving Repr

def File.flush (f : File) : File := { f with flushedAt := f.flushedAt ++ [f.content.length] }

/-- all files in creation order -/
def St.files (s : St) : List File := s.closed ++ [s.cur]

/-- `LogFile::rollFile` (with `getLogFileName`'s `time(NULL)`): returns the new state and the result -/
def rollFile (clk : Nat → Int) (s : St) : St × Bool :=
  if rollAllowed (clk s.tick) s.lastRoll then
    ({ count := s.count, startOfPeriod := rollStart (clk s.tick), lastRoll := clk s.tick, lastFlush := clk s.tick,
       written := 0, closed := s.closed ++ [s.cur.flush], cur := { name := clk s.tick, content := [], flushedAt := [] },
       tick := s.tick + 1,
       log := Ev.closed s.cur.name s.cur.content.length :: Ev.opened (clk s.tick) :: Ev.time (clk s.tick) :: s.log }, true)
  else
    ({ s with tick := s.tick + 1, log := Ev.time (clk s.tick) :: s.log }, false)

/-- the constructor: fields zeroed, then `rollFile()`; `none` when no file gets opened
(`time()` ≤ 0: `file_` stays null and the first append would crash) -/
def init (clk : Nat → Int) : Option St :=
  if rollAllowed (clk 0) 0 then
    some { count := 0, startOfPeriod := rollStart (clk 0), lastRoll := clk 0, lastFlush := clk 0, written := 0,
           closed := [], cur := { name := clk 0, content := [], flushedAt := [] }, tick := 1,
           log := [Ev.opened (clk 0), Ev.time (clk 0)] }
  else none

def fwEvents (name : Int) (calls : List (Nat × Nat × Nat)) : List Ev :=
  (calls.map fun c => Ev.fw name c.1 c.2.1 c.2.2).reverse

/-- state after `file_->append(logline, len)` -/
def afterWrite (s : St) (o : AppendOut) : St :=
  { s with written := appendTotal s.written o.counted,
           cur := { s.cur with content := s.cur.content ++ o.out },
           log := (if o.failed then [Ev.failed s.cur.name] else []) ++ fwEvents s.cur.name o.calls ++ s.log }

/-- `LogFile::append_unlocked` after the write: the roll / flush decisions -/
def afterAppend (cfg : Cfg) (clk : Nat → Int) (s : St) : St :=
  if rollBySize s.written cfg.rollSize then (rollFile clk s).1
  else if checkDue (s.count + 1) cfg.checkEveryN then
    if periodChanged (periodOf (clk s.tick)) s.startOfPeriod then
      (rollFile clk { s with count := countReset, tick := s.tick + 1, log := Ev.time (clk s.tick) :: s.log }).1
    else if flushDue (clk s.tick) s.lastFlush cfg.flushInterval then
      { s with count := countReset, tick := s.tick + 1, lastFlush := clk s.tick, cur := s.cur.flush,
               log := Ev.flushed s.cur.name s.cur.content.length :: Ev.time (clk s.tick) :: s.log }
    else { s with count := countReset, tick := s.tick + 1, log := Ev.time (clk s.tick) :: s.log }
  else { s with count := s.count + 1 }

inductive Op where
  | append (rec : Bytes) (fws : List FwRes)
  | flush
  | roll
  deriving Repr

def step (cfg : Cfg) (clk : Nat → Int) (s : St) : Op → St
  | .append rec fws => afterAppend cfg clk (afterWrite s (appendFile rec fws))
  | .flush => { s with cur := s.cur.flush, log := Ev.flushed s.cur.name s.cur.content.length :: s.log }
  | .roll => (rollFile clk s).1

def run (cfg : Cfg) (clk : Nat → Int) (s : St) (ops : List Op) : St := ops.foldl (step cfg clk) s

/-- destruction: the current file is closed (and thereby flushed) -/
def close (s : St) : St :=
  { s with cur := s.cur.flush, log := Ev.closed s.cur.name s.cur.content.length :: s.log }

/-- what the operations handed to the stream, one entry per `append`, in order -/
def delivered : List Op → List Bytes
  | [] => []
  | .append rec fws :: rest => (appendFile rec fws).out :: delivered rest
  | _ :: rest => delivered rest

/-- the records themselves -/
def records : List Op → List Bytes
  | [] => []
  | .append rec _ :: rest => rec :: records rest
  | _ :: rest => records rest

/-- no `append` of the sequence is cut short by a stream error -/
def noError : List Op → Prop
  | [] => True
  | .append rec fws :: rest => (appendFile rec fws).failed = false ∧ noError rest
  | _ :: rest => noError rest

end MuduoVerif.LogFile
