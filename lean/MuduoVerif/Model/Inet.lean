import MuduoVerif.Model.Buffer
/-!
Model of the IPv4 text forms and the byte-order helpers of muduo
(muduo/net/InetAddress.cc `toIp` / `toIpPort`, muduo/net/SocketsOps.cc `toIp` / `toIpPort` /
`fromIpPort`, muduo/net/Endian.h).

* `toIp` is what glibc `inet_ntop(AF_INET, &sin_addr, ..)` prints for the four bytes of
  `sin_addr` (network order): the four octets in decimal, no leading zeros, joined by `'.'`.
* `toIpPort` is `toIp` followed by `snprintf(":%u", networkToHost16(sin_port))`.
* `parseIp` is the acceptance rule of glibc `inet_pton(AF_INET, ..)` (`inet_pton4`): exactly four
  parts separated by single dots, every part 1..3 ASCII digits, value at most 255, no leading
  zero unless the part is exactly `"0"`, nothing else.
* `parseIpPort` is the model-level inverse of `toIpPort`.
* `v6IpPort` is the `'[' .. "]:%u"` wrapper of the IPv6 branch (the v6 text is glibc's, an input).
* `bswap` is what `htobe16/32/64` and `be16/32/64toh` compute on a little-endian host,
  `memLE` is how a value lies in memory there.

Addresses are the 32-bit *host order* values (`networkToHost32(sin_addr.s_addr)`), ports the 16-bit
host order values.  Everything is total, structurally recursive and over `List Char` underneath, the
`String` functions only wrap with `String.ofList` / `String.toList`.
-/
namespace MuduoVerif.Inet
open MuduoVerif.Buffer (Bytes encodeBE decodeBE)

/-! ### decimal numbers -/

/-- `%u` / the decimal form without leading zeros, as characters (`Nat.repr n = String.ofList (decChars n)`) -/
def decChars (n : Nat) : List Char := Nat.toDigits 10 n

/-- value of a string of ASCII digits -/
def decVal (cs : List Char) : Nat := Nat.ofDigitChars 10 cs 0

/-- A decimal number in canonical form: `1 ..maxLen` ASCII digits, no leading zero unless the text is
exactly `"0"`, value at most `maxVal`. -/
def parseDec (maxLen maxVal : Nat) (cs : List Char) : Option Nat :=
  if cs.length = 0 ∨ maxLen < cs.length then none
  else if cs.all Char.isDigit = false then none
  else if cs.head? = some '0' ∧ cs.length ≠ 1 then none
  else if decVal cs ≤ maxVal then some (decVal cs) else none

/-- one part of a dotted quad -/
def parseOctet (cs : List Char) : Option Nat := parseDec 3 255 cs

/-- the `%u` port -/
def parsePort (cs : List Char) : Option Nat := parseDec 5 65535 cs

/-! ### splitting and joining -/

/-- split at every `sep` (always at least one part; `n` separators give `n+1` parts) -/
def splitOn (sep : Char) : List Char → List (List Char)
  | [] => [[]]
  | c :: cs =>
    if c = sep then [] :: splitOn sep cs
    else match splitOn sep cs with
      | [] => [[c]]
      | p :: ps => (c :: p) :: ps

/-- inverse of `splitOn`: the parts with one `sep` between neighbours -/
def joinWith (sep : Char) : List (List Char) → List Char
  | [] => []
  | [p] => p
  | p :: q :: ps => p ++ sep :: joinWith sep (q :: ps)

/-- split at the LAST `sep`; `none` if there is no `sep` -/
def splitLast (sep : Char) : List Char → Option (List Char × List Char)
  | [] => none
  | c :: cs =>
    match splitLast sep cs with
    | some (l, r) => some (c :: l, r)
    | none => if c = sep then some ([], cs) else none

/-! ### IPv4 text -/

/-- the four bytes of the host-order address value `a` in network (big-endian) order, i.e. the
bytes in memory in `sin_addr` -/
def octets (a : Nat) : List Nat :=
  [a / 2 ^ 24 % 256, a / 2 ^ 16 % 256, a / 2 ^ 8 % 256, a % 256]

/-- host-order value of four network-order bytes -/
def ofOctets (b0 b1 b2 b3 : Nat) : Nat := ((b0 * 256 + b1) * 256 + b2) * 256 + b3

def toIpChars (a : Nat) : List Char := joinWith '.' ((octets a).map decChars)

/-- `inet_ntop(AF_INET)` -/
def toIp (a : Nat) : String := String.ofList (toIpChars a)

def toIpPortChars (a p : Nat) : List Char := toIpChars a ++ ':' :: decChars p

/-- `sockets::toIpPort`, IPv4 branch: `toIp a ++ ":" ++ decimal p` -/
def toIpPort (a p : Nat) : String := String.ofList (toIpPortChars a p)

def parseIpChars (cs : List Char) : Option Nat :=
  match splitOn '.' cs with
  | [p0, p1, p2, p3] =>
    match parseOctet p0, parseOctet p1, parseOctet p2, parseOctet p3 with
    | some b0, some b1, some b2, some b3 => some (ofOctets b0 b1 b2 b3)
    | _, _, _, _ => none
  | _ => none

/-- `inet_pton(AF_INET)`: `some` host-order value iff glibc returns 1 -/
def parseIp (s : String) : Option Nat := parseIpChars s.toList

def parseIpPortChars (cs : List Char) : Option (Nat × Nat) :=
  match splitLast ':' cs with
  | some (l, r) =>
    match parseIpChars l, parsePort r with
    | some a, some p => some (a, p)
    | _, _ => none
  | none => none

/-- inverse of `toIpPort`: split at the last `':'`, dotted quad on the left, port `0..65535` in
canonical decimal on the right -/
def parseIpPort (s : String) : Option (Nat × Nat) := parseIpPortChars s.toList

def v6IpPortChars (v6text : List Char) (p : Nat) : List Char :=
  '[' :: (v6text ++ ']' :: ':' :: decChars p)

/-- `sockets::toIpPort`, IPv6 branch: `"[" ++ v6text ++ "]:" ++ decimal p` -/
def v6IpPort (v6text : String) (p : Nat) : String := String.ofList (v6IpPortChars v6text.toList p)

/-! ### byte order (Endian.h) -/

/-- byte reversal of an `nbytes`-byte unsigned value (`__builtin_bswap16/32/64`); only the low
`nbytes` bytes of `x` are looked at -/
def bswap : Nat → Nat → Nat
  | 0, _ => 0
  | n+1, x => (x % 256) * 256 ^ n + bswap n (x / 256)

/-- `htobe16/32/64` on a little-endian host -/
def hostToNetwork (nbytes x : Nat) : Nat := bswap nbytes x

/-- `be16/32/64toh` on a little-endian host -/
def networkToHost (nbytes x : Nat) : Nat := bswap nbytes x

/-- the `nbytes` bytes of `x` as they lie in memory on a little-endian host (least significant first) -/
def memLE : Nat → Nat → Bytes
  | 0, _ => []
  | n+1, x => UInt8.ofNat (x % 256) :: memLE n (x / 256)

end MuduoVerif.Inet
