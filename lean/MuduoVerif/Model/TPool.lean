import MuduoVerif.Model.Monitor
/-!
# `muduo::ThreadPool` as a monitor (C15)

Same conventions as `Model/Monitor.lean` (mutex `owner`, `acq`/`body` steps, explicit `W`/`S` lists per
condition, `spur`, notify picks from `sched`).  Threads `1 … n` are the pool's workers running
`runInThread`; every other thread runs a list of `run id` / `stop` operations.

Where a thread stands:
* worker: `wTest` (at `MUDUO_VERIF_POINT` before the **unlocked** read of `running_` in
  `while (running_)`), `wTake` (in `take()`: at the lock statement, or in `W`/`S` of `notEmpty_`),
  `wExec x` (`take()` returned task `x`; `task()` not yet called), `wGate x` (inside `task()` of a task that
  waits for the gate), `wDone` (left the loop);
* caller: `idle` (at the head of `prog`: `run` = the `threads_.empty()` test / the lock statement /
  parked on `notFull_`; `stop` = its lock statement; `open` = about to open the gate), `stopNotify` (holds the mutex, `running_ = false`
  done, the two `notifyAll` not yet), `stopJoin i` (in `threads_[i]->join()`).

`stop()`'s flag store and its broadcasts are separate steps so that the unlocked read of `running_` by
a worker may fall between them.  Tasks carry a serial number (ghost: the order of acceptance).
Core Lean only.
-/
namespace MuduoVerif.Monitor
open MuduoVerif.MonitorSkel
open MuduoVerif.Generated.Monitor

inductive POp where
  | run (id : Nat) | stop
  /-- the caller opens the gate (see `TKind`) -/
  | open
  deriving DecidableEq, Repr

/-- what a task does when a worker calls it.  Tasks may depend on one another through one *gate* (closed at
first, open for ever once opened): a `waits` task blocks inside `task()` until the gate is open, an `opens`
task opens it.  The kind is a function of the task's id; a pool without threads ignores it. -/
inductive TKind where
  | plain | waits | opens
  deriving DecidableEq, Repr

/-- a queued task: (serial number, id) -/
abbrev Task := Nat × Nat

inductive PPc where
  | idle | stopNotify | stopJoin (i : Nat)
  | wTest | wTake | wExec (x : Task) | wGate (x : Task) | wDone
  deriving DecidableEq, Repr

inductive PEv where
  | accept (t : Nat) (x : Task)      -- `queue_.push_back` in `run`
  | took (w : Nat) (x : Task)        -- `queue_.pop_front` in `take`
  | exec (w : Nat) (x : Task)        -- a worker calls `task()`
  | inl (t : Nat) (id : Nat)         -- `run` on a pool without threads calls `task()` itself
  | runRet (t : Nat) (id : Nat)
  | stopFlag (t : Nat)               -- `running_ = false`
  | stopRet (t : Nat)
  | pass (w : Nat) (x : Task)        -- a `waits` task found the gate open and returned
  | openRet (t : Nat)                -- a caller opened the gate
  deriving DecidableEq, Repr

structure PState extends Mon where
  /-- `threads_.size()` -/
  n : Nat
  /-- `maxQueueSize_` -/
  maxq : Nat
  running : Bool
  q : List Task
  /-- tasks accepted so far (next serial number) -/
  nacc : Nat
  pc : Nat → PPc
  prog : Nat → List POp
  log : List PEv
  /-- what the task with a given id does -/
  kind : Nat → TKind
  /-- the gate is open -/
  gate : Bool

namespace PState

def notifs (s : PState) (fs : List NotF) : PState := { s with toMon := s.toMon.notifs fs }

def enter (s : PState) (t : Nat) (w : Option WaitF) (g : Bool) (eff : PState → PState) : PState :=
  match s.toMon.enter t w g with
  | (true, m) => eff { s with toMon := m }
  | (false, m) => { s with toMon := m }

/-- the seven parameters of the generated guards -/
def g (p : Nat → Nat → Nat → Nat → Bool → Bool → Bool → Prop) [∀ a b c d e f h, Decidable (p a b c d e f h)]
    (s : PState) (taskValid : Bool := false) : Bool :=
  decide (p s.q.length s.maxq s.n s.n s.running taskValid false)

/-- `threads_.empty()` in `run`: the task is executed by the caller -/
def inline (s : PState) : Bool := s.g pool_run_g1

/-- a caller's operation is complete -/
def ret (s : PState) (t : Nat) (rest : List POp) (ev : List PEv) : PState :=
  { s with pc := upd s.pc t .idle, prog := upd s.prog t rest, log := s.log ++ ev }

/-- `ThreadPool::run` with the mutex held -/
def runBody (s : PState) (t id : Nat) (rest : List POp) : PState :=
  s.enter t (waitOf pool_run) (s.g pool_run_g2) fun s1 =>
    if s1.g pool_run_g3 then ({ s1 with owner := none } : PState).ret t rest [.runRet t id]
    else
      ((({ s1 with q := s1.q ++ [(s1.nacc, id)], nacc := s1.nacc + 1, owner := none } : PState).notifs
        (notifsOf pool_run)).ret t rest [.accept t (s1.nacc, id), .runRet t id])

/-- `ThreadPool::take` with the mutex held, then back in `runInThread` -/
def takeBody (s : PState) (t : Nat) : PState :=
  s.enter t (waitOf pool_take) (s.g pool_take_g1) fun s1 =>
    if s1.g pool_take_g2 then
      match s1.q with
      | [] => { s1 with owner := none, pc := upd s1.pc t .wTest }
      | x :: q' =>
        let s2 : PState := { s1 with q := q', owner := none, pc := upd s1.pc t (.wExec x), log := s1.log ++ [.took t x] }
        if s1.g pool_take_g3 then s2.notifs (notifsOf pool_take) else s2
    else { s1 with owner := none, pc := upd s1.pc t .wTest }

/-- a worker calls `task()`: a `waits` task stays inside it (`wGate`) until the gate is open -/
def startTask (s : PState) (t : Nat) (x : Task) : PState :=
  match s.kind x.2 with
  | .plain => { s with pc := upd s.pc t .wTest, log := s.log ++ [.exec t x] }
  | .waits => { s with pc := upd s.pc t (.wGate x), log := s.log ++ [.exec t x] }
  | .opens => { s with gate := true, pc := upd s.pc t .wTest, log := s.log ++ [.exec t x] }

/-- `stop()` after the last join (or at once when there are no threads) -/
def stopDone (s : PState) (t : Nat) : PState :=
  s.ret t (s.prog t).tail [.stopRet t]

/-- does `t` stand at a lock statement (or parked in the operation behind it)? -/
def needsLock (s : PState) (t : Nat) : Bool :=
  match s.pc t with
  | .wTake => true
  | .idle => match s.prog t with
    | .run _ :: _ => !s.inline
    | .stop :: _ => true
    | .open :: _ => false
    | [] => false
  | _ => false

end PState

def pstep (s : PState) : Act → Option PState
  | .acq t =>
    if s.owner = none ∧ s.needsLock t = true ∧ t ∉ s.ne.W ∧ t ∉ s.nf.W then some { s with owner := some t } else none
  | .body t =>
    match s.pc t with
    | .wTest =>
      some (if s.g pool_runInThread_g2 then { s with pc := upd s.pc t .wTake } else { s with pc := upd s.pc t .wDone })
    | .wTake => if s.owner = some t then some (s.takeBody t) else none
    | .wExec x =>
      some (if s.g pool_runInThread_g3 (taskValid := true) then s.startTask t x
            else { s with pc := upd s.pc t .wTest })
    | .wGate x =>
      if s.gate = true then some { s with pc := upd s.pc t .wTest, log := s.log ++ [.pass t x] } else none
    | .wDone => none
    | .idle =>
      match s.prog t with
      | [] => none
      | .run id :: rest =>
        if s.inline then some (s.ret t rest [.inl t id, .runRet t id])
        else if s.owner = some t then some (s.runBody t id rest) else none
      | .stop :: _ =>
        if s.owner = some t then
          some { s with running := false, pc := upd s.pc t .stopNotify, log := s.log ++ [.stopFlag t] }
        else none
      | .open :: rest => some (({ s with gate := true } : PState).ret t rest [.openRet t])
    | .stopNotify =>
      if s.owner = some t then
        let s1 : PState := ({ s with owner := none } : PState).notifs (notifsOf pool_stop)
        some (if s.n = 0 then s1.stopDone t else { s1 with pc := upd s1.pc t (.stopJoin 0) })
      else none
    | .stopJoin i =>
      if s.pc (i + 1) = .wDone then
        some (if i + 1 < s.n then { s with pc := upd s.pc t (.stopJoin (i + 1)) } else s.stopDone t)
      else none
  | .spur t c =>
    if t ∈ (s.ws c).W then some { s with toMon := s.toMon.setWs c ((s.ws c).spur t) } else none

/-- a pool started with `n` threads and `setMaxQueueSize(maxq)`; callers run `prog`; task `id` is of kind
`kind id`; the gate is closed -/
def pinit (n maxq : Nat) (kind : Nat → TKind) (prog : Nat → List POp) (sched : List Nat) : PState :=
  { toMon := Mon.init sched, n := n, maxq := maxq, running := true, q := [], nacc := 0,
    pc := fun t => if 1 ≤ t ∧ t ≤ n then .wTest else .idle,
    prog := fun t => if 1 ≤ t ∧ t ≤ n then [] else prog t,
    log := [], kind := kind, gate := false }

inductive PReach (s0 : PState) : PState → Prop where
  | refl : PReach s0 s0
  | step {s s' : PState} (a : Act) : PReach s0 s → pstep s a = some s' → PReach s0 s'

def PBlocked (s : PState) : Prop := ∀ t, pstep s (.acq t) = none ∧ pstep s (.body t) = none

/-- thread `t` has nothing left to do -/
def PState.finished (s : PState) (t : Nat) : Prop :=
  s.pc t = .wDone ∨ (s.pc t = .idle ∧ s.prog t = [])

end MuduoVerif.Monitor
