import MuduoVerif.Generated.Acceptor
/-!
Model of `muduo::net::Acceptor` (Acceptor.cc) with the error classification of
`sockets::accept` (SocketsOps.cc) on one event loop.

* The result of every `accept` call is an input (`Input.envAccept`), so is the poller's report
  for the listening socket (`Input.iter listenReadable`; an interrupted poll reports nothing).
* The errno table, the descriptor-exhaustion test, the statement sequence of the EMFILE branch
  and the "no callback: close" branch are definitions of `Generated/Acceptor.lean`,
  re-extracted from the source on every run; the model *interprets* the extracted statement
  sequence (`runIdle`), it does not restate it.
* Connections are named by the order in which `accept` returned them (1, 2, …).
* Ghost counters `opened`/`closedN`/`leaked` count descriptors the acceptor obtained
  (the spare `/dev/null` descriptor included), closed, and lost track of.
-/
namespace MuduoVerif.Acceptor
open MuduoVerif.Gen.Acceptor

inductive AcceptRes | ok | err (errno : Nat)
deriving DecidableEq, Repr

/-- what the member `idleFd_` refers to -/
inductive Idle
  | devnull            -- an open descriptor on /dev/null
  | conn (k : Nat)     -- the descriptor of accepted connection `k`
  | closed             -- no open descriptor: the number is stale (the descriptor was closed)
  | none               -- -1 (a failed `accept`/`open` was assigned)
deriving DecidableEq, Repr

inductive Ev
  | accepted (k : Nat)       -- `accept` returned the descriptor of connection `k`
  | newConn (k : Nat)        -- `newConnectionCallback_(connfd, peerAddr)`
  | closed (k : Nat)         -- the acceptor closed the descriptor of connection `k`
  | idleClosed | idleOpened  -- the spare descriptor
  | userClosed (k : Nat)     -- the owner of a handed-over descriptor closed it
  | staleClose               -- `close` on a number that refers to no descriptor of the acceptor
  | abort (what : String)    -- `LOG_FATAL`
deriving DecidableEq, Repr

structure Acc where
  alive : Bool := true
  listening : Bool := false
  hasCb : Bool := true
  idle : Idle := .devnull
  naccepted : Nat := 0
  /-- descriptors handed to the callback and not yet closed by their owner -/
  held : List Nat := []
  opened : Nat := 1
  closedN : Nat := 0
  leaked : Nat := 0
  results : List AcceptRes := []
  starved : Bool := false
  dead : Bool := false
  trace : List Ev := []
deriving Repr

def emit (a : Acc) (e : Ev) : Acc := { a with trace := a.trace ++ [e] }

def peek (a : Acc) : AcceptRes := a.results.headD (.err 11)
def pop (a : Acc) : Acc :=
  match a.results with
  | [] => { a with starved := true }
  | _ :: rest => { a with results := rest }

def idleCount : Idle → Nat
  | .closed => 0
  | .none => 0
  | _ => 1

/-- `::close(idleFd_)` -/
def closeIdle (a : Acc) : Acc :=
  match a.idle with
  | .devnull => emit { a with idle := .closed, closedN := a.closedN + 1 } .idleClosed
  | .conn k => emit { a with idle := .closed, closedN := a.closedN + 1 } (.closed k)
  | .closed => emit a .staleClose
  | .none => a    -- `close(-1)`: EBADF, nothing happens

/-- `idleFd_ = v`: a descriptor still referred to by the old value is lost -/
def setIdle (a : Acc) (v : Idle) : Acc :=
  { a with idle := v, leaked := a.leaked + idleCount a.idle }

/-- `idleFd_ = ::accept(acceptSocket_.fd(), NULL, NULL)` (the raw call: no classification) -/
def acceptIntoIdle (a : Acc) : Acc :=
  match peek a with
  | .ok => emit (setIdle { pop a with naccepted := a.naccepted + 1, opened := a.opened + 1 } (.conn (a.naccepted + 1)))
             (.accepted (a.naccepted + 1))
  | .err _ => setIdle (pop a) .none

/-- `idleFd_ = ::open("/dev/null", O_RDONLY | O_CLOEXEC)`; the descriptor released by the
preceding `close` is available (single-threaded process) -/
def openIdle (a : Acc) : Acc :=
  emit (setIdle { a with opened := a.opened + 1 } .devnull) .idleOpened

def idleOp (a : Acc) : IdleOp → Acc
  | .closeIdle => closeIdle a
  | .acceptIntoIdle => acceptIntoIdle a
  | .openIdle => openIdle a

def runIdle (a : Acc) (ops : List IdleOp) : Acc := ops.foldl idleOp a

/-- `Acceptor::handleRead` after `acceptSocket_.accept` returned a descriptor -/
def accepted (a : Acc) : Acc :=
  let k := a.naccepted + 1
  let a1 := emit { a with naccepted := k, opened := a.opened + 1 } (.accepted k)
  if a.hasCb then
    (if callbackGetsFd then emit { a1 with held := a1.held ++ [k] } (.newConn k)
     else { a1 with leaked := a1.leaked + 1 })
  else if noCallbackCloses then emit { a1 with closedN := a1.closedN + 1 } (.closed k)
  else { a1 with leaked := a1.leaked + 1 }

/-- `Acceptor::handleRead`: the failure branch, errno `e` (already classified as expected) -/
def failed (a : Acc) (e : Nat) : Acc :=
  if emfileTest e then runIdle a emfileSeq else a

def handleRead (a : Acc) : Acc :=
  match peek a with
  | .ok => accepted (pop a)
  | .err e =>
    match classifyAccept e with
    | .expected => failed (pop a) e
    | .unexpected => emit { pop a with dead := true } (.abort "unexpected error of ::accept")
    | .unknown => emit { pop a with dead := true } (.abort "unknown error of ::accept")

/-- `~Acceptor` (and `~Socket` of the listening socket, not counted) -/
def destroy (a : Acc) : Acc := { closeIdle a with alive := false, listening := false }

inductive Input
  | listen
  | setCallback (b : Bool)
  | envAccept (r : AcceptRes)
  /-- one loop iteration; the poller did (`true`) or did not (`false`: nothing pending, or the
  poll call was interrupted) report the listening socket readable -/
  | iter (listenReadable : Bool)
  | userClose (k : Nat)
  | destroy
deriving Repr

def step (a : Acc) : Input → Acc
  | .listen => if a.dead || !a.alive then a else { a with listening := listenRegisters }
  | .setCallback b => { a with hasCb := b }
  | .envAccept r => { a with results := a.results ++ [r] }
  | .iter r => if a.dead || !a.alive || !a.listening || !r then a else handleRead a
  | .userClose k =>
    if k ∈ a.held then emit { a with held := a.held.erase k, closedN := a.closedN + 1 } (.userClosed k) else a
  | .destroy => if a.dead || !a.alive then a else destroy a

def run (a : Acc) (ins : List Input) : Acc := ins.foldl step a

/-- descriptors the acceptor is responsible for that are open now -/
def live (a : Acc) : Nat := a.held.length + idleCount a.idle

end MuduoVerif.Acceptor
