import MuduoVerif.Generated.Race
/-!
# C08 — the race model: traces, happens-before, the hand-written policies, the table checks

Three parts, core Lean only:

1. a trace semantics (`Event`, `HB`, `Holds`, `WellFormed`) and the *trace-level* discipline of a
   location (`Disc`): what it means for an execution to respect "immutable after publication",
   "atomic", "guarded by m", "confined to thread o";
2. the **hand-written policy** of every member of the analysed classes (`policies`): the
   synchronisation discipline the code intends.  It is an input of the theorems, reviewed by a
   human, not derived from the code; the code's own `GUARDED_BY` annotations are imported by T1
   and `fieldOk` requires that they agree with it;
3. decidable checks of the generated table against the policies (`rowOk`, `fieldOk`, `confinedOk`,
   `calleesCovered`), and the model of `assertInLoopThread` (`runOp`).

The property theorems are in `Props/C08.lean`, the proofs in `Proofs/Race.lean`.
-/
namespace MuduoVerif.Race

/-! ## 1. traces -/

abbrev Tid := Nat
abbrev Loc := Nat
abbrev Mtx := Nat

inductive Ev
  | acq (m : Mtx) | rel (m : Mtx)
  | rd (x : Loc) | wr (x : Loc) | ard (x : Loc) | awr (x : Loc)
  | fork (t : Tid) | join (t : Tid)
  | enq (q k : Nat) | deq (q k : Nat)
  | abort
  deriving DecidableEq, Repr

structure Event where
  tid : Tid
  ev : Ev
  deriving DecidableEq, Repr

abbrev Trace := List Event

def Ev.loc? : Ev → Option Loc
  | .rd x | .wr x | .ard x | .awr x => some x
  | _ => none

def Ev.isWrite : Ev → Bool
  | .wr _ | .awr _ => true
  | _ => false

def Ev.isAtomic : Ev → Bool
  | .ard _ | .awr _ => true
  | _ => false

/-- event `i` of the trace is an access of thread `t` to location `x` -/
def Access (tr : Trace) (i : Nat) (t : Tid) (e : Ev) (x : Loc) : Prop :=
  tr[i]? = some ⟨t, e⟩ ∧ e.loc? = some x

/-- happens-before between positions of a trace: transitive closure of program order,
release → later acquire of the same mutex, fork → the child's events, the joined thread's
events → join, enqueue → dequeue of the same task on a loop's queue -/
inductive HB (tr : Trace) : Nat → Nat → Prop
  | po {i j t e₁ e₂} : i < j → tr[i]? = some ⟨t, e₁⟩ → tr[j]? = some ⟨t, e₂⟩ → HB tr i j
  | sw {i j t u m} : i < j → tr[i]? = some ⟨t, .rel m⟩ → tr[j]? = some ⟨u, .acq m⟩ → HB tr i j
  | fork {i j t u e} : i < j → tr[i]? = some ⟨t, .fork u⟩ → tr[j]? = some ⟨u, e⟩ → HB tr i j
  | join {i j t u e} : i < j → tr[i]? = some ⟨u, e⟩ → tr[j]? = some ⟨t, .join u⟩ → HB tr i j
  | queue {i j t u q k} : i < j → tr[i]? = some ⟨t, .enq q k⟩ → tr[j]? = some ⟨u, .deq q k⟩ → HB tr i j
  | trans {i j k} : HB tr i j → HB tr j k → HB tr i k

/-- thread `t` holds mutex `m` just before event `i`: it acquired it at some `a < i` and has
not released it since -/
def Holds (tr : Trace) (t : Tid) (m : Mtx) (i : Nat) : Prop :=
  ∃ a, a < i ∧ tr[a]? = some ⟨t, .acq m⟩ ∧ ∀ k, k < i → a < k → tr[k]? ≠ some ⟨t, .rel m⟩

/-- mutual exclusion (what pthread mutexes guarantee): nobody holds a mutex when it is acquired -/
def WellFormed (tr : Trace) : Prop :=
  ∀ i t m, tr[i]? = some ⟨t, .acq m⟩ → ∀ u, ¬ Holds tr u m i

/-- trace-level discipline of a location -/
inductive Disc
  | immutable            -- never written once shared
  | atomic               -- every access is an atomic operation
  | guarded (m : Mtx)    -- every access while holding `m`
  | confined (o : Tid)   -- every access by thread `o` (a loop's thread / the owning thread)
  | unused               -- never accessed once shared (constructor/destructor only, or a
                         -- synchronisation object, whose operations are `acq/rel/…` events)
  deriving DecidableEq, Repr

/-- an *initialising* access: it happens-before every access to the same location by any other
thread (constructor code before the object is published by fork / enqueue / release) -/
def Initial (tr : Trace) (i : Nat) (t : Tid) (x : Loc) : Prop :=
  ∀ j u e, Access tr j u e x → u ≠ t → HB tr i j

def DiscOk (tr : Trace) (d : Disc) (i : Nat) (t : Tid) (e : Ev) : Prop :=
  match d with
  | .immutable => e.isWrite = false
  | .atomic => e.isAtomic = true
  | .guarded m => Holds tr t m i
  | .confined o => t = o
  | .unused => False

/-- every access of the trace is initialising or respects the discipline of its location -/
def Respects (tr : Trace) (pol : Loc → Disc) : Prop :=
  ∀ i t e x, Access tr i t e x → Initial tr i t x ∨ DiscOk tr (pol x) i t e

/-- two accesses conflict when one of them writes and they are not both atomic -/
def Conflict (e e' : Ev) : Prop :=
  (e.isWrite = true ∨ e'.isWrite = true) ∧ ¬ (e.isAtomic = true ∧ e'.isAtomic = true)

/-- data-race freedom: conflicting accesses of different threads to one location are ordered -/
def RaceFree (tr : Trace) : Prop :=
  ∀ i j t u e e' x, Access tr i t e x → Access tr j u e' x → t ≠ u → Conflict e e' →
    HB tr i j ∨ HB tr j i

/-! ## 2. the hand-written policies -/

/-- table-level policy of a member -/
inductive Policy
  | immutable          -- written only by constructors and by the class's set-up methods
  | atomic             -- std::atomic / AtomicIntegerT, every access through its own operations
  | guarded (m : String)   -- every access with a MutexLockGuard on member `m` in scope
  | confined           -- every access dominated by an owner-thread check of the class's loop
  | owner              -- touched only by the single-owner API of the class
  | sync               -- the member is itself a synchronisation object (mutex, condition, latch)
  | ctorOnly           -- not touched by any analysed function
  deriving DecidableEq, Repr

structure ClassPolicy where
  cls : String
  /-- facts that establish "running on the owner loop's thread" for this class: the loop member
  on which `isInLoopThread()/assertInLoopThread()` is called, or `f->m` for an unconditional call
  of a loop-confined operation `m` of the object behind member `f` that shares the loop -/
  ownerChecks : List String
  /-- configuration methods, documented "not thread safe": called before the object is shared -/
  setup : List String
  /-- other methods outside the property's lists that are documented as not thread safe /
  loop-thread only; their rows are not checked -/
  notThreadSafe : List String
  fields : List (String × Policy)

/-- **The policy** — hand-written, reviewed against the sources, an *input* of the theorems.  Where the
discipline of a member comes from (what the code and its comments say it intends):

* `EventLoop` — `pendingFunctors_` is `GUARDED_BY(mutex_)` in EventLoop.h: "the only channel by which
  foreign threads hand work to a loop"; `quit_` is set by `quit()` on any thread and tested by `loop()`:
  `std::atomic<bool>`; `threadId_` is `const`; `poller_`, `timerQueue_`, `wakeupFd_` are set by the
  constructor and only dereferenced afterwards (`wakeup()` writes to the descriptor, the pointer is
  never re-seated); `context_` via `setContext` (documented: not thread safe, set-up);
  `looping_`, `eventHandling_`, `callingPendingFunctors_`, `iteration_`, `pollReturnTime_`,
  `activeChannels_`, `currentActiveChannel_` are the loop's own bookkeeping: loop thread only.
* `TcpConnection` — "all mutable state belongs to the loop thread" except `state_`, which `send`,
  `shutdown`, `forceClose*`, `connected` read (and write) on any thread: atomic (F5).  The callbacks are
  written by the set-up setters before `connectEstablished` and afterwards *used* on the loop thread
  (`handleWrite`/`sendInLoop` copy `writeCompleteCallback_` into a functor): confined.
  `loop_`, `name_`, the addresses: constructor only.
* `TcpServer` — `started_` is the once-only flag of `start()` (`AtomicInt32::getAndSet`); the callbacks
  and `threadPool_`/`acceptor_` are written by set-up methods before `start()`; `connections_` and
  `nextConnId_` belong to the acceptor loop (`newConnection`, `removeConnectionInLoop`).  After the
  unconditional `threadPool_->start(...)` in `start()` the caller *is* the loop thread
  (`EventLoopThreadPool::start` is loop-confined and fails fast elsewhere): owner check `threadPool_->start`.
  `alive_` (c11cd6c) is the server's life token: created by the constructor, copied into a `weak_ptr` by
  `newConnection` and reset by `~TcpServer`, both on the base loop thread (the destructor asserts it); the
  io threads only ever hold the `weak_ptr` copies, never the member: confined.
* `TcpClient` — `connection_` is `GUARDED_BY(mutex_)` (shared between the loop and callers of
  `connection()`/`disconnect()`); `retry_`, `connect_` are written by `enableRetry/connect/disconnect/stop`
  on any thread and read by the loop: atomic (F5); `nextConnId_` loop only.
* `Connector` — `connect_` written by `start()/stop()` on any thread: atomic (F5); `state_`, `channel_`,
  `retryDelayMs_` loop only.
* `TimerQueue` — everything but the constant `loop_`/`timerfd_` is touched by `addTimerInLoop`,
  `cancelInLoop`, `handleRead` only: loop thread.
* `EventLoopThread` — `loop_` is handed from the new thread to `startLoop()` under `mutex_`/`cond_`;
  `finished_` (380ef1d, `GUARDED_BY(mutex_)` in the header) is set by `threadFunc` when `loop()` has returned
  and tested by `startLoop()`'s wait loop, both under `mutex_`.
* `EventLoopThreadPool`, `Acceptor` — base-loop objects: confined, configuration by set-up methods.
* `ThreadPool`, `BlockingQueue`, `BoundedBlockingQueue`, `CountDownLatch`, `AsyncLogging` — monitors: the
  queue/count/buffers are `GUARDED_BY(mutex_)` in the headers; `running_` flags are tested outside the
  lock by the worker/back-end thread: atomic (F5 for `ThreadPool`); `threads_`/`thread_` belong to the
  single owner that calls `start()/stop()`.
  `CountDownLatch::condition_` is `guarded "mutex_"`, not merely `sync`: a latch is routinely destroyed by its
  waiter as soon as `wait()` returns (`CountDownLatch done(1); …; done.wait();` on a stack frame), and `wait()` can
  return as soon as the count is 0 and the mutex is free — so the notification in `countDown()` has to be issued
  while `mutex_` is held, or it runs on a destroyed condition variable (seeded change C08-w5m2; TSan scenario
  `CountDownLatch::shortlived`).  The queues' and the pool's condition variables stay `sync`: those objects
  outlive their users' calls by contract.
* `Logging` — the globals `g_logLevel`, `g_output`, `g_flush`, `g_logTimeZone` are configured before
  threads log (documented usage) and only read by the `LOG_*` path; `g_logTimeZoneGen` (fab6852) is the
  generation counter `setTimeZone` bumps and every logging thread compares with its cached value:
  `std::atomic<int>`. -/
def policies : List ClassPolicy := open Policy in [
  { cls := "EventLoop", ownerChecks := ["this"],
    setup := ["setContext", "getMutableContext"],
    notThreadSafe := ["pollReturnTime", "iteration", "eventHandling", "getContext"],
    fields := [("looping_", confined), ("quit_", atomic), ("eventHandling_", confined),
      ("callingPendingFunctors_", confined), ("iteration_", confined), ("threadId_", immutable),
      ("pollReturnTime_", confined), ("poller_", immutable), ("timerQueue_", immutable),
      ("wakeupFd_", immutable), ("wakeupChannel_", ctorOnly), ("context_", immutable),
      ("activeChannels_", confined), ("currentActiveChannel_", confined), ("mutex_", sync),
      ("pendingFunctors_", guarded "mutex_")] },
  { cls := "TcpConnection", ownerChecks := ["loop_"],
    setup := ["setConnectionCallback", "setMessageCallback", "setWriteCompleteCallback",
      "setHighWaterMarkCallback", "setCloseCallback", "setContext", "getMutableContext"],
    notThreadSafe := ["isReading", "inputBuffer", "outputBuffer", "getTcpInfo", "getTcpInfoString",
      "setTcpNoDelay", "getContext"],
    fields := [("loop_", immutable), ("name_", immutable), ("state_", atomic), ("reading_", confined),
      ("socket_", confined), ("channel_", confined), ("localAddr_", immutable), ("peerAddr_", immutable),
      ("connectionCallback_", confined), ("messageCallback_", confined),
      ("writeCompleteCallback_", confined), ("highWaterMarkCallback_", confined),
      ("closeCallback_", confined), ("highWaterMark_", confined), ("inputBuffer_", confined),
      ("outputBuffer_", confined), ("context_", immutable)] },
  { cls := "TcpServer", ownerChecks := ["loop_", "threadPool_->start"],
    setup := ["setThreadNum", "setThreadInitCallback", "setConnectionCallback", "setMessageCallback",
      "setWriteCompleteCallback"],
    notThreadSafe := [],
    fields := [("loop_", immutable), ("ipPort_", immutable), ("name_", immutable), ("acceptor_", immutable),
      ("threadPool_", immutable), ("connectionCallback_", immutable), ("messageCallback_", immutable),
      ("writeCompleteCallback_", immutable), ("threadInitCallback_", immutable), ("started_", atomic),
      ("nextConnId_", confined), ("connections_", confined), ("alive_", confined)] },
  { cls := "TcpClient", ownerChecks := ["loop_"],
    setup := ["setConnectionCallback", "setMessageCallback", "setWriteCompleteCallback"],
    notThreadSafe := [],
    fields := [("loop_", immutable), ("connector_", immutable), ("name_", immutable),
      ("connectionCallback_", immutable), ("messageCallback_", immutable),
      ("writeCompleteCallback_", immutable), ("retry_", atomic), ("connect_", atomic),
      ("nextConnId_", confined), ("mutex_", sync), ("connection_", guarded "mutex_")] },
  { cls := "Connector", ownerChecks := ["loop_"],
    setup := ["setNewConnectionCallback"], notThreadSafe := [],
    fields := [("loop_", immutable), ("serverAddr_", immutable), ("connect_", atomic), ("state_", confined),
      ("channel_", confined), ("newConnectionCallback_", immutable), ("retryDelayMs_", confined),
      ("retryTimer_", confined)] },
  { cls := "TimerQueue", ownerChecks := ["loop_"], setup := [], notThreadSafe := [],
    fields := [("loop_", immutable), ("timerfd_", immutable), ("timerfdChannel_", confined),
      ("timers_", confined), ("activeTimers_", confined), ("callingExpiredTimers_", confined),
      ("cancelingTimers_", confined)] },
  { cls := "EventLoopThread", ownerChecks := [], setup := [], notThreadSafe := [],
    fields := [("loop_", guarded "mutex_"), ("finished_", guarded "mutex_"), ("exiting_", ctorOnly), ("thread_", owner), ("mutex_", sync),
      ("cond_", sync), ("callback_", immutable)] },
  { cls := "EventLoopThreadPool", ownerChecks := ["baseLoop_"],
    setup := ["setThreadNum"], notThreadSafe := ["started"],
    fields := [("baseLoop_", immutable), ("name_", immutable), ("started_", confined),
      ("numThreads_", immutable), ("next_", confined), ("threads_", confined), ("loops_", confined)] },
  { cls := "Acceptor", ownerChecks := ["loop_"],
    setup := ["setNewConnectionCallback"], notThreadSafe := ["listening"],
    fields := [("loop_", immutable), ("acceptSocket_", confined), ("acceptChannel_", confined),
      ("newConnectionCallback_", immutable), ("listening_", confined), ("idleFd_", confined)] },
  { cls := "ThreadPool", ownerChecks := [],
    setup := ["setMaxQueueSize", "setThreadInitCallback", "start"], notThreadSafe := [],
    fields := [("mutex_", sync), ("notEmpty_", sync), ("notFull_", sync), ("name_", immutable),
      ("threadInitCallback_", immutable), ("threads_", immutable), ("queue_", guarded "mutex_"),
      ("maxQueueSize_", immutable), ("running_", atomic)] },
  { cls := "BlockingQueue", ownerChecks := [], setup := [], notThreadSafe := [],
    fields := [("mutex_", sync), ("notEmpty_", sync), ("queue_", guarded "mutex_")] },
  { cls := "BoundedBlockingQueue", ownerChecks := [], setup := [], notThreadSafe := [],
    fields := [("mutex_", sync), ("notEmpty_", sync), ("notFull_", sync), ("queue_", guarded "mutex_")] },
  { cls := "CountDownLatch", ownerChecks := [], setup := [], notThreadSafe := [],
    fields := [("mutex_", sync), ("condition_", guarded "mutex_"), ("count_", guarded "mutex_")] },
  { cls := "AsyncLogging", ownerChecks := [], setup := [], notThreadSafe := [],
    fields := [("flushInterval_", immutable), ("running_", atomic), ("basename_", immutable),
      ("rollSize_", immutable), ("thread_", owner), ("latch_", sync), ("mutex_", sync), ("cond_", sync),
      ("currentBuffer_", guarded "mutex_"), ("nextBuffer_", guarded "mutex_"),
      ("buffers_", guarded "mutex_")] },
  -- namespace-scope variables of Logging.cc: configured before threads log (documented usage)
  { cls := "Logging", ownerChecks := [],
    setup := ["setLogLevel", "setOutput", "setFlush", "setTimeZone"], notThreadSafe := [],
    fields := [("g_logLevel", immutable), ("g_output", immutable), ("g_flush", immutable),
      ("g_logTimeZone", immutable), ("g_logTimeZoneGen", atomic)] }
]

/-- functions that may be called through a member pointer from any thread.  Those of analysed
classes must themselves be roots of the generated table (`calleesCovered`); calls of anything
else through a member are accepted only in a loop-confined / locked / single-owner context. -/
def safeCallees : List String := [
  "EventLoop::runInLoop", "EventLoop::queueInLoop", "EventLoop::runAt", "EventLoop::runAfter",
  "EventLoop::runEvery", "EventLoop::cancel", "EventLoop::quit", "EventLoop::wakeup",
  "EventLoop::isInLoopThread", "EventLoop::assertInLoopThread",
  "TimerQueue::addTimer", "TimerQueue::cancel",
  "Connector::start", "Connector::stop", "Connector::serverAddress",
  "TcpConnection::shutdown", "TcpConnection::forceClose",
  -- loop-confined operations fail fast off-thread, so calling them is safe anywhere
  "EventLoopThreadPool::start", "EventLoopThreadPool::getNextLoop",
  "EventLoop::updateChannel", "EventLoop::removeChannel", "EventLoop::hasChannel"
]

def policyOfClass (c : String) : Option ClassPolicy := policies.find? (·.cls == c)

def lookup (k : String) : List (String × Policy) → Option Policy
  | [] => none
  | (a, p) :: rest => if a == k then some p else lookup k rest

/-- a call through a member whose callee starts with "(" is the invocation of a user callback or a
walk over container elements: outside the table (listed in the trusted base) -/
def calleeOutside (c : String) : Bool := c.startsWith "("

/-! ## 3. checks of the generated table -/

open Gen.Race in
def confinedOpAsserts (cp : ClassPolicy) (cls fn : String) : Bool :=
  confinedOps.any (fun o => o.cls == cls && o.fn == fn && cp.ownerChecks.contains o.check)

/-- the access itself against the policy of its member.  `confinedCtx`: an owner-thread check of
the class's loop dominates the access (or the function is a loop callback); `ownerRoot`: reached
from the single-owner API; `assertRead`: a debug-only read in an `assert` ahead of the owner check
of a loop-confined operation that does assert -/
def selfOk (p : Policy) (k : AKind) (locks : List String) (confinedCtx ownerRoot assertRead : Bool) : Bool :=
  match p with
  | .immutable => k == .rd || k == .call
  | .atomic => k == .ard || k == .awr
  | .guarded m => locks.contains m
  | .confined => confinedCtx || assertRead
  | .owner => ownerRoot
  | .sync => true
  | .ctorOnly => false

/-- one row of the access table respects the policy of its member -/
def rowOk (r : Row) : Bool :=
  match policyOfClass r.cls with
  | none => false
  | some cp =>
    -- methods outside the property's lists that are documented as set-up / not thread safe
    if r.rootKind == .other && (cp.setup.contains r.fn || cp.notThreadSafe.contains r.fn) then true
    else
      let confinedCtx := r.inLoop.any cp.ownerChecks.contains || r.rootKind == .handler
      if r.field == "(this)" then
        safeCallees.contains r.callee || confinedCtx
      else
        match lookup r.field cp.fields with
        | none => false
        | some p =>
          let assertRead := r.inAssert && r.kind == .rd && r.rootKind == .confined &&
            confinedOpAsserts cp r.cls r.root
          let calleeOk := r.kind != .call || calleeOutside r.callee || safeCallees.contains r.callee ||
            confinedCtx ||
            (match p with | .guarded m => r.locks.contains m | .owner => r.rootKind == .owner | _ => false)
          selfOk p r.kind r.locks confinedCtx (r.rootKind == .owner) assertRead && calleeOk

open Gen.Race in
/-- a member's declaration fits its policy; `GUARDED_BY` annotations agree with it -/
def fieldOk (f : Field) : Bool :=
  match policyOfClass f.cls with
  | none => false
  | some cp =>
    match lookup f.name cp.fields with
    | none => false         -- every member of an analysed class needs a policy
    | some p =>
      let annot := f.guardedBy == "" ||
        (match p with
          | .guarded m => m == f.guardedBy
          | .sync => f.tc == .cond
          | _ => false)
      let shape := match p with
        | .immutable => f.writers.all cp.setup.contains && f.tc != .atomic
        | .atomic => f.tc == .atomic
        | .guarded m => fields.any (fun g => g.cls == f.cls && g.name == m && g.tc == .mutex)
        | .sync => f.tc == .mutex || f.tc == .cond || f.tc == .latch
        | .ctorOnly => f.writers.isEmpty
        | .confined => f.tc != .atomic
        | .owner => true
      annot && shape

open Gen.Race in
/-- a loop-confined operation has the owner-thread assertion of *its class's loop* as an
unconditional top-level statement -/
def confinedOk (o : ConfinedOp) : Bool :=
  match policyOfClass o.cls with
  | none => false
  | some cp => o.check != "" && cp.ownerChecks.contains o.check

open Gen.Race in
/-- every root of kind `confined` has an entry in `confinedOps` -/
def confinedListed (r : Root) : Bool :=
  r.kind != .confined || confinedOps.any (fun o => o.cls == r.cls && o.fn == r.fn)

/-- the loop-confined operations the property names must all be in the generated list -/
def requiredConfined : List (String × String) := [
  ("EventLoop", "loop"), ("EventLoop", "updateChannel"), ("EventLoop", "removeChannel"),
  ("EventLoop", "hasChannel"),
  ("EventLoopThreadPool", "start"), ("EventLoopThreadPool", "getNextLoop"),
  ("EventLoopThreadPool", "getLoopForHash"), ("EventLoopThreadPool", "getAllLoops"),
  ("TcpConnection", "connectEstablished"), ("TcpConnection", "connectDestroyed"),
  ("TcpConnection", "shutdownInLoop"), ("TcpConnection", "forceCloseInLoop"),
  ("TcpConnection", "startReadInLoop"), ("TcpConnection", "stopReadInLoop"),
  ("TimerQueue", "addTimerInLoop"), ("TimerQueue", "cancelInLoop"),
  ("Connector", "startInLoop"), ("Connector", "stopInLoop"),
  ("Acceptor", "listen"), ("TcpServer", "newConnection"), ("TcpServer", "removeConnectionInLoop")]

/-- the cross-thread operations the property names must all be roots of kind `ts`/`owner` -/
def requiredRoots : List String := [
  "EventLoop::runInLoop", "EventLoop::queueInLoop", "EventLoop::runAt", "EventLoop::runAfter",
  "EventLoop::runEvery", "EventLoop::cancel", "EventLoop::quit", "EventLoop::queueSize",
  "EventLoop::wakeup",
  "TcpConnection::send", "TcpConnection::forceClose", "TcpConnection::forceCloseWithDelay",
  "TcpConnection::startRead", "TcpConnection::stopRead", "TcpConnection::shutdown",
  "TcpConnection::connected", "TcpConnection::disconnected",
  "TcpServer::start", "TcpClient::connect", "TcpClient::disconnect", "TcpClient::stop",
  "TcpClient::connection", "TcpClient::enableRetry",
  "ThreadPool::run", "ThreadPool::stop", "ThreadPool::queueSize",
  "BlockingQueue::put", "BlockingQueue::take", "BlockingQueue::size",
  "BoundedBlockingQueue::put", "BoundedBlockingQueue::take", "BoundedBlockingQueue::size",
  "CountDownLatch::wait", "CountDownLatch::countDown", "CountDownLatch::getCount",
  "AsyncLogging::append", "AsyncLogging::stop", "Connector::start", "Connector::stop",
  "TimerQueue::addTimer", "TimerQueue::cancel", "EventLoopThread::startLoop",
  "Logging::logLevel", "Logging::~Logger"]

open Gen.Race in
def rootPresent (q : String) : Bool :=
  roots.any (fun r => r.qname == q && (r.kind == .ts || r.kind == .owner))

open Gen.Race in
/-- a callee declared safe is analysed: it is a thread-safe or a fail-fast root of the table -/
def calleeCovered (q : String) : Bool :=
  roots.any (fun r => r.qname == q && (r.kind == .ts || r.kind == .confined))

/-- rows that break their policy (for error reporting by the driver) -/
def badRows (rs : List Row) : List Row := rs.filter (fun r => !rowOk r)

/-! ### model of the owner-thread assertion -/

/-- the actions of a loop-confined operation, in program order -/
inductive Act
  | assertOwner            -- `loop_->assertInLoopThread()`
  | access (e : Ev)        -- a member access
  deriving DecidableEq, Repr

/-- execute the actions on thread `t` for a loop owned by thread `o`: `assertInLoopThread()` on a
foreign thread logs FATAL and aborts — nothing after it is executed -/
def runOp (o t : Tid) : List Act → List Event
  | [] => []
  | .assertOwner :: rest => if t = o then runOp o t rest else [⟨t, .abort⟩]
  | .access e :: rest => ⟨t, e⟩ :: runOp o t rest

/-- shape that `confinedOk` + `rowOk` establish for a confined operation: some debug-only reads
(the `assert(!looping_)` kind), then the owner assertion, then the body -/
def guardedShape (acts : List Act) : Prop :=
  ∃ (pre : List Ev) (body : List Act),
    acts = pre.map Act.access ++ Act.assertOwner :: body ∧ ∀ e ∈ pre, Ev.isWrite e = false

end MuduoVerif.Race
