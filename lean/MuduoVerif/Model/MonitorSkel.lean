/-! Statement skeletons of monitor methods (the vocabulary shared by the T1-generated
    `Generated/Monitor.lean` and the declarations of `Model/Monitor.lean`).  Core Lean only. -/
namespace MuduoVerif.MonitorSkel

/-- one token of a flattened method body -/
inductive Stmt where
  | lock                          -- `MutexLockGuard lock(mutex_);`
  | unlock                        -- end of that guard's scope
  | whileWait (c : String)        -- `while (g) c.wait();`
  | ifWait (c : String)           -- `if (g) c.wait();`
  | wait (c : String)             -- a bare `c.wait();`
  | timedWait (c : String)
  | notify (c : String)
  | notifyAll (c : String)
  | act (what : String)           -- any other statement touching the object: verb + members touched
  | ifBegin | elseBegin | ifEnd
  | whileBegin | whileEnd
  | forBegin | forEnd
  | point                         -- MUDUO_VERIF_POINT
  | ret
  deriving DecidableEq, Repr

end MuduoVerif.MonitorSkel
