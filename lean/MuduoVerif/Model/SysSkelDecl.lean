/-!
# The system-call layer: what the engines' models assume of each "primitive", as statement skeletons

The models of the connection (`Model/Conn.lean`), listener (`Model/Acceptor.lean`), client (`Model/Client.lean`), dispatch
(`Model/Poller.lean`), loop (`Model/Loop.lean`), timer (`Model/Timer.lean`) and address (`Model/Inet.lean`) engines do not
look inside `sockets::write/read/readv/accept/connect/close/shutdownWrite/getSocketError/isSelfConnect/..`, `Socket::*`,
`createEventfd`, `createTimerfd`, `Poller::newDefaultPoller`, the poller constructors / destructors, `Channel::tie` and the
`InetAddress` / `sockets::toIpPort/toIp/fromIpPort` conversions: each is ONE step of the model whose result is an
environment input (`WriteRes`, `ReadRes`, `AcceptRes`, the client's `envConnect` / `envSoErr` / `envSelf`, ..) or one
function of `Model/Inet.lean`.  That reading is correct only if the wrapper is TRANSPARENT - one system call, the
arguments passed through, the result returned unchanged, a failure at most logged - or does exactly the extra work the
model knows about (the errno `switch` of `sockets::accept`, the process-ending `LOG_SYSFATAL` of the `..OrDie` functions,
the family dispatch and the byte-order conversion of the address functions).

This file states, function by function, the skeleton the models assume (`Decl.*`, written by reading where the models use
the primitive; each with the model assumption it backs).  `vlib/gen/sysskel.py` extracts the skeleton of the same
functions from /repo's current sources (`Generated/SysSkel.lean`, in the vocabulary below) and `Proofs/SysSkelTie.lean`
proves the two equal by `decide`.  A source change that makes a wrapper retry, loop, swallow or rewrite a result, call a
different system call or pass different arguments / flags, close twice or not at all, drop the byte-order conversion of a
port, invert the back-end choice .. changes the extracted skeleton and breaks that proof.

Vocabulary.  `sys f args`: a libc / system call (NOT a function of `muduo::net`; decided by the declaration the call refers
to, so `::close` and `sockets::close` cannot be confused); `call f args`: a function of muduo, qualified relative to
`muduo::net`; `store` (members, through pointers, `errno`), `assign` (locals); `log`: `LOG_ERROR` / `LOG_SYSERR` (the
function continues) and `LOG_FATAL` / `LOG_SYSFATAL` (the process ends: `Logger::~Logger` calls `abort()` for level FATAL);
`assertion`; `label v` / `brk` inside a `switch` body (`case v:` / `default:` / `break`, fall-through as in C); `ret v`.
`<result>` is the value of the action just before it.  Expressions are canonical prints (casts dropped, minimal
parentheses); integer MACROS are printed by value - on the platform of the checks: `AF_INET` = 2, `AF_INET6` = 10,
`SOL_SOCKET` = 1, `SO_ERROR` = 4, `SO_REUSEADDR` = 2, `SO_KEEPALIVE` = 9, `SO_REUSEPORT` = 15, `SOL_TCP` = 6, `TCP_INFO` =
11, `TCP_NODELAY` = 1, `SOMAXCONN` = 4096, `INET_ADDRSTRLEN` = 16, `INET6_ADDRSTRLEN` = 46, `CLOCK_MONOTONIC` = 1,
`EPOLL_CTL_ADD/DEL/MOD` = 1/2/3, errno values as in `Generated/Acceptor.lean` - enumerators by name (`SOCK_STREAM`,
`SOCK_NONBLOCK`, `SOCK_CLOEXEC`, `IPPROTO_TCP`, `SHUT_WR`, `EFD_NONBLOCK`, `TFD_NONBLOCK`, `EPOLL_CLOEXEC`).

Not part of a skeleton (the generator ignores exactly these): I1 log statements below ERROR and the text of every log
statement; I2 locals without an initialiser / default-constructed records; I3 casts of every kind, `(void)x`; I4
argument-less base-class initialisers (`noncopyable`), default-constructed members; I5 `static_assert`,
`MUDUO_VERIF_POINT`, empty statements; I6 code the preprocessor excludes in the build the checks use (`#if VALGRIND ||
defined (NO_ACCEPT4)`: `setNonBlockAndCloseOnExec` and the `::accept` variant; `#ifndef SO_REUSEPORT`).

What stays TRUSTED after this tie: the kernel's / glibc's behaviour behind each `sys` action (that `write(2)` returns the
number of bytes it took, that `accept4` with `SOCK_NONBLOCK` yields a non-blocking descriptor, that `inet_ntop` prints
dotted quads as `Model/Inet.lean` says - the latter is additionally compared with glibc's own answer in C20's
differential run), and the canonical printer of `vlib/gen/sysskel.py`.

C20: `harness/calendar_drv.cc` does exercise `sockets::toIp`, `sockets::toIpPort` and both `sockets::fromIpPort` - not by
name (which is why the static report COVERAGE.md could not see it) but through `InetAddress(sa).toIp()`,
`.toIpPort()`, `InetAddress(ip, port)` and `InetAddress(ip, port, true)` (operations `ip4`, `parse`, `ip6`); the output is
compared with `Inet.toIp` / `Inet.toIpPort` / `Inet.parseIp` / `Inet.v6IpPort` of `Model/Inet.lean` in
`lean/Driver/CalendarDrv.lean` and with glibc's `inet_ntop` / `inet_pton` and Python's `ipaddress` by the plug-in
(checked dynamically: a host-order port in `sockets::toIpPort` and a missing `hostToNetwork16` in `sockets::fromIpPort`
are both reported by C20's differential run with a concrete `ip4` line).  Core Lean only; imports nothing.
-/
namespace MuduoVerif.SysSkel

/-- `while (g) body`, `do body while (g)`, `for (init; g; inc) body` (the guard text is `init; g; inc`) -/
inductive LoopKind | whileDo | doWhile | forDo
deriving DecidableEq, Repr

/-- `LOG_ERROR`, `LOG_SYSERR` (continue); `LOG_FATAL`, `LOG_SYSFATAL` (the process ends) -/
inductive LogLevel | error | syserr | fatal | sysfatal
deriving DecidableEq, Repr

/-- one significant action; strings are canonical prints of source expressions -/
inductive Act
  | store (lhs value : String)        -- `lhs = value` on a member / through a pointer / `errno`
  | assign (var value : String)       -- an initialised local, an assignment to a local; `<result>` = value of the action before
  | call (fn args : String)           -- a function of muduo: `sockets::close`, `memZero`, `Poller::Poller` (base initialiser), ..
  | sys (fn args : String)            -- a libc / system call: `write`, `accept4`, `close`, `inet_ntop`, `snprintf`, ..
  | log (lvl : LogLevel)              -- a log statement of level ERROR or above (the text is not part of the skeleton)
  | assertion (cond : String)         -- `assert(cond)`
  | label (value : String)            -- `case value:` / `default:` inside a `switch` body
  | brk                               -- `break`
  | cont                              -- `continue`
  | ret (value : String)              -- `return value`
deriving DecidableEq, Repr

/-- a statement: an action, `if (guard) { thn } else { els }`, a loop, or `switch (scrutinee) { body }` -/
inductive Skel
  | act (a : Act)
  | ite (guard : String) (thn els : List Skel)
  | loop (kind : LoopKind) (guard : String) (body : List Skel)
  | switch (scrutinee : String) (body : List Skel)
deriving Repr

/-! `deriving DecidableEq` does not handle the nesting through `List`; the instance is written out
(structural recursion, so `decide` evaluates it in the kernel). -/
mutual
def Skel.decEq : (x y : Skel) → Decidable (x = y)
  | .act a, .act a' => if h : a = a' then isTrue (by rw [h]) else isFalse (by intro e; cases e; exact h rfl)
  | .ite g t e, .ite g' t' e' =>
    if hg : g = g' then
      match Skel.decEqL t t' with
      | isTrue ht =>
        match Skel.decEqL e e' with
        | isTrue he => isTrue (by rw [hg, ht, he])
        | isFalse he => isFalse (by intro q; cases q; exact he rfl)
      | isFalse ht => isFalse (by intro q; cases q; exact ht rfl)
    else isFalse (by intro q; cases q; exact hg rfl)
  | .loop k g b, .loop k' g' b' =>
    if hk : k = k' then
      if hg : g = g' then
        match Skel.decEqL b b' with
        | isTrue hb => isTrue (by rw [hk, hg, hb])
        | isFalse hb => isFalse (by intro q; cases q; exact hb rfl)
      else isFalse (by intro q; cases q; exact hg rfl)
    else isFalse (by intro q; cases q; exact hk rfl)
  | .switch g b, .switch g' b' =>
    if hg : g = g' then
      match Skel.decEqL b b' with
      | isTrue hb => isTrue (by rw [hg, hb])
      | isFalse hb => isFalse (by intro q; cases q; exact hb rfl)
    else isFalse (by intro q; cases q; exact hg rfl)
  | .act _, .ite .. => isFalse (by intro e; cases e)
  | .act _, .loop .. => isFalse (by intro e; cases e)
  | .act _, .switch .. => isFalse (by intro e; cases e)
  | .ite .., .act _ => isFalse (by intro e; cases e)
  | .ite .., .loop .. => isFalse (by intro e; cases e)
  | .ite .., .switch .. => isFalse (by intro e; cases e)
  | .loop .., .act _ => isFalse (by intro e; cases e)
  | .loop .., .ite .. => isFalse (by intro e; cases e)
  | .loop .., .switch .. => isFalse (by intro e; cases e)
  | .switch .., .act _ => isFalse (by intro e; cases e)
  | .switch .., .ite .. => isFalse (by intro e; cases e)
  | .switch .., .loop .. => isFalse (by intro e; cases e)
def Skel.decEqL : (x y : List Skel) → Decidable (x = y)
  | [], [] => isTrue rfl
  | [], _ :: _ => isFalse (by intro e; cases e)
  | _ :: _, [] => isFalse (by intro e; cases e)
  | a :: as, b :: bs =>
    match Skel.decEq a b with
    | isTrue h =>
      match Skel.decEqL as bs with
      | isTrue h' => isTrue (by rw [h, h'])
      | isFalse h' => isFalse (by intro q; cases q; exact h' rfl)
    | isFalse h => isFalse (by intro q; cases q; exact h rfl)
end
instance : DecidableEq Skel := Skel.decEq
instance : DecidableEq (List Skel) := Skel.decEqL

/-- "exactly one system call `f` with the arguments `args`, its result returned unchanged": the shape the models assume
of a transparent wrapper -/
def passThrough (f args : String) : List Skel := [.act (.sys f args), .act (.ret "<result>")]

/-- the `case` labels of a `switch` body, grouped: consecutive labels share the statements that follow them -/
def labelGroups : List Skel → List (List String)
  | [] => []
  | .act (.label v) :: rest =>
    match labelGroups rest, rest with
    | g :: gs, .act (.label _) :: _ => (v :: g) :: gs
    | gs, _ => [v] :: gs
  | _ :: rest => labelGroups rest

/-! ## The skeleton the models assume of each function -/
namespace Decl

/-! ### `muduo/net/SocketsOps.cc` -/

/-- the five pointer conversions: the pointer itself, nothing else (they are printed as value calls in the skeletons
below; no model looks at an address structure except through `Model/Inet.lean`) -/
def sockaddrCastConstIn6 : List Skel := [.act (.ret "addr")]
def sockaddrCastIn6 : List Skel := [.act (.ret "addr")]
def sockaddrCastConstIn : List Skel := [.act (.ret "addr")]
def sockaddrInCast : List Skel := [.act (.ret "addr")]
def sockaddrIn6Cast : List Skel := [.act (.ret "addr")]

/-- `Client.connect`: `.sockCreated k` - a NEW descriptor per attempt, non-blocking (the model's `::connect` result is the
errno of a non-blocking connect: `EINPROGRESS` is the normal case) and close-on-exec; `Acceptor`: the listening socket.
NOT transparent: a failure ends the process (`LOG_SYSFATAL`) - the models have no "socket() failed" input, which is
sound exactly because the function does not return then. -/
def createNonblockingOrDie : List Skel :=
  [ .act (.sys "socket" "family, SOCK_STREAM | SOCK_NONBLOCK | SOCK_CLOEXEC, IPPROTO_TCP"),
    .act (.assign "sockfd" "<result>"),
    .ite "sockfd < 0" [.act (.log .sysfatal)] [],
    .act (.ret "sockfd") ]

/-- `Acceptor` construction (`Acc` starts with a bound socket): NOT transparent, a failure ends the process -/
def bindOrDie : List Skel :=
  [ .act (.sys "bind" "sockfd, addr, sizeof(sockaddr_in6)"),
    .act (.assign "ret" "<result>"),
    .ite "ret < 0" [.act (.log .sysfatal)] [] ]

/-- `Acceptor.step .listen` (`listening := listenRegisters`): NOT transparent, a failure ends the process; backlog
`SOMAXCONN` -/
def listenOrDie : List Skel :=
  [ .act (.sys "listen" "sockfd, 4096"),
    .act (.assign "ret" "<result>"),
    .ite "ret < 0" [.act (.log .sysfatal)] [] ]

/-- `Acceptor.handleRead`: `peek a : AcceptRes` is the result of ONE `accept4` (non-blocking + close-on-exec: the
descriptor handed to `TcpConnection` never blocks the loop); NOT transparent - `.err e` is classified by the
`switch (savedErrno)` that `Generated/Acceptor.lean` also extracts as `acceptTable` (`classifyAccept`): the first label
group restores `errno` and returns -1 (`.expected`: `Acceptor.failed`), the second and `default` end the process
(`LOG_FATAL`: `Ev.abort "unexpected / unknown error of ::accept"`); the `LOG_SYSERR` before the switch continues
(`acceptFatalOutsideSwitch = 0`).  `SysSkel.accept_switch_is_acceptTable` ties the label groups to that table. -/
def socketsAccept : List Skel :=
  [ .act (.assign "addrlen" "sizeof(*addr)"),
    .act (.sys "accept4" "sockfd, sockets::sockaddr_cast(addr), &addrlen, SOCK_NONBLOCK | SOCK_CLOEXEC"),
    .act (.assign "connfd" "<result>"),
    .ite "connfd < 0"
      [ .act (.assign "savedErrno" "errno"),
        .act (.log .syserr),
        .switch "savedErrno"
          [ .act (.label "11"),    -- EAGAIN
            .act (.label "103"),   -- ECONNABORTED
            .act (.label "4"),     -- EINTR
            .act (.label "71"),    -- EPROTO
            .act (.label "1"),     -- EPERM
            .act (.label "24"),    -- EMFILE
            .act (.store "errno" "savedErrno"),
            .act .brk,
            .act (.label "9"),     -- EBADF
            .act (.label "14"),    -- EFAULT
            .act (.label "22"),    -- EINVAL
            .act (.label "23"),    -- ENFILE
            .act (.label "105"),   -- ENOBUFS
            .act (.label "12"),    -- ENOMEM
            .act (.label "88"),    -- ENOTSOCK
            .act (.label "95"),    -- EOPNOTSUPP
            .act (.log .fatal),
            .act .brk,
            .act (.label "default"),
            .act (.log .fatal),
            .act .brk ] ]
      [],
    .act (.ret "connfd") ]

/-- `Client.connect`: `popConnect` = the result of ONE `::connect` on the new socket (`savedErrno = (ret == 0) ? 0 :
errno` is computed by `Connector::connect` itself, so the wrapper must neither log nor touch `errno`): transparent -/
def socketsConnect : List Skel := passThrough "connect" "sockfd, addr, sizeof(sockaddr_in6)"

/-- `Loop`: `EventLoop::handleRead` drains the eventfd with ONE `read` of 8 bytes (`ev := 0`): transparent -/
def socketsRead : List Skel := passThrough "read" "sockfd, buf, count"

/-- `Conn.handleRead` / `Buffer.readFd`: one `ReadRes` of the environment per readable event (`Ev.sysReadv`): `.got n` is
what ONE `readv` delivered into the two segments, `.err e` is -1: transparent -/
def socketsReadv : List Skel := passThrough "readv" "sockfd, iov, iovcnt"

/-- `Conn.sendInLoop` / `Conn.handleWrite`: one `WriteRes` of the environment per call (`Ev.sysWrite req res`): `.took n` is
the count ONE `write` returned (possibly short - the remainder is the connection's business: `queueRemainder`, write
interest, `handleWrite`), `.err e` is -1 with `errno = e` (`writeErrLogged` / `writeErrFatal` read it).  No retry, no
loop, no rewriting of a short count.  `Loop`: `EventLoop::wakeup` adds 1 to the eventfd with one `write`.  Transparent. -/
def socketsWrite : List Skel := passThrough "write" "sockfd, buf, count"

/-- `Client.closeSock k` (`.closed k`), `Acceptor.accepted` without a callback (`Ev.closed k`), `Conn.maybeDestroy`
(`.sysClose`, through `~Socket`): ONE `close`; a failure is only logged (no model has a "close failed" input) -/
def socketsClose : List Skel :=
  [ .act (.sys "close" "sockfd"),
    .ite "<result> < 0" [.act (.log .syserr)] [] ]

/-- `Conn.shutdownInLoop`: `.sysShutdownWr` - the WRITE side only (`SHUT_WR`: `C03.keeps_receiving` relies on the read
side staying open); a failure is only logged -/
def socketsShutdownWrite : List Skel :=
  [ .act (.sys "shutdown" "sockfd, SHUT_WR"),
    .ite "<result> < 0" [.act (.log .syserr)] [] ]

/-- `Inet.toIpPort a p = toIp a ++ ":" ++ decimal p` (IPv4) and `Inet.v6IpPort t p = "[" ++ t ++ "]:" ++ decimal p`
(IPv6): family dispatch on `sa_family` (10 = `AF_INET6`, everything else is printed as IPv4), the address text is
`sockets::toIp`'s, the port is converted with `networkToHost16` (`Inet.networkToHost 2`) and printed with `%u` behind the
text (`strlen`) -/
def socketsToIpPort : List Skel :=
  [ .ite "addr.sa_family == 10"
      [ .act (.store "buf[0]" "'['"),
        .act (.call "sockets::toIp" "buf + 1, size - 1, addr"),
        .act (.assign "end" "strlen(buf)"),
        .act (.assign "addr6" "sockets::sockaddr_in6_cast(addr)"),
        .act (.assign "port" "sockets::networkToHost16(addr6.sin6_port)"),
        .act (.assertion "size > end"),
        .act (.sys "snprintf" "buf + end, size - end, \"]:%u\", port"),
        .act (.ret "") ]
      [],
    .act (.call "sockets::toIp" "buf, size, addr"),
    .act (.assign "end" "strlen(buf)"),
    .act (.assign "addr4" "sockets::sockaddr_in_cast(addr)"),
    .act (.assign "port" "sockets::networkToHost16(addr4.sin_port)"),
    .act (.assertion "size > end"),
    .act (.sys "snprintf" "buf + end, size - end, \":%u\", port") ]

/-- `Inet.toIp a` is glibc's `inet_ntop(AF_INET, &sin_addr, ..)` (2 = `AF_INET`), the IPv6 text is
`inet_ntop(AF_INET6, &sin6_addr, ..)` (an input of `Inet.v6IpPort`); any other family leaves the buffer untouched -/
def socketsToIp : List Skel :=
  [ .ite "addr.sa_family == 2"
      [ .act (.assertion "size >= 16"),
        .act (.assign "addr4" "sockets::sockaddr_in_cast(addr)"),
        .act (.sys "inet_ntop" "2, &addr4.sin_addr, buf, size") ]
      [ .ite "addr.sa_family == 10"
          [ .act (.assertion "size >= 46"),
            .act (.assign "addr6" "sockets::sockaddr_in6_cast(addr)"),
            .act (.sys "inet_ntop" "10, &addr6.sin6_addr, buf, size") ]
          [] ] ]

/-- `Inet.parseIp s` is glibc's `inet_pton(AF_INET, ..)`; the port is stored in NETWORK order (`hostToNetwork16`:
`Inet.hostToNetwork 2`), the family is set; a text that does not parse is only logged (the address stays zero:
`parse 0 p` in C20's driver) -/
def fromIpPort4 : List Skel :=
  [ .act (.store "addr.sin_family" "2"),
    .act (.store "addr.sin_port" "sockets::hostToNetwork16(port)"),
    .act (.sys "inet_pton" "2, ip, &addr.sin_addr"),
    .ite "<result> <= 0" [.act (.log .syserr)] [] ]

/-- the IPv6 twin (`ip6` lines of C20's driver: glibc's text is the input) -/
def fromIpPort6 : List Skel :=
  [ .act (.store "addr.sin6_family" "10"),
    .act (.store "addr.sin6_port" "sockets::hostToNetwork16(port)"),
    .act (.sys "inet_pton" "10, ip, &addr.sin6_addr"),
    .ite "<result> <= 0" [.act (.log .syserr)] [] ]

/-- `Client.handleWrite` / `handleError`: `popSoErr` - ONE `getsockopt(SOL_SOCKET = 1, SO_ERROR = 4)`; the value is
`optval`, or `errno` when the query itself fails (the models' `err : Nat` covers both; `Conn.handleError` only logs it) -/
def getSocketError : List Skel :=
  [ .act (.assign "optlen" "sizeof(optval)"),
    .act (.sys "getsockopt" "sockfd, 1, 4, &optval, &optlen"),
    .ite "<result> < 0" [.act (.ret "errno")] [.act (.ret "optval")] ]

/-- names / addresses of a new connection (`TcpClient::newConnection`, `TcpServer::newConnection`) and the two halves of
`isSelfConnect`: ONE `getsockname` into a zeroed structure; a failure is only logged (the zero address is returned) -/
def getLocalAddr : List Skel :=
  [ .act (.call "memZero" "&localaddr, sizeof(localaddr)"),
    .act (.assign "addrlen" "sizeof(localaddr)"),
    .act (.sys "getsockname" "sockfd, sockets::sockaddr_cast(&localaddr), &addrlen"),
    .ite "<result> < 0" [.act (.log .syserr)] [],
    .act (.ret "localaddr") ]

/-- ONE `getpeername` into a zeroed structure; a failure is only logged -/
def getPeerAddr : List Skel :=
  [ .act (.call "memZero" "&peeraddr, sizeof(peeraddr)"),
    .act (.assign "addrlen" "sizeof(peeraddr)"),
    .act (.sys "getpeername" "sockfd, sockets::sockaddr_cast(&peeraddr), &addrlen"),
    .ite "<result> < 0" [.act (.log .syserr)] [],
    .act (.ret "peeraddr") ]

/-- `Client.handleWrite`: `popSelf` - a pure comparison of the two addresses of the socket (port AND address, per
family); no side effect on the socket -/
def isSelfConnect : List Skel :=
  [ .act (.call "sockets::getLocalAddr" "sockfd"),
    .act (.assign "localaddr" "<result>"),
    .act (.call "sockets::getPeerAddr" "sockfd"),
    .act (.assign "peeraddr" "<result>"),
    .ite "localaddr.sin6_family == 2"
      [ .act (.assign "laddr4" "&localaddr"),
        .act (.assign "raddr4" "&peeraddr"),
        .act (.ret "laddr4.sin_port == raddr4.sin_port && laddr4.sin_addr.s_addr == raddr4.sin_addr.s_addr") ]
      [ .ite "localaddr.sin6_family == 10"
          [ .act (.ret "localaddr.sin6_port == peeraddr.sin6_port && memcmp(&localaddr.sin6_addr, &peeraddr.sin6_addr, sizeof(localaddr.sin6_addr)) == 0") ]
          [ .act (.ret "false") ] ] ]

/-! ### `muduo/net/Endian.h`: `Inet.hostToNetwork n = Inet.networkToHost n = Inet.bswap n` (`htobe*` / `be*toh` expand to
glibc's `__bswap_16/32/64` on the little-endian host of the checks; `C20.be_roundtrip`, the `be` lines of C20's driver) -/
def hostToNetwork64 : List Skel := [.act (.ret "__bswap_64(host64)")]
def hostToNetwork32 : List Skel := [.act (.ret "__bswap_32(host32)")]
def hostToNetwork16 : List Skel := [.act (.ret "__bswap_16(host16)")]
def networkToHost64 : List Skel := [.act (.ret "__bswap_64(net64)")]
def networkToHost32 : List Skel := [.act (.ret "__bswap_32(net32)")]
def networkToHost16 : List Skel := [.act (.ret "__bswap_16(net16)")]

/-! ### `muduo/net/Socket.h`, `Socket.cc` -/

/-- the descriptor is stored, nothing else (no system call: `TcpConnection` / `Acceptor` own an already open socket) -/
def socketCtor : List Skel := [.act (.store "sockfd_" "sockfd")]
def socketFd : List Skel := [.act (.ret "sockfd_")]

/-- `Conn.maybeDestroy`: `.sysClose` exactly ONCE when the last reference goes away (`C02`: close once, after DOWN, never
while registered); `Acceptor.destroy` (the listening socket) -/
def socketDtor : List Skel := [.act (.call "sockets::close" "sockfd_")]

/-- not modelled (a read-only query of the kernel's counters): zeroed buffer, ONE `getsockopt(SOL_TCP = 6, TCP_INFO = 11)` -/
def getTcpInfo : List Skel :=
  [ .act (.assign "len" "sizeof(*tcpi)"),
    .act (.call "memZero" "tcpi, len"),
    .act (.sys "getsockopt" "sockfd_, 6, 11, tcpi, &len"),
    .act (.ret "<result> == 0") ]

/-- not modelled: text of the above -/
def getTcpInfoString : List Skel :=
  [ .act (.call "getTcpInfo" "&tcpi"),
    .act (.assign "ok" "<result>"),
    .ite "ok"
      [ .act (.sys "snprintf" "buf, len, \"unrecovered=%u rto=%u ato=%u snd_mss=%u rcv_mss=%u lost=%u retrans=%u rtt=%u rttvar=%u sshthresh=%u cwnd=%u total_retrans=%u\", tcpi.tcpi_retransmits, tcpi.tcpi_rto, tcpi.tcpi_ato, tcpi.tcpi_snd_mss, tcpi.tcpi_rcv_mss, tcpi.tcpi_lost, tcpi.tcpi_retrans, tcpi.tcpi_rtt, tcpi.tcpi_rttvar, tcpi.tcpi_snd_ssthresh, tcpi.tcpi_snd_cwnd, tcpi.tcpi_total_retrans") ]
      [],
    .act (.ret "ok") ]

/-- `Acceptor` construction: the listening address is bound (or the process ends) -/
def bindAddress : List Skel := [.act (.call "sockets::bindOrDie" "sockfd_, addr.getSockAddr()")]

/-- `Acceptor.step .listen` -/
def socketListen : List Skel := [.act (.call "sockets::listenOrDie" "sockfd_")]

/-- `Acceptor.handleRead`: `acceptSocket_.accept(&peerAddr)` is `sockets::accept` on the listening descriptor; the peer
address is stored ONLY for an accepted connection (`connfd >= 0`: `acceptedOk`) and the descriptor is returned unchanged -/
def socketAccept : List Skel :=
  [ .act (.call "memZero" "&addr, sizeof(addr)"),
    .act (.call "sockets::accept" "sockfd_, &addr"),
    .act (.assign "connfd" "<result>"),
    .ite "connfd >= 0" [.act (.call "peeraddr.setSockAddrInet6" "addr")] [],
    .act (.ret "connfd") ]

/-- `Conn.shutdownInLoop`: `socket_->shutdownWrite()` is `sockets::shutdownWrite` on the connection's descriptor -/
def socketShutdownWrite : List Skel := [.act (.call "sockets::shutdownWrite" "sockfd_")]

/-- the four socket options: ONE `setsockopt` each, the result is IGNORED (`FIXME CHECK` in the source) - no model has
an input or an event for them (NOT an error path of any model; `setReusePort` logs a failure when switching on) -/
def setTcpNoDelay : List Skel :=
  [ .act (.assign "optval" "on ? 1 : 0"),
    .act (.sys "setsockopt" "sockfd_, IPPROTO_TCP, 1, &optval, sizeof(optval)") ]
def setReuseAddr : List Skel :=
  [ .act (.assign "optval" "on ? 1 : 0"),
    .act (.sys "setsockopt" "sockfd_, 1, 2, &optval, sizeof(optval)") ]
def setReusePort : List Skel :=
  [ .act (.assign "optval" "on ? 1 : 0"),
    .act (.sys "setsockopt" "sockfd_, 1, 15, &optval, sizeof(optval)"),
    .act (.assign "ret" "<result>"),
    .ite "ret < 0 && on" [.act (.log .syserr)] [] ]
def setKeepAlive : List Skel :=
  [ .act (.assign "optval" "on ? 1 : 0"),
    .act (.sys "setsockopt" "sockfd_, 1, 9, &optval, sizeof(optval)") ]

/-! ### `muduo/net/InetAddress.h`, `InetAddress.cc` -/

/-- listening addresses (`InetAddress(port)`): family, any / loopback address and the port, all in NETWORK order
(`hostToNetwork32`, `hostToNetwork16`) in a zeroed structure -/
def inetCtorPort : List Skel :=
  [ .ite "ipv6"
      [ .act (.call "memZero" "&addr6_, sizeof(addr6_)"),
        .act (.store "addr6_.sin6_family" "10"),
        .act (.assign "ip" "loopbackOnly ? in6addr_loopback : in6addr_any"),
        .act (.store "addr6_.sin6_addr" "ip"),
        .act (.store "addr6_.sin6_port" "sockets::hostToNetwork16(portArg)") ]
      [ .act (.call "memZero" "&addr_, sizeof(addr_)"),
        .act (.store "addr_.sin_family" "2"),
        .act (.assign "ip" "loopbackOnly ? kInaddrLoopback : kInaddrAny"),
        .act (.store "addr_.sin_addr.s_addr" "sockets::hostToNetwork32(ip)"),
        .act (.store "addr_.sin_port" "sockets::hostToNetwork16(portArg)") ] ]

/-- `parse` / `ip4` / `ip6` of C20's driver: the text is an IPv6 address iff asked for or it contains `':'`, otherwise
IPv4 (`Inet.parseIp`); the structure is zeroed first, so a text that does not parse leaves address 0 -/
def inetCtorIpPort : List Skel :=
  [ .ite "ipv6 || strchr(ip.c_str(), ':')"
      [ .act (.call "memZero" "&addr6_, sizeof(addr6_)"),
        .act (.call "sockets::fromIpPort" "ip.c_str(), portArg, &addr6_") ]
      [ .act (.call "memZero" "&addr_, sizeof(addr_)"),
        .act (.call "sockets::fromIpPort" "ip.c_str(), portArg, &addr_") ] ]

/-- a copy of the structure, unchanged (`ip4` of C20's driver builds its `InetAddress` this way) -/
def inetCtorIn : List Skel := [.act (.store "addr_" "addr")]
def inetCtorIn6 : List Skel := [.act (.store "addr6_" "addr")]
def inetFamily : List Skel := [.act (.ret "addr_.sin_family")]
def inetGetSockAddr : List Skel := [.act (.ret "sockets::sockaddr_cast(&addr6_)")]
/-- `Socket::accept`'s peer address: a copy, unchanged -/
def inetSetSockAddrInet6 : List Skel := [.act (.store "addr6_" "addr6")]
def inetPortNetEndian : List Skel := [.act (.ret "addr_.sin_port")]

/-- `Inet.toIpPort` / `Inet.v6IpPort`: exactly `sockets::toIpPort` on the own address, into an empty 64-byte buffer -/
def inetToIpPort : List Skel :=
  [ .act (.assign "buf" "\"\""),
    .act (.call "sockets::toIpPort" "buf, sizeof(buf), getSockAddr()"),
    .act (.ret "buf") ]

/-- `Inet.toIp`: exactly `sockets::toIp` on the own address -/
def inetToIp : List Skel :=
  [ .act (.assign "buf" "\"\""),
    .act (.call "sockets::toIp" "buf, sizeof(buf), getSockAddr()"),
    .act (.ret "buf") ]

/-- the address as stored (network order); IPv4 only -/
def inetIpv4NetEndian : List Skel :=
  [ .act (.assertion "family() == 2"),
    .act (.ret "addr_.sin_addr.s_addr") ]

/-- the port in HOST order: `networkToHost16` of the stored one -/
def inetPort : List Skel := [.act (.ret "sockets::networkToHost16(portNetEndian())")]

/-- not modelled (name service): ONE `gethostbyname_r`; only the IPv4 address of `out` changes, and only on success -/
def inetResolve : List Skel :=
  [ .act (.assertion "out != NULL"),
    .act (.assign "he" "NULL"),
    .act (.assign "herrno" "0"),
    .act (.call "memZero" "&hent, sizeof(hent)"),
    .act (.sys "gethostbyname_r" "hostname.c_str(), &hent, t_resolveBuffer, sizeof(t_resolveBuffer), &he, &herrno"),
    .act (.assign "ret" "<result>"),
    .ite "ret == 0 && he != NULL"
      [ .act (.assertion "he.h_addrtype == 2 && he.h_length == sizeof(uint32_t)"),
        .act (.store "out.addr_.sin_addr" "*he.h_addr_list[0]"),
        .act (.ret "true") ]
      [ .ite "ret" [.act (.log .syserr)] [],
        .act (.ret "false") ] ]

/-- not modelled: a store to the IPv6 scope, IPv6 addresses only -/
def inetSetScopeId : List Skel :=
  [ .ite "family() == 10" [.act (.store "addr6_.sin6_scope_id" "scope_id")] [] ]

/-! ### the pollers, `Channel::tie`, the two special descriptors -/

/-- the `Backend` parameter of `Model/Poller.lean`, `Model/Conn.lean`, `Model/Client.lean`, .. (`Poller.init be`): the
harnesses choose it by setting / unsetting `MUDUO_USE_POLL` - SET means `PollPoller`, unset means `EPollPoller` -/
def newDefaultPoller : List Skel :=
  [ .act (.sys "getenv" "\"MUDUO_USE_POLL\""),
    .ite "<result>"
      [ .act (.ret "new PollPoller(loop)") ]
      [ .act (.ret "new EPollPoller(loop)") ] ]

/-- `Poller.init be`: an EMPTY channel map (`channels_` default-constructed), the owner loop stored -/
def pollerCtor : List Skel := [.act (.store "ownerLoop_" "loop")]
/-- `= default`: no statement of its own (the model's pollers hold no resource besides epoll's descriptor) -/
def pollerDtor : List Skel := []

/-- `Poller::hasChannel` is the value `s.cmap (fdOf c) = some c` the assertions of `Model/Poller.lean` test
(`PollerSkel.Decl.loopHasChannel`): present under its own descriptor AND the same object -/
def pollerHasChannel : List Skel :=
  [ .act (.call "assertInLoopThread" ""),
    .act (.assign "it" "channels_.find(channel.fd())"),
    .act (.ret "it != channels_.end() && it.second == channel") ]

/-- `Poller.init .epoll`: ONE `epoll_create1(EPOLL_CLOEXEC)` (a failure ends the process), `events_` starts with
`kInitEventListSize` entries (`evsize := kInitEventListSize`: the growth bound of `C09`) -/
def epollCtor : List Skel :=
  [ .act (.call "Poller::Poller" "loop"),
    .act (.sys "epoll_create1" "EPOLL_CLOEXEC"),
    .act (.store "epollfd_" "<result>"),
    .act (.store "events_" "kInitEventListSize"),
    .ite "epollfd_ < 0" [.act (.log .sysfatal)] [] ]

/-- the epoll descriptor is closed exactly once, with a plain `::close` (nothing is logged) -/
def epollDtor : List Skel := [.act (.sys "close" "epollfd_")]

/-- a debug string for `LOG_TRACE` / the error logs of `EPollPoller::update` (1/2/3 = `EPOLL_CTL_ADD/DEL/MOD`); no model
looks at it -/
def epollOperationToString : List Skel :=
  [ .switch "op"
      [ .act (.label "1"),
        .act (.ret "\"ADD\""),
        .act (.label "2"),
        .act (.ret "\"DEL\""),
        .act (.label "3"),
        .act (.ret "\"MOD\""),
        .act (.label "default"),
        .act (.assertion "false && \"ERROR op\""),
        .act (.ret "\"Unknown Operation\"") ] ]

/-- `Poller.init .poll`: nothing but the base class (an empty `pollfds_`) -/
def pollCtor : List Skel := [.act (.call "Poller::Poller" "loop")]
def pollDtor : List Skel := []

/-- `ConnSkel.Decl.connectEstablished`'s `.chan .tie` (the connection model's channel is always tied: `Conn.handleEvent`
does nothing once the connection is gone): the weak reference is stored and the flag set, nothing else -/
def channelTie : List Skel :=
  [ .act (.store "tie_" "obj"),
    .act (.store "tied_" "true") ]

/-- `Model/Loop.lean`'s eventfd counter `ev` starts at 0 (`Loop.init`: `ev := 0`) and is NOT a semaphore (no
`EFD_SEMAPHORE`: ONE read resets it, `ev := 0` in the `.wake` step); NON-BLOCKING (a `handleRead` on a counter that is 0
must not block the loop) and close-on-exec; a failure ends the process (`LOG_SYSERR` + `abort()`) -/
def createEventfd : List Skel :=
  [ .act (.sys "eventfd" "0, EFD_NONBLOCK | EFD_CLOEXEC"),
    .act (.assign "evtfd" "<result>"),
    .ite "evtfd < 0"
      [ .act (.log .syserr),
        .act (.sys "abort" "") ]
      [],
    .act (.ret "evtfd") ]

/-- `Model/Timer.lean`'s timerfd: monotonic clock (1 = `CLOCK_MONOTONIC`; the model's alarm is relative:
`howMuchTimeFromNow`), NON-BLOCKING (`readTimerfd` after a spurious wake-up must not block the loop), close-on-exec; a
failure ends the process -/
def createTimerfd : List Skel :=
  [ .act (.sys "timerfd_create" "1, TFD_NONBLOCK | TFD_CLOEXEC"),
    .act (.assign "timerfd" "<result>"),
    .ite "timerfd < 0" [.act (.log .sysfatal)] [],
    .act (.ret "timerfd") ]

end Decl

end MuduoVerif.SysSkel
