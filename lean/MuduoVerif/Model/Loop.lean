import MuduoVerif.Generated.Loop
/-!
# Model of `EventLoop` task submission / quit and of `EventLoopThread` (engine `loop`, C04 + C05)

A thread-indexed transition system.  One `step s k` = the code thread `k` executes between two
consecutive *visible actions* (named `MUDUO_VERIF_POINT`s, the eventfd write / read, the start of
a task body, the return of `poll`, the return of an API call that can block).  Every action that
touches shared state sits in exactly one step; critical sections of `EventLoop::mutex_` contain no
yield point and are therefore atomic steps, the mutex of `EventLoopThread` is held across points
by the destructor and is modelled explicitly (`mtx`).

There is **no poll timeout**: the loop thread in phase `polling` is enabled iff the eventfd counter
is positive or the environment made the pipe readable (`ioReady`).  "Never waits for the poll
timeout" is thereby the safety property "never blocked in `polling` with work outstanding and
nobody about to write the eventfd".

Branch guards, the position of the `quit_` reset, the existence of the final drain, the swap, the
locking of `~EventLoopThread` and the `finished_` handshake between `threadFunc` and `startLoop` come from
`Generated/Loop.lean` (re-extracted from /repo).

**Functor objects die, too.**  A functor is an object; what it owns (a bound session, the last `shared_ptr` to
something) is destroyed with it, on the loop thread, and the destructor of such a captured object is user code that may
call `queueInLoop` / `runInLoop` / `quit` again.  `dtbl t` is what the destruction of task `t`'s functor object does
(`[]` for a functor that owns nothing of interest).  The functor objects of a batch live in the local vector of
`doPendingFunctors` until the vector is emptied: after all of them have run they die in vector order (`corpses`,
`burying`), and **where that happens relative to `callingPendingFunctors_ = false`** is the extracted flag
`batchDestroyedBeforeReset`.  The functor handed to an inline `runInLoop` (a by-value parameter) dies when the call
returns (`Sub.bury`).  A task started by the pipe's read callback is a plain function call: no functor object.  Not
modelled: the destruction of functors that are still queued when the `EventLoop` itself is destroyed (they are
destroyed unexecuted inside `~EventLoop`).

**`loop()` may be entered again.**  In the plain scenario the owner's program goes on after `loop()` has returned:
`again` is the list of its further segments; each segment is run by the owner thread outside `loop()` (exactly like
`pre`: phase `pre`, `looping_ = false`), after which `loop()` is called again on the same object — the code supports
that: `quit_` is re-armed when `loop()` returns.  A **run** of `loop()` is the stretch from one `loop:entry` to the next
`returned`.  `appendOrder` / `executed` / `pending` / `ev` are properties of the loop object and go on across runs; the
ghosts `qreq`, `selfQuit`, `quitMark`, `retMark` speak about ONE run (the current one, or — in phase `returned` — the
one that has just ended) and are re-initialised by the silent step that starts the next segment (`relaunch`): a
`quit()` whose flag store came after `loop()` had returned is a request to the next run.
-/
namespace MuduoVerif.Loop
open MuduoVerif.Gen.Loop

abbrev TaskId := Nat

/-- what a thread / a task body does, one API call each -/
inductive Sub
  | queue (t : TaskId)      -- loop->queueInLoop(task t)
  | run (t : TaskId)        -- loop->runInLoop(task t)
  | quit                    -- loop->quit()
  | post (t : TaskId)       -- make the pipe readable; its channel's read callback runs task t
  | startLoop               -- EventLoopThread::startLoop()      (owner of the EventLoopThread)
  | destroy                 -- EventLoopThread::~EventLoopThread()
  | bury (t : TaskId)       -- not an API call: the functor object of task t that was handed to an inline runInLoop dies
                            -- (pushed by the model behind an inline call; the drivers' case language cannot write it)
  deriving DecidableEq, Repr, Inhabited

/-- position of a thread inside one API call -/
inductive Pc
  | idle
  | appended      -- queueInLoop: functor appended (point `queueInLoop:appended`), wake-up test not yet done
  | quitStored    -- quit: flag stored (point `quit:stored`), wake-up not yet done
  | sCheck        -- startLoop: thread started, about to lock and test `loop_`
  | sWaiting      -- startLoop: in `cond_.wait()`
  | dEntry        -- ~EventLoopThread: after point `dtor:entry`
  | dBeforeQuit   -- ~EventLoopThread: `loop_ != NULL` seen (point `dtor:beforeQuit`)
  | dStored       -- ~EventLoopThread: inside quit(), flag stored
  | dJoin         -- ~EventLoopThread: about to join
  deriving DecidableEq, Repr, Inhabited

/-- phase of the loop thread -/
inductive Phase
  | unborn        -- EventLoopThread: thread not created yet
  | born          -- EventLoopThread: thread runs, `EventLoop loop;` not yet constructed
  | pre           -- loop constructed; owner thread runs its pre-`loop()` program (init callback)
  | ready         -- EventLoopThread: `loop_` published (point `threadFunc:published`)
  | entered       -- `looping_ = true` done (point `loop:entry`)
  | looptest      -- end of an iteration (point `loop:afterFunctors`)
  | polling       -- inside `poll` (point `loop:beforePoll` passed)
  | dispatch      -- `poll` returned (point `loop:afterPoll`); handling the active channels
  | preSwap       -- `callingPendingFunctors_ = true` done (point `doPendingFunctors:beforeSwap`)
  | draining      -- batch swapped out (point `doPendingFunctors:afterSwap`); running it
  | atExit        -- left the `while` (point `loop:exit`)
  | returned      -- `loop()` returned
  | dead          -- EventLoopThread: `loop_` cleared, `EventLoop` destroyed, thread finished
  deriving DecidableEq, Repr, Inhabited

/-- a channel reported by `poll` -/
inductive Item | wake | pipe
  deriving DecidableEq, Repr

/-- observable action of one step (what both drivers print) -/
inductive Event
  | point (name : String)
  | exec (t : TaskId)
  | dtor (t : TaskId)                -- the destructor of what task t's functor object owns starts to run
  | wakeup | wakeread
  | post (t : TaskId)
  | started | startedNull | joined | returned | destroyed
  | uaf (what : String)
  deriving DecidableEq, Repr

structure FThread where
  pc : Pc := .idle
  prog : List Sub := []
  deriving Repr, Inhabited

structure St where
  -- configuration (never changes)
  elt : Bool                         -- EventLoopThread scenario: loop thread is T1, owner/destroyer is T0
  wakeLast : Bool                    -- order in which `poll` reports the eventfd and the pipe
  tbl : TaskId → List Sub            -- body of each task
  dtbl : TaskId → List Sub           -- what the destruction of each task's functor object does (mostly `[]`)
  -- fields of EventLoop
  alive : Bool
  pending : List TaskId              -- pendingFunctors_ (under mutex_)
  calling : Bool                     -- callingPendingFunctors_
  looping : Bool
  quit : Bool
  ev : Nat                           -- eventfd counter
  ioReady : List TaskId              -- bytes in the pipe (one handler task each)
  -- fields of EventLoopThread
  loopPtr : Bool                     -- loop_ != NULL
  mtx : Bool                         -- mutex_ held across a point (only the destructor does that)
  waiting : Bool                     -- startLoop is inside cond_.wait() and has not been notified
  finished : Bool                    -- finished_: threadFunc has left loop() and cleared loop_
  -- the loop thread
  phase : Phase
  lpc : Pc
  stack : List (List Sub)            -- remaining actions of the task bodies being executed (innermost first)
  active : List Item
  batch : List TaskId                -- the local vector `functors`, not yet executed part
  final : Bool                       -- the drain in progress is the one after the `while`
  again : List (List Sub)            -- plain scenario: what the owner does after loop() returned, segment by segment,
                                     -- each followed by another call of loop()
  corpses : List TaskId              -- functor objects of the batch that have run and still sit in the local vector
                                     -- (those whose destruction does something: `dtbl t ≠ []`), in vector order
  burying : Bool                     -- the batch has run and its functor objects are being destroyed
  -- the other threads
  thr : Nat → FThread
  -- ghosts
  appendOrder : List TaskId          -- every functor ever appended, in mutex order
  executed : List TaskId             -- functors taken from a batch and started, in order
  qreq : Bool                        -- some quit() stored the flag (for this run of loop(), see `relaunch`)
  selfQuit : Bool                    -- quit() was called on the loop thread (this run)
  quitMark : Option Nat              -- appendOrder.length at the first flag store of this run (a store made between
                                     -- two runs counts at the relaunch)
  retMark : Option Nat               -- appendOrder.length when this run of loop() returned (at its last test of the queue)
  uafDtor : Bool                     -- the destructor touched a destroyed loop
  uafUser : Bool                     -- a user call touched a destroyed loop (outside the property)
  wrongThread : Bool                 -- a task body started on a thread other than the loop thread
  out : Option Event                 -- visible action of the last step

/-- index of the loop thread -/
def St.L (s : St) : Nat := if s.elt then 1 else 0

def setThr (s : St) (k : Nat) (t : FThread) : St :=
  { s with thr := fun j => if j = k then t else s.thr j }

/-! ## the loop thread -/

/-- `poll` can return -/
def pollReady (s : St) : Bool := decide (0 < s.ev) || !s.ioReady.isEmpty

def activeOf (s : St) : List Item :=
  let w := if 0 < s.ev then [Item.wake] else []
  let p := if s.ioReady.isEmpty then [] else [Item.pipe]
  if s.wakeLast then p ++ w else w ++ p

/-- the mark a flag store leaves: the number of functors appended before the FIRST store -/
def markOf (s : St) : Option Nat := some (s.quitMark.getD s.appendOrder.length)

/-- the `while (!quit_)` test -/
def testQuit (s : St) : St :=
  if s.quit then { s with phase := .atExit, out := some (.point "loop:exit") }
  else { s with phase := .polling, out := some (.point "loop:beforePoll") }

/-- leaving `loop()`: `looping_ = false`, the flag re-armed (if the code does that here) -/
def leaveLoop (s : St) : St :=
  { s with looping := false, quit := if quitResetAtExit then false else s.quit,
           phase := .returned, final := false, retMark := some s.appendOrder.length,
           out := some (if s.elt then .point "threadFunc:loopReturned" else .returned) }

/-- next action of the task body on top of the loop thread's stack (`lpc`/`stack` not both idle/empty) -/
def runTop (s : St) : St :=
  match s.lpc with
  | .appended =>
    if wakeGuard true s.calling s.looping then { s with ev := s.ev + 1, lpc := .idle, out := some .wakeup }
    else { s with lpc := .idle, out := none }
  | .quitStored =>
    if quitWakes true then { s with ev := s.ev + 1, lpc := .idle, out := some .wakeup }
    else { s with lpc := .idle, out := none }
  | _ =>
    match s.stack with
    | [] => { s with out := none }
    | [] :: rest =>
      { s with stack := rest,
               out := if rest.isEmpty && s.phase == .draining && !s.burying
                      then some (.point "doPendingFunctors:functorDone") else none }
    | (.queue x :: r) :: rest =>
      { s with pending := s.pending ++ [x], appendOrder := s.appendOrder ++ [x], stack := r :: rest,
               lpc := .appended, out := some (.point "queueInLoop:appended") }
    | (.run x :: r) :: rest =>
      -- inline: the functor is a by-value parameter of `runInLoop`; it dies when the call returns
      if runInline true then { s with stack := s.tbl x :: (.bury x :: r) :: rest, out := some (.exec x) }
      else { s with pending := s.pending ++ [x], appendOrder := s.appendOrder ++ [x], stack := r :: rest,
                    lpc := .appended, out := some (.point "queueInLoop:appended") }
    | (.quit :: r) :: rest =>
      { s with quit := true, qreq := true, selfQuit := true, quitMark := markOf s, stack := r :: rest,
               lpc := .quitStored, out := some (.point "quit:stored") }
    | (.post x :: r) :: rest =>
      { s with ioReady := s.ioReady ++ [x], stack := r :: rest, out := some (.post x) }
    | (.bury x :: r) :: rest =>
      if (s.dtbl x).isEmpty then { s with stack := r :: rest, out := none }
      else { s with stack := s.dtbl x :: r :: rest, out := some (.dtor x) }
    | (_ :: r) :: rest => { s with stack := r :: rest, out := none }

/-- the loop thread is inside a task body -/
def busy (s : St) : Bool := s.lpc != .idle || !s.stack.isEmpty

def enterLoop (s : St) : St :=
  { s with looping := true, phase := .entered, out := some (.point "loop:entry") }

/-- plain scenario, `loop()` has returned and the owner's program goes on: the next segment starts (it runs outside
`loop()`, like `pre`; `loop()` is entered again when it ends).  The per-run ghosts start afresh: a flag that is set now
was stored after `loop()` returned (the return re-armed it) and is a request to the coming run, made "now". -/
def relaunch (s : St) (seg : List Sub) (rest : List (List Sub)) : St :=
  { s with again := rest, phase := .pre, final := false, stack := if seg.isEmpty then [] else [seg],
           qreq := s.quit, selfQuit := false,
           quitMark := if s.quit then some s.appendOrder.length else none, retMark := none, out := none }

/-- one step of the loop thread; `fd` = what `loop()` does with the functor queue after its `while`, `bd` = the functor
objects of a batch are destroyed before `callingPendingFunctors_` is reset (the code's own shape is `finalDrain`,
`batchDestroyedBeforeReset`, see `stepLoop`; the parameters let the theorems also speak about the other shapes) -/
def stepLoopG (fd : FinalDrain) (bd : Bool) (s : St) : St :=
  match s.phase with
  | .unborn => { s with out := none }
  | .born => { s with alive := true, phase := .pre, out := none }
  | .pre =>
    if busy s then runTop s
    else if s.elt then
      if s.mtx then { s with out := none }
      else { s with loopPtr := true, waiting := if publishNotifies then false else s.waiting,
                    phase := .ready, out := some (.point "threadFunc:published") }
    else enterLoop s
  | .ready => enterLoop s
  | .entered => testQuit { s with quit := if quitResetAtEntry then false else s.quit }
  | .looptest => testQuit s
  | .polling =>
    if pollReady s then { s with phase := .dispatch, active := activeOf s, out := some (.point "loop:afterPoll") }
    else { s with out := none }
  | .dispatch =>
    if busy s then runTop s
    else match s.active with
      | .wake :: r => { s with ev := 0, active := r, out := some .wakeread }
      | .pipe :: r =>
        match s.ioReady with
        | t :: io => { s with ioReady := io, active := r, stack := [s.tbl t], out := some (.exec t) }
        | [] => { s with active := r, out := none }
      | [] => { s with calling := true, final := false, phase := .preSwap,
                       out := some (.point "doPendingFunctors:beforeSwap") }
  | .preSwap =>
    { s with batch := s.pending, pending := if drainSwaps then [] else s.pending, phase := .draining,
             out := some (.point "doPendingFunctors:afterSwap") }
  | .draining =>
    if busy s then runTop s
    else match s.batch with
      | t :: r =>
        { s with batch := r, executed := s.executed ++ [t], stack := [s.tbl t],
                 corpses := if (s.dtbl t).isEmpty then s.corpses else s.corpses ++ [t], out := some (.exec t) }
      | [] =>
        match s.corpses with
        | c :: cr =>
          -- the `for` is over; the functor objects die in vector order, each destructor body runs like a task body on
          -- this thread.  `bd = false`: the flag was reset before the first of them dies.
          { s with corpses := cr, burying := true, stack := [s.dtbl c],
                   calling := if callingResetAfterRun && !bd then false else s.calling, out := some (.dtor c) }
        | [] =>
          let s1 := { s with burying := false, calling := if callingResetAfterRun then false else s.calling }
          if s.final then
            -- `while (queueSize() > 0)`: the test of the queue (under `mutex_`) and what follows it are one step
            if fd = .untilEmpty && !s.pending.isEmpty then
              { s1 with calling := true, phase := .preSwap, out := some (.point "doPendingFunctors:beforeSwap") }
            else leaveLoop s1
          else { s1 with phase := .looptest, out := some (.point "loop:afterFunctors") }
  | .atExit =>
    if fd = .none then leaveLoop s
    else { s with calling := true, final := true, phase := .preSwap,
                  out := some (.point "doPendingFunctors:beforeSwap") }
  | .returned =>
    if s.elt then
      if clearLocks && s.mtx then { s with out := none }
      else { s with loopPtr := false, alive := false, phase := .dead, finished := finishSets,
                    waiting := if finishSets && finishNotifies then false else s.waiting,
                    out := some .destroyed }
    else match s.again with
      | seg :: rest => relaunch s seg rest
      | [] => { s with out := none }
  | .dead => { s with out := none }

/-- the loop thread's step with the code's own order of "destroy the batch" and "reset the flag" -/
def stepLoopFD (fd : FinalDrain) (s : St) : St := stepLoopG fd batchDestroyedBeforeReset s

/-- the loop thread's step for the code as it is -/
def stepLoop (s : St) : St := stepLoopFD finalDrain s

/-! ## every other thread -/

/-- a call on the loop object by thread `k`: touching a destroyed loop is recorded -/
def touch (s : St) (dtor : Bool) : St :=
  if s.alive then s
  else if dtor then { s with uafDtor := true } else { s with uafUser := true }

/-- thread `k` becomes `t`, nothing else changes, no visible action -/
def silent (s : St) (k : Nat) (t : FThread) : St := { setThr s k t with out := none }

/-- `queueInLoop` up to the point `queueInLoop:appended` -/
def doAppend (s : St) (k : Nat) (x : TaskId) (r : List Sub) : St :=
  { setThr (touch s false) k { pc := .appended, prog := r } with
      pending := s.pending ++ [x], appendOrder := s.appendOrder ++ [x],
      out := some (.point "queueInLoop:appended") }

/-- `quit()` up to the point `quit:stored` -/
def doQuitStore (s : St) (k : Nat) (t : FThread) (dtor : Bool) : St :=
  { setThr (touch s dtor) k t with
      quit := true, qreq := true, quitMark := markOf s, out := some (.point "quit:stored") }

/-- `wakeup()` -/
def doWake (s : St) (k : Nat) (t : FThread) (dtor : Bool) : St :=
  { setThr (touch s dtor) k t with ev := s.ev + 1, mtx := if dtor then false else s.mtx, out := some .wakeup }

def stepIdle (s : St) (k : Nat) (t : FThread) : St :=
  match t.prog with
  | [] => { s with out := none }
  | .queue x :: r => doAppend s k x r
  | .run x :: r =>
    if runInline false then
      { setThr (touch s false) k { pc := .idle, prog := r } with wrongThread := true, out := some (.exec x) }
    else doAppend s k x r
  | .quit :: r => doQuitStore s k { pc := .quitStored, prog := r } false
  | .post x :: r =>
    { setThr s k { pc := .idle, prog := r } with ioReady := s.ioReady ++ [x], out := some (.post x) }
  | .startLoop :: r =>
    if s.elt && s.phase == .unborn then { setThr s k { pc := .sCheck, prog := r } with phase := .born, out := none }
    else silent s k { pc := .idle, prog := r }
  | .destroy :: r =>
    if s.elt then { setThr s k { pc := .dEntry, prog := r } with out := some (.point "dtor:entry") }
    else silent s k { pc := .idle, prog := r }
  | .bury _ :: r => silent s k { pc := .idle, prog := r }

def stepAppended (s : St) (k : Nat) (t : FThread) : St :=
  if wakeGuard false s.calling s.looping then doWake s k { t with pc := .idle } false
  else silent s k { t with pc := .idle }

def stepQuitStored (s : St) (k : Nat) (t : FThread) : St :=
  if quitWakes false then doWake s k { t with pc := .idle } false
  else silent s k { t with pc := .idle }

def stepSCheck (s : St) (k : Nat) (t : FThread) : St :=
  if s.mtx then { s with out := none }
  else if s.loopPtr then { setThr s k { t with pc := .idle } with out := some .started }
  else if startChecksFinished && s.finished then { setThr s k { t with pc := .idle } with out := some .startedNull }
  else { setThr s k { t with pc := .sWaiting } with waiting := true, out := none }

def stepSWaiting (s : St) (k : Nat) (t : FThread) : St :=
  if s.waiting || s.mtx then { s with out := none }
  else if startWaitsWhile then silent s k { t with pc := .sCheck }
  else { setThr s k { t with pc := .idle } with out := some (if s.loopPtr then .started else .startedNull) }

def stepDEntry (s : St) (k : Nat) (t : FThread) : St :=
  if dtorLocks && s.mtx then { s with out := none }
  else if s.loopPtr then
    { setThr s k { t with pc := .dBeforeQuit } with mtx := dtorLocks, out := some (.point "dtor:beforeQuit") }
  else if dtorJoinsIfStarted && s.phase != .unborn then silent s k { t with pc := .dJoin }
  else silent s k { t with pc := .idle }

def stepDStored (s : St) (k : Nat) (t : FThread) : St :=
  if quitWakes false then doWake s k { t with pc := .dJoin } true
  else { setThr s k { t with pc := .dJoin } with mtx := false, out := none }

def stepDJoin (s : St) (k : Nat) (t : FThread) : St :=
  if s.phase == .dead then { setThr s k { t with pc := .idle } with out := some .joined }
  else { s with out := none }

def stepOther (s : St) (k : Nat) : St :=
  match (s.thr k).pc with
  | .idle => stepIdle s k (s.thr k)
  | .appended => stepAppended s k (s.thr k)
  | .quitStored => stepQuitStored s k (s.thr k)
  | .sCheck => stepSCheck s k (s.thr k)
  | .sWaiting => stepSWaiting s k (s.thr k)
  | .dEntry => stepDEntry s k (s.thr k)
  | .dBeforeQuit => doQuitStore s k { s.thr k with pc := .dStored } true
  | .dStored => stepDStored s k (s.thr k)
  | .dJoin => stepDJoin s k (s.thr k)

/-- one step of thread `k` -/
def step (s : St) (k : Nat) : St := if k = s.L then stepLoop s else stepOther s k

def run (s : St) (sched : List Nat) : St := sched.foldl step s

/-- the same transition system with another shape of the drain after the `while` (for the negation witnesses) -/
def stepFD (fd : FinalDrain) (s : St) (k : Nat) : St := if k = s.L then stepLoopFD fd s else stepOther s k

def runFD (fd : FinalDrain) (s : St) (sched : List Nat) : St := sched.foldl (stepFD fd) s

/-- … and with another order of "destroy the batch" / "reset `callingPendingFunctors_`" -/
def stepBD (bd : Bool) (s : St) (k : Nat) : St := if k = s.L then stepLoopG finalDrain bd s else stepOther s k

def runBD (bd : Bool) (s : St) (sched : List Nat) : St := sched.foldl (stepBD bd) s

/-! ## who can move -/

def loopEnabled (s : St) : Bool :=
  match s.phase with
  | .unborn | .dead => false
  | .pre => busy s || !(s.elt && s.mtx)
  | .polling => pollReady s
  | .returned => if s.elt then !(clearLocks && s.mtx) else !s.again.isEmpty
  | _ => true

def otherEnabled (s : St) (k : Nat) : Bool :=
  let t := s.thr k
  match t.pc with
  | .idle => !t.prog.isEmpty
  | .sCheck => !s.mtx
  | .sWaiting => !(s.waiting || s.mtx)
  | .dEntry => !(dtorLocks && s.mtx)
  | .dJoin => s.phase == .dead
  | _ => true

def enabled (s : St) (k : Nat) : Bool := if k = s.L then loopEnabled s else otherEnabled s k

/-- thread `k` has nothing left to do (as opposed to: is blocked) -/
def finished (s : St) (k : Nat) : Bool :=
  if k = s.L then (if s.elt then s.phase == .dead || s.phase == .unborn else s.phase == .returned && s.again.isEmpty)
  else (s.thr k).pc == .idle && (s.thr k).prog.isEmpty

/-! ## initial states -/

/-- plain scenario: T0 owns the loop (constructed already), runs `pre`, then calls `loop()`; whenever `loop()` has
returned it runs the next segment of `again` and calls `loop()` again (`again` is ignored in the other scenario);
`progs k` is the program of foreign thread `k ≥ 1`.
EventLoopThread scenario: T0 runs `progs 0` (startLoop … destroy), T1 is the loop thread whose
init callback runs `pre`.  `tbl t` / `dtbl t`: the body of task `t` / of the destructor of what its functor owns. -/
def init (elt wakeLast : Bool) (tbl dtbl : TaskId → List Sub) (pre : List Sub) (again : List (List Sub))
    (progs : Nat → List Sub) : St :=
  { elt := elt, wakeLast := wakeLast, tbl := tbl, dtbl := dtbl,
    alive := !elt, pending := [], calling := false, looping := false, quit := false, ev := 0, ioReady := [],
    loopPtr := false, mtx := false, waiting := false, finished := false,
    phase := if elt then .unborn else .pre, lpc := .idle, stack := if pre.isEmpty then [] else [pre],
    active := [], batch := [], final := false, again := again, corpses := [], burying := false,
    thr := fun k => { pc := .idle, prog := progs k },
    appendOrder := [], executed := [], qreq := false, selfQuit := false, quitMark := none, retMark := none,
    uafDtor := false, uafUser := false, wrongThread := false, out := none }

end MuduoVerif.Loop
