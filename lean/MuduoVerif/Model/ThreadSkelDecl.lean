/-!
# Statement skeletons of muduo's threading primitives: vocabulary and the skeletons the models rely on

The monitor models - `Model/Monitor.lean` (C14: `BlockingQueue`, `BoundedBlockingQueue`, `CountDownLatch`),
`Model/TPool.lean` (C15), the `EventLoopThread` part of `Model/Loop.lean` (C05), `Model/AsyncLog.lean` (C16) - are
transition systems over a mutex `owner`, wait-sets `W` / `S` per condition variable and thread program counters.  They
take muduo's own wrappers as ATOMIC PRIMITIVES with the textbook meaning:

* `MutexLockGuard g(m)` .. end of block: `acq t` (`owner := some t`, enabled iff `owner = none`) .. `owner := none`;
* `c.wait()`: `Mon.parkOn` - release the mutex AND enter `W c` in one step; a thread in `S c` must take `acq` again
  before it goes on (`Mon.enter`) - i.e. "wait releases the mutex and parks; re-acquires before returning";
* `c.notify()` / `c.notifyAll()`: `WS.one` / `WS.all` - unconditionally, whoever is parked;
* `c.waitForSeconds(s)`: the same as `wait()` plus a time-out move (`AsyncLog.wake 1`);
* `latch.wait() / countDown() / getCount()`: `LState.execOp` (skeletons of `Generated/Monitor.lean`);
* `Thread::start()`: the new thread exists and runs its function from then on, and `start()` has returned only after
  the new thread has published its tid (`Loop.stepIdle .startLoop`: `phase := .born`, the caller goes on to `sCheck`;
  `TPool`: workers are at `wTest` when the callers start);
* `Thread::join()`: enabled iff the thread's function has returned (`Loop.stepDJoin`: `phase == .dead`; `TPool`
  `stopJoin i`: `pc i = wDone`); joined at most once;
* the tid cache (`Model/LogStream.lean`): `tidCall` = `CurrentThread::tid()` fills `t_cachedTid`, `t_tidString` and
  `t_tidStringLength` together, and only when the cache is empty; `afterFork` empties it and fills it again.

Under the deterministic scheduler (`harness/sched/detsched.h`) it is the `pthread_*` functions that are interposed, so
the differential runs execute muduo's wrappers themselves; what they never see is (a) the code of a wrapper on a path
no scenario takes (`~Thread` without `join`, `pthread_create` failing, the `catch` clauses), (b) the deadline
arithmetic of `waitForSeconds` (detsched ignores the `timespec`: virtual time), (c) which pthread function is asked for
what, in which order relative to the holder bookkeeping, when both orders behave alike in the scenarios run.
This file states, function by function, the skeleton the models' reading of a primitive stands for (`Decl.*`);
`vlib/gen/threadskel.py` extracts the skeleton of the same functions from /repo's current sources
(`Generated/ThreadSkel.lean`, in the vocabulary below) and `Proofs/ThreadSkelTie.lean` proves the two equal by `decide`.
What stays TRUSTED is the semantics of the `pthread_*` / libc functions themselves (POSIX: `pthread_cond_wait` atomically
releases the mutex and blocks, re-acquires it before returning, may wake spuriously; `pthread_cond_signal` wakes at
least one waiter if there is one; `pthread_join` returns after the start routine returned; `pthread_atfork` child
handlers run in the child before `fork()` returns; `syscall(SYS_gettid)` is the kernel's thread id).

Expressions are canonical prints of the source expressions (casts dropped, minimal parentheses, macros expanded:
`ETIMEDOUT` = 110, `PR_SET_NAME` = 15, `SYS_gettid` = 186, `CLOCK_REALTIME` = 0).  An expression contains at most one
action call; it is listed in front of the statement that uses its value, which prints it as `<result>`.
Core Lean only; imports nothing.

Classes of statements that are NOT part of a skeleton (the generator ignores exactly these):
* I1 log statements below FATAL and diagnostic output (`fprintf(stderr, ..)` in the `catch` clauses of `runInThread`);
* I2 declarations of locals without an initialiser or default-constructed (`struct timespec abstime`, `char buf[32]`);
* I3 casts of every kind and `(void)x`, `std::move`, `__builtin_expect(c, v)` (= `c`);
* I4 base-class initialisers (`noncopyable`) and default-constructed members (`mutex_()`) of a constructor;
* I5 `MUDUO_VERIF_POINT` and empty statements.
Not extracted: `CurrentThread::stackTrace` (used by `Exception` only), the one-line getters.
-/
namespace MuduoVerif.ThreadSkel

/-- `while (g) body` tests before the first iteration, `do body while (g)` after it -/
inductive LoopKind | whileDo | doWhile
deriving DecidableEq, Repr

/-- one significant action; strings are canonical prints of source expressions -/
inductive Act
  | store (lhs value : String)        -- `lhs = value` on a member, a thread-local, through a pointer (`--x` is the store of `x - 1`)
  | assign (var value : String)       -- an initialised local, an assignment to a local; `<result>` = value of the action before
  | call (fn args : String)           -- another function of muduo (`tid`, `cacheTid`, `latch_.wait`, `func_`, ..)
  | sys (fn args : String)            -- a pthread / libc / system call whose result is used or dropped
  | mcheck (fn args : String)         -- `MCHECK(fn(args))`: the call, and `assert(result == 0)`
  | lock (mutex : String)             -- `MutexLockGuard g(mutex)`: `lockGuardCtor`
  | unlock (mutex : String)           -- the end of the block that declared that guard: `lockGuardDtor`
  | guard (type arg : String)         -- any other RAII guard `type g(arg)`: its constructor (`unassignGuardCtor`)
  | guardEnd (type arg : String)      -- the end of the block that declared it: its destructor (`unassignGuardDtor`)
  | assertion (cond : String)         -- `assert(cond)`, by its source text
  | delete (what : String)            -- `delete what`
  | rethrow                           -- `throw;`
  | fatal                             -- `LOG_SYSFATAL << ..` / `LOG_FATAL << ..`: logs and aborts
  | ret (value : String)              -- `return value`
deriving DecidableEq, Repr

/-- a statement: an action, `if (cond) { thn } else { els }`, a loop, `try { body }`, one `catch (decl) { body }` -/
inductive Skel
  | act (a : Act)
  | ite (cond : String) (thn els : List Skel)
  | loop (kind : LoopKind) (cond : String) (body : List Skel)
  | attempt (body : List Skel)
  | handler (decl : String) (body : List Skel)
deriving Repr

/-! `deriving DecidableEq` does not handle the nesting through `List`; the instance is written out
(structural recursion, so `decide` evaluates it in the kernel). -/
mutual
def Skel.decEq : (x y : Skel) → Decidable (x = y)
  | .act a, .act a' => if h : a = a' then isTrue (by rw [h]) else isFalse (by intro e; cases e; exact h rfl)
  | .ite g t e, .ite g' t' e' =>
    if hg : g = g' then
      match Skel.decEqL t t' with
      | isTrue ht =>
        match Skel.decEqL e e' with
        | isTrue he => isTrue (by rw [hg, ht, he])
        | isFalse he => isFalse (by intro q; cases q; exact he rfl)
      | isFalse ht => isFalse (by intro q; cases q; exact ht rfl)
    else isFalse (by intro q; cases q; exact hg rfl)
  | .loop k g b, .loop k' g' b' =>
    if hk : k = k' then
      if hg : g = g' then
        match Skel.decEqL b b' with
        | isTrue hb => isTrue (by rw [hk, hg, hb])
        | isFalse hb => isFalse (by intro q; cases q; exact hb rfl)
      else isFalse (by intro q; cases q; exact hg rfl)
    else isFalse (by intro q; cases q; exact hk rfl)
  | .attempt b, .attempt b' =>
    match Skel.decEqL b b' with
    | isTrue hb => isTrue (by rw [hb])
    | isFalse hb => isFalse (by intro q; cases q; exact hb rfl)
  | .handler d b, .handler d' b' =>
    if hd : d = d' then
      match Skel.decEqL b b' with
      | isTrue hb => isTrue (by rw [hd, hb])
      | isFalse hb => isFalse (by intro q; cases q; exact hb rfl)
    else isFalse (by intro q; cases q; exact hd rfl)
  | .act _, .ite .. => isFalse (by intro e; cases e)
  | .act _, .loop .. => isFalse (by intro e; cases e)
  | .act _, .attempt .. => isFalse (by intro e; cases e)
  | .act _, .handler .. => isFalse (by intro e; cases e)
  | .ite .., .act _ => isFalse (by intro e; cases e)
  | .ite .., .loop .. => isFalse (by intro e; cases e)
  | .ite .., .attempt .. => isFalse (by intro e; cases e)
  | .ite .., .handler .. => isFalse (by intro e; cases e)
  | .loop .., .act _ => isFalse (by intro e; cases e)
  | .loop .., .ite .. => isFalse (by intro e; cases e)
  | .loop .., .attempt .. => isFalse (by intro e; cases e)
  | .loop .., .handler .. => isFalse (by intro e; cases e)
  | .attempt .., .act _ => isFalse (by intro e; cases e)
  | .attempt .., .ite .. => isFalse (by intro e; cases e)
  | .attempt .., .loop .. => isFalse (by intro e; cases e)
  | .attempt .., .handler .. => isFalse (by intro e; cases e)
  | .handler .., .act _ => isFalse (by intro e; cases e)
  | .handler .., .ite .. => isFalse (by intro e; cases e)
  | .handler .., .loop .. => isFalse (by intro e; cases e)
  | .handler .., .attempt .. => isFalse (by intro e; cases e)
def Skel.decEqL : (x y : List Skel) → Decidable (x = y)
  | [], [] => isTrue rfl
  | [], _ :: _ => isFalse (by intro e; cases e)
  | _ :: _, [] => isFalse (by intro e; cases e)
  | a :: as, b :: bs =>
    match Skel.decEq a b with
    | isTrue h =>
      match Skel.decEqL as bs with
      | isTrue h' => isTrue (by rw [h, h'])
      | isFalse h' => isFalse (by intro q; cases q; exact h' rfl)
    | isFalse h => isFalse (by intro q; cases q; exact h rfl)
end
instance : DecidableEq Skel := Skel.decEq
instance : DecidableEq (List Skel) := Skel.decEqL

/-! ## The skeleton each primitive is modelled with -/
namespace Decl

/-! ### `MutexLock`, `MutexLockGuard`, `MutexLock::UnassignGuard` (Mutex.h)

`Mon.owner` is BOTH the pthread mutex and muduo's `holder_` field: `owner = some t` iff `t` holds `mutex_`, and
`assertLocked()` / `~MutexLock`'s assertion read `holder_`.  For the two to be one thing the holder must be written only
while the pthread mutex is held: assigned AFTER `pthread_mutex_lock` returns, cleared BEFORE `pthread_mutex_unlock`. -/

/-- a new mutex is free: `Mon.init` has `owner := none` -/
def mutexCtor : List Skel :=
  [ .act (.store "holder_" "0"),
    .act (.mcheck "pthread_mutex_init" "&mutex_, NULL") ]

/-- a mutex is destroyed only when nobody holds it (the all-blocked states of C14 / C15 / C05 name everybody who is
still inside a monitor; `clean_shutdown`, `stop_returns` end with `owner = none`) -/
def mutexDtor : List Skel :=
  [ .act (.assertion "holder_ == 0"),
    .act (.mcheck "pthread_mutex_destroy" "&mutex_") ]

/-- `holder_ == CurrentThread::tid()`: `owner = some t` seen from thread `t` -/
def isLockedByThisThread : List Skel :=
  [ .act (.call "tid" ""),
    .act (.ret "holder_ == <result>") ]

/-- `ThreadPool::isFull` starts with it (`Generated/Monitor.lean`: `pool_isFull`) -/
def assertLocked : List Skel :=
  [ .act (.assertion "isLockedByThisThread()") ]

/-- `acq t`: first the pthread mutex (blocks while `owner ≠ none`), then the holder -/
def mutexLock : List Skel :=
  [ .act (.mcheck "pthread_mutex_lock" "&mutex_"),
    .act (.call "assignHolder" "") ]

/-- `owner := none`: first the holder, then the pthread mutex -/
def mutexUnlock : List Skel :=
  [ .act (.call "unassignHolder" ""),
    .act (.mcheck "pthread_mutex_unlock" "&mutex_") ]

def unassignHolder : List Skel :=
  [ .act (.store "holder_" "0") ]

/-- the holder is the calling thread's (cached) kernel id - never 0 for a live thread (`C17.tid_field_true` needs
`0 < tid`), so `holder_ == 0` means "free" -/
def assignHolder : List Skel :=
  [ .act (.call "tid" ""),
    .act (.store "holder_" "<result>") ]

/-- `guard "UnassignGuard" m` -/
def unassignGuardCtor : List Skel :=
  [ .act (.store "owner_" "owner"),
    .act (.call "owner_.unassignHolder" "") ]

/-- `guardEnd "UnassignGuard" m` -/
def unassignGuardDtor : List Skel :=
  [ .act (.call "owner_.assignHolder" "") ]

/-- `lock m` -/
def lockGuardCtor : List Skel :=
  [ .act (.store "mutex_" "mutex"),
    .act (.call "mutex_.lock" "") ]

/-- `unlock m` -/
def lockGuardDtor : List Skel :=
  [ .act (.call "mutex_.unlock" "") ]

/-! ### `Condition` (Condition.h, Condition.cc) -/

/-- a condition variable belongs to ONE mutex, fixed at construction (`Mon` has one `owner` for `ne` and `nf`) -/
def condCtor : List Skel :=
  [ .act (.store "mutex_" "mutex"),
    .act (.mcheck "pthread_cond_init" "&pcond_, NULL") ]

def condDtor : List Skel :=
  [ .act (.mcheck "pthread_cond_destroy" "&pcond_") ]

/-- `Mon.parkOn` / `Mon.enter`: the holder is cleared (the caller holds the mutex: `Condition::wait` is only called
under a `MutexLockGuard`), `pthread_cond_wait` is asked to release THAT mutex (`mutex_.getPthreadMutex()`) and park
on THIS condition (`&pcond_`), and when it has returned - with the mutex re-acquired - the holder is assigned again.
Nothing else happens in between: no flag, no second wait, no early return. -/
def condWait : List Skel :=
  [ .act (.guard "UnassignGuard" "mutex_"),
    .act (.mcheck "pthread_cond_wait" "&pcond_, mutex_.getPthreadMutex()"),
    .act (.guardEnd "UnassignGuard" "mutex_") ]

/-- `WS.one`: unconditionally `pthread_cond_signal` on this condition -/
def condNotify : List Skel :=
  [ .act (.mcheck "pthread_cond_signal" "&pcond_") ]

/-- `WS.all`: unconditionally `pthread_cond_broadcast` on this condition -/
def condNotifyAll : List Skel :=
  [ .act (.mcheck "pthread_cond_broadcast" "&pcond_") ]

/-- the timed wait of `AsyncLogging::threadFunc` (`Model/AsyncLog.lean`: pc `waiting`, moves `wake 0/1/2`): ONE clock
reading, the deadline computed from it by the two assignments `Gen.ThreadSkel.waitForSecondsDeadline` translates
(`C14.timed_wait_deadline_valid`), then exactly the shape of `wait()` around `pthread_cond_timedwait` on the same
condition, mutex and deadline; the result says "timed out" iff pthread said `ETIMEDOUT` (110) -/
def condWaitForSeconds : List Skel :=
  [ .act (.sys "clock_gettime" "0, &abstime"),
    .act (.assign "kNanoSecondsPerSecond" "1000000000"),
    .act (.assign "nanoseconds" "seconds * kNanoSecondsPerSecond"),
    .act (.store "abstime.tv_sec" "abstime.tv_sec + (abstime.tv_nsec + nanoseconds) / kNanoSecondsPerSecond"),
    .act (.store "abstime.tv_nsec" "(abstime.tv_nsec + nanoseconds) % kNanoSecondsPerSecond"),
    .act (.guard "UnassignGuard" "mutex_"),
    .act (.sys "pthread_cond_timedwait" "&pcond_, mutex_.getPthreadMutex(), &abstime"),
    .act (.ret "110 == <result>"),
    .act (.guardEnd "UnassignGuard" "mutex_") ]

/-! ### `CountDownLatch` (CountDownLatch.cc)

The same three functions are extracted by `vlib/gen/monitor.py` in the flat token vocabulary the transition system
interprets (`Monitor.Declared.latch_*`); here they are once more in the tree vocabulary, which also sees a test in
front of the lock, a `do .. while`, the decrement's operand and the returned expression. -/

/-- the condition is bound to the latch's own mutex; the count starts at the argument (`linit count ..`) -/
def latchCtor : List Skel :=
  [ .act (.store "condition_" "mutex_"),
    .act (.store "count_" "count") ]

/-- `LState.execOp .wait`: under the mutex, `while (count_ > 0) condition_.wait()` - the test comes first, every
wake-up re-tests (`waitOf latch_wait = some ⟨true, _⟩`) -/
def latchWait : List Skel :=
  [ .act (.lock "mutex_"),
    .loop .whileDo "count_ > 0"
      [ .act (.call "condition_.wait" "") ],
    .act (.unlock "mutex_") ]

/-- `LState.execOp .countDown`: under the mutex, decrement, and `notifyAll` (not `notify`: `C14.latch_releases_all`)
exactly when the count has reached 0 -/
def latchCountDown : List Skel :=
  [ .act (.lock "mutex_"),
    .act (.store "count_" "count_ - 1"),
    .ite "count_ == 0"
      [ .act (.call "condition_.notifyAll" "") ] [],
    .act (.unlock "mutex_") ]

/-- `LState.execOp .getCount` -/
def latchGetCount : List Skel :=
  [ .act (.lock "mutex_"),
    .act (.ret "count_"),
    .act (.unlock "mutex_") ]

/-! ### the tid cache (CurrentThread.h, Thread.cc)

`Model/LogStream.lean`: `tidCall gettid t = if tidCacheEmpty t.cached then cacheTid gettid t else t`, and `cacheTid`
sets `cached`, `str`, `len` together.  `Generated/LogStream.lean` has the two guards, the format and the length
expression; the skeletons add the shape around them. -/

/-- `LogStream.tidCall`: `cacheTid()` under the emptiness test, nothing else; the result is the cached number -/
def tid : List Skel :=
  [ .ite "t_cachedTid == 0"
      [ .act (.call "cacheTid" "") ] [],
    .act (.ret "t_cachedTid") ]

/-- `LogStream.cacheTid`: number (from `detail::gettid()`), text (`snprintf` of THAT number into `t_tidString`) and length
(what `snprintf` returned) are written together, under one test -/
def cacheTid : List Skel :=
  [ .ite "t_cachedTid == 0"
      [ .act (.call "gettid" ""),
        .act (.store "t_cachedTid" "<result>"),
        .act (.sys "snprintf" "t_tidString, sizeof(t_tidString), \"%5d \", t_cachedTid"),
        .act (.store "t_tidStringLength" "<result>") ] [] ]

/-- not used by a model (the harness of C17 compares the tid field with `gettid` itself) -/
def isMainThread : List Skel :=
  [ .act (.call "tid" ""),
    .act (.ret "<result> == getpid()") ]

/-- not used by a model (tests only): `usec` split into seconds and nanoseconds, one `nanosleep` -/
def sleepUsec : List Skel :=
  [ .act (.assign "ts" "{0, 0}"),
    .act (.store "ts.tv_sec" "usec / kMicroSecondsPerSecond"),
    .act (.store "ts.tv_nsec" "usec % kMicroSecondsPerSecond * 1000"),
    .act (.sys "nanosleep" "&ts, NULL") ]

/-- `LogReq.tid` ("what `gettid` returns on this thread", an environment input of `Model/LogStream.lean`): the kernel's
id of the calling thread, `syscall(SYS_gettid)` (186 on x86-64) -/
def gettid : List Skel :=
  [ .act (.sys "syscall" "186"),
    .act (.ret "<result>") ]

/-- `LogStream.entryState (.forkChild ..) = tidRun tid parent afterForkSteps` with `afterForkSteps = [.reset, .callTid]`:
the cache copied from the parent is emptied and `tid()` is called - which recomputes number, text AND length through
`cacheTid` (`C17.tid_cache_refresh_tied`).  Writing the new number alone would leave the parent's text. -/
def afterFork : List Skel :=
  [ .act (.store "t_cachedTid" "0"),
    .act (.store "t_threadName" "\"main\""),
    .act (.call "tid" "") ]

/-- `LogStream.entryState .main = tidRun tid fresh staticInitSteps` (`[.callTid]`) and `atforkChildRegistered`: the
static initialiser fills the main thread's cache and registers `afterFork` as the CHILD handler (third argument) -/
def threadNameInitializer : List Skel :=
  [ .act (.store "t_threadName" "\"main\""),
    .act (.call "tid" ""),
    .act (.sys "pthread_atfork" "NULL, NULL, &afterFork") ]

/-! ### `Thread` (Thread.cc) -/

def threadDataCtor : List Skel :=
  [ .act (.store "func_" "move(func)"),
    .act (.store "name_" "name"),
    .act (.store "tid_" "tid"),
    .act (.store "latch_" "latch") ]

/-- the new thread: publishes its tid into the `Thread` object (`*tid_`, filling its own cache:
`LogStream.entryState .muduoThread = tidRun tid fresh threadStartSteps`, `[.callTid]`), THEN counts the latch down - so
`start()` returns with `tid_` valid -, and only then runs the user's function (`func_`): the loop thread of
`EventLoopThread` (`Loop`: `phase .born → .pre ..`), a pool worker (`TPool`: `wTest`), the logging back-end.  An
exception of the function ends the process (`abort` / rethrow out of a thread's start routine = `std::terminate`): the
models have no "thread died, others go on" move. -/
def runInThread : List Skel :=
  [ .act (.call "tid" ""),
    .act (.store "*tid_" "<result>"),
    .act (.store "tid_" "NULL"),
    .act (.call "latch_.countDown" ""),
    .act (.store "latch_" "NULL"),
    .act (.store "t_threadName" "name_.empty() ? \"muduoThread\" : name_.c_str()"),
    .act (.sys "prctl" "15, t_threadName"),
    .attempt
      [ .act (.call "func_" ""),
        .act (.store "t_threadName" "\"finished\"") ],
    .handler "const Exception & ex"
      [ .act (.store "t_threadName" "\"crashed\""),
        .act (.sys "abort" "") ],
    .handler "const std::exception & ex"
      [ .act (.store "t_threadName" "\"crashed\""),
        .act (.sys "abort" "") ],
    .handler "..."
      [ .act (.store "t_threadName" "\"crashed\""),
        .act (.rethrow) ] ]

/-- the start routine handed to `pthread_create`: run, then free the `ThreadData` (the thread's function has returned
when this returns: what `pthread_join` waits for) -/
def startThread : List Skel :=
  [ .act (.assign "data" "obj"),
    .act (.call "data.runInThread" ""),
    .act (.delete "data"),
    .act (.ret "NULL") ]

/-- a new `Thread` is neither started nor joined, has no tid, and its latch needs ONE `countDown` -/
def threadCtor : List Skel :=
  [ .act (.store "started_" "false"),
    .act (.store "joined_" "false"),
    .act (.store "pthreadId_" "0"),
    .act (.store "tid_" "0"),
    .act (.store "func_" "move(func)"),
    .act (.store "name_" "n"),
    .act (.store "latch_" "1"),
    .act (.call "setDefaultName" "") ]

/-- a started thread that was never joined is detached (its resources are released when it ends); a joined or never
started one is left alone - `pthread_detach` after `pthread_join`, or on `pthreadId_ = 0`, is undefined behaviour -/
def threadDtor : List Skel :=
  [ .ite "started_ && !joined_"
      [ .act (.sys "pthread_detach" "pthreadId_") ] [] ]

def setDefaultName : List Skel :=
  [ .act (.call "numCreated_.incrementAndGet" ""),
    .act (.assign "num" "<result>"),
    .ite "name_.empty()"
      [ .act (.sys "snprintf" "buf, sizeof(buf), \"Thread%d\", num"),
        .act (.store "name_" "buf") ] [] ]

/-- `Loop.stepIdle .startLoop` (`thread_.start()`), `Generated/Monitor.lean` `pool_start` (`act "start threads_"`),
`AsyncLogging::start`: started at most once (assertion), `started_` set BEFORE the thread exists (the new thread may
run at once), the start routine is `detail::startThread` on a fresh `ThreadData` carrying the function, the name and
the addresses of `tid_` and `latch_`; when `pthread_create` fails the flag is taken back and the process ends
(`fatal`: no model has a "start failed" move); otherwise the caller WAITS on the latch - it returns only after the new
thread has published its tid (`runInThread`) - and the tid is positive -/
def threadStart : List Skel :=
  [ .act (.assertion "!started_"),
    .act (.store "started_" "true"),
    .act (.assign "data" "new detail::ThreadData(func_, name_, &tid_, &latch_)"),
    .act (.sys "pthread_create" "&pthreadId_, NULL, &startThread, data"),
    .ite "<result>"
      [ .act (.store "started_" "false"),
        .act (.delete "data"),
        .act (.fatal) ]
      [ .act (.call "latch_.wait" ""),
        .act (.assertion "tid_ > 0") ] ]

/-- `Loop.stepDJoin` (`C05.join_terminates`), `TPool` `stopJoin i` (`C15.stop_returns`), `AsyncLogging::stop`: only a
started thread, at most once (`joined_` set BEFORE the wait, so that `~Thread` does not detach it afterwards), and the
wait is `pthread_join` on the id `pthread_create` stored -/
def threadJoin : List Skel :=
  [ .act (.assertion "started_"),
    .act (.assertion "!joined_"),
    .act (.store "joined_" "true"),
    .act (.sys "pthread_join" "pthreadId_, NULL"),
    .act (.ret "<result>") ]

end Decl

end MuduoVerif.ThreadSkel
