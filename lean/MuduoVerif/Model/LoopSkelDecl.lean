import MuduoVerif.Model.SysSkelDecl
/-!
# The event-loop family: the statement skeleton the models assume of each function

`Model/Loop.lean` (C04, C05), `Model/Pool.lean` (C05), `Model/Acceptor.lean` (C11), `Model/Poller.lean` (C09) and
`Model/Timer.lean` (C06) take GUARDS and a number of shape flags of `EventLoop.cc`, `EventLoopThread.cc`,
`EventLoopThreadPool.cc`, `Acceptor.cc` and `Channel.cc` from `Generated/Loop.lean`, `Pool.lean`, `Acceptor.lean`,
`Poller.lean`, `Timer.lean`.  Everything else - which statements a function has and in which ORDER - is hand-written in
the steps of those models: `doAppend` appends under the mutex and the wake-up is a LATER step (`Pc.appended`),
`doQuitStore` stores the flag and the wake-up is a later step (`Pc.quitStored`), the loop thread goes `polling ->
dispatch -> preSwap -> draining` once per iteration, `threadFunc` publishes `loop_` under the mutex before `loop()`,
`Acceptor.step .listen` registers a socket that already listens, `Pool.start n` has the workers in creation order, ..

This file states, function by function, the skeleton the models' steps implement (`Decl.*`, written by reading the models
and the source; each with the model step / assumption it backs), in the vocabulary of the system-call layer
(`MuduoVerif.SysSkel.Act / Skel`, `Model/SysSkelDecl.lean`).  `vlib/gen/loopskel.py` extracts the skeleton of the same
functions from /repo's current sources (`Generated/LoopSkel.lean`); `Proofs/LoopSkelTie.lean` proves the two equal by
`decide` and reads the orders the properties rest on off the EXTRACTED skeletons with the decidable predicates below.

Encodings (all are `call <name> <arguments>`; the generator's header has the full list):
* `MutexLockGuard lock(mutex_);` is `call "lock" "mutex_"` at the declaration and `call "unlock" "mutex_"` where the
  enclosing compound statement ends - what is inside / outside a critical section is part of the skeleton;
* a call through a `std::function` is `call "<function object>" "<arguments>"` (`cb()`, `functor()`,
  `callback_(&loop)`, `newConnectionCallback_(connfd, peerAddr)`);
* container operations are `call "pendingFunctors_.push_back" "cb"`, `call "functors.swap" "pendingFunctors_"`, ..;
* `obj->f(args)` / `obj.f(args)` on another object is `call "obj.f" "args"`; a member function of the same class is
  `call "f" "args"`; `::close` / `::open` / `::accept` / `::signal` / `snprintf` are `sys`;
* `for (Channel* channel : activeChannels_)` is `loop forDo "channel : activeChannels_"`;
* `std::bind(&C::f, a)` prints `bind(&C::f, a)`; `std::move(x)`, `std::unique_ptr<T>(p)`, `implicit_cast<T>(x)` print as
  their argument; integer macros print by value (`SIGPIPE` = 13, `SIG_IGN` = 1, `O_RDONLY | O_CLOEXEC` = `0 | 524288`,
  `EMFILE` = 24).

Not part of a skeleton: log statements below ERROR and the text of every log statement, locals without an initialiser /
default-constructed plain records, casts, argument-less base / member initialisers, `MUDUO_VERIF_POINT`.

What stays TRUSTED after this tie: the canonical printer of `vlib/gen/loopskel.py` / `sysskel.py`, and that the named
callees do what their own ties say (`Channel::enableReading / disableAll / remove`, `Poller::*`: `Proofs/PollerSkelTie`;
`sockets::*`, `Socket::*`, `createEventfd`: `Proofs/SysSkelTie`; `TimerQueue::addTimer / cancel`: `Proofs/TimerSkelTie`;
`Thread::start / join`, `Condition`, `MutexLockGuard`: `Proofs/ThreadSkelTie`).  Core Lean only.
-/
namespace MuduoVerif.LoopSkel
open MuduoVerif.SysSkel

/-! ## Reading a skeleton (decidable functions of it; evaluated on the EXTRACTED skeletons in `Proofs/LoopSkelTie.lean`) -/

mutual
/-- the actions of a statement list in source order (both branches of an `if`, the body of a loop once) -/
def flat : List Skel → List Act
  | [] => []
  | s :: ss => flat1 s ++ flat ss
def flat1 : Skel → List Act
  | .act a => [a]
  | .ite _ t e => flat t ++ flat e
  | .loop _ _ b => flat b
  | .switch _ b => flat b
end

/-- `a` and `b` both occur, and EVERY occurrence of `a` comes before the FIRST occurrence of `b` -/
def before (a b : Act) (l : List Act) : Bool :=
  (l.takeWhile (fun x => x != b)).contains a && l.contains b && !(l.dropWhile (fun x => x != b)).contains a

/-- a chain: each action `before` the next one -/
def inOrder : List Act → List Act → Bool
  | a :: b :: r, l => before a b l && inOrder (b :: r) l
  | _, _ => true

/-- the actions performed while mutex `m` is held (`h` = held on entry) -/
def heldPart (m : String) : Bool → List Act → List Act
  | _, [] => []
  | h, a :: r =>
    if a = .call "lock" m then heldPart m true r
    else if a = .call "unlock" m then heldPart m false r
    else if h then a :: heldPart m h r else heldPart m h r

/-- the actions performed while mutex `m` is NOT held -/
def freePart (m : String) : Bool → List Act → List Act
  | _, [] => []
  | h, a :: r =>
    if a = .call "lock" m then freePart m true r
    else if a = .call "unlock" m then freePart m false r
    else if h then freePart m h r else a :: freePart m h r

/-- `a` occurs, and only between `lock m` and `unlock m` -/
def insideLock (m : String) (a : Act) (l : List Act) : Bool :=
  (heldPart m false l).contains a && !(freePart m false l).contains a

/-- `a` occurs, and never between `lock m` and `unlock m` -/
def outsideLock (m : String) (a : Act) (l : List Act) : Bool :=
  (freePart m false l).contains a && !(heldPart m false l).contains a

/-- `lock m` / `unlock m` alternate, starting from state `h`, and the mutex is not held when the list ends (no critical
section is left open, none is entered twice) -/
def balanced (m : String) : Bool → List Act → Bool
  | h, [] => !h
  | h, a :: r =>
    if a = .call "lock" m then !h && balanced m true r
    else if a = .call "unlock" m then h && balanced m false r
    else balanced m h r

/-- the body of the first top-level loop of kind `k` with guard `g` (`[]` when there is none) -/
def loopBody (k : LoopKind) (g : String) : List Skel → List Skel
  | [] => []
  | .loop k' g' b :: r => if k' = k ∧ g' = g then b else loopBody k g r
  | _ :: r => loopBody k g r

/-- is there a top-level loop of kind `k` with guard `g`? -/
def hasLoop (k : LoopKind) (g : String) : List Skel → Bool
  | [] => false
  | .loop k' g' _ :: r => (k' = k ∧ g' = g) || hasLoop k g r
  | _ :: r => hasLoop k g r

/-- the then-branches of the top-level `if (g)` statements -/
def thenOf (g : String) : List Skel → List Skel
  | [] => []
  | .ite g' t _ :: r => if g' = g then t ++ thenOf g r else thenOf g r
  | _ :: r => thenOf g r

/-- the else-branches of the top-level `if (g)` statements -/
def elseOf (g : String) : List Skel → List Skel
  | [] => []
  | .ite g' _ e :: r => if g' = g then e ++ elseOf g r else elseOf g r
  | _ :: r => elseOf g r

/-- the list without its top-level `if (g)` statements -/
def dropIte (g : String) : List Skel → List Skel
  | [] => []
  | .ite g' t e :: r => if g' = g then dropIte g r else .ite g' t e :: dropIte g r
  | s :: r => s :: dropIte g r

/-- `a` occurs in the then-branch of a top-level `if (g)` and nowhere else -/
def onlyUnder (g : String) (a : Act) (l : List Skel) : Bool :=
  (flat (thenOf g l)).contains a && !(flat (elseOf g l)).contains a && !(flat (dropIte g l)).contains a

/-- `a` occurs in the else-branch of a top-level `if (g)` and nowhere else -/
def onlyUnless (g : String) (a : Act) (l : List Skel) : Bool :=
  (flat (elseOf g l)).contains a && !(flat (thenOf g l)).contains a && !(flat (dropIte g l)).contains a

/-! ## The skeleton the models assume of each function -/
namespace Decl

/-! ### `muduo/net/EventLoop.cc` -/

/-- the static object `initObj`: `SIGPIPE` (13) is ignored (`SIG_IGN` = 1) before `main` - why a write to a connection the
peer has reset is an `EPIPE` result (`Conn.WriteRes.err`, `writeErrLogged`) and not the end of the process; no model has
a "killed by SIGPIPE" input -/
def ignoreSigPipeCtor : List Skel := [.act (.sys "signal" "13, 1")]

/-- the thread-local `t_loopInThisThread`, returned unchanged (`TcpConnection` / `TimerQueue` do not use it; the drivers
do) -/
def getEventLoopOfCurrentThread : List Skel := [.act (.ret "t_loopInThisThread")]

/-- `Loop.init` / `stepLoopFD .born` (`alive := true, phase := .pre`): a constructed loop has `looping = false`,
`quit = false`, `calling = false`, is bound to the constructing thread (`threadId_` = `CurrentThread::tid()`: `St.L`),
owns a poller, a timer queue and the wake-up descriptor (`ev := 0`, made by `createEventfd`: `SysSkel.createEventfd`).
ONE loop per thread: a second one ends the process (`LOG_FATAL`), otherwise the thread-local pointer is set.  The wake-up
channel gets its read callback (`handleRead`: `Item.wake` is dispatched to `wakeread`) BEFORE it is subscribed
(`enableReading`: `Poller.setInterest .enableR` + `update`), so the first report of the eventfd finds the callback. -/
def loopCtor : List Skel :=
  [ .act (.store "looping_" "false"),
    .act (.store "quit_" "false"),
    .act (.store "eventHandling_" "false"),
    .act (.store "callingPendingFunctors_" "false"),
    .act (.store "iteration_" "0"),
    .act (.store "threadId_" "CurrentThread::tid()"),
    .act (.call "Poller::newDefaultPoller" "this"),
    .act (.store "poller_" "<result>"),
    .act (.store "timerQueue_" "new TimerQueue(this)"),
    .act (.call "createEventfd" ""),
    .act (.store "wakeupFd_" "<result>"),
    .act (.store "wakeupChannel_" "new Channel(this, wakeupFd_)"),
    .act (.store "currentActiveChannel_" "NULL"),
    .ite "t_loopInThisThread"
      [.act (.log .fatal)]
      [.act (.store "t_loopInThisThread" "this")],
    .act (.call "wakeupChannel_.setReadCallback" "bind(&EventLoop::handleRead, this)"),
    .act (.call "wakeupChannel_.enableReading" "") ]

/-- `stepLoopFD .returned` for an `EventLoopThread` (`alive := false`, `.destroyed`) and `Poller.recreateOk`: the wake-up
channel is unsubscribed (`disableAll`), taken out of the poller (`remove`: `~Channel` asserts `!addedToLoop_`) and only
THEN is its descriptor closed (a descriptor closed while registered would leave a stale entry in the poller: C09); the
thread-local pointer is cleared last, so the thread may construct another loop -/
def loopDtor : List Skel :=
  [ .act (.call "wakeupChannel_.disableAll" ""),
    .act (.call "wakeupChannel_.remove" ""),
    .act (.sys "close" "wakeupFd_"),
    .act (.store "t_loopInThisThread" "NULL") ]

/-- `enterLoop` (`looping := true`, point `loop:entry`), then per iteration of `while (!quit_)` (`testQuit`): `.polling`
(`poller_->poll`) -> `.dispatch` (`eventHandling_` bracket around `handleEvent` of each active channel in report order:
`activeOf`, `Poller.iter`) -> `.preSwap` / `.draining` (`doPendingFunctors()` LAST: a functor queued by a handler of the
same iteration runs in the same iteration, `drainEachIteration`); after the `while` (`.atExit`): the drain
`do doPendingFunctors(); while (queueSize() > 0)` (`finalDrain = .untilEmpty`; the test of the queue is the action
`queueSize()`, which takes the mutex); `leaveLoop`: `looping := false`, then the flag is re-armed (`quitResetAtExit`). -/
def loopFn : List Skel :=
  [ .act (.assertion "!looping_"),
    .act (.call "assertInLoopThread" ""),
    .act (.store "looping_" "true"),
    .loop .whileDo "!quit_"
      [ .act (.call "activeChannels_.clear" ""),
        .act (.call "poller_.poll" "kPollTimeMs, &activeChannels_"),
        .act (.store "pollReturnTime_" "<result>"),
        .act (.store "iteration_" "iteration_ + 1"),
        .ite "Logger::logLevel() <= TRACE" [.act (.call "printActiveChannels" "")] [],
        .act (.store "eventHandling_" "true"),
        .loop .forDo "channel : activeChannels_"
          [ .act (.store "currentActiveChannel_" "channel"),
            .act (.call "currentActiveChannel_.handleEvent" "pollReturnTime_") ],
        .act (.store "currentActiveChannel_" "NULL"),
        .act (.store "eventHandling_" "false"),
        .act (.call "doPendingFunctors" "") ],
    .loop .doWhile "{call queueSize()} > 0" [.act (.call "doPendingFunctors" "")],
    .act (.store "looping_" "false"),
    .act (.store "quit_" "false") ]

/-- `doQuitStore` (`quit := true`, point `quit:stored`, `Pc.quitStored`) and only then `stepQuitStored` (`doWake` iff
`quitWakes`): the flag is stored BEFORE the wake-up, so the iteration the wake-up starts finds it (`C05`: a loop asleep in
poll ends after a foreign `quit()`); on the loop thread itself no wake-up is needed (the `while` test follows) -/
def quit : List Skel :=
  [ .act (.store "quit_" "true"),
    .ite "!isInLoopThread()" [.act (.call "wakeup" "")] [] ]

/-- `stepIdle (.run x)`: on the loop thread the task body starts INSIDE the call (`runInline`: `stack := tbl x :: ..`),
anywhere else it is `queueInLoop` -/
def runInLoop : List Skel :=
  [ .ite "isInLoopThread()" [.act (.call "cb" "")] [.act (.call "queueInLoop" "cb")] ]

/-- `doAppend` (`pending := pending ++ [x]` under `mutex_`: `appendUnderLock`; point `queueInLoop:appended`,
`Pc.appended`) and only then `stepAppended` (`doWake` iff `wakeGuard`): the append is complete and the mutex released
BEFORE the wake-up - the loop that the wake-up starts finds the functor in the queue (`C04`: no lost wake-up) -/
def queueInLoop : List Skel :=
  [ .act (.call "lock" "mutex_"),
    .act (.call "pendingFunctors_.push_back" "cb"),
    .act (.call "unlock" "mutex_"),
    .ite "!isInLoopThread() || callingPendingFunctors_ || !looping_" [.act (.call "wakeup" "")] [] ]

/-- the test of the final drain (`!s.pending.isEmpty` in `stepLoopFD .draining`, one step with what follows): the size is
read under `mutex_` -/
def queueSize : List Skel :=
  [ .act (.call "lock" "mutex_"),
    .act (.ret "pendingFunctors_.size()"),
    .act (.call "unlock" "mutex_") ]

/-- `Timer.deadlineOf (.at t) = (t, timerRepeats false, 0)`: the deadline is the argument, the interval `0.0` (no repeat);
forwarded to `TimerQueue::addTimer` (`Timer.addLoop` / `addAlloc`), whose `TimerId` is returned -/
def runAt : List Skel :=
  [ .act (.call "timerQueue_.addTimer" "cb, time, 0"),
    .act (.ret "<result>") ]

/-- `Timer.deadlineOf (.after d) = (addTime now d, timerRepeats false, 0)` with `now` = ONE reading of the clock
(`readNow`): the deadline is `addTime(Timestamp::now(), delay)`, the rest is `runAt` -/
def runAfter : List Skel :=
  [ .act (.assign "time" "addTime(Timestamp::now(), delay)"),
    .act (.call "runAt" "time, cb"),
    .act (.ret "<result>") ]

/-- `Timer.deadlineOf (.every d pos) = (addTime now d, timerRepeats pos, d)`: FIRST deadline one interval from now (not
now), and the interval itself is handed to `addTimer` (`Timer::restart` adds it again after each run) -/
def runEvery : List Skel :=
  [ .act (.assign "time" "addTime(Timestamp::now(), interval)"),
    .act (.call "timerQueue_.addTimer" "cb, time, interval"),
    .act (.ret "<result>") ]

/-- `Timer.In.cancel`: forwarded unchanged to `TimerQueue::cancel` (`cancelInLoop` on the loop thread, queued otherwise) -/
def cancel : List Skel :=
  [ .act (.call "timerQueue_.cancel" "timerId"),
    .act (.ret "<result>") ]

/-- `Poller.applyOp` (enable / disable): forwarded to the poller on the loop thread, for a channel of THIS loop -/
def updateChannel : List Skel :=
  [ .act (.assertion "channel.ownerLoop() == this"),
    .act (.call "assertInLoopThread" ""),
    .act (.call "poller_.updateChannel" "channel") ]

/-- `Poller.removeOk`: while the loop dispatches, only the channel whose callback runs or one that is not in the current
batch may be removed (the assertion); forwarded to the poller -/
def removeChannel : List Skel :=
  [ .act (.assertion "channel.ownerLoop() == this"),
    .act (.call "assertInLoopThread" ""),
    .ite "eventHandling_"
      [.act (.assertion "currentActiveChannel_ == channel || find(activeChannels_.begin(), activeChannels_.end(), channel) == activeChannels_.end()")]
      [],
    .act (.call "poller_.removeChannel" "channel") ]

/-- `Poller`: `cmap fd = some channel`, forwarded (`SysSkel.pollerHasChannel`) -/
def hasChannel : List Skel :=
  [ .act (.assertion "channel.ownerLoop() == this"),
    .act (.call "assertInLoopThread" ""),
    .act (.call "poller_.hasChannel" "channel"),
    .act (.ret "<result>") ]

/-- `assertInLoopThread()` on a foreign thread ends the process (`LOG_FATAL`): the models run loop-thread-only functions on
the loop thread by construction, which is sound because a violation does not return -/
def abortNotInLoopThread : List Skel := [.act (.log .fatal)]

/-- `doWake` (`ev := ev + 1`, `.wakeup`): ONE `sockets::write` of the 8-byte value 1 to the eventfd (`wakeupWritesOne`); a
short count is only logged -/
def wakeup : List Skel :=
  [ .act (.assign "one" "1"),
    .act (.call "sockets::write" "wakeupFd_, &one, sizeof(one)"),
    .act (.assign "n" "<result>"),
    .ite "n != sizeof(one)" [.act (.log .error)] [] ]

/-- `stepLoopFD .dispatch` on `Item.wake` (`ev := 0`, `.wakeread`): ONE `sockets::read` of 8 bytes from the eventfd
(`handleReadDrains`: the counter is reset); a short count is only logged -/
def handleRead : List Skel :=
  [ .act (.assign "one" "1"),
    .act (.call "sockets::read" "wakeupFd_, &one, sizeof(one)"),
    .act (.assign "n" "<result>"),
    .ite "n != sizeof(one)" [.act (.log .error)] [] ]

/-- `.dispatch -> .preSwap` (`calling := true`, point `doPendingFunctors:beforeSwap`) -> `.draining` (`batch := pending,
pending := []` under `mutex_`: `drainSwaps`; point `afterSwap`) -> each functor of the batch in order, OUTSIDE the mutex
(a functor may call `queueInLoop`, which takes it: `runTop`) -> the batch is DESTROYED (`functors.clear()`: the destructor
of something a functor owns may call `queueInLoop()`, and that call must still see `calling` and wake the loop) ->
`calling := false` after that (`callingResetAfterRun`).  `calling` is set BEFORE the swap: a functor queued by a functor
of this batch sees `calling` and wakes the loop (`wakeGuard`), otherwise it would sleep on it. -/
def doPendingFunctors : List Skel :=
  [ .act (.store "callingPendingFunctors_" "true"),
    .act (.call "lock" "mutex_"),
    .act (.call "functors.swap" "pendingFunctors_"),
    .act (.call "unlock" "mutex_"),
    .loop .forDo "functor : functors" [.act (.call "functor" "")],
    .act (.call "functors.clear" ""),
    .act (.store "callingPendingFunctors_" "false") ]

/-- only a trace line per active channel: no action -/
def printActiveChannels : List Skel := [.loop .forDo "channel : activeChannels_" []]

/-! ### `muduo/net/EventLoopThread.cc` -/

/-- `Loop.init` with `elt := true`: `loopPtr = false` (`loop_ = NULL`), `finished = false`, thread not started
(`Phase.unborn`); the thread will run `threadFunc` -/
def threadCtor : List Skel :=
  [ .act (.store "loop_" "NULL"),
    .act (.store "finished_" "false"),
    .act (.store "exiting_" "false"),
    .act (.store "thread_" "Thread(bind(&EventLoopThread::threadFunc, this), name)"),
    .act (.store "cond_" "mutex_"),
    .act (.store "callback_" "cb") ]

/-- `stepIdle .destroy` -> `Pc.dEntry` -> (`mutex_` taken: `dtorLocks`) `loop_ != NULL` ? `Pc.dBeforeQuit` ->
`doQuitStore .. dtor` (`quit()` on the loop, still under the mutex, so `threadFunc` cannot clear `loop_` and destroy the
loop in between: no `uaf`) -> mutex released -> `Pc.dJoin` (`join` iff started: `dtorJoinsIfStarted`) -/
def threadDtor : List Skel :=
  [ .act (.store "exiting_" "true"),
    .act (.call "lock" "mutex_"),
    .ite "loop_ != NULL" [.act (.call "loop_.quit" "")] [],
    .act (.call "unlock" "mutex_"),
    .ite "thread_.started()" [.act (.call "thread_.join" "")] [] ]

/-- `stepIdle .startLoop` (`phase := .born`: the thread is started FIRST) -> `Pc.sCheck` / `Pc.sWaiting`: under `mutex_`,
`while (loop_ == NULL && !finished_) cond_.wait()` (`startWaitsWhile`, `startChecksFinished`), the pointer is read under
the same mutex and returned (`.started` / `.startedNull`) -/
def startLoop : List Skel :=
  [ .act (.assertion "!thread_.started()"),
    .act (.call "thread_.start" ""),
    .act (.assign "loop" "NULL"),
    .act (.call "lock" "mutex_"),
    .loop .whileDo "loop_ == NULL && !finished_" [.act (.call "cond_.wait" "")],
    .act (.assign "loop" "loop_"),
    .act (.call "unlock" "mutex_"),
    .act (.ret "loop") ]

/-- `stepLoopFD`: `.born` (`EventLoop loop;`: `alive := true`) -> `.pre` (the init callback with `&loop`) -> `.ready`
(`loopPtr := true` and the notification UNDER `mutex_`: `publishLocks`, `publishNotifies`; point `threadFunc:published`)
-> `enterLoop` .. `.returned` (`loop.loop()` outside the mutex) -> `.dead` (`loopPtr := false`, `finished := true`,
`notifyAll` under `mutex_`, held until the function ends: `clearLocks`, `finishSets`, `finishNotifies`; the loop object
is destroyed after that, still before the mutex is released - `loop` was declared first) -/
def threadFunc : List Skel :=
  [ .act (.assign "loop" "EventLoop()"),
    .ite "callback_" [.act (.call "callback_" "&loop")] [],
    .act (.call "lock" "mutex_"),
    .act (.store "loop_" "&loop"),
    .act (.call "cond_.notify" ""),
    .act (.call "unlock" "mutex_"),
    .act (.call "loop.loop" ""),
    .act (.call "lock" "mutex_"),
    .act (.store "loop_" "NULL"),
    .act (.store "finished_" "true"),
    .act (.call "cond_.notifyAll" ""),
    .act (.call "unlock" "mutex_") ]

/-! ### `muduo/net/EventLoopThreadPool.cc` -/

/-- `Pool.start`: before `setThreadNum` the pool has no workers (`numThreads_ = 0`) and the cursor is `initialNext` (0) -/
def poolCtor : List Skel :=
  [ .act (.store "baseLoop_" "baseLoop"),
    .act (.store "name_" "nameArg"),
    .act (.store "started_" "false"),
    .act (.store "numThreads_" "0"),
    .act (.store "next_" "0") ]

/-- nothing: the threads are owned by `threads_` (`unique_ptr`), the loops live on their threads' stacks -/
def poolDtor : List Skel := []

/-- `Pool.start n = ⟨n, initialNext⟩` with `worker i = loops_[i]`: on the base loop's thread, `started_` set, then for
`i = 0 .. numThreads_ - 1` IN INDEX ORDER one thread is created, owned (`threads_.push_back`) and started, and the loop
its `startLoop()` returns is appended to `loops_` - so `loops_[i]` is the loop of the `i`-th thread created
(`Owner.init`: `pool := Pool.start L`); the init callback runs on the base loop only when there are no workers (with
workers it runs in each `threadFunc`) -/
def poolStart : List Skel :=
  [ .act (.assertion "!started_"),
    .act (.call "baseLoop_.assertInLoopThread" ""),
    .act (.store "started_" "true"),
    .loop .forDo "i = 0; i < numThreads_; ++i"
      [ .act (.sys "snprintf" "buf, sizeof(buf), \"%s%d\", name_.c_str(), i"),
        .act (.assign "t" "new EventLoopThread(cb, buf)"),
        .act (.call "threads_.push_back" "t"),
        .act (.call "t.startLoop" ""),
        .act (.call "loops_.push_back" "<result>") ],
    .ite "numThreads_ == 0 && cb" [.act (.call "cb" "baseLoop_")] [] ]

/-- `Pool.getNextLoop`: `nextGuard` (`!loops_.empty()`), `nextIndex` (`loops_[next_]`), `nextCursor` (`++next_`, wrap to 0
at `loops_.size()`), else the base loop -/
def getNextLoop : List Skel :=
  [ .act (.call "baseLoop_.assertInLoopThread" ""),
    .act (.assertion "started_"),
    .act (.assign "loop" "baseLoop_"),
    .ite "!loops_.empty()"
      [ .act (.assign "loop" "loops_[next_]"),
        .act (.store "next_" "next_ + 1"),
        .ite "next_ >= loops_.size()" [.act (.store "next_" "0")] [] ]
      [],
    .act (.ret "loop") ]

/-- `Pool.getLoopForHash`: `hashGuard`, `hashIndex` (`hashCode % loops_.size()`), the cursor untouched -/
def getLoopForHash : List Skel :=
  [ .act (.call "baseLoop_.assertInLoopThread" ""),
    .act (.assign "loop" "baseLoop_"),
    .ite "!loops_.empty()" [.act (.assign "loop" "loops_[hashCode % loops_.size()]")] [],
    .act (.ret "loop") ]

/-- `Pool.getAllLoops`: `allEmpty` ? `allBaseCount` (1) copies of the base loop : the workers in order -/
def getAllLoops : List Skel :=
  [ .act (.call "baseLoop_.assertInLoopThread" ""),
    .act (.assertion "started_"),
    .ite "loops_.empty()" [.act (.ret "vector(1, baseLoop_)")] [.act (.ret "loops_")] ]

/-! ### `muduo/net/Acceptor.cc` -/

/-- `Acc` starts with a non-blocking socket that is BOUND (`createNonblockingOrDie`, `SO_REUSEADDR`, `SO_REUSEPORT` as
asked, `bindAddress`: a failure ends the process, `SysSkel.bindOrDie`), `listening := false`, `idle := .devnull`
(`opened := 1`: the spare descriptor on `/dev/null`, `O_RDONLY | O_CLOEXEC`); the channel has its read callback
(`handleRead`) but is NOT subscribed yet (no `enableReading` here: `Acceptor.step .iter` does nothing before `.listen`) -/
def acceptorCtor : List Skel :=
  [ .act (.store "loop_" "loop"),
    .act (.call "sockets::createNonblockingOrDie" "listenAddr.family()"),
    .act (.store "acceptSocket_" "<result>"),
    .act (.store "acceptChannel_" "Channel(loop, acceptSocket_.fd())"),
    .act (.store "listening_" "false"),
    .act (.sys "open" "\"/dev/null\", 0 | 524288"),
    .act (.store "idleFd_" "<result>"),
    .act (.assertion "idleFd_ >= 0"),
    .act (.call "acceptSocket_.setReuseAddr" "true"),
    .act (.call "acceptSocket_.setReusePort" "reuseport"),
    .act (.call "acceptSocket_.bindAddress" "listenAddr"),
    .act (.call "acceptChannel_.setReadCallback" "bind(&Acceptor::handleRead, this)") ]

/-- `Acceptor.destroy` (`closeIdle`, `alive := false`, `listening := false`): the channel is unsubscribed and taken out of
the poller, then the spare descriptor is closed (the listening socket itself by `~Socket`: `SysSkel.socketDtor`) -/
def acceptorDtor : List Skel :=
  [ .act (.call "acceptChannel_.disableAll" ""),
    .act (.call "acceptChannel_.remove" ""),
    .act (.sys "close" "idleFd_") ]

/-- `Acceptor.step .listen` (`listening := listenRegisters`): on the loop thread; the socket LISTENS
(`Socket::listen` -> `listenOrDie`) before the channel is subscribed - a readable report can only mean a pending
connection of a listening socket -/
def acceptorListen : List Skel :=
  [ .act (.call "loop_.assertInLoopThread" ""),
    .act (.store "listening_" "true"),
    .act (.call "acceptSocket_.listen" ""),
    .act (.call "acceptChannel_.enableReading" "") ]

/-- `Acceptor.handleRead`: ONE `accept` per readable report (`peek` / `pop`); `.ok` -> `accepted`: the callback gets the
descriptor and the peer address (`callbackGetsFd`), without a callback the descriptor is closed (`noCallbackCloses`);
`.err e` -> logged, and for `EMFILE` (24: `emfileTest`) the sequence `emfileSeq` = close the spare descriptor, accept
into it, close it, reopen `/dev/null` (`runIdle`) -/
def acceptorHandleRead : List Skel :=
  [ .act (.call "loop_.assertInLoopThread" ""),
    .act (.call "acceptSocket_.accept" "&peerAddr"),
    .act (.assign "connfd" "<result>"),
    .ite "connfd >= 0"
      [ .ite "newConnectionCallback_"
          [.act (.call "newConnectionCallback_" "connfd, peerAddr")]
          [.act (.call "sockets::close" "connfd")] ]
      [ .act (.log .syserr),
        .ite "errno == 24"
          [ .act (.sys "close" "idleFd_"),
            .act (.sys "accept" "acceptSocket_.fd(), NULL, NULL"),
            .act (.store "idleFd_" "<result>"),
            .act (.sys "close" "idleFd_"),
            .act (.sys "open" "\"/dev/null\", 0 | 524288"),
            .act (.store "idleFd_" "<result>") ]
          [] ] ]

/-! ### `muduo/net/Channel.cc` (constructor and destructor; the rest: `PollerSkel`, `SysSkel.channelTie`) -/

/-- `Poller.Chan` default: `events := 0`, `revents := 0`, `index := -1` (`kNew` for both back-ends), `added := false`; not
tied, not handling an event -/
def channelCtor : List Skel :=
  [ .act (.store "loop_" "loop"),
    .act (.store "fd_" "fd__"),
    .act (.store "events_" "0"),
    .act (.store "revents_" "0"),
    .act (.store "index_" "-1"),
    .act (.store "logHup_" "true"),
    .act (.store "tied_" "false"),
    .act (.store "eventHandling_" "false"),
    .act (.store "addedToLoop_" "false") ]

/-- `Poller.recreateOk`: a channel may be destroyed only when it is not registered (`added = false`) and not from inside its
own callback (`handling = false`); both are assertions of the destructor (the loop itself may be gone by then, so the
destructor does not ask it) -/
def channelDtor : List Skel :=
  [ .act (.assertion "!eventHandling_"),
    .act (.assertion "!addedToLoop_") ]

end Decl
end MuduoVerif.LoopSkel
