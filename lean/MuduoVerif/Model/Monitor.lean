import MuduoVerif.Generated.Monitor
/-!
# Monitors: `BlockingQueue`, `BoundedBlockingQueue`, `CountDownLatch` (C14)

Thread-indexed transition systems over a mutex with condition variables.

* Threads are natural numbers; thread `t` runs the list of operations `prog t` (head = the operation it
  is in or about to start).  Any number of threads: `prog` is a function, nothing bounds its support.
* `owner` is the thread holding the mutex.  A critical section is two steps: `acq t` (the mutex is
  free, `t` stands at a lock statement or has been signalled and must reacquire) and `body t` (the code
  up to the next `wait()` or to the end of the guard's scope).  The deterministic scheduler of the
  harness runs `acq`+`body` back to back; the theorems hold for the finer interleaving.
* Every condition variable has two explicit lists: `W` (waiting, not signalled, in arrival order) and
  `S` (signalled or woken spuriously; must reacquire the mutex, then re-tests its predicate if the wait
  sits in a `while`).  Where a thread stands inside its current operation is determined by membership:
  in `W c` / in `S c` / neither (at the lock statement).
* `spur t c` is a spurious wake-up: `t` moves from `W c` to `S c` without a notification.
* `notify` with two or more unsignalled waiters takes the index of the waiter from `sched` (the
  scheduler's decision list, part of the state; the theorems quantify over all of them).

What a method does is read off the T1 skeleton in `Generated/Monitor.lean`: `waitOf` (is there a wait,
inside `while` or `if`, on which condition), `notifsOf` (which `notify`/`notifyAll` calls, in order), and
the generated guards `*_g1`.  The exact statement order is tied by `Proofs/MonitorTie.lean`.
Ghost: `log` (one event per completed operation, in mutex order); queue elements carry their producer.
Core Lean only.
-/
namespace MuduoVerif.Monitor
open MuduoVerif.MonitorSkel
open MuduoVerif.Generated.Monitor

/-- function update -/
def upd {α : Type} (f : Nat → α) (t : Nat) (v : α) : Nat → α := fun x => if x = t then v else f x

/-! ### wait-sets -/

structure WS where
  /-- waiting, not signalled; arrival order -/
  W : List Nat := []
  /-- signalled (or spuriously woken): must reacquire the mutex -/
  S : List Nat := []
  deriving Repr

namespace WS
/-- `wait()`: enter the wait-set -/
def park (w : WS) (t : Nat) : WS := { w with W := w.W ++ [t] }
/-- return from `wait()` (the mutex has been reacquired) -/
def wake (w : WS) (t : Nat) : WS := { w with S := w.S.erase t }
/-- `notifyAll()` -/
def all (w : WS) : WS := { W := [], S := w.S ++ w.W }
/-- `notify()`: releases waiter number `k` (mod the number of waiters), nobody when there is none -/
def one (w : WS) (k : Nat) : WS :=
  match w.W[k % w.W.length]? with
  | none => w
  | some u => { W := w.W.erase u, S := w.S ++ [u] }
/-- spurious wake-up of `t` -/
def spur (w : WS) (t : Nat) : WS := { W := w.W.erase t, S := w.S ++ [t] }
end WS

/-! ### what is read off a skeleton -/

inductive Cond where
  | notEmpty | notFull
  deriving DecidableEq, Repr

def condOf (c : String) : Option Cond :=
  if c = "notEmpty_" then some .notEmpty
  else if c = "notFull_" then some .notFull
  else if c = "condition_" then some .notEmpty
  else none

/-- a conditional wait: `while (g) c.wait()` (`loop`) or `if (g) c.wait()` -/
structure WaitF where
  loop : Bool
  cond : Cond
  deriving DecidableEq, Repr

/-- `c.notify()` / `c.notifyAll()` -/
structure NotF where
  all : Bool
  cond : Cond
  deriving DecidableEq, Repr

def waitOf : List Stmt → Option WaitF
  | [] => none
  | .whileWait c :: r => match condOf c with
    | some k => some ⟨true, k⟩
    | none => waitOf r
  | .ifWait c :: r => match condOf c with
    | some k => some ⟨false, k⟩
    | none => waitOf r
  | _ :: r => waitOf r

def notifsOf : List Stmt → List NotF
  | [] => []
  | .notify c :: r => match condOf c with
    | some k => ⟨false, k⟩ :: notifsOf r
    | none => notifsOf r
  | .notifyAll c :: r => match condOf c with
    | some k => ⟨true, k⟩ :: notifsOf r
    | none => notifsOf r
  | _ :: r => notifsOf r

/-- the part of a method's skeleton the transition system interprets -/
structure MethF where
  wait : Option WaitF
  notifs : List NotF
  deriving DecidableEq, Repr

def methF (sk : List Stmt) : MethF := ⟨waitOf sk, notifsOf sk⟩

/-! ### the mutex and its condition variables -/

/-- mutex owner, the wait-sets of (up to) two conditions, the scheduler's decision list -/
structure Mon where
  owner : Option Nat
  ne : WS
  nf : WS
  sched : List Nat

namespace Mon

def ws (m : Mon) : Cond → WS
  | .notEmpty => m.ne
  | .notFull => m.nf

def setWs (m : Mon) (c : Cond) (w : WS) : Mon :=
  match c with
  | .notEmpty => { m with ne := w }
  | .notFull => { m with nf := w }

/-- `c.notify()` / `c.notifyAll()`; a `notify` with two or more unsignalled waiters takes the pick
from the decision list -/
def notify (m : Mon) (f : NotF) : Mon :=
  if f.all then m.setWs f.cond (m.ws f.cond).all
  else if 2 ≤ (m.ws f.cond).W.length then
    { m.setWs f.cond ((m.ws f.cond).one (m.sched.headD 0)) with sched := m.sched.tail }
  else m.setWs f.cond ((m.ws f.cond).one 0)

def notifs (m : Mon) (fs : List NotF) : Mon := fs.foldl notify m

/-- `wait()`: release the mutex and enter the wait-set -/
def parkOn (m : Mon) (c : Cond) (t : Nat) : Mon :=
  { m.setWs c ((m.ws c).park t) with owner := none }

/-- `t` holds the mutex and executes `[while|if] (g) c.wait();`.  Result: `(true, m')` = go on with
the statements behind the wait; `(false, m')` = parked.  A thread found in `S` is returning from
`wait()`: it leaves `S` and re-tests `g` only when the wait sits in a `while`. -/
def enter (m : Mon) (t : Nat) (w : Option WaitF) (g : Bool) : Bool × Mon :=
  match w with
  | none => (true, m)
  | some w =>
    if t ∈ (m.ws w.cond).S then
      if w.loop = true ∧ g = true then (false, (m.setWs w.cond ((m.ws w.cond).wake t)).parkOn w.cond t)
      else (true, m.setWs w.cond ((m.ws w.cond).wake t))
    else if g = true then (false, m.parkOn w.cond t)
    else (true, m)

def init (sched : List Nat) : Mon := { owner := none, ne := {}, nf := {}, sched := sched }

end Mon

/-! ### BlockingQueue / BoundedBlockingQueue -/

inductive QOp where
  | put (v : Nat) | take | drain | size | empty | full | capacity
  deriving DecidableEq, Repr

inductive QRes where
  | ok
  | took (p v : Nat)                 -- element `v`, put by thread `p`
  | drained (xs : List (Nat × Nat))
  | val (n : Nat)
  | abort                            -- `front()` of an empty queue (unreachable with a `while`)
  deriving DecidableEq, Repr

/-- one completed operation -/
structure QEv where
  t : Nat
  op : QOp
  res : QRes
  deriving DecidableEq, Repr

structure QState extends Mon where
  /-- `none`: BlockingQueue; `some c`: BoundedBlockingQueue of capacity `c` -/
  cap : Option Nat
  /-- `queue_`, front first; each element with the thread that put it (ghost) -/
  q : List (Nat × Nat)
  prog : Nat → List QOp
  log : List QEv

/-- `put(const T&)` for even values, `put(T&&)` for odd ones (what the harness calls) -/
def putSkel (bounded : Bool) (v : Nat) : List Stmt :=
  if bounded then (if v % 2 = 0 then bbq_put_copy else bbq_put_move)
  else (if v % 2 = 0 then bq_put_copy else bq_put_move)

def takeSkel (bounded : Bool) : List Stmt := if bounded then bbq_take else bq_take

/-- the `while` condition of `put` (BlockingQueue::put has none) -/
def putGuard (cap : Option Nat) (v size : Nat) : Bool :=
  match cap with
  | none => false
  | some c => if v % 2 = 0 then decide (bbq_put_copy_g1 size c) else decide (bbq_put_move_g1 size c)

def takeGuard (cap : Option Nat) (size : Nat) : Bool :=
  match cap with
  | none => decide (bq_take_g1 size 0)
  | some c => decide (bbq_take_g1 size c)

namespace QState

def notifs (s : QState) (fs : List NotF) : QState := { s with toMon := s.toMon.notifs fs }

/-- the operation is complete: unlock, log, go on to the next operation -/
def fin (s : QState) (t : Nat) (op : QOp) (rest : List QOp) (r : QRes) : QState :=
  { s with owner := none, prog := upd s.prog t rest, log := s.log ++ [⟨t, op, r⟩] }

/-- lock held by `t`; `[while|if] (g) c.wait();` then `eff` -/
def enter (s : QState) (t : Nat) (w : Option WaitF) (g : Bool) (eff : QState → QState) : QState :=
  match s.toMon.enter t w g with
  | (true, m) => eff { s with toMon := m }
  | (false, m) => { s with toMon := m }

def bounded (s : QState) : Bool := s.cap.isSome

def execOp (s : QState) (t : Nat) (op : QOp) (rest : List QOp) : QState :=
  match op with
  | .put v =>
    s.enter t (methF (putSkel s.bounded v)).wait (putGuard s.cap v s.q.length) fun s1 =>
      (({ s1 with q := s1.q ++ [(t, v)] } : QState).notifs (methF (putSkel s.bounded v)).notifs).fin t op rest .ok
  | .take =>
    s.enter t (methF (takeSkel s.bounded)).wait (takeGuard s.cap s.q.length) fun s1 =>
      match s1.q with
      | [] => s1.fin t op rest .abort
      | x :: q' => (({ s1 with q := q' } : QState).notifs (methF (takeSkel s.bounded)).notifs).fin t op rest (.took x.1 x.2)
  | .drain =>
    -- BoundedBlockingQueue has no `drain`
    if s.bounded then s.fin t op rest .abort else ({ s with q := [] } : QState).fin t op rest (.drained s.q)
  | .size => s.fin t op rest (.val s.q.length)
  | .empty => s.fin t op rest (.val (if s.q.isEmpty then 1 else 0))
  | .full => s.fin t op rest (.val (if s.q.length = s.cap.getD 0 then 1 else 0))
  | .capacity => s.fin t op rest (.val (s.cap.getD 0))

end QState

inductive Act where
  | acq (t : Nat)
  | body (t : Nat)
  | spur (t : Nat) (c : Cond)
  deriving DecidableEq, Repr

/-- one atomic step; `none` when it is not enabled -/
def qstep (s : QState) : Act → Option QState
  | .acq t =>
    if s.owner = none ∧ s.prog t ≠ [] ∧ t ∉ s.ne.W ∧ t ∉ s.nf.W then some { s with owner := some t } else none
  | .body t =>
    if s.owner = some t then
      match s.prog t with
      | [] => some { s with owner := none }
      | op :: rest => some (s.execOp t op rest)
    else none
  | .spur t c =>
    if t ∈ (s.ws c).W then some { s with toMon := s.toMon.setWs c ((s.ws c).spur t) } else none

def qinit (cap : Option Nat) (prog : Nat → List QOp) (sched : List Nat) : QState :=
  { toMon := Mon.init sched, cap := cap, q := [], prog := prog, log := [] }

/-- reachable from `s0` -/
inductive QReach (s0 : QState) : QState → Prop where
  | refl : QReach s0 s0
  | step {s s' : QState} (a : Act) : QReach s0 s → qstep s a = some s' → QReach s0 s'

/-- no thread can take a step (spurious wake-ups do not count as progress) -/
def QBlocked (s : QState) : Prop := ∀ t, qstep s (.acq t) = none ∧ qstep s (.body t) = none

/-! ### CountDownLatch -/

inductive LOp where
  | wait | countDown | getCount
  deriving DecidableEq, Repr

structure LEv where
  t : Nat
  op : LOp
  /-- `count_` when the operation completed -/
  count : Int
  deriving DecidableEq, Repr

structure LState extends Mon where
  count : Int
  prog : Nat → List LOp
  log : List LEv

namespace LState

def notifs (s : LState) (fs : List NotF) : LState := { s with toMon := s.toMon.notifs fs }

def fin (s : LState) (t : Nat) (op : LOp) (rest : List LOp) : LState :=
  { s with owner := none, prog := upd s.prog t rest, log := s.log ++ [⟨t, op, s.count⟩] }

def enter (s : LState) (t : Nat) (w : Option WaitF) (g : Bool) (eff : LState → LState) : LState :=
  match s.toMon.enter t w g with
  | (true, m) => eff { s with toMon := m }
  | (false, m) => { s with toMon := m }

def execOp (s : LState) (t : Nat) (op : LOp) (rest : List LOp) : LState :=
  match op with
  | .wait => s.enter t (waitOf latch_wait) (decide (latch_wait_g1 s.count)) fun s1 => s1.fin t op rest
  | .countDown =>
    if latch_countDown_g1 (s.count - 1) then
      (({ s with count := s.count - 1 } : LState).notifs (notifsOf latch_countDown)).fin t op rest
    else ({ s with count := s.count - 1 } : LState).fin t op rest
  | .getCount => s.fin t op rest

end LState

def lstep (s : LState) : Act → Option LState
  | .acq t =>
    if s.owner = none ∧ s.prog t ≠ [] ∧ t ∉ s.ne.W ∧ t ∉ s.nf.W then some { s with owner := some t } else none
  | .body t =>
    if s.owner = some t then
      match s.prog t with
      | [] => some { s with owner := none }
      | op :: rest => some (s.execOp t op rest)
    else none
  | .spur t c =>
    if t ∈ (s.ws c).W then some { s with toMon := s.toMon.setWs c ((s.ws c).spur t) } else none

def linit (count : Int) (prog : Nat → List LOp) (sched : List Nat) : LState :=
  { toMon := Mon.init sched, count := count, prog := prog, log := [] }

inductive LReach (s0 : LState) : LState → Prop where
  | refl : LReach s0 s0
  | step {s s' : LState} (a : Act) : LReach s0 s → lstep s a = some s' → LReach s0 s'

def LBlocked (s : LState) : Prop := ∀ t, lstep s (.acq t) = none ∧ lstep s (.body t) = none

end MuduoVerif.Monitor
