import MuduoVerif.Generated.Monitor
/-!
# Monitors: `BlockingQueue`, `BoundedBlockingQueue`, `CountDownLatch` (C14)

Thread-indexed transition systems over a mutex with condition variables.

* Threads are natural numbers; thread `t` runs the list of operations `prog t` (head = the operation it
  is in or about to start).  Any number of threads: `prog` is a function, nothing bounds its support.
* `owner` is the thread holding the mutex.  A critical section is two steps: `acq t` (the mutex is
  free, `t` stands at a lock statement or has been signalled and must reacquire) and `body t` (the code
  up to the next `wait()` or to the end of the guard's scope).  The deterministic scheduler of the
  harness runs `acq`+`body` back to back; the theorems hold for the finer interleaving.
* Every condition variable has two explicit lists: `W` (waiting, not signalled, in arrival order) and
  `S` (signalled or woken spuriously; must reacquire the mutex, then re-tests its predicate if the wait
  sits in a `while`).  Where a thread stands inside its current operation is determined by membership:
  in `W c` / in `S c` / neither (at the lock statement).
* `spur t c` is a spurious wake-up: `t` moves from `W c` to `S c` without a notification.
* `notify` with two or more unsignalled waiters takes the index of the waiter from `sched` (the
  scheduler's decision list, part of the state; the theorems quantify over all of them).

What a method does is read off the T1 skeleton in `Generated/Monitor.lean`: `waitOf` (is there a wait,
inside `while` or `if`, on which condition), `notifsOf` (which `notify`/`notifyAll` calls, in order), and
the generated guards `*_g1`.  The exact statement order is tied by `Proofs/MonitorTie.lean`.
Ghost: `log` (one event per completed operation, in mutex order); queue elements carry their producer.
Core Lean only.
-/
namespace MuduoVerif.Monitor
open MuduoVerif.MonitorSkel
open MuduoVerif.Generated.Monitor

/-- function update -/
def upd {α : Type} (f : Nat → α) (t : Nat) (v : α) : Nat → α := fun x => if x = t then v else f x

/-! ### wait-sets -/

structure WS where
  /-- waiting, not signalled; arrival order -/
  W : List Nat := []
  /-- signalled (or spuriously woken): must reacquire the mutex -/
  S : List Nat := []
  deriving Repr

namespace WS
/-- `wait()`: enter the wait-set -/
def park (w : WS) (t : Nat) : WS := { w with W := w.W ++ [t] }
/-- return from `wait()` (the mutex has been reacquired) -/
def wake (w : WS) (t : Nat) : WS := { w with S := w.S.erase t }
/-- `notifyAll()` -/
def all (w : WS) : WS := { W := [], S := w.S ++ w.W }
/-- `notify()`: releases waiter number `k` (mod the number of waiters), nobody when there is none -/
def one (w : WS) (k : Nat) : WS :=
  match w.W[k % w.W.length]? with
  | none => w
  | some u => { W := w.W.erase u, S := w.S ++ [u] }
/-- spurious wake-up of `t` -/
def spur (w : WS) (t : Nat) : WS := { W := w.W.erase t, S := w.S ++ [t] }
end WS

/-! ### what is read off a skeleton -/

inductive Cond where
  | notEmpty | notFull
  deriving DecidableEq, Repr

def condOf (c : String) : Option Cond :=
  if c = "notEmpty_" then some .notEmpty
  else if c = "notFull_" then some .notFull
  else if c = "condition_" then some .notEmpty
  else none

/-- a conditional wait: `while (g) c.wait()` (`loop`) or `if (g) c.wait()` -/
structure WaitF where
  loop : Bool
  cond : Cond
  deriving DecidableEq, Repr

/-- `c.notify()` / `c.notifyAll()` -/
structure NotF where
  all : Bool
  cond : Cond
  deriving DecidableEq, Repr

def waitOf : List Stmt → Option WaitF
  | [] => none
  | .whileWait c :: r => match condOf c with
    | some k => some ⟨true, k⟩
    | none => waitOf r
  | .ifWait c :: r => match condOf c with
    | some k => some ⟨false, k⟩
    | none => waitOf r
  | _ :: r => waitOf r

def notifsOf : List Stmt → List NotF
  | [] => []
  | .notify c :: r => match condOf c with
    | some k => ⟨false, k⟩ :: notifsOf r
    | none => notifsOf r
  | .notifyAll c :: r => match condOf c with
    | some k => ⟨true, k⟩ :: notifsOf r
    | none => notifsOf r
  | _ :: r => notifsOf r

/-- the part of a method's skeleton the transition system interprets -/
structure MethF where
  wait : Option WaitF
  notifs : List NotF
  deriving DecidableEq, Repr

def methF (sk : List Stmt) : MethF := ⟨waitOf sk, notifsOf sk⟩

/-! ### BlockingQueue / BoundedBlockingQueue -/

inductive QOp where
  | put (v : Nat) | take | drain | size | empty | full | capacity
  deriving DecidableEq, Repr

inductive QRes where
  | ok
  | took (p v : Nat)                 -- element `v`, put by thread `p`
  | drained (xs : List (Nat × Nat))
  | val (n : Nat)
  | abort                            -- `front()` of an empty queue (unreachable with a `while`)
  deriving DecidableEq, Repr

/-- one completed operation -/
structure QEv where
  t : Nat
  op : QOp
  res : QRes
  deriving DecidableEq, Repr

structure QState where
  /-- `none`: BlockingQueue; `some c`: BoundedBlockingQueue of capacity `c` -/
  cap : Option Nat
  /-- `queue_`, front first; each element with the thread that put it (ghost) -/
  q : List (Nat × Nat)
  owner : Option Nat
  prog : Nat → List QOp
  ne : WS
  nf : WS
  sched : List Nat
  log : List QEv

/-- `put(const T&)` for even values, `put(T&&)` for odd ones (what the harness calls) -/
def putSkel (bounded : Bool) (v : Nat) : List Stmt :=
  if bounded then (if v % 2 = 0 then bbq_put_copy else bbq_put_move)
  else (if v % 2 = 0 then bq_put_copy else bq_put_move)

def takeSkel (bounded : Bool) : List Stmt := if bounded then bbq_take else bq_take

/-- the `while` condition of `put` (BlockingQueue::put has none) -/
def putGuard (cap : Option Nat) (v size : Nat) : Bool :=
  match cap with
  | none => false
  | some c => if v % 2 = 0 then decide (bbq_put_copy_g1 size c) else decide (bbq_put_move_g1 size c)

def takeGuard (cap : Option Nat) (size : Nat) : Bool :=
  match cap with
  | none => decide (bq_take_g1 size 0)
  | some c => decide (bbq_take_g1 size c)

namespace QState

def ws (s : QState) : Cond → WS
  | .notEmpty => s.ne
  | .notFull => s.nf

def setWs (s : QState) (c : Cond) (w : WS) : QState :=
  match c with
  | .notEmpty => { s with ne := w }
  | .notFull => { s with nf := w }

def notify (s : QState) (f : NotF) : QState :=
  if f.all then s.setWs f.cond (s.ws f.cond).all
  else if 2 ≤ (s.ws f.cond).W.length then
    { s.setWs f.cond ((s.ws f.cond).one (s.sched.headD 0)) with sched := s.sched.tail }
  else s.setWs f.cond ((s.ws f.cond).one 0)

def notifs (s : QState) (fs : List NotF) : QState := fs.foldl notify s

/-- the operation is complete: unlock, log, go on to the next operation -/
def fin (s : QState) (t : Nat) (op : QOp) (rest : List QOp) (r : QRes) : QState :=
  { s with owner := none, prog := upd s.prog t rest, log := s.log ++ [⟨t, op, r⟩] }

/-- `wait()`: release the mutex and enter the wait-set -/
def parkOn (s : QState) (c : Cond) (t : Nat) : QState :=
  { s.setWs c ((s.ws c).park t) with owner := none }

/-- lock held by `t`; `[while|if] (g) c.wait();` then `eff` -/
def enter (s : QState) (t : Nat) (w : Option WaitF) (g : Bool) (eff : QState → QState) : QState :=
  match w with
  | none => eff s
  | some w =>
    if t ∈ (s.ws w.cond).S then
      if w.loop = true ∧ g = true then (s.setWs w.cond ((s.ws w.cond).wake t)).parkOn w.cond t
      else eff (s.setWs w.cond ((s.ws w.cond).wake t))
    else if g = true then s.parkOn w.cond t
    else eff s

def bounded (s : QState) : Bool := s.cap.isSome

def execOp (s : QState) (t : Nat) (op : QOp) (rest : List QOp) : QState :=
  match op with
  | .put v =>
    s.enter t (methF (putSkel s.bounded v)).wait (putGuard s.cap v s.q.length) fun s1 =>
      (({ s1 with q := s1.q ++ [(t, v)] } : QState).notifs (methF (putSkel s.bounded v)).notifs).fin t op rest .ok
  | .take =>
    s.enter t (methF (takeSkel s.bounded)).wait (takeGuard s.cap s.q.length) fun s1 =>
      match s1.q with
      | [] => s1.fin t op rest .abort
      | x :: q' => (({ s1 with q := q' } : QState).notifs (methF (takeSkel s.bounded)).notifs).fin t op rest (.took x.1 x.2)
  | .drain => ({ s with q := [] } : QState).fin t op rest (.drained s.q)
  | .size => s.fin t op rest (.val s.q.length)
  | .empty => s.fin t op rest (.val (if s.q.isEmpty then 1 else 0))
  | .full => s.fin t op rest (.val (if s.q.length = s.cap.getD 0 then 1 else 0))
  | .capacity => s.fin t op rest (.val (s.cap.getD 0))

end QState

inductive Act where
  | acq (t : Nat)
  | body (t : Nat)
  | spur (t : Nat) (c : Cond)
  deriving DecidableEq, Repr

/-- one atomic step; `none` when it is not enabled -/
def qstep (s : QState) : Act → Option QState
  | .acq t =>
    if s.owner = none ∧ s.prog t ≠ [] ∧ t ∉ s.ne.W ∧ t ∉ s.nf.W then some { s with owner := some t } else none
  | .body t =>
    if s.owner = some t then
      match s.prog t with
      | [] => some { s with owner := none }
      | op :: rest => some (s.execOp t op rest)
    else none
  | .spur t c =>
    if t ∈ (s.ws c).W then some (s.setWs c ((s.ws c).spur t)) else none

def qinit (cap : Option Nat) (prog : Nat → List QOp) (sched : List Nat) : QState :=
  { cap := cap, q := [], owner := none, prog := prog, ne := {}, nf := {}, sched := sched, log := [] }

/-- reachable from `s0` -/
inductive QReach (s0 : QState) : QState → Prop where
  | refl : QReach s0 s0
  | step {s s' : QState} (a : Act) : QReach s0 s → qstep s a = some s' → QReach s0 s'

/-- no thread can take a step (spurious wake-ups do not count as progress) -/
def QBlocked (s : QState) : Prop := ∀ t, qstep s (.acq t) = none ∧ qstep s (.body t) = none

/-! ### CountDownLatch -/

inductive LOp where
  | wait | countDown | getCount
  deriving DecidableEq, Repr

structure LEv where
  t : Nat
  op : LOp
  /-- `count_` when the operation completed -/
  count : Int
  deriving DecidableEq, Repr

structure LState where
  count : Int
  owner : Option Nat
  prog : Nat → List LOp
  c : WS
  sched : List Nat
  log : List LEv

namespace LState

def notify (s : LState) (f : NotF) : LState :=
  if f.all then { s with c := s.c.all }
  else if 2 ≤ s.c.W.length then { s with c := s.c.one (s.sched.headD 0), sched := s.sched.tail }
  else { s with c := s.c.one 0 }

def notifs (s : LState) (fs : List NotF) : LState := fs.foldl notify s

def fin (s : LState) (t : Nat) (op : LOp) (rest : List LOp) : LState :=
  { s with owner := none, prog := upd s.prog t rest, log := s.log ++ [⟨t, op, s.count⟩] }

def parkOn (s : LState) (t : Nat) : LState := { s with c := s.c.park t, owner := none }

def enter (s : LState) (t : Nat) (w : Option WaitF) (g : Bool) (eff : LState → LState) : LState :=
  match w with
  | none => eff s
  | some w =>
    if t ∈ s.c.S then
      if w.loop = true ∧ g = true then ({ s with c := s.c.wake t } : LState).parkOn t
      else eff { s with c := s.c.wake t }
    else if g = true then s.parkOn t
    else eff s

def execOp (s : LState) (t : Nat) (op : LOp) (rest : List LOp) : LState :=
  match op with
  | .wait => s.enter t (waitOf latch_wait) (decide (latch_wait_g1 s.count)) fun s1 => s1.fin t op rest
  | .countDown =>
    if latch_countDown_g1 (s.count - 1) then
      (({ s with count := s.count - 1 } : LState).notifs (notifsOf latch_countDown)).fin t op rest
    else ({ s with count := s.count - 1 } : LState).fin t op rest
  | .getCount => s.fin t op rest

end LState

def lstep (s : LState) : Act → Option LState
  | .acq t =>
    if s.owner = none ∧ s.prog t ≠ [] ∧ t ∉ s.c.W then some { s with owner := some t } else none
  | .body t =>
    if s.owner = some t then
      match s.prog t with
      | [] => some { s with owner := none }
      | op :: rest => some (s.execOp t op rest)
    else none
  | .spur t _ =>
    if t ∈ s.c.W then some { s with c := s.c.spur t } else none

def linit (count : Int) (prog : Nat → List LOp) (sched : List Nat) : LState :=
  { count := count, owner := none, prog := prog, c := {}, sched := sched, log := [] }

inductive LReach (s0 : LState) : LState → Prop where
  | refl : LReach s0 s0
  | step {s s' : LState} (a : Act) : LReach s0 s → lstep s a = some s' → LReach s0 s'

def LBlocked (s : LState) : Prop := ∀ t, lstep s (.acq t) = none ∧ lstep s (.body t) = none

end MuduoVerif.Monitor
