import MuduoVerif.Model.Rpc
/-!
# Statement skeletons of the RPC engine: vocabulary and the skeletons the model implements

`Model/Rpc.lean` takes the id source, the guards, the run / free / send counts and the decision tree of the REQUEST
branch from `Generated/Rpc.lean`; the ORDER and NESTING of the statements inside each function is hand-written there
(`callBegin` / `callInsert` / `callSend`, `recvResponse` / `finish`, `recvRequest`, `doneEvents`, `destroyEvents`,
`Server.up` / `Server.down`).  This file states, function by function, the skeleton that the model's definition
implements (`Decl.*`, written by reading `Model/Rpc.lean`, each with a pointer to the model definition).
`vlib/gen/rpcskel.py` extracts the skeleton of the same functions from /repo's current `RpcChannel.cc` /
`RpcServer.cc` (`Generated/RpcSkel.lean`, in the vocabulary below), and `Proofs/RpcSkelTie.lean` proves the two equal
by `decide`.  A source change that sets the id after the frame has left, sends a reply before its error code is set,
moves `Run()` under `if (message.has_response())`, merges two independent `if`s into `if / else if`, deletes twice in
the destructor, moves a statement into or out of a lock scope, adds, drops or duplicates a statement in one of these
functions changes the extracted skeleton and breaks that proof.

An `ite` is named after the site of `vlib/gen/rpc.py` (registry `rpc.SITES`) the model branches on at that point:

| name | condition in the source | what the model evaluates |
|---|---|---|
| `typeIsResponse`, `typeIsRequest`, `typeIsError` | `message.type() == X` (the chain) | `typeSwitch m.type` |
| `respFound` | `it != outstandings_.end()` | `lookup m.id s.outstanding` is `some k` |
| `respCompletes` | `out.response` | `s.pending` is `some (k, m)` |
| `respParses` | `message.has_response()` | `respParses m.payload.isSome m.err.isSome` |
| `respHasClosure` | `out.done` | - (always true in the model, see A2) |
| `hasServices`, `serviceFound`, `methodFound`, `requestParses` | the nested `if`s of the REQUEST branch | the arguments of `requestDecision` |
| `connUp` | `conn->connected()` | `Server.up` / `Server.down` |

What the model does not have although the code does it, kept in the skeletons and explained at the function
(nothing of this kind is dropped by the extraction):
* A1 `assert(conn == conn_)`, `assert(service != NULL)`: the model has no step for them - a channel only ever sees its
  own connection (`Server.act`), the service map holds registered, non-null services.  The RESPONSE branch has no
  assertion (`Gen.Rpc.respAssert` is `True`, `C19.assert_removed`).
* A2 `if (out.done)`: the model runs the closure `respRunCount` times unconditionally - the caller passes a non-null
  closure (assumption of C19); `if (out.response)` is the model's `pending.isSome` under the same assumption for the
  response object.
* A3 the request / response objects created while serving a request (`New()`, the `unique_ptr request`) have no `Cell`
  of their own except the response (`Cell.srvResp r`, freed by `doneCallback`) and the closure (`Cell.closure r`).
* A4 the fields `service`, `method`, `request` of an outgoing REQUEST frame: the model's event is `sent id k`.

What the extraction leaves out (the same list heads `Generated/RpcSkel.lean`): log statements; locals declared
without an initialiser or default-constructed (`RpcMessage message;`); casts; an `if` that is not a registered site
and has no action in either branch; `MUDUO_VERIF_POINT`.  Core Lean only.
-/
namespace MuduoVerif.RpcSkel
open MuduoVerif.Gen.Rpc

/-- one significant action; strings are canonical prints of source expressions (casts dropped, `->` as `.`) -/
inductive Act
  | fetchId (how : String)                               -- `id_.how`
  | setField (msg field value : String)                  -- `msg.set_field(value)` on an `RpcMessage`
  | mapInsert (map key value : String)                   -- `map[key] = value`
  | mapErase (map arg : String)                          -- `map.erase(arg)`
  | send (args : String)                                 -- `codec_.send(args)`
  | decode (args : String)                               -- `codec_.onMessage(args)`
  | parse (into src : String)                            -- `into->ParseFromString(src)`
  | alloc (what : String)                                -- `prototype.New()`, `new T(..)`
  | newCallback (what : String)                          -- `NewCallback(this, &C::f, args)`: a one-shot closure running f(args)
  | own (var ptr : String)                               -- `std::unique_ptr<..> var(ptr)`
  | freeOwned (var : String)                             -- end of the scope of the `unique_ptr` var: its object is deleted
  | free (ptr : String)                                  -- `delete ptr`
  | run (closure : String)                               -- `closure->Run()`
  | dispatch (service args : String)                     -- `service->CallMethod(args)`
  | call (obj fn args : String)                          -- `obj->fn(args)`: the setters of `RpcServer::onConnection`
  | assign (var value : String)                          -- declaration with an initialiser / assignment
  | assertion (text : String)
  | ret
deriving DecidableEq, Repr

/-- a statement: an action, `if (guard) { thn } else { els }`, the rest of a block after `MutexLockGuard lock(mutex)`,
or `for (var : range) { body }` -/
inductive Skel
  | act (a : Act)
  | ite (guard : String) (thn els : List Skel)
  | locked (mutex : String) (body : List Skel)
  | each (var range : String) (body : List Skel)
deriving Repr

/-! `deriving DecidableEq` does not handle the nesting through `List`; the instance is written out
(structural recursion, so `decide` evaluates it in the kernel). -/
mutual
def Skel.decEq : (x y : Skel) → Decidable (x = y)
  | .act a, .act a' => if h : a = a' then isTrue (by rw [h]) else isFalse (by intro e; cases e; exact h rfl)
  | .ite g t e, .ite g' t' e' =>
    if hg : g = g' then
      match Skel.decEqL t t' with
      | isTrue ht =>
        match Skel.decEqL e e' with
        | isTrue he => isTrue (by rw [hg, ht, he])
        | isFalse he => isFalse (by intro q; cases q; exact he rfl)
      | isFalse ht => isFalse (by intro q; cases q; exact ht rfl)
    else isFalse (by intro q; cases q; exact hg rfl)
  | .locked m b, .locked m' b' =>
    if hm : m = m' then
      match Skel.decEqL b b' with
      | isTrue hb => isTrue (by rw [hm, hb])
      | isFalse hb => isFalse (by intro q; cases q; exact hb rfl)
    else isFalse (by intro q; cases q; exact hm rfl)
  | .each v r b, .each v' r' b' =>
    if hv : v = v' then
      if hr : r = r' then
        match Skel.decEqL b b' with
        | isTrue hb => isTrue (by rw [hv, hr, hb])
        | isFalse hb => isFalse (by intro q; cases q; exact hb rfl)
      else isFalse (by intro q; cases q; exact hr rfl)
    else isFalse (by intro q; cases q; exact hv rfl)
  | .act _, .ite .. => isFalse (by intro e; cases e)
  | .act _, .locked .. => isFalse (by intro e; cases e)
  | .act _, .each .. => isFalse (by intro e; cases e)
  | .ite .., .act _ => isFalse (by intro e; cases e)
  | .ite .., .locked .. => isFalse (by intro e; cases e)
  | .ite .., .each .. => isFalse (by intro e; cases e)
  | .locked .., .act _ => isFalse (by intro e; cases e)
  | .locked .., .ite .. => isFalse (by intro e; cases e)
  | .locked .., .each .. => isFalse (by intro e; cases e)
  | .each .., .act _ => isFalse (by intro e; cases e)
  | .each .., .ite .. => isFalse (by intro e; cases e)
  | .each .., .locked .. => isFalse (by intro e; cases e)
def Skel.decEqL : (x y : List Skel) → Decidable (x = y)
  | [], [] => isTrue rfl
  | [], _ :: _ => isFalse (by intro e; cases e)
  | _ :: _, [] => isFalse (by intro e; cases e)
  | a :: as, b :: bs =>
    match Skel.decEq a b with
    | isTrue h =>
      match Skel.decEqL as bs with
      | isTrue h' => isTrue (by rw [h, h'])
      | isFalse h' => isFalse (by intro q; cases q; exact h' rfl)
    | isFalse h => isFalse (by intro q; cases q; exact h rfl)
end
instance : DecidableEq Skel := Skel.decEq
instance : DecidableEq (List Skel) := Skel.decEqL

/-! The generated definitions the guard names stand for, and the model functions read below (a rename on either side
stops this file from compiling). -/
example : MessageType → Branch := typeSwitch
example : Bool → Bool → Prop := respParses
example : Bool := respErasesWhenFound
example : Nat × Nat × Nat := (respRunCount, respFreeCount, doneSendCount)
example : Bool → Bool → Bool → Bool → Nat × List (IdSrc × ErrorCode) := requestDecision
example : Bool × Bool × Bool := (serverChannelPerUp, serverKeepsChannel, serverDropsChannelOnDown)
example := (Rpc.callBegin, Rpc.callInsert, Rpc.callSend, Rpc.recv, Rpc.recvResponse, Rpc.finish, Rpc.recvRequest,
  Rpc.dispatchOnce, Rpc.errorReplies, Rpc.doneEvents, Rpc.fireDone, Rpc.destroyEvents, Rpc.Server.up, Rpc.Server.down,
  Rpc.Server.act)

/-! ## The skeleton each model function implements

Conventions of the reading.  The log is newest-first: in `log := a ++ b ++ s.log` the events of `b` happen before those
of `a`.  A critical section of the source is one atomic step of the model (`callInsert`; `recvResponse` = the RESPONSE
branch up to the end of its critical section).  `insertKey i k` is `outstandings_[i] = ..`, `lookup` is `find`,
`eraseKey` is `erase`; `Ev.sent` / `Ev.reply` are `codec_.send` of a REQUEST / RESPONSE frame whose fields are the
`setField`s before it; `Ev.parse` is `ParseFromString` into the caller's response object, `Ev.ran` is `Run()`,
`Ev.free (.resp k)` is the end of the scope of `unique_ptr d(out.response)`, `Ev.free (.srvResp r)` that of
`unique_ptr d(response)` in `doneCallback`, `Ev.dispatch` is `service->CallMethod`.  `if g .. then A else B` on a
generated guard is `ite "g" A B`; `List.flatMap f l` is `for (x : l) f`. -/
namespace Decl

/-- `Rpc.destroyEvents`: `s.outstanding.flatMap (fun e => [free (.resp e.2), free (.done e.2)])` - for every registered
call, in map order, the response object, then the closure -/
def dtor : List Skel :=
  [ .each "outstanding" "outstandings_"
      [ .act (.assign "out" "outstanding.second"),
        .act (.free "out.response"),
        .act (.free "out.done") ] ]

/-- `Rpc.callBegin`, `Rpc.callInsert`, `Rpc.callSend` - three steps of the calling thread, in this order
(`callInsertBeforeSend`): `callBegin`: `idOf := (idFetch counter).1` (`fetchId`, stored in `id`; the frame is typed
`callWireType` and carries that id: `callWireIdIsFetched`); `callInsert`: `outstanding := insertKey (idOf k) k ..` - one
critical section holding nothing else; the value registered is the pair of the caller's objects (`Cell.resp k`,
`Cell.done k`); `callSend`: `log := sent (idOf k) k :: ..` outside the lock.  A4: the model does not look at the
`service` / `method` / `request` fields. -/
def callMethod : List Skel :=
  [ .act (.setField "message" "type" "REQUEST"),
    .act (.fetchId "incrementAndGet()"),
    .act (.assign "id" "id_.incrementAndGet()"),
    .act (.setField "message" "id" "id"),
    .act (.setField "message" "service" "method.service().full_name()"),
    .act (.setField "message" "method" "method.name()"),
    .act (.setField "message" "request" "request.SerializeAsString()"),
    .act (.assign "out" "{response, done}"),
    .locked "mutex_" [ .act (.mapInsert "outstandings_" "id" "out") ],
    .act (.send "conn_, message") ]

/-- framing is transparent (header of `Model/Rpc.lean`): the bytes go to the codec, which calls `onRpcMessage` once
per whole message - `Act.recv m` -/
def onMessage : List Skel :=
  [ .act (.decode "conn, buf, receiveTime") ]

/-- `Rpc.recv`: `match typeSwitch m.type with | .response => recvResponse | .request => recvRequest | .error => .. |
.none => ..` (the last two only log the ghost `arrived`).  A1 for the two assertions.

`Rpc.recvResponse` (+ `Rpc.finish`): key `m.id`; `pending` starts as `none` (`out = {NULL, NULL}`); inside the
critical section `match lookup m.id s.outstanding with | none => .. | some k => { outstanding := eraseKey m.id ..
(respErasesWhenFound), pending := some (k, m) }`; then, outside it, `finish`: `match s.pending with | some (k, m) =>`
log `[parse k]` if `respParses ..`, then `ran k ..` (A2), then `free (.resp k)`.

`Rpc.recvRequest`: `requestDecision hasServices serviceFound methodFound requestParses` (generated from the nested
`if`s, with the stores to `error`) gives the number of `dispatchOnce` (`Ev.dispatch`; the closure `NewCallback(this,
&doneCallback, response, id)` is `Cell.closure r` with the bound id `m.id`, run inside the call by `Meth.sync` or kept
in `closures` by `Meth.defer`) and then the `errorReplies` (type RESPONSE, id `replyId e.1 m.id`, code `e.2`, no
payload), each a `reply` event = `send`.  A3 for the request object. -/
def onRpcMessage : List Skel :=
  [ .act (.assertion "conn == conn_"),
    .act (.assign "message" "messagePtr"),
    .ite "typeIsResponse"
      [ .act (.assign "id" "message.id()"),
        .act (.assign "out" "{nullptr, nullptr}"),
        .locked "mutex_"
          [ .act (.assign "it" "outstandings_.find(id)"),
            .ite "respFound"
              [ .act (.assign "out" "it.second"),
                .act (.mapErase "outstandings_" "it") ]
              [] ],
        .ite "respCompletes"
          [ .act (.own "d" "out.response"),
            .ite "respParses" [ .act (.parse "out.response" "message.response()") ] [],
            .ite "respHasClosure" [ .act (.run "out.done") ] [],
            .act (.freeOwned "d") ]
          [] ]
      [ .ite "typeIsRequest"
          [ .act (.assign "error" "WRONG_PROTO"),
            .ite "hasServices"
              [ .act (.assign "it" "services_.find(message.service())"),
                .ite "serviceFound"
                  [ .act (.assign "service" "it.second"),
                    .act (.assertion "service != NULL"),
                    .act (.assign "desc" "service.GetDescriptor()"),
                    .act (.assign "method" "desc.FindMethodByName(message.method())"),
                    .ite "methodFound"
                      [ .act (.alloc "service.GetRequestPrototype(method).New()"),
                        .act (.own "request" "service.GetRequestPrototype(method).New()"),
                        .act (.parse "request" "message.request()"),
                        .ite "requestParses"
                          [ .act (.alloc "service.GetResponsePrototype(method).New()"),
                            .act (.assign "response" "service.GetResponsePrototype(method).New()"),
                            .act (.assign "id" "message.id()"),
                            .act (.newCallback "doneCallback(response, id)"),
                            .act (.dispatch "service"
                              "method, nullptr, request, response, NewCallback(this, &doneCallback, response, id)"),
                            .act (.assign "error" "NO_ERROR") ]
                          [ .act (.assign "error" "INVALID_REQUEST") ],
                        .act (.freeOwned "request") ]
                      [ .act (.assign "error" "NO_METHOD") ] ]
                  [ .act (.assign "error" "NO_SERVICE") ] ]
              [ .act (.assign "error" "NO_SERVICE") ],
            .ite "error != NO_ERROR"
              [ .act (.setField "response" "type" "RESPONSE"),
                .act (.setField "response" "id" "message.id()"),
                .act (.setField "response" "error" "error"),
                .act (.send "conn_, response") ]
              [] ]
          [ .ite "typeIsError" [] [] ] ] ]

/-- `Rpc.doneEvents r id p` = `replicate doneFreeCount (free (.srvResp r)) ++ replicate doneSendCount (reply r (replyId
doneIdSrc id) (some p) none)`: the reply (type RESPONSE, the bound id, the serialized response, no error code) leaves
first, then the response object is freed - the `unique_ptr` declared first dies last -/
def doneCallback : List Skel :=
  [ .act (.own "d" "response"),
    .act (.setField "message" "type" "RESPONSE"),
    .act (.setField "message" "id" "id"),
    .act (.setField "message" "response" "response.SerializeAsString()"),
    .act (.send "conn_, message"),
    .act (.freeOwned "d") ]

/-- `Rpc.Server.up`: `chans := (c, init sv.asserts serverSetsServices) :: ..` - a fresh channel (`serverChannelPerUp`)
with the server's services, which from then on receives the messages of `c` (`Server.act`; `serverRoutesMessages`) and is
kept as long as the connection (`serverKeepsChannel`); `Rpc.Server.down`: `chans.filter (·.1 ≠ c)`
(`serverDropsChannelOnDown`) -/
def onConnection : List Skel :=
  [ .ite "connUp"
      [ .act (.alloc "new RpcChannel(conn)"),
        .act (.assign "channel" "new RpcChannel(conn)"),
        .act (.call "channel" "setServices" "&services_"),
        .act (.call "conn" "setMessageCallback" "bind(&onMessage, channel, _1, _2, _3)"),
        .act (.call "conn" "setContext" "channel") ]
      [ .act (.call "conn" "setContext" "RpcChannelPtr()") ] ]

end Decl
end MuduoVerif.RpcSkel
