import MuduoVerif.Generated.Timer
/-!
# Model of muduo's timer engine (TimerQueue.cc, Timer.cc/h, TimerId.h, EventLoop::runAt/runAfter/runEvery/cancel)

Core Lean only.  What the environment decides is input: every clock reading (`nows`), the address the
allocator returns for each new `Timer` (`addrs`), when the timerfd fires (`In.expire`), and the
interleaving of a foreign `addTimer` with the loop (`In.addAlloc` / `In.addFinish`).
The heap of `Timer` objects is explicit: a dereference of a freed object is an observable `uaf` event.
All constants, the small integer functions and every branch guard come from `Generated/Timer.lean` (T1).
-/
namespace MuduoVerif.Timer
open MuduoVerif.Gen.Timer

abbrev Time := Int
abbrev Addr := Nat

/-- `muduo::net::TimerId`: (Timer*, sequence) -/
structure TimerId where
  addr : Addr
  seq : Nat
deriving DecidableEq, Repr

/-- `TimerId()` -/
def TimerId.dflt : TimerId := ⟨0, 0⟩

/-- a `muduo::net::Timer` object; `name`, `first`, `runs` are ghost (who registered it with which deadline,
how often it was restarted) -/
structure Cell where
  seq : Nat
  exp : Time
  rep : Bool
  delta : Int
  name : Nat
  first : Time
  runs : Nat
deriving Repr, DecidableEq

def Cell.dflt : Cell := ⟨0, 0, false, 0, 0, 0, 0⟩

/-- the three ways the public API registers a timer -/
inductive Mode
  | at (t : Time)                    -- runAt(t, cb)
  | after (d : Int)                  -- runAfter(delay, cb);  d = (int64_t)(delay * 1e6)
  | every (d : Int) (pos : Bool)     -- runEvery(interval, cb);  d = (int64_t)(interval * 1e6), pos = interval > 0.0
deriving Repr, DecidableEq

/-- what a timer callback does (on the loop thread, inside the expiry batch) -/
inductive Act
  | add (name : Nat) (m : Mode)
  | cancel (name : Option Nat)       -- `none`: a default-constructed TimerId
deriving Repr, DecidableEq

inductive Functor
  | add (a : Addr)                   -- bind(&TimerQueue::addTimerInLoop, this, timer)
  | cancel (id : TimerId)            -- bind(&TimerQueue::cancelInLoop, this, timerId)
  | marker (k : Nat)                 -- the harness' marker queued right behind a foreign cancel
deriving Repr, DecidableEq

inductive Ev
  /-- callback of the timer `seq` (registered as `name`, living at `addr`) runs for the `k`-th time; `first` is the
  deadline it was created with, `rep`/`delta` its repeat flag and interval, `exp` the deadline under which it was
  queued, `now` the reading `getExpired` compared it with, `clock` the last clock reading (all but `name`, `clock`
  ghost) -/
  | run (name seq k : Nat) (addr : Addr) (rep : Bool) (first : Time) (delta : Int) (exp now clock : Time)
  | arm (ns : Int) (now : Time)      -- timerfd_settime(relative ns) computed from the reading `now`
  | added (name : Nat) (addr : Addr) (seq : Nat)   -- addTimer returned this id
  | registered (addr : Addr) (seq : Nat) (exp : Time)   -- addTimerInLoop inserted the timer
  | restarted (addr : Addr) (seq : Nat) (exp : Time)    -- ghost: reset() restarted the repeating timer with this deadline
  /-- cancelInLoop processed: `inBatch` = callingExpiredTimers_, `found` = the pair was in activeTimers_ (ghost) -/
  | cancel (addr : Addr) (seq : Nat) (inBatch found : Bool)
  | processed (k : Nat)
  | uaf (addr : Addr)                -- a freed Timer was dereferenced
deriving Repr, DecidableEq

structure TQ where
  heap : Addr → Option Cell := fun _ => none
  timers : List (Time × Addr) := []        -- timers_  (sorted by (deadline, address))
  active : List (Addr × Nat) := []         -- activeTimers_
  numCreated : Nat := 0                    -- Timer::s_numCreated_
  calling : Bool := false                  -- callingExpiredTimers_
  cancelling : List (Addr × Nat) := []     -- cancelingTimers_
  alarm : Option Time := none              -- the timerfd: armed for this absolute time ...
  readable : Bool := false                 -- ... or expired and not yet read
  armedAt : Time := 0                      -- ghost: the clock reading of the last timerfd_settime
  pending : List Functor := []             -- EventLoop::pendingFunctors_ (timer-related ones)
  running : List Functor := []             -- doPendingFunctors' local vector: swapped out, not yet run
  vars : List (Nat × TimerId) := []        -- the user's TimerId variables
  started : List Nat := []                 -- names whose `add` was already issued
  scripts : List (Nat × Option Nat × Act) := []
  parked : Option (Nat × Addr × Nat) := none   -- foreign addTimer between hand-over and `return TimerId(..)`
  nows : List Time := []                   -- environment: clock readings not yet consumed
  addrs : List Addr := []                  -- environment: addresses `new Timer` will return
  clock : Time := 0                        -- the last clock reading
  starved : Bool := false                  -- the model asked the environment for more than was recorded
  badEnv : Bool := false
  trace : List Ev := []                    -- newest first

def emit (s : TQ) (e : Ev) : TQ := { s with trace := e :: s.trace }

def hset (h : Addr → Option Cell) (a : Addr) (c : Cell) : Addr → Option Cell := fun x => if x = a then some c else h x
def hfree (h : Addr → Option Cell) (a : Addr) : Addr → Option Cell := fun x => if x = a then none else h x

/-- a dereference of the `Timer*` `a`: observable when the object was freed -/
def chk (s : TQ) (a : Addr) : TQ := if (s.heap a).isSome then s else emit s (.uaf a)
def cellAt (s : TQ) (a : Addr) : Cell := (s.heap a).getD Cell.dflt

/-- `Timestamp::now()` -/
def readNow (s : TQ) : Time × TQ :=
  match s.nows with
  | t :: r => (t, { s with nows := r, clock := t })
  | [] => (s.clock, { s with starved := true })

/-- `std::pair<Timestamp, Timer*>` order of `timers_` -/
def entryLt (a b : Time × Addr) : Prop := a.1 < b.1 ∨ (a.1 = b.1 ∧ a.2 < b.2)
instance : Decidable (entryLt a b) := by unfold entryLt; infer_instance

def insEntry (e : Time × Addr) : List (Time × Addr) → List (Time × Addr)
  | [] => [e]
  | x :: xs => if entryLt e x then e :: x :: xs else x :: insEntry e xs

/-- `detail::resetTimerfd(timerfd_, when)` -/
def armFd (s : TQ) (when : Time) : TQ :=
  let (now, s) := readNow s
  let ts := howMuchTimeFromNow when now
  emit { s with alarm := some (now + howMuchUs when now), readable := false, armedAt := now }
    (.arm (ts.1 * 1000000000 + ts.2) now)

def firstExp (l : List (Time × Addr)) : Time := match l with | [] => 0 | e :: _ => e.1

/-- `TimerQueue::insert(timer)` -/
def insertTimer (s : TQ) (a : Addr) : TQ × Bool :=
  let s := chk s a
  let c := cellAt s a
  let changed : Bool := decide (insertEarliestChanged s.timers.isEmpty c.exp (firstExp s.timers))
  ({ s with timers := insEntry (c.exp, a) s.timers, active := (a, c.seq) :: s.active }, changed)

/-- `TimerQueue::addTimerInLoop(timer)` -/
def addInLoop (s : TQ) (a : Addr) : TQ :=
  let s0 := emit (chk s a) (.registered a (cellAt s a).seq (cellAt s a).exp)
  let r := insertTimer s0 a
  if addRearms r.2 then armFd (chk r.1 a) (cellAt r.1 a).exp else r.1

/-- `TimerQueue::cancelInLoop(timerId)` -/
def cancelInLoop (s : TQ) (id : TimerId) : TQ :=
  let s := emit s (.cancel id.addr id.seq s.calling (decide ((id.addr, id.seq) ∈ s.active)))
  let found : Bool := decide ((id.addr, id.seq) ∈ s.active)
  if cancelErases found then
    let s := chk s id.addr
    let c := cellAt s id.addr
    { s with timers := s.timers.filter (fun e => e ≠ (c.exp, id.addr)),
             active := s.active.filter (fun p => p ≠ (id.addr, id.seq)),
             heap := hfree s.heap id.addr }
  else if cancelRemembers found s.calling then
    { s with cancelling := (id.addr, id.seq) :: s.cancelling }
  else s

/-- the deadline / repeat flag / truncated interval the API wrapper computes -/
def deadlineOf (s : TQ) : Mode → (Time × Bool × Int) × TQ
  | .at t => ((t, timerRepeats false, 0), s)
  | .after d => let r := readNow s; ((addTime r.1 d, timerRepeats false, 0), r.2)
  | .every d pos => let r := readNow s; ((addTime r.1 d, timerRepeats pos, d), r.2)

/-- `new Timer(cb, when, interval)`; the address is the environment's choice among the free ones -/
def allocTimer (s : TQ) (name : Nat) (m : Mode) : Option Addr × TQ :=
  if name ∈ s.started then (none, s)
  else
    let s := { s with started := name :: s.started }
    let r := deadlineOf s m
    let s := r.2
    match s.addrs with
    | [] => (none, { s with starved := true })
    | a :: rest =>
      let s := { s with addrs := rest }
      if (s.heap a).isSome ∨ a = 0 ∨ ¬ a < sentinelAddr then (none, { s with badEnv := true })
      else
        let seq := nextSequence s.numCreated
        (some a, { s with heap := hset s.heap a ⟨seq, r.1.1, r.1.2.1, r.1.2.2, name, r.1.1, 0⟩, numCreated := seq })

def bindId (s : TQ) (name : Nat) (a : Addr) (seq : Nat) : TQ :=
  emit { s with vars := (name, ⟨a, seq⟩) :: s.vars } (.added name a seq)

/-- `addTimer` called on the loop thread: `runInLoop` runs `addTimerInLoop` inline -/
def addL (s : TQ) (name : Nat) (m : Mode) : TQ :=
  match allocTimer s name m with
  | (none, s) => s
  | (some a, s) =>
    let seq := (cellAt s a).seq
    let s := addInLoop s a
    let s := if addTimerDerefsAfterHandOver then chk s a else s
    bindId s name a (if addTimerDerefsAfterHandOver then (cellAt s a).seq else seq)

/-- `addTimer` on a foreign thread up to and including the hand-over (`queueInLoop`) -/
def addAlloc (s : TQ) (name : Nat) (m : Mode) : TQ :=
  if s.parked.isSome then s else
  match allocTimer s name m with
  | (none, s) => s
  | (some a, s) => { s with pending := s.pending ++ [.add a], parked := some (name, a, (cellAt s a).seq) }

/-- ... and the rest of it: `return TimerId(timer, sequence)` -/
def addFinish (s : TQ) : TQ :=
  match s.parked with
  | none => s
  | some (name, a, seq) =>
    let s := { s with parked := none }
    let s := if addTimerDerefsAfterHandOver then chk s a else s
    bindId s name a (if addTimerDerefsAfterHandOver then (cellAt s a).seq else seq)

def lookupId (s : TQ) : Option Nat → TimerId
  | none => TimerId.dflt
  | some n => (s.vars.lookup n).getD TimerId.dflt

def execAct (s : TQ) : Act → TQ
  | .add name m => addL s name m
  | .cancel v => cancelInLoop s (lookupId s v)

def scriptFor (scripts : List (Nat × Option Nat × Act)) (name k : Nat) : List Act :=
  (scripts.filter (fun e => e.1 = name ∧ (e.2.1 = none ∨ e.2.1 = some k))).map (fun e => e.2.2)

/-- `it.second->run()` for one entry of the expired batch -/
def runTimer (now : Time) (s : TQ) (e : Time × Addr) : TQ :=
  let s := chk s e.2
  let c := cellAt s e.2
  let s := emit s (.run c.name c.seq (c.runs + 1) e.2 c.rep c.first c.delta e.1 now s.clock)
  (scriptFor s.scripts c.name (c.runs + 1)).foldl execAct s

def isExpired (now : Time) (e : Time × Addr) : Bool := decide (entryExpired e.1 e.2 now)

/-- `TimerQueue::getExpired(now)`: the entries before the sentry leave `timers_`; for each of them
`activeTimers_.erase(ActiveTimer(it.second, it.second->sequence()))` (every `sequence()` is a dereference) -/
def getExpired (s : TQ) (now : Time) : List (Time × Addr) × TQ :=
  let expired := s.timers.takeWhile (isExpired now)
  let s1 := expired.foldl (fun s e => chk s e.2) s
  (expired, { s1 with timers := s.timers.dropWhile (isExpired now),
                      active := s.active.filter (fun p => ¬ ∃ e ∈ expired, p = (e.2, (cellAt s e.2).seq)) })

/-- the loop body of `TimerQueue::reset` -/
def resetOne (now : Time) (s : TQ) (e : Time × Addr) : TQ :=
  let s := chk s e.2
  let c := cellAt s e.2
  let cancelled : Bool := decide ((e.2, c.seq) ∈ s.cancelling)
  if resetRestarts c.rep cancelled then
    (insertTimer (emit { s with heap := hset s.heap e.2 { c with exp := restart c.rep now c.delta, runs := c.runs + 1 } }
      (.restarted e.2 c.seq (restart c.rep now c.delta))) e.2).1
  else { s with heap := hfree s.heap e.2 }

/-- the tail of `TimerQueue::reset`: re-arm for the earliest remaining timer -/
def rearm (s : TQ) : TQ :=
  let r : Time × TQ :=
    if resetHasNext s.timers.isEmpty then
      (match s.timers with
       | e :: _ => ((cellAt s e.2).exp, chk s e.2)     -- timers_.begin()->second->expiration()
       | [] => (timestampInvalid, s))
    else (timestampInvalid, s)
  if resetRearms r.1 then armFd r.2 r.1 else r.2

def reset (s : TQ) (expired : List (Time × Addr)) (now : Time) : TQ :=
  rearm (expired.foldl (resetOne now) s)

/-- `TimerQueue::handleRead()` -/
def handleRead (s : TQ) : TQ :=
  let r := readNow s
  let now := r.1
  let g := getExpired { r.2 with readable := false } now
  let s := g.1.foldl (runTimer now) { g.2 with calling := true, cancelling := [] }
  reset { s with calling := false } g.1 now

def runFunctor (s : TQ) : Functor → TQ
  | .add a => addInLoop s a
  | .cancel id => cancelInLoop s id
  | .marker k => emit s (.processed k)

/-- `doPendingFunctors`: run the next functor of the swapped-out vector -/
def runNext (s : TQ) : TQ :=
  match s.running with
  | [] => s
  | f :: r => runFunctor { s with running := r } f

def drain : Nat → TQ → TQ
  | 0, s => s
  | n + 1, s => drain n (runNext s)

/-- one iteration of `EventLoop::loop`: poll, `handleRead` if the timerfd is readable, pending functors -/
def iter (s : TQ) : TQ :=
  let s1 := if s.readable then handleRead s else s
  drain s1.pending.length { s1 with running := s1.pending, pending := [] }

inductive Who | loop | foreign
deriving Repr, DecidableEq

inductive In
  | now (t : Time)                         -- environment: the next clock reading will return t
  | addr (a : Addr)                        -- environment: the next `new Timer` will return a
  | script (name : Nat) (k : Option Nat) (a : Act)
  | add (who : Who) (name : Nat) (m : Mode)
  | addAlloc (name : Nat) (m : Mode)       -- foreign addTimer, up to the hand-over
  | addFinish                              -- foreign addTimer, the rest
  | cancel (who : Who) (name : Option Nat) (k : Nat)
  | expire                                 -- environment: the timerfd fires
  | iter
deriving Repr, DecidableEq

def step (s : TQ) : In → TQ
  | .now t => { s with nows := s.nows ++ [t] }
  | .addr a => { s with addrs := s.addrs ++ [a] }
  | .script name k a => { s with scripts := s.scripts ++ [(name, k, a)] }
  | .add .loop name m => addL s name m
  | .add .foreign name m => if s.parked.isSome then s else addFinish (addAlloc s name m)
  | .addAlloc name m => addAlloc s name m
  | .addFinish => addFinish s
  | .cancel .loop v k => emit (cancelInLoop s (lookupId s v)) (.processed k)
  | .cancel .foreign v k => { s with pending := s.pending ++ [.cancel (lookupId s v), .marker k] }
  | .expire => match s.alarm with
    | some _ => { s with alarm := none, readable := true }
    | none => s
  | .iter => iter s

def run (ins : List In) : TQ := ins.foldl step {}

end MuduoVerif.Timer
