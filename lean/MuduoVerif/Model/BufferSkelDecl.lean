/-!
# Statement skeletons of the Buffer engine: vocabulary and the skeletons the model implements

`Model/Buffer.lean` takes every branch guard and constant from `Generated/Buffer.lean`; WHICH index moves by how
much, in which ORDER, under which guard, what `makeSpace` copies where and how `readFd` splits the delivered bytes
between the writable area and the spill buffer is hand-written there.  This file states, function by function, the
skeleton that the model's definition implements (`Decl.*`, written by reading `Model/Buffer.lean`, each with a
pointer to the model definition it mirrors).  `vlib/gen/bufferskel.py` extracts the skeleton of the same functions
from /repo's current `muduo/net/Buffer.h` / `Buffer.cc` (`Generated/BufferSkel.lean`, in the vocabulary below) and
`Proofs/BufferSkelTie.lean` proves the two equal by `decide`.  A source change that swaps two index stores, moves the
copy of `makeSpace` behind them, moves a call into or out of an `if`, merges two `if`s, drops an `else`, duplicates
or drops a statement in one of these functions changes the extracted skeleton and breaks that proof.

An `ite` is named after the generated guard (`Gen.Buffer.<name>`) the model branches on at that point; a condition
the model has no generated guard for is printed (`n < 0`).  Expressions are canonical prints of the source
expressions (casts dropped, minimal parentheses).  Core Lean only; imports nothing.

Classes of statements that are NOT part of a skeleton (the generator ignores exactly these):
* I1 declarations of locals without an initialiser (`char extrabuf[65536]`, `struct iovec vec[2]`) - storage only;
  size and storage class of `extrabuf` are tied by `Gen.Buffer.extrabufSize` / `extrabufPerCall`;
* I2 casts of every kind - the model computes over `Nat` / `Int` / byte lists;
* I3 the base-class initialiser of the constructor (`muduo::copyable`);
* I4 `MUDUO_VERIF_POINT` and empty statements.
Value getters are printed inside the expressions that use them, they are not actions; their own definitions
(`readableBytes`, `writableBytes`, `prependableBytes`, `peek`, `beginWrite`, `toStringPiece`) are skeletons below.
-/
namespace MuduoVerif.BufferSkel

inductive SysOp | readv
deriving DecidableEq, Repr

/-- one significant action; strings are canonical prints of source expressions -/
inductive Act
  | setReader (value : String)                    -- `readerIndex_ = value` (`readerIndex_ += e` is the store of `readerIndex_ + e`)
  | setWriter (value : String)                    -- `writerIndex_ = value`
  | resize (size : String)                        -- `buffer_.resize(size)`; in the constructor: `buffer_(size)`
  | copy (first last dst : String)                -- `std::copy(first, last, dst)`
  | memcpy (dst src n : String)                   -- `::memcpy(dst, src, n)`
  | swap (a b : String)                           -- `std::swap(a, b)` / `a.swap(b)`
  | call (fn : String) (args : String)            -- another member function, on `this` (`fn`) or on a local Buffer (`obj.fn`)
  | sys (op : SysOp) (args : String)
  | assign (var : String) (value : String)        -- any other store; an initialised local; `<result>` = value of the action before
  | assertion (cond : String)                     -- `assert(cond)`
  | ret (value : String)                          -- `return value`
deriving DecidableEq, Repr

/-- a statement: an action, or `if (guard) { thn } else { els }` -/
inductive Skel
  | act (a : Act)
  | ite (guard : String) (thn els : List Skel)
deriving Repr

/-! `deriving DecidableEq` does not handle the nesting through `List`; the instance is written out
(structural recursion, so `decide` evaluates it in the kernel). -/
mutual
def Skel.decEq : (x y : Skel) → Decidable (x = y)
  | .act a, .act a' => if h : a = a' then isTrue (by rw [h]) else isFalse (by intro e; cases e; exact h rfl)
  | .act _, .ite .. => isFalse (by intro e; cases e)
  | .ite .., .act _ => isFalse (by intro e; cases e)
  | .ite g t e, .ite g' t' e' =>
    if hg : g = g' then
      match Skel.decEqL t t' with
      | isTrue ht =>
        match Skel.decEqL e e' with
        | isTrue he => isTrue (by rw [hg, ht, he])
        | isFalse he => isFalse (by intro q; cases q; exact he rfl)
      | isFalse ht => isFalse (by intro q; cases q; exact ht rfl)
    else isFalse (by intro q; cases q; exact hg rfl)
def Skel.decEqL : (x y : List Skel) → Decidable (x = y)
  | [], [] => isTrue rfl
  | [], _ :: _ => isFalse (by intro e; cases e)
  | _ :: _, [] => isFalse (by intro e; cases e)
  | a :: as, b :: bs =>
    match Skel.decEq a b with
    | isTrue h =>
      match Skel.decEqL as bs with
      | isTrue h' => isTrue (by rw [h, h'])
      | isFalse h' => isFalse (by intro q; cases q; exact h' rfl)
    | isFalse h => isFalse (by intro q; cases q; exact h rfl)
end
instance : DecidableEq Skel := Skel.decEq
instance : DecidableEq (List Skel) := Skel.decEqL

/-! ## The skeleton each model function implements

Conventions of the reading (`b : Buf` is the object, `b.data` = `buffer_`, `b.reader` = `readerIndex_`,
`b.writer` = `writerIndex_`).
* `{ b with reader := e }` is `setReader`, `{ b with writer := e }` is `setWriter`; in a record update that sets
  several fields the right-hand sides are written over the OLD `b`, so a store that the code performs after another
  one and that reads the stored index appears in the model with the new value substituted
  (`makeSpace`: `writerIndex_ = readerIndex_ + readable` after `readerIndex_ = kCheapPrepend` is
  `writer := kCheapPrepend + readable b`; `prepend`: the copy to `begin() + readerIndex_` after
  `readerIndex_ -= len` is the splice at `b.reader - x.length`).
* `resize b.data n` is `buffer_.resize(n)`; `List.replicate n 0` in `mk` is the fresh `buffer_(n)`.
* `splice d pos x` is a copy of `x` to `begin() + pos` (`std::copy` / the kernel's store through an iovec).
* `content b` is the range `[begin() + readerIndex_, begin() + writerIndex_)` = `[peek(), beginWrite())`
  = `toStringPiece()`; positions of the searches and of `retrieveUntil` are offsets from `peek()`.
* `readable b`, `writable b`, `prependable b` are the three getters.
* A `*Pre` predicate (`retrievePre`, `hasWrittenPre`, `unwritePre`, `prependPre`, `peekIntPre`) is the leading
  `assert` of the function; a trailing `assert` is a lemma of `Proofs/Buffer.lean` (named at the function).
* `if g .. then A else B` on a generated guard `g` is `ite "g" A B`.
* The byte-order conversions + `sizeof` are `intBytes bytes v` (big-endian two's complement) / `peekInt`. -/
namespace Decl

/-- `Buffer.mk initial`: `data := List.replicate (kCheapPrepend + initial) 0`, `reader := kCheapPrepend`,
`writer := kCheapPrepend`.  The three assertions are `mk_content`/`mk_sizes` of `Proofs/Buffer.lean`. -/
def ctor : List Skel :=
  [ .act (.resize "kCheapPrepend + initialSize"),
    .act (.setReader "kCheapPrepend"),
    .act (.setWriter "kCheapPrepend"),
    .act (.assertion "readableBytes() == 0"),
    .act (.assertion "writableBytes() == initialSize"),
    .act (.assertion "prependableBytes() == kCheapPrepend") ]

/-- `Buffer.step b (.swapFresh i x) = append (mk i) x` and the last step of `Buffer.shrink`: after `swap(other)` the
object IS the other buffer - all three fields `data`, `reader`, `writer` exchanged, none left behind. -/
def swap : List Skel :=
  [ .act (.swap "buffer_" "rhs.buffer_"),
    .act (.swap "readerIndex_" "rhs.readerIndex_"),
    .act (.swap "writerIndex_" "rhs.writerIndex_") ]

/-- `Buffer.readable b = b.writer - b.reader` -/
def readableBytes : List Skel := [ .act (.ret "writerIndex_ - readerIndex_") ]

/-- `Buffer.writable b = b.data.length - b.writer` -/
def writableBytes : List Skel := [ .act (.ret "buffer_.size() - writerIndex_") ]

/-- `Buffer.prependable b = b.reader` -/
def prependableBytes : List Skel := [ .act (.ret "readerIndex_") ]

/-- `Buffer.content b = (b.data.drop b.reader).take ..`: the window starts at `begin() + readerIndex_` -/
def peek : List Skel := [ .act (.ret "begin() + readerIndex_") ]

/-- `Buffer.findCRLF b 0` (the driver maps the argument-less call to `start = 0`): first occurrence of `[13, 10]`
(`kCRLF`, two bytes) inside `(content b).drop 0` = `[peek(), beginWrite())`; `none` iff the search returns its end. -/
def findCRLF : List Skel :=
  [ .act (.assign "crlf" "search(peek(), beginWrite(), kCRLF, kCRLF + 2)"),
    .act (.ret "crlf == beginWrite() ? NULL : crlf") ]

/-- `Buffer.findCRLF b start = (findSub [13, 10] ((content b).drop start) 0).map (· + start)`; the two assertions
are the driver's `start ≤ readable b` (offsets are naturals, so `peek() <= start` is implicit). -/
def findCRLFFrom : List Skel :=
  [ .act (.assertion "peek() <= start"),
    .act (.assertion "start <= beginWrite()"),
    .act (.assign "crlf" "search(start, beginWrite(), kCRLF, kCRLF + 2)"),
    .act (.ret "crlf == beginWrite() ? NULL : crlf") ]

/-- `Buffer.findEOL b 0 = findByte 10 (content b)`: `memchr` over the `readableBytes()` bytes from `peek()` -/
def findEOL : List Skel :=
  [ .act (.assign "eol" "memchr(peek(), char(10), readableBytes())"),
    .act (.ret "eol") ]

/-- `Buffer.findEOL b start = (findByte 10 ((content b).drop start)).map (· + start)` -/
def findEOLFrom : List Skel :=
  [ .act (.assertion "peek() <= start"),
    .act (.assertion "start <= beginWrite()"),
    .act (.assign "eol" "memchr(start, char(10), beginWrite() - start)"),
    .act (.ret "eol") ]

/-- `Buffer.retrieve b n = if retrieveKeeps n (readable b) then { b with reader := b.reader + n } else retrieveAll b`;
the assertion is `retrievePre` -/
def retrieve : List Skel :=
  [ .act (.assertion "len <= readableBytes()"),
    .ite "retrieveKeeps"
      [ .act (.setReader "readerIndex_ + len") ]
      [ .act (.call "retrieveAll" "") ] ]

/-- positions are offsets from `peek()` in the model: `retrieveUntil(end)` is `Buffer.retrieve b (end - peek())`
with `end - peek() ≤ readable b` (`retrievePre`) for the two assertions -/
def retrieveUntil : List Skel :=
  [ .act (.assertion "peek() <= end"),
    .act (.assertion "end <= beginWrite()"),
    .act (.call "retrieve" "end - peek()") ]

/-- the `retrieve b bytes` of `Buffer.readInt b bytes`, `bytes = 8` -/
def retrieveInt64 : List Skel := [ .act (.call "retrieve" "sizeof(int64_t)") ]
/-- `bytes = 4` -/
def retrieveInt32 : List Skel := [ .act (.call "retrieve" "sizeof(int32_t)") ]
/-- `bytes = 2` -/
def retrieveInt16 : List Skel := [ .act (.call "retrieve" "sizeof(int16_t)") ]
/-- `bytes = 1` -/
def retrieveInt8 : List Skel := [ .act (.call "retrieve" "sizeof(int8_t)") ]

/-- `Buffer.retrieveAll b = { b with reader := kCheapPrepend, writer := kCheapPrepend }` -/
def retrieveAll : List Skel :=
  [ .act (.setReader "kCheapPrepend"),
    .act (.setWriter "kCheapPrepend") ]

/-- `retrieveAsString` with `len = readable b` -/
def retrieveAllAsString : List Skel :=
  [ .act (.call "retrieveAsString" "readableBytes()"),
    .act (.ret "<result>") ]

/-- driver `retrieveAsString n`: `okOp b (.retrieve n)` (the assertion), the returned bytes are
`(content b).take n` of the buffer BEFORE the step, then `step b (.retrieve n)` -/
def retrieveAsString : List Skel :=
  [ .act (.assertion "len <= readableBytes()"),
    .act (.assign "result" "std::string(peek(), len)"),
    .act (.call "retrieve" "len"),
    .act (.ret "result") ]

/-- `Buffer.content b`: `readable b` bytes from `peek()` -/
def toStringPiece : List Skel := [ .act (.ret "StringPiece(peek(), readableBytes())") ]

/-- the three `append` overloads are the one `Buffer.append b x` (`x` = the `len` bytes at `data`) -/
def appendPiece : List Skel := [ .act (.call "append" "str.data(), str.size()") ]

/-- `Buffer.append b x = let b' := ensureWritable b x.length;
{ b' with data := splice b'.data b'.writer x, writer := b'.writer + x.length }`
= `hasWritten { b' with data := splice b'.data b'.writer x } x.length` (`append_eq`, `writeAtEnd`): ensure first, then
the copy to `beginWrite()` of the ENSURED buffer, then the write index -/
def append : List Skel :=
  [ .act (.call "ensureWritableBytes" "len"),
    .act (.copy "data" "data + len" "beginWrite()"),
    .act (.call "hasWritten" "len") ]

def appendVoid : List Skel := [ .act (.call "append" "data, len") ]

/-- `Buffer.ensureWritable b len = if ensureNeedsSpace (writable b) len then makeSpace b len else b`; the trailing
assertion is `ensureWritable_spec` (`len ≤ writable (ensureWritable b len)`) -/
def ensureWritableBytes : List Skel :=
  [ .ite "ensureNeedsSpace"
      [ .act (.call "makeSpace" "len") ] [],
    .act (.assertion "writableBytes() >= len") ]

/-- the window of `Buffer.content b` ends, and `append`/`readFd` splice, at `b.writer` -/
def beginWrite : List Skel := [ .act (.ret "begin() + writerIndex_") ]
def beginWriteConst : List Skel := [ .act (.ret "begin() + writerIndex_") ]

/-- `Buffer.hasWritten b n = { b with writer := b.writer + n }`; the assertion is `hasWrittenPre` -/
def hasWritten : List Skel :=
  [ .act (.assertion "len <= writableBytes()"),
    .act (.setWriter "writerIndex_ + len") ]

/-- `Buffer.unwrite b n = { b with writer := b.writer - n }`; the assertion is `unwritePre` -/
def unwrite : List Skel :=
  [ .act (.assertion "len <= readableBytes()"),
    .act (.setWriter "writerIndex_ - len") ]

/-- `Buffer.appendInt b bytes v = append b (intBytes bytes v)`, `bytes = 8`: convert, then append the `sizeof` bytes -/
def appendInt64 : List Skel :=
  [ .act (.assign "be64" "hostToNetwork64(x)"),
    .act (.call "append" "&be64, sizeof(be64)") ]
def appendInt32 : List Skel :=
  [ .act (.assign "be32" "hostToNetwork32(x)"),
    .act (.call "append" "&be32, sizeof(be32)") ]
def appendInt16 : List Skel :=
  [ .act (.assign "be16" "hostToNetwork16(x)"),
    .act (.call "append" "&be16, sizeof(be16)") ]
/-- one byte has no byte order: `intBytes 1 v` -/
def appendInt8 : List Skel := [ .act (.call "append" "&x, sizeof(x)") ]

/-- `Buffer.readInt b bytes = (retrieve b bytes, peekInt b bytes)`: the value is peeked on `b`, BEFORE the retrieve -/
def readInt64 : List Skel :=
  [ .act (.assign "result" "peekInt64()"),
    .act (.call "retrieveInt64" ""),
    .act (.ret "result") ]
def readInt32 : List Skel :=
  [ .act (.assign "result" "peekInt32()"),
    .act (.call "retrieveInt32" ""),
    .act (.ret "result") ]
def readInt16 : List Skel :=
  [ .act (.assign "result" "peekInt16()"),
    .act (.call "retrieveInt16" ""),
    .act (.ret "result") ]
def readInt8 : List Skel :=
  [ .act (.assign "result" "peekInt8()"),
    .act (.call "retrieveInt8" ""),
    .act (.ret "result") ]

/-- `Buffer.peekInt b bytes = toSigned (8 * bytes) (decodeBE ((content b).take bytes))`: the first `bytes` bytes at
`peek()`, big-endian, as a signed value; the assertion is `peekIntPre`; the buffer is not changed -/
def peekInt64 : List Skel :=
  [ .act (.assertion "readableBytes() >= sizeof(int64_t)"),
    .act (.assign "be64" "0"),
    .act (.memcpy "&be64" "peek()" "sizeof(be64)"),
    .act (.ret "networkToHost64(be64)") ]
def peekInt32 : List Skel :=
  [ .act (.assertion "readableBytes() >= sizeof(int32_t)"),
    .act (.assign "be32" "0"),
    .act (.memcpy "&be32" "peek()" "sizeof(be32)"),
    .act (.ret "networkToHost32(be32)") ]
def peekInt16 : List Skel :=
  [ .act (.assertion "readableBytes() >= sizeof(int16_t)"),
    .act (.assign "be16" "0"),
    .act (.memcpy "&be16" "peek()" "sizeof(be16)"),
    .act (.ret "networkToHost16(be16)") ]
def peekInt8 : List Skel :=
  [ .act (.assertion "readableBytes() >= sizeof(int8_t)"),
    .act (.assign "x" "*peek()"),
    .act (.ret "x") ]

/-- `Buffer.prependInt b bytes v = prepend b (intBytes bytes v)` -/
def prependInt64 : List Skel :=
  [ .act (.assign "be64" "hostToNetwork64(x)"),
    .act (.call "prepend" "&be64, sizeof(be64)") ]
def prependInt32 : List Skel :=
  [ .act (.assign "be32" "hostToNetwork32(x)"),
    .act (.call "prepend" "&be32, sizeof(be32)") ]
def prependInt16 : List Skel :=
  [ .act (.assign "be16" "hostToNetwork16(x)"),
    .act (.call "prepend" "&be16, sizeof(be16)") ]
def prependInt8 : List Skel := [ .act (.call "prepend" "&x, sizeof(x)") ]

/-- `Buffer.prepend b x = { b with reader := b.reader - x.length, data := splice b.data (b.reader - x.length) x }`:
the read index moves down first, the bytes go to the NEW `begin() + readerIndex_`; the assertion is `prependPre` -/
def prepend : List Skel :=
  [ .act (.assertion "len <= prependableBytes()"),
    .act (.setReader "readerIndex_ - len"),
    .act (.assign "d" "data"),
    .act (.copy "d" "d + len" "begin() + readerIndex_") ]

/-- `Buffer.shrink b reserve = append (ensureWritable (mk kInitialSize) (readable b + reserve)) (content b)`:
a default-constructed buffer, made large enough, receives the content; the object becomes that buffer (`swap`) -/
def shrink : List Skel :=
  [ .act (.assign "other" "Buffer(kInitialSize)"),
    .act (.call "other.ensureWritableBytes" "readableBytes() + reserve"),
    .act (.call "other.append" "toStringPiece()"),
    .act (.call "swap" "other") ]

/-- `Buffer.makeSpace b len = if makeSpaceGrows (writable b) (prependable b) len then
{ b with data := resize b.data (b.writer + len) } else
{ data := splice b.data kCheapPrepend (content b), reader := kCheapPrepend, writer := kCheapPrepend + readable b }`:
the slide copies the OLD window `[begin()+readerIndex_, begin()+writerIndex_)` to `begin()+kCheapPrepend`, `readable`
is taken from the OLD indices, then the read index, then the write index from the new read index.  First assertion:
`makeSpace_slide_assert` (Props.C10 `makeSpace_assert_holds`); last one: `readable (makeSpace b len) = readable b`,
inside `makeSpace_wf` / `ensureWritable_spec`. -/
def makeSpace : List Skel :=
  [ .ite "makeSpaceGrows"
      [ .act (.resize "writerIndex_ + len") ]
      [ .act (.assertion "kCheapPrepend < readerIndex_"),
        .act (.assign "readable" "readableBytes()"),
        .act (.copy "begin() + readerIndex_" "begin() + writerIndex_" "begin() + kCheapPrepend"),
        .act (.setReader "kCheapPrepend"),
        .act (.setWriter "readerIndex_ + readable"),
        .act (.assertion "readable == readableBytes()") ] ]

/-- `Buffer.readFd b d`, `Buffer.readFdCapacity`, and the driver's `readFd`.
`writable b` is taken first; the first iovec is the writable area (`begin() + writerIndex_`, `writable` bytes), the
second the whole spill buffer, `readFdIovcnt (writable b)` of them are passed (`readFdCapacity`); `readv` delivers
`d` (`n = d.length`).  `n < 0` (the driver's `readFd-error`) is not a `Buffer.readFd` step: the buffer is unchanged,
only the out-parameter is written.  Otherwise `if readFdFits d.length (writable b) then { b with data := splice
b.data b.writer d, writer := b.writer + d.length } else` the kernel filled the writable area with `d.take w`,
`writer := b.data.length` (`buffer_.size()`), and the rest `d.drop w` (`n - writable` bytes of `extrabuf`) is
appended - in this order. -/
def readFd : List Skel :=
  [ .act (.assign "writable" "writableBytes()"),
    .act (.assign "vec[0].iov_base" "begin() + writerIndex_"),
    .act (.assign "vec[0].iov_len" "writable"),
    .act (.assign "vec[1].iov_base" "extrabuf"),
    .act (.assign "vec[1].iov_len" "sizeof(extrabuf)"),
    .act (.assign "iovcnt" "Gen.readFdIovcnt(writable)"),
    .act (.sys .readv "fd, vec, iovcnt"),
    .act (.assign "n" "<result>"),
    .ite "n < 0"
      [ .act (.assign "*savedErrno" "errno") ]
      [ .ite "readFdFits"
          [ .act (.setWriter "writerIndex_ + n") ]
          [ .act (.setWriter "buffer_.size()"),
            .act (.call "append" "extrabuf, n - writable") ] ],
    .act (.ret "n") ]

end Decl
end MuduoVerif.BufferSkel
