import MuduoVerif.Generated.Client
import MuduoVerif.Generated.Conn
/-!
Model of `muduo::net::Connector` + `muduo::net::TcpClient` on one event loop
(Connector.cc, TcpClient.cc), with the parts of `TcpConnection`, `Channel`, `TimerQueue`
and the loop's functor queue that decide what a client's user can observe.

* Constants, the delay update, the errno table, every state test and the destructor's
  branch tests are definitions of `Generated/Client.lean` (re-extracted on every run);
  the channel dispatch masks are those of `Generated/Conn.lean`.
* Everything the environment decides is an input: the result of `::connect`, `SO_ERROR`,
  self-connect, what the poller reports, `readv` results on the connection, the clock.
* The user's connection callback is part of the model: `hookUp op` / `hookDown op` register what it does to the
  client (`disconnect()`, `stop()`, `connect()`, reading `connection()`) the next time it is told UP / DOWN; the
  operation runs where the code calls the callback - inside `connectEstablished()` (after or before `connection_`
  is stored: the generated `publishBeforeEstablish`) and inside `handleClose()` before `closeCallback_`.
* Sockets are numbered in creation order; `sockSt` is the ghost status of each.
* Ghost fields (`nretry`, `ups`, `stopReq`, `trace`) and the `Ev.ghost` marks record history for the theorems.
-/
namespace MuduoVerif.Client
open MuduoVerif.Gen.Client
open MuduoVerif.Gen.Conn (dispClose dispCloseSub dispError dispErrorSub dispRead dispReadSub dispWrite dispWriteSub)

inductive SockSt | opened | handedOver | closed
deriving DecidableEq, Repr

inductive Who | loop | foreign
deriving DecidableEq, Repr

/-- `TcpConnection::closeCallback_`: `TcpClient::removeConnection` bound to the raw client,
or the free function `detail::removeConnection` installed by `~TcpClient` -/
inductive CloseCb | client | detached
deriving DecidableEq, Repr

/-- `TcpConnection::state_` after `connectEstablished` -/
inductive TState | connected | disconnecting | disconnected
deriving DecidableEq, Repr

inductive TKind | retry | park
deriving DecidableEq, Repr

/-- functors in the loop's pending queue -/
inductive Task
  | startCycle                    -- `Connector::startCycleInLoop`, raw `this`
  | stopInLoop                    -- `Connector::stopInLoop`, raw `this`
  | resetChannel                  -- `Connector::resetChannel`, raw `this`
  | connectDestroyed (k : Nat)    -- holds connection k
  | shutdownInLoop (k : Nat)      -- holds connection k
  | forceCloseInLoop (k : Nat)    -- holds connection k
  | setCloseCb (k : Nat)          -- holds connection k (`~TcpClient` from a foreign thread)
  | addTimer (deadline : Nat) (kind : TKind)   -- `runAfter` from a foreign thread
deriving DecidableEq, Repr

def Task.holds : Task → Nat → Bool
  | .connectDestroyed k, j | .forceCloseInLoop k, j | .setCloseCb k, j => k == j
  -- `TcpConnection::shutdown()`'s functor: a reference of its own only if the source binds one
  | .shutdownInLoop k, j => k == j && decide (MuduoVerif.Gen.Conn.shutdownHold = .strong)
  | _, _ => false

/-- a `TcpConnection` created by `TcpClient::newConnection`, named by its socket -/
structure ConnRec where
  sock : Nat
  st : TState := .connected
  closeCb : CloseCb := .client
  userRef : Bool := false
  chanOn : Bool := true       -- reading enabled, registered with the poller
  destroyed : Bool := false   -- `~TcpConnection` ran: descriptor closed
deriving DecidableEq, Repr

/-- what the user's connection callback does when it runs (harness: `hook up|down <op>`): an operation on
the client from inside its own callback, on the loop thread; `query` reads `client.connection()` -/
inductive HookOp | disconnect | stop | connect | query
deriving DecidableEq, Repr

/-- ghost marks in the trace (never printed): the start of a connect cycle
(`startCycleInLoop` / `restart`) and the user's `connect()`, `stop()`, `~TcpClient` calls -/
inductive Ghost | cycle | connect | stop | destroy
deriving DecidableEq, Repr

inductive Ev
  | sockCreated (k : Nat)
  | attempt (k : Nat) (t : Nat)            -- `::connect` called at virtual time t (µs)
  | sockClosed (k : Nat)                   -- closed by the connector
  | handedOver (k : Nat)                   -- a `TcpConnection` took the descriptor
  | connClosed (k : Nat)                   -- closed by `~TcpConnection`
  | up (k : Nat) | down (k : Nat)
  | shutdownWr (k : Nat)
  | query (k : Nat) (seen : Option Nat)    -- inside the callback reporting connection k, `connection()` returned `seen`
  | retryScheduled (i : Nat) (ms : Nat) (t : Nat)   -- ghost: i-th retry of the cycle, delay, time of the failure
  | abort (what : String)
  | uaf (what : String)
  | ghost (g : Ghost)
deriving DecidableEq, Repr

/-- what the poller reported, in the order of `activeChannels_` -/
inductive Src
  | timer
  | connector (revents : Nat)
  | conn (k : Nat) (revents : Nat)
deriving DecidableEq, Repr

inductive In
  | connect (w : Who) | disconnect (w : Who) | stop (w : Who) | enableRetry | destroy (w : Who)
  | holdRef | dropRef
  -- the user's connection callback will perform `op` at the next UP / DOWN report (one-shot, first registered first)
  | hookUp (op : HookOp) | hookDown (op : HookOp)
  | advance (us : Nat)
  | iter (active : List Src)
  -- results the environment will give to the next calls, in order
  | envConnect (errno : Nat)
  | envSoError (err : Nat)
  | envSelf (b : Bool)
  | envRead (n : Option Nat)
deriving DecidableEq, Repr

structure C where
  asserts : Bool := true
  -- Connector
  cstate : States := .kDisconnected
  cConnect : Bool := false
  chan : Option Nat := none      -- `channel_` (and the socket it watches)
  chanOn : Bool := false         -- the channel is registered with write interest
  delay : Nat := kInitRetryDelayMs
  -- TcpClient
  retry : Bool := false
  tConnect : Bool := true
  connection : Option Nat := none
  clientAlive : Bool := true
  conns : List ConnRec := []
  -- what the user's connection callback will do at the next UP / DOWN reports
  hooksUp : List HookOp := []
  hooksDown : List HookOp := []
  -- the loop
  pending : List Task := []
  batch : List Task := []        -- the functors `doPendingFunctors` is running (destroyed when it returns)
  timers : List (Nat × TKind) := []
  now : Nat := 0
  horizon : Nat := 0             -- sockets that existed when the current iteration polled
  -- sockets
  nsock : Nat := 0
  sockSt : List SockSt := []
  -- environment
  envConnect : List Nat := []
  envSoErr : List Nat := []
  envSelf : List Bool := []
  envRead : List (Option Nat) := []
  starved : Bool := false
  -- ghost
  nretry : Nat := 0              -- retries scheduled since the cycle began
  ups : Nat := 0                 -- UP callbacks since the cycle began
  stopReq : Bool := false        -- stop() called and no connect() since
  destroyedAt : Option Nat := none
  dead : Bool := false           -- the process aborted / ran into undefined behaviour
  trace : List Ev := []
deriving Repr

def emit (c : C) (e : Ev) : C := { c with trace := c.trace ++ [e] }
def die (c : C) (e : Ev) : C := { c with trace := c.trace ++ [e], dead := true }
def enqueue (c : C) (t : Task) : C := { c with pending := c.pending ++ [t] }

/-! ### environment -/
def popConnect (c : C) : Nat × C :=
  match c.envConnect with
  | [] => (115, { c with starved := true })
  | r :: rest => (r, { c with envConnect := rest })
def popSoErr (c : C) : Nat × C :=
  match c.envSoErr with
  | [] => (0, { c with starved := true })
  | r :: rest => (r, { c with envSoErr := rest })
def popSelf (c : C) : Bool × C :=
  match c.envSelf with
  | [] => (false, { c with starved := true })
  | r :: rest => (r, { c with envSelf := rest })
def popRead (c : C) : Option Nat × C :=
  match c.envRead with
  | [] => (none, { c with starved := true })
  | r :: rest => (r, { c with envRead := rest })

/-! ### sockets -/
def closeSock (c : C) (k : Nat) : C :=
  { c with sockSt := c.sockSt.set k .closed, trace := c.trace ++ [.sockClosed k] }

/-! ### who keeps the connector alive -/
def timerHolds : Nat × TKind → Bool
  | (_, .retry) => retryTimerHoldsRef
  | (_, .park) => true
def taskHoldsConnector : Task → Bool
  | .addTimer _ _ => true
  | .startCycle => startHoldsRef
  | .stopInLoop => stopHoldsRef
  | .resetChannel => resetHoldsRef
  | _ => false
def connectorAlive (c : C) : Bool :=
  c.clientAlive || c.timers.any timerHolds || c.pending.any taskHoldsConnector || c.batch.any taskHoldsConnector

/-! ### Connector -/

/-- `Connector::retry(sockfd)` -/
def retry (c : C) (k : Nat) : C :=
  let c1 : C := if retryClosesSocket then closeSock c k else c
  if retrySchedules c1.cConnect then
    let used := if retryUsesOldDelay then c1.delay else nextDelay c1.delay
    { c1 with cstate := .kDisconnected,
              trace := c1.trace ++ [.retryScheduled c1.nretry used c1.now],
              timers := c1.timers ++ [(c1.now + retryDelayUs used, .retry)],
              delay := nextDelay c1.delay, nretry := c1.nretry + 1 }
  else { c1 with cstate := .kDisconnected }

/-- `Connector::connecting(sockfd)` -/
def connecting (c : C) (k : Nat) : C :=
  if c.asserts ∧ ¬ connectingAssert c.chan.isSome then die { c with cstate := .kConnecting } (.abort "!channel_")
  else if c.chan.isSome ∧ c.chanOn then die { c with cstate := .kConnecting } (.uaf "channel replaced while registered")
  else { c with cstate := .kConnecting, chan := some k, chanOn := true }

/-- `Connector::connect()` -/
def connect (c : C) : C :=
  let k := c.nsock
  let c1 : C := { c with nsock := k + 1, sockSt := c.sockSt ++ [.opened],
                         trace := c.trace ++ [.sockCreated k, .attempt k c.now] }
  let (r, c2) := popConnect c1
  match classifyConnect r with
  | .proceed => connecting c2 k
  | .retry => retry c2 k
  | .giveUp => closeSock c2 k

/-- `Connector::startInLoop()` -/
def startInLoop (c : C) : C :=
  if c.asserts ∧ ¬ startAssert c.cstate then die c (.abort "state_ == kDisconnected")
  else if startConnects c.cConnect then connect c else c

/-- `Connector::cancelRetryTimer()`: `loop_->cancel(retryTimer_)` - the back-off timer armed by `retry` (whose id `retry`
keeps in `retryTimer_`: `retryTimerStored`) is removed from the timer queue and will not run.  `retryTimer_` names the
timer armed last; in every guarded history at most one back-off timer is pending (`Mid.a8`), so that one is all of
them -/
def cancelRetry (c : C) : C := { c with timers := c.timers.filter (fun t => !(t.2 == .retry)) }

/-- the cancellation in front of a function's body, if the source has it there (generated flags) -/
def cancelIf (b : Bool) (c : C) : C := if b then cancelRetry c else c

/-- `Connector::startCycleInLoop()` behind its `cancelRetryTimer()`; the ghost counters restart here whatever the code does -/
def startCycleCore (c : C) : C :=
  startInLoop { c with cstate := if cycleClearsState c.cstate then .kDisconnected else c.cstate,
                       delay := if cycleResetsDelay then kInitRetryDelayMs else c.delay,
                       nretry := 0, ups := 0, trace := c.trace ++ [.ghost .cycle] }

/-- `Connector::startCycleInLoop()`: a back-off timer still pending from the previous cycle (`stop()` during the wait) is
cancelled first (`cycleStartCancelsRetryTimer`, generated: the F33 fix) -/
def startCycle (c : C) : C := startCycleCore (cancelIf cycleStartCancelsRetryTimer c)

/-- `Connector::restart()` (checked structurally by the extractor) -/
def restart (c : C) : C :=
  startInLoop { c with cstate := .kDisconnected, delay := kInitRetryDelayMs, cConnect := true, nretry := 0, ups := 0,
                       trace := c.trace ++ [.ghost .cycle] }

/-- `Connector::stopInLoop()` behind its `cancelRetryTimer()` -/
def stopInLoopCore (c : C) : C :=
  if stopActs c.cstate then
    match c.chan with
    | some k =>
      if stopResetsChannelNow then retry { c with cstate := .kDisconnected, chanOn := false, chan := none } k
      else retry { c with cstate := .kDisconnected, chanOn := false, pending := c.pending ++ [.resetChannel] } k
    | none => die c (.uaf "stopInLoop: channel_ is null")
  else c

/-- `Connector::stopInLoop()`: first the pending back-off timer is cancelled, under the test the source has there
(`stopCancelsRetryTimer connect_`, generated: `¬ connect_` - a `stop()` that a later `connect()` has superseded leaves
the new cycle's timer alone) -/
def stopInLoop (c : C) : C := stopInLoopCore (cancelIf (decide (stopCancelsRetryTimer c.cConnect)) c)

/-- `Connector::resetChannel()` -/
def resetChannel (c : C) : C :=
  if c.chan.isSome ∧ c.chanOn then die c (.uaf "channel destroyed while registered")
  else { c with chan := none }

/-! ### the connection: what the client's operations need -/
def findConn (c : C) (k : Nat) : Option ConnRec := c.conns.find? (·.sock == k)
def updConn (c : C) (k : Nat) (f : ConnRec → ConnRec) : C :=
  { c with conns := c.conns.map (fun r => if r.sock == k then f r else r) }
def connSt (c : C) (k : Nat) : TState := ((findConn c k).map (·.st)).getD .disconnected

/-- `TcpConnection::shutdown()` -/
def connShutdown (c : C) (k : Nat) : C :=
  if connSt c k = .connected then enqueue (updConn c k (fun r => { r with st := .disconnecting })) (.shutdownInLoop k) else c

/-- `TcpConnection::forceClose()` -/
def connForceClose (c : C) (k : Nat) : C :=
  if connSt c k = .connected ∨ connSt c k = .disconnecting then
    enqueue (updConn c k (fun r => { r with st := .disconnecting })) (.forceCloseInLoop k) else c

/-! ### the user's operations on a live client -/
def userConnect (c : C) (w : Who) : C :=
  let c1 : C := { c with tConnect := true, cConnect := true, stopReq := false, trace := c.trace ++ [.ghost .connect] }
  match startDispatch, w with
  | .run, .loop => startCycle c1
  | _, _ => enqueue c1 .startCycle

def connectorStop (c : C) (w : Who) : C :=
  let c1 : C := { c with cConnect := false }
  match stopDispatch, w with
  | .run, .loop => stopInLoop c1
  | _, _ => enqueue c1 .stopInLoop

def userStop (c : C) (w : Who) : C :=
  connectorStop { c with tConnect := false, stopReq := true, trace := c.trace ++ [.ghost .stop] } w

def userDisconnect (c : C) : C :=
  let c1 : C := { c with tConnect := false }
  match c1.connection with
  | some k => connShutdown c1 k
  | none => c1

/-! ### the user's connection callback -/

/-- one operation performed by the user's connection callback while it reports connection `k`, on the loop thread -/
def hookOp (c : C) (k : Nat) : HookOp → C
  | .disconnect => userDisconnect c
  | .stop => userStop c .loop
  | .connect => userConnect c .loop
  | .query => emit c (.query k c.connection)

/-- the user's callback on UP: the first registered operation (if any) is performed, once; a callback that finds
its client gone does nothing (and keeps the operation) -/
def runHookUp (c : C) (k : Nat) : C :=
  if c.clientAlive then
    match c.hooksUp with
    | [] => c
    | op :: rest => hookOp { c with hooksUp := rest } k op
  else c

/-- the user's callback on DOWN -/
def runHookDown (c : C) (k : Nat) : C :=
  if c.clientAlive then
    match c.hooksDown with
    | [] => c
    | op :: rest => hookOp { c with hooksDown := rest } k op
  else c

/-- `TcpClient::newConnection(sockfd)`: a `TcpConnection` takes the descriptor; `connection_` is published and
`connectEstablished()` reports UP - the user's callback runs inside it - in the order the source has them
(`publishBeforeEstablish`, generated) -/
def newConnection (c : C) (k : Nat) : C :=
  if c.clientAlive then
    if publishBeforeEstablish then
      runHookUp { c with sockSt := c.sockSt.set k .handedOver, conns := c.conns ++ [{ sock := k }], connection := some k,
                         ups := c.ups + 1, trace := c.trace ++ [.handedOver k, .up k] } k
    else
      let c2 := runHookUp { c with sockSt := c.sockSt.set k .handedOver, conns := c.conns ++ [{ sock := k }],
                                   ups := c.ups + 1, trace := c.trace ++ [.handedOver k, .up k] } k
      if c2.dead then c2 else { c2 with connection := some k }
  else die c (.uaf "TcpClient::newConnection")

/-- `Connector::handleWrite()` -/
def handleWrite (c : C) : C :=
  if writeActs c.cstate then
    match c.chan with
    | some k =>
      let c1 : C := { c with chanOn := false, pending := c.pending ++ [.resetChannel] }
      let (err, c2) := popSoErr c1
      if writeSoError err then retry c2 k
      else
        let (self, c3) := popSelf c2
        if writeSelfConnect self then retry c3 k
        else if writeHandsOver c3.cConnect then newConnection { c3 with cstate := .kConnected } k
        else closeSock { c3 with cstate := .kConnected } k
    | none => die c (.uaf "handleWrite: channel_ is null")
  else if c.asserts ∧ ¬ writeElseAssert c.cstate then die c (.abort "state_ == kDisconnected")
  else c

/-- `Connector::handleError()` -/
def handleError (c : C) : C :=
  if errorActs c.cstate then
    match c.chan with
    | some k =>
      let c1 : C := { c with chanOn := false, pending := c.pending ++ [.resetChannel] }
      let (_, c2) := popSoErr c1
      retry c2 k
    | none => die c (.uaf "handleError: channel_ is null")
  else c

/-- `Channel::handleEventWithGuard` of the connector's channel (no close/read callback) -/
def dispatchConnector (c : C) (rev : Nat) : C :=
  if c.chan.isSome ∧ c.chanOn then
    let c1 : C := if dispError rev ∧ dispErrorSub (!c.chanOn) false c.chanOn then handleError c else c
    if c1.dead then c1
    else if dispWrite rev ∧ dispWriteSub (!c1.chanOn) false c1.chanOn then handleWrite c1 else c1
  else c

/-! ### the connection -/
/-- `TcpConnection::handleClose()` with `TcpClient::removeConnection` / `detail::removeConnection` behind it -/
def handleClose (c : C) (k : Nat) : C :=
  let cb := ((findConn c k).map (·.closeCb)).getD .detached
  let c1 : C := { updConn c k (fun r => { r with st := .disconnected, chanOn := false }) with trace := c.trace ++ [.down k] }
  -- `connectionCallback_` (DOWN, the user's callback) runs before `closeCallback_`
  let c2 := runHookDown c1 k
  if c2.dead then c2
  else
    match cb with
    | .detached => enqueue c2 (.connectDestroyed k)
    | .client =>
      if ¬ c2.clientAlive then die c2 (.uaf "TcpClient::removeConnection")
      else if c2.asserts ∧ c2.connection ≠ some k then die c2 (.abort "connection_ == conn")
      else
        let c3 : C := { c2 with connection := none, pending := c2.pending ++ [.connectDestroyed k] }
        if reconnects c3.retry c3.tConnect then restart c3 else c3

/-- `TcpConnection::handleRead()`: only the end of stream matters here -/
def handleRead (c : C) (k : Nat) : C :=
  let (r, c1) := popRead c
  match r with
  | some 0 => handleClose c1 k
  | _ => c1

def dispatchConn (c : C) (k rev : Nat) : C :=
  match findConn c k with
  | none => c
  | some r =>
    -- `c.chan = some k`: the descriptor was the connector's when this iteration polled (its channel
    -- object lives until the queued `resetChannel`), so the poller cannot have reported the connection's
    if r.destroyed ∨ ¬ r.chanOn ∨ c.horizon ≤ k ∨ c.chan = some k then c
    else
      let c1 : C := if dispClose rev ∧ dispCloseSub false true false then handleClose c k else c
      if c1.dead then c1
      else
        let on := ((findConn c1 k).map (·.chanOn)).getD false
        if dispRead rev ∧ dispReadSub (!on) on false then handleRead c1 k else c1

/-- `TcpConnection::connectDestroyed()` -/
def connectDestroyed (c : C) (k : Nat) : C :=
  match findConn c k with
  | some r =>
    if r.st = .connected then
      runHookDown { updConn c k (fun r => { r with st := .disconnected, chanOn := false }) with trace := c.trace ++ [.down k] } k
    else updConn c k (fun r => { r with chanOn := false })
  | none => c

/-- `~Connector` when its last owner goes: `assert(!channel_)` -/
def reapConnector (c : C) : C :=
  if connectorAlive c then c
  else if c.chan.isSome then
    if c.asserts then die c (.abort "!channel_")
    else if c.chanOn then die c (.uaf "~Connector: channel destroyed while registered")
    else { c with chan := none }
  else c

def runTask (c : C) (t : Task) : C :=
  match t with
  | .startCycle => if connectorAlive c then startCycle c else die c (.uaf "Connector::startCycleInLoop")
  | .stopInLoop => if connectorAlive c then stopInLoop c else die c (.uaf "Connector::stopInLoop")
  | .resetChannel => if connectorAlive c then resetChannel c else die c (.uaf "Connector::resetChannel")
  | .connectDestroyed k => connectDestroyed c k
  | .shutdownInLoop k =>
    if ((c.conns.find? (fun r => r.sock == k)).map (·.destroyed)).getD true then
      -- the connection is gone: a weak callback does nothing, a raw pointer is a use after free
      (if MuduoVerif.Gen.Conn.shutdownHold = .raw then die c (.uaf "TcpConnection::shutdownInLoop") else c)
    else emit c (.shutdownWr k)
  | .forceCloseInLoop k => if connSt c k = .connected ∨ connSt c k = .disconnecting then handleClose c k else c
  | .setCloseCb k => updConn c k (fun r => { r with closeCb := .detached })
  | .addTimer d kind => { c with timers := c.timers ++ [(d, kind)] }

/-- `TimerQueue::handleRead`: the expired timers run, then their objects are deleted -/
def fireTimers (c : C) : C :=
  let due := c.timers.filter (fun t => t.1 ≤ c.now)
  let c1 : C := { c with timers := c.timers.filter (fun t => ¬ t.1 ≤ c.now) }
  let c2 := due.foldl (fun (c : C) t => if c.dead then c else
    match t.2 with
    | .retry => startInLoop c
    | .park => c) c1
  if c2.dead then c2 else reapConnector c2

def dispatch (c : C) : Src → C
  | .timer => fireTimers c
  | .connector rev => dispatchConnector c rev
  | .conn k rev => dispatchConn c k rev

/-- connections nobody refers to any more are destroyed: descriptor closed -/
def connHeld (c : C) (r : ConnRec) : Bool :=
  r.userRef || (c.clientAlive && c.connection == some r.sock) || c.pending.any (·.holds r.sock)

def reap (c : C) : C :=
  let dying := c.conns.filter (fun r => !r.destroyed && !connHeld c r)
  match dying.find? (fun r => r.st ≠ .disconnected) with
  | some _ =>
    if c.asserts then die c (.abort "state_ == kDisconnected")
    else die c (.uaf "~TcpConnection: channel destroyed while registered")
  | none =>
    { c with conns := c.conns.map (fun r => if !r.destroyed && !connHeld c r then { r with destroyed := true } else r),
             trace := c.trace ++ dying.map (fun r => Ev.connClosed r.sock) }

/-- one loop iteration: dispatch what the poller reported, then the functor batch -/
def iter (c : C) (active : List Src) : C :=
  let c1 := active.foldl (fun (c : C) s => if c.dead then c else dispatch c s) { c with horizon := c.nsock }
  if c1.dead then c1
  else
    let c2 := c1.pending.foldl (fun (c : C) t => if c.dead then c else runTask c t) { c1 with pending := [], batch := c1.pending }
    if c2.dead then c2
    else
      let c3 := reapConnector { c2 with batch := [] }
      if c3.dead then c3 else reap c3

/-! ### the user's operations (continued) -/
def useCount (c : C) (k : Nat) : Nat :=
  1 + (if ((findConn c k).map (·.userRef)).getD false then 1 else 0) + (c.pending.filter (·.holds k)).length

/-- `TcpClient::~TcpClient()` called on thread `w` -/
def userDestroy (c : C) (w : Who) : C :=
  let c0 : C := { c with destroyedAt := some c.now, trace := c.trace ++ [.ghost .destroy] }
  let c1 : C :=
    match c0.connection with
    | some k =>
      if dtorHasConn true then
        let unique := useCount c0 k == 1
        let c1 : C := match dtorSetCbDispatch, w with
          | .run, .loop => updConn c0 k (fun r => { r with closeCb := .detached })
          | _, _ => enqueue c0 (.setCloseCb k)
        if dtorForceCloses unique then connForceClose c1 k else c1
      else c0
    | none =>
      let c1 := connectorStop c0 w
      match w with
      | .loop => { c1 with timers := c1.timers ++ [(c1.now + dtorParkUs, .park)] }
      | .foreign => enqueue c1 (.addTimer (c1.now + dtorParkUs) .park)
  let c2 : C := { c1 with clientAlive := false, connection := none }
  reapConnector c2

def holdRef (c : C) : C :=
  match c.connection with
  | some k => { c with conns := c.conns.map (fun r => { r with userRef := r.sock == k }) }
  | none => c

def dropRef (c : C) : C := { c with conns := c.conns.map (fun r => { r with userRef := false }) }

def stepLive (c : C) : In → C
  | .connect w => if c.clientAlive then userConnect c w else die c (.uaf "connect() on a destroyed client")
  | .disconnect _ => if c.clientAlive then userDisconnect c else die c (.uaf "disconnect() on a destroyed client")
  | .stop w => if c.clientAlive then userStop c w else die c (.uaf "stop() on a destroyed client")
  | .enableRetry => if c.clientAlive then { c with retry := true } else die c (.uaf "enableRetry() on a destroyed client")
  | .destroy w => if c.clientAlive then userDestroy c w else die c (.uaf "double destruction")
  | .holdRef => holdRef c
  | .dropRef => dropRef c
  | .hookUp op => { c with hooksUp := c.hooksUp ++ [op] }
  | .hookDown op => { c with hooksDown := c.hooksDown ++ [op] }
  | .advance us => { c with now := c.now + us }
  | .iter active => iter c active
  | .envConnect r => { c with envConnect := c.envConnect ++ [r] }
  | .envSoError r => { c with envSoErr := c.envSoErr ++ [r] }
  | .envSelf b => { c with envSelf := c.envSelf ++ [b] }
  | .envRead n => { c with envRead := c.envRead ++ [n] }

/-- user operations end with the release of whatever they stopped referring to -/
def step (c : C) (i : In) : C :=
  if c.dead then c
  else
    let c1 := stepLive c i
    match i with
    -- `holdRef` replaces the reference the user held before (if any)
    | .dropRef | .destroy _ | .holdRef => if c1.dead then c1 else reap c1
    | _ => c1

def run (c : C) (ins : List In) : C := ins.foldl step c

def init (asserts : Bool) : C := { asserts := asserts }

end MuduoVerif.Client
