import MuduoVerif.Generated.Rpc
/-!
Model of `muduo::net::RpcChannel` (muduo/net/protorpc/RpcChannel.{h,cc}) at the granularity of its
atomic steps, for property C19.

* `CallMethod` is three steps of the calling thread: fetch the id (`idFetch`, generated from
  `id_.incrementAndGet()`), insert into `outstandings_` (one critical section), send.  The order of the
  last two is the generated `callInsertBeforeSend`.  Any number of threads = any number of calls between
  their first and last step, interleaved arbitrarily with each other and with the loop thread.
* `onRpcMessage` runs on the loop thread.  RESPONSE: `recv` is the part up to the end of the critical
  section (assert, find, copy, erase - `respErasesWhenFound` is generated); `finish` is the rest (parse
  into the registered object, `Run()` `respRunCount` times, the `unique_ptr` frees the object
  `respFreeCount` times).  REQUEST: the generated decision tree `requestDecision` gives the number of
  dispatches and the error replies; the service either invokes the one-shot done-callback inside
  `CallMethod` (`Meth.sync`) or keeps it (`Meth.defer`) until a later `fireDone`.
* The mutex itself, and completion closures that call `CallMethod` on their own channel, are `Model/RpcLock.lean`
  (a machine on top of this one whose every step is a step of this one).
* Framing (RpcCodec, property C18) is transparent: whole `RpcMessage`s in, whole `RpcMessage`s out.
  Protobuf is not modelled: whether a payload parses is part of the message (`Body`).
* Heap cells (`Cell`) make frees and uses of the response / closure objects observable events.
* `log` is the trace (newest event first).  Events `arrived` and the `k` / `r` arguments are ghosts that
  name calls and requests; the drivers print neither.
-/
namespace MuduoVerif.Rpc
open MuduoVerif.Gen.Rpc

/-- heap objects whose life time matters: the caller's response object and closure of call `k`, the
    response object and the done-callback (`NewCallback` closure) of served request `r` -/
inductive Cell
  | resp (k : Nat) | done (k : Nat) | srvResp (r : Nat) | closure (r : Nat)
deriving DecidableEq, Repr

/-- a serialized protobuf payload, as far as the channel can tell: parses to a value or does not parse -/
inductive Body
  | ok (p : Nat) | garbage
deriving DecidableEq, Repr

def Body.parse : Body → Option Nat
  | .ok p => some p
  | .garbage => none

/-- what the service does with its done-callback -/
inductive Meth
  | sync | defer
deriving DecidableEq, Repr

/-- an `RpcMessage` as decoded by the codec, with the oracle parameters of the look-ups it triggers -/
structure Msg where
  type : MessageType
  id : Nat
  /-- the `response` field (`has_response`) -/
  payload : Option Body := none
  /-- the `error` field (`has_error`) -/
  err : Option Nat := none
  /-- `services_->find(message.service()) != services_->end()` -/
  serviceFound : Bool := false
  /-- `desc->FindMethodByName(message.method())`, and how that method treats `done` -/
  meth : Option Meth := none
  /-- the `request` field -/
  request : Body := .garbage
deriving DecidableEq, Repr

inductive Ev
  /-- ghost: `onRpcMessage` entered with this message -/
  | arrived (m : Msg)
  /-- a REQUEST frame for call `k` left with this id -/
  | sent (id : Nat) (k : Nat)
  /-- `out.response->ParseFromString(..)` on the response object of call `k` -/
  | parse (k : Nat)
  /-- the closure of call `k` ran; the message that caused it had id `msgId`; what it sees in its response object -/
  | ran (k : Nat) (msgId : Nat) (view : Option Nat)
  | free (c : Cell)
  /-- `service->CallMethod` for request number `r` with the parsed request value -/
  | dispatch (r : Nat) (p : Nat)
  /-- a RESPONSE frame left: answer to request number `r` (ghost), wire id, payload, error code -/
  | reply (r : Nat) (id : Nat) (payload : Option Nat) (err : Option ErrorCode)
  /-- use of a dead object -/
  | uaf (c : Cell)
  | abort
deriving DecidableEq, Repr

/-- where a thread is inside `CallMethod` -/
inductive Stage
  | unborn | fetched | inserted | sentOnly | returned
deriving DecidableEq, Repr

structure Chan where
  /-- build flavour: `assert` compiled in -/
  asserts : Bool
  /-- `services_ != NULL` -/
  hasServices : Bool
  /-- `id_` -/
  counter : Nat := 0
  /-- `outstandings_` : id ↦ call -/
  outstanding : List (Nat × Nat) := []
  /-- per call: program counter of its thread and the id it fetched -/
  stage : Nat → Stage := fun _ => .unborn
  idOf : Nat → Nat := fun _ => 0
  /-- the loop thread between the critical section and the completion: the copied entry and the message -/
  pending : Option (Nat × Msg) := none
  /-- live done-callbacks: request number, bound id, value the service will answer -/
  closures : List (Nat × Nat × Nat) := []
  /-- ghost: the request with number `r` -/
  reqs : Nat → Option Msg := fun _ => none
  nextCall : Nat := 0
  nextReq : Nat := 0
  /-- the process aborted -/
  halted : Bool := false
  log : List Ev := []

inductive Act
  /-- a thread enters `CallMethod` and fetches its id; the call becomes number `nextCall` -/
  | callBegin
  | callInsert (k : Nat)
  | callSend (k : Nat)
  /-- the loop thread enters `onRpcMessage` (RESPONSE: up to the end of the critical section) -/
  | recv (m : Msg)
  /-- the loop thread completes the pending call -/
  | finish
  /-- the service invokes the done-callback of request `r` -/
  | fireDone (r : Nat)
deriving DecidableEq, Repr

def lookup (i : Nat) : List (Nat × Nat) → Option Nat
  | [] => none
  | (j, k) :: rest => if j = i then some k else lookup i rest

def eraseKey (i : Nat) (l : List (Nat × Nat)) : List (Nat × Nat) := l.filter (fun e => e.1 ≠ i)

/-- `outstandings_[i] = k` -/
def insertKey (i k : Nat) (l : List (Nat × Nat)) : List (Nat × Nat) := (i, k) :: eraseKey i l

def setAt {α : Type} (f : Nat → α) (k : Nat) (v : α) : Nat → α := fun j => if j = k then v else f j

def callBegin (s : Chan) : Chan :=
  { s with counter := (idFetch s.counter).2
           stage := setAt s.stage s.nextCall .fetched
           idOf := setAt s.idOf s.nextCall (idFetch s.counter).1
           nextCall := s.nextCall + 1 }

def callInsert (s : Chan) (k : Nat) : Chan :=
  if callInsertBeforeSend then
    if s.stage k = .fetched then
      { s with outstanding := insertKey (s.idOf k) k s.outstanding, stage := setAt s.stage k .inserted }
    else s
  else
    if s.stage k = .sentOnly then
      { s with outstanding := insertKey (s.idOf k) k s.outstanding, stage := setAt s.stage k .returned }
    else s

def callSend (s : Chan) (k : Nat) : Chan :=
  if callInsertBeforeSend then
    if s.stage k = .inserted then
      { s with stage := setAt s.stage k .returned, log := .sent (s.idOf k) k :: s.log }
    else s
  else
    if s.stage k = .fetched then
      { s with stage := setAt s.stage k .sentOnly, log := .sent (s.idOf k) k :: s.log }
    else s

/-- what the closure finds in its response object -/
def view (m : Msg) : Option Nat :=
  if respParses m.payload.isSome m.err.isSome then (m.payload.bind Body.parse) else none

/-- RESPONSE branch up to the end of the critical section -/
def recvResponse (s : Chan) (m : Msg) : Chan :=
  if s.asserts ∧ ¬ respAssert m.payload.isSome m.err.isSome then
    { s with halted := true, log := .abort :: .arrived m :: s.log }
  else
    match lookup m.id s.outstanding with
    | none => { s with log := .arrived m :: s.log }
    | some k =>
      { s with outstanding := if respErasesWhenFound then eraseKey m.id s.outstanding else s.outstanding
               pending := some (k, m)
               log := .arrived m :: s.log }

/-- the rest of the RESPONSE branch: `if (out.response) { unique_ptr d(..); parse; Run(); }` -/
def finish (s : Chan) : Chan :=
  match s.pending with
  | none => s
  | some (k, m) =>
    { s with pending := none
             log := List.replicate respFreeCount (.free (.resp k))
                    ++ List.replicate respRunCount (.ran k m.id (view m))
                    ++ (if respParses m.payload.isSome m.err.isSome then [.parse k] else [])
                    ++ s.log }

def replyId (src : IdSrc) (id : Nat) : Nat :=
  match src with
  | .requestId => id
  | .unset => 0

/-- `RpcChannel::doneCallback(response, id)` for request number `r` -/
def doneEvents (r id p : Nat) : List Ev :=
  List.replicate doneFreeCount (.free (.srvResp r))
  ++ List.replicate doneSendCount (.reply r (replyId doneIdSrc id) (some p) none)

/-- one `service->CallMethod(method, NULL, request, response, NewCallback(..))` -/
def dispatchOnce (s : Chan) (r id p : Nat) (meth : Meth) : Chan :=
  match meth with
  | .sync => { s with log := doneEvents r id p ++ .dispatch r p :: s.log }
  | .defer => { s with closures := (r, id, p) :: s.closures, log := .dispatch r p :: s.log }

def dispatchN (s : Chan) (r id p : Nat) (meth : Meth) : Nat → Chan
  | 0 => s
  | n + 1 => dispatchN (dispatchOnce s r id p meth) r id p meth n

def errorReplies (r id : Nat) (l : List (IdSrc × ErrorCode)) : List Ev :=
  (l.map (fun e => Ev.reply r (replyId e.1 id) none (some e.2))).reverse

/-- REQUEST branch -/
def recvRequest (s : Chan) (m : Msg) : Chan :=
  let r := s.nextReq
  let d := requestDecision s.hasServices m.serviceFound m.meth.isSome m.request.parse.isSome
  let s1 : Chan := { s with nextReq := r + 1, reqs := setAt s.reqs r (some m), log := .arrived m :: s.log }
  let s2 := dispatchN s1 r m.id (m.request.parse.getD 0) (m.meth.getD .sync) d.1
  { s2 with log := errorReplies r m.id d.2 ++ s2.log }

def recv (s : Chan) (m : Msg) : Chan :=
  if s.pending.isSome then s   -- the loop thread is sequential: `finish` comes first
  else
    match typeSwitch m.type with
    | .response => recvResponse s m
    | .request => recvRequest s m
    | .error => { s with log := .arrived m :: s.log }
    | .none => { s with log := .arrived m :: s.log }

def fireDone (s : Chan) (r : Nat) : Chan :=
  match s.closures.find? (fun c => c.1 = r) with
  | some c =>
    { s with closures := s.closures.filter (fun c => c.1 ≠ r), log := doneEvents r c.2.1 c.2.2 ++ s.log }
  | none =>
    if r < s.nextReq then { s with log := .uaf (.closure r) :: s.log } else s

def step (s : Chan) (a : Act) : Chan :=
  if s.halted then s
  else
    match a with
    | .callBegin => callBegin s
    | .callInsert k => callInsert s k
    | .callSend k => callSend s k
    | .recv m => recv s m
    | .finish => finish s
    | .fireDone r => fireDone s r

def init (asserts hasServices : Bool) : Chan := { asserts := asserts, hasServices := hasServices }

def run (asserts hasServices : Bool) (acts : List Act) : Chan :=
  acts.foldl step (init asserts hasServices)

/-- `~RpcChannel`: deletes the response object and the closure of every call still registered
    (`std::map` order = ascending id; the caller sorts) -/
def destroyEvents (s : Chan) : List Ev :=
  s.outstanding.flatMap (fun e => [Ev.free (.resp e.2), Ev.free (.done e.2)])

/-! ### The server: one channel per connection (`RpcServer::onConnection`) -/

structure Server where
  asserts : Bool
  chans : List (Nat × Chan) := []     -- connection ↦ its channel (the connection's context)

/-- UP creates a fresh channel with the server's services; DOWN drops it -/
def Server.up (sv : Server) (c : Nat) : Server :=
  if serverChannelPerUp ∧ serverKeepsChannel then
    { sv with chans := (c, init sv.asserts serverSetsServices) :: sv.chans.filter (fun e => e.1 ≠ c) }
  else sv

def Server.down (sv : Server) (c : Nat) : Server :=
  if serverDropsChannelOnDown then { sv with chans := sv.chans.filter (fun e => e.1 ≠ c) } else sv

/-- an action on connection `c` is an action of that connection's channel, and of no other -/
def Server.act (sv : Server) (c : Nat) (a : Act) : Server :=
  { sv with chans := sv.chans.map (fun e => if e.1 = c then (e.1, step e.2 a) else e) }

def Server.chan? (sv : Server) (c : Nat) : Option Chan := (sv.chans.find? (fun e => e.1 = c)).map (·.2)

end MuduoVerif.Rpc
