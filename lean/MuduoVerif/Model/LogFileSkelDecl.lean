/-!
# Statement skeletons of the log back-end (C16, `LogFile` half): vocabulary and the skeletons the model implements

`Model/LogFile.lean` takes every branch guard, the period arithmetic and the loop tests of `LogFile` /
`FileUtil::AppendFile` from `Generated/LogFile.lean`; the ORDER and NESTING of the statements between the guards (the
write before the roll test, `++count_` only when no roll by size happened, `count_ = 0` and ONE clock reading under
`checkDue`, `lastFlush_ = now` and the flush only under `flushDue` and only when the period did not change, the clock
read by `rollFile` through `getLogFileName` before its test, the new file opened before the old one is closed, `written`
advanced after the error test, `writtenBytes_` updated once behind the loop) is hand-written there.  This file states,
function by function, the skeleton that the model's definition implements (`Decl.*`, written by reading
`Model/LogFile.lean`, each with a pointer to the model definition it mirrors).  `vlib/gen/logfileskel.py` extracts the
skeleton of the same functions from /repo's current `muduo/base/LogFile.cc` / `FileUtil.cc`
(`Generated/LogFileSkel.lean`, in the vocabulary below) and `Proofs/LogFileSkelTie.lean` proves the two equal by
`decide`.  A source change that swaps two statements, moves a call into or out of an `if`, merges two `if`s into
`if / else if` (or splits an `else if`), drops an `else`, turns the `while` into an `if` / `do-while`, duplicates or
drops a statement in one of these functions changes the extracted skeleton and breaks that proof.

An `ite` / `loop` is named after the generated guard (`Gen.LogFile.<name>`) the model branches on at that point; a
condition the model has no generated guard for is printed (`mutex_`, `err`).  Expressions are canonical prints of the
source expressions (casts and smart-pointer dereferences dropped, minimal parentheses).  Core Lean only; imports
nothing.

Classes of statements that are NOT part of a skeleton (the generator ignores exactly these):
* I1 diagnostic output (`fprintf(stderr, ..)` in front of the `break` of `AppendFile::append`; the model's event is
  `Ev.failed`, i.e. the `break` itself);
* I2 declarations of locals without an initialiser or default-constructed (`char timebuf[32]`, `struct tm tm`,
  `string filename`) - storage only;
* I3 casts of every kind and `(void)x` - the model computes over `Int` / `Nat` / byte lists;
* I4 the base-class initialiser (`noncopyable`) and default-constructed members (`file_()`) of a constructor;
* I5 `MUDUO_VERIF_POINT` and empty statements.
Value getters (`file_->writtenBytes()`, `string::size/find/c_str`, `ProcessInfo::hostname()/pid()`) are printed inside
the expressions that use them, they are not actions.

Declared beyond what the model computes with (the statements are listed as the code performs them; the model's
reading is given at the function):
* D1 `getLogFileName` builds the TEXT of the name from `basename`, the formatted second, the host name and the pid; the
  model names a file by the second alone (`File.name := clk s.tick` - host name, pid and base name are constants of one
  run, so names of one run differ iff their seconds differ: `C16.roll_names_distinct`);
* D2 `MutexLockGuard lock(*mutex_)` (`lock`): `Model/LogFile.lean` is sequential; `Gen.LogFile.appendLocks/flushLocks`
  + `C16.threadsafe_paths_locked` are what make that the behaviour under several threads - the skeleton adds that the
  guard is taken BEFORE the work, in the same block.
-/
namespace MuduoVerif.LogFileSkel

/-- `while (g) body` tests before the first iteration, `do body while (g)` after it -/
inductive LoopKind | whileDo | doWhile
deriving DecidableEq, Repr

/-- one significant action; strings are canonical prints of source expressions -/
inductive Act
  | store (lhs value : String)        -- `lhs = value` on a member / through a pointer (`x += e` is the store of `x + e`)
  | assign (var value : String)       -- an initialised local, an assignment to a local; `<result>` = value of the action before
  | call (fn args : String)           -- another function of the engine: `rollFile`, `file_.append`, `write`, ...
  | sys (fn args : String)            -- a libc call: `time`, `fwrite_unlocked`, `ferror`, `fflush`, `fopen`, `fclose`, ...
  | lock (mutex : String)             -- `MutexLockGuard lock(mutex)` (released at the end of the enclosing block)
  | assertion (cond : String)         -- `assert(cond)`
  | brk                               -- `break`
  | ret (value : String)              -- `return value`
deriving DecidableEq, Repr

/-- a statement: an action, `if (guard) { thn } else { els }`, or a loop -/
inductive Skel
  | act (a : Act)
  | ite (guard : String) (thn els : List Skel)
  | loop (kind : LoopKind) (guard : String) (body : List Skel)
deriving Repr

/-! `deriving DecidableEq` does not handle the nesting through `List`; the instance is written out
(structural recursion, so `decide` evaluates it in the kernel). -/
mutual
def Skel.decEq : (x y : Skel) → Decidable (x = y)
  | .act a, .act a' => if h : a = a' then isTrue (by rw [h]) else isFalse (by intro e; cases e; exact h rfl)
  | .ite g t e, .ite g' t' e' =>
    if hg : g = g' then
      match Skel.decEqL t t' with
      | isTrue ht =>
        match Skel.decEqL e e' with
        | isTrue he => isTrue (by rw [hg, ht, he])
        | isFalse he => isFalse (by intro q; cases q; exact he rfl)
      | isFalse ht => isFalse (by intro q; cases q; exact ht rfl)
    else isFalse (by intro q; cases q; exact hg rfl)
  | .loop k g b, .loop k' g' b' =>
    if hk : k = k' then
      if hg : g = g' then
        match Skel.decEqL b b' with
        | isTrue hb => isTrue (by rw [hk, hg, hb])
        | isFalse hb => isFalse (by intro q; cases q; exact hb rfl)
      else isFalse (by intro q; cases q; exact hg rfl)
    else isFalse (by intro q; cases q; exact hk rfl)
  | .act _, .ite .. => isFalse (by intro e; cases e)
  | .act _, .loop .. => isFalse (by intro e; cases e)
  | .ite .., .act _ => isFalse (by intro e; cases e)
  | .ite .., .loop .. => isFalse (by intro e; cases e)
  | .loop .., .act _ => isFalse (by intro e; cases e)
  | .loop .., .ite .. => isFalse (by intro e; cases e)
def Skel.decEqL : (x y : List Skel) → Decidable (x = y)
  | [], [] => isTrue rfl
  | [], _ :: _ => isFalse (by intro e; cases e)
  | _ :: _, [] => isFalse (by intro e; cases e)
  | a :: as, b :: bs =>
    match Skel.decEq a b with
    | isTrue h =>
      match Skel.decEqL as bs with
      | isTrue h' => isTrue (by rw [h, h'])
      | isFalse h' => isFalse (by intro q; cases q; exact h' rfl)
    | isFalse h => isFalse (by intro q; cases q; exact h rfl)
end
instance : DecidableEq Skel := Skel.decEq
instance : DecidableEq (List Skel) := Skel.decEqL

/-! ## The skeleton each model function implements

Conventions of the reading (`s : St` is the `LogFile` object, `clk` the clock, `cfg` the three constructor arguments).
* `s.count`, `s.startOfPeriod`, `s.lastRoll`, `s.lastFlush` are the members of the same name; `s.written` is
  `file_->writtenBytes()` (`writtenBytes_` of the current `AppendFile`); `s.cur` is `*file_`, `s.closed` the files
  already destroyed.
* A call of `::time(NULL)` is `clk s.tick` together with `tick := s.tick + 1` and the event `Ev.time`; the local that
  receives it (`now`) is `clk s.tick` in the rest of the branch.
* `File.flush` is `fflush` (`AppendFile::flush`) - and what `fclose` does to the old file.  `Ev.opened` is the `fopen`
  of `AppendFile`'s constructor, `Ev.closed` the `fclose` of its destructor, `Ev.fw` one `fwrite_unlocked` call
  (`AppendFile::write`), `Ev.failed` the `break`.
* A record update that sets several fields stands for the stores in the order the source performs them (they do not
  read each other); `St.log` is newest first, so `Ev.closed .. :: Ev.opened .. :: Ev.time .. :: s.log` is the order
  time, opened, closed.
* `if g .. then A else B` on a generated guard `g` is `ite "g" A B`; a recursion of the model on the same test is
  `loop`. -/
namespace Decl

/-- `LogFile.init clk`: every field zero (`count := 0`, and `rollAllowed (clk 0) 0`, `rollStart` applied as by
`rollFile` on `lastRoll = 0`), then exactly what `rollFile` does on that state - the constructor initialises the
members and calls `rollFile()`.  The `assert` on `basename` has no counterpart (the harness passes a plain name). -/
def ctor : List Skel :=
  [ .act (.store "basename_" "basename"),
    .act (.store "rollSize_" "rollSize"),
    .act (.store "flushInterval_" "flushInterval"),
    .act (.store "checkEveryN_" "checkEveryN"),
    .act (.store "count_" "0"),
    .act (.store "mutex_" "threadSafe ? new MutexLock() : NULL"),
    .act (.store "startOfPeriod_" "0"),
    .act (.store "lastRoll_" "0"),
    .act (.store "lastFlush_" "0"),
    .act (.assertion "basename.find('/') == npos"),
    .act (.call "rollFile" "") ]

/-- `LogFile.step cfg clk s (.append rec fws) = afterAppend cfg clk (afterWrite s (appendFile rec fws))` is
`append_unlocked` and nothing else: both branches of `append` do exactly that call; with a mutex the guard is taken
first (D2). -/
def append : List Skel :=
  [ .ite "mutex_"
      [ .act (.lock "*mutex_"),
        .act (.call "append_unlocked" "logline, len") ]
      [ .act (.call "append_unlocked" "logline, len") ] ]

/-- `LogFile.step _ _ s .flush = { s with cur := s.cur.flush, log := Ev.flushed .. :: s.log }`: one
`file_->flush()` in either branch, nothing else (no clock reading, `lastFlush` untouched). -/
def flush : List Skel :=
  [ .ite "mutex_"
      [ .act (.lock "*mutex_"),
        .act (.call "file_.flush" "") ]
      [ .act (.call "file_.flush" "") ] ]

/-- `afterWrite s (appendFile rec fws)` first - the record goes to the CURRENT file before any test -, then
`LogFile.afterAppend`:
`if rollBySize s.written cfg.rollSize then (rollFile clk s).1` (count untouched)
`else if checkDue (s.count + 1) cfg.checkEveryN then` (the test sees the incremented count) - under it `count := countReset`
and ONE clock reading (`tick + 1`, `Ev.time`), `periodOf (clk s.tick)` -
`  if periodChanged .. then (rollFile clk { s with count := countReset, tick := s.tick + 1, .. }).1`
`  else if flushDue .. then { .. lastFlush := clk s.tick, cur := s.cur.flush .. } else { .. }`
`else { s with count := s.count + 1 }`. -/
def appendUnlocked : List Skel :=
  [ .act (.call "file_.append" "logline, len"),
    .ite "rollBySize"
      [ .act (.call "rollFile" "") ]
      [ .act (.store "count_" "count_ + 1"),
        .ite "checkDue"
          [ .act (.store "count_" "0"),
            .act (.sys "time" "NULL"),
            .act (.assign "now" "<result>"),
            .act (.assign "thisPeriod_" "now / kRollPerSeconds_ * kRollPerSeconds_"),
            .ite "periodChanged"
              [ .act (.call "rollFile" "") ]
              [ .ite "flushDue"
                  [ .act (.store "lastFlush_" "now"),
                    .act (.call "file_.flush" "") ]
                  [] ] ]
          [] ] ]

/-- `LogFile.rollFile clk s`: the clock is read FIRST and in both branches (`tick := s.tick + 1`, `Ev.time (clk s.tick)`:
`getLogFileName(basename_, &now)` stores `time(NULL)` into `now`), `rollStart (clk s.tick)` is `start`; then
`if rollAllowed (clk s.tick) s.lastRoll then (` `lastRoll`, `lastFlush := clk s.tick`, `startOfPeriod := rollStart ..`,
the new file created (`Ev.opened`, `written := 0`) and only then the old one closed (`closed ++ [s.cur.flush]`,
`Ev.closed`): `file_.reset(new AppendFile(filename))` `, true) else (.., false)`. -/
def rollFile : List Skel :=
  [ .act (.assign "now" "0"),
    .act (.call "getLogFileName" "basename_, &now"),
    .act (.assign "filename" "<result>"),
    .act (.assign "start" "now / kRollPerSeconds_ * kRollPerSeconds_"),
    .ite "rollAllowed"
      [ .act (.store "lastRoll_" "now"),
        .act (.store "lastFlush_" "now"),
        .act (.store "startOfPeriod_" "start"),
        .act (.call "file_.reset" "new FileUtil::AppendFile(filename)"),
        .act (.ret "true") ]
      [],
    .act (.ret "false") ]

/-- inside `LogFile.rollFile`: exactly one `time(NULL)`, stored through `now` (`clk s.tick`, `tick + 1`); the name is
a function of that second (`gmtime_r(now, ..)`, `strftime`) and of run constants (D1: `File.name := clk s.tick`). -/
def getLogFileName : List Skel :=
  [ .act (.call "filename.reserve" "basename.size() + 64"),
    .act (.assign "filename" "basename"),
    .act (.sys "time" "NULL"),
    .act (.store "*now" "<result>"),
    .act (.sys "gmtime_r" "now, &tm"),
    .act (.sys "strftime" "timebuf, sizeof(timebuf), \".%Y%m%d-%H%M%S.\", &tm"),
    .act (.assign "filename" "filename + timebuf"),
    .act (.assign "filename" "filename + hostname()"),
    .act (.sys "snprintf" "pidbuf, sizeof(pidbuf), \".%d\", pid()"),
    .act (.assign "filename" "filename + pidbuf"),
    .act (.assign "filename" "filename + \".log\""),
    .act (.ret "filename") ]

/-- the new `File` of `LogFile.rollFile` / `init`: `{ name := .., content := [], flushedAt := [] }`, `written := 0`,
`Ev.opened`: the stream is opened (append mode) and the byte counter starts at zero. -/
def fileCtor : List Skel :=
  [ .act (.sys "fopen" "filename.c_str(), \"ae\""),
    .act (.store "fp_" "<result>"),
    .act (.store "writtenBytes_" "0"),
    .act (.assertion "fp_"),
    .act (.sys "setbuffer" "fp_, buffer_, sizeof(buffer_)") ]

/-- `LogFile.close` / the old file in `rollFile`: `cur.flush` + `Ev.closed` - one `fclose` (which flushes) -/
def fileDtor : List Skel :=
  [ .act (.sys "fclose" "fp_") ]

/-- `LogFile.appendLoop rec written fws` (from `written = 0`: `appendFile`), one unfolding per iteration - the
RECURSION `appendLoop rec (appendAdvance written n) rs` is the `while`:
`if appendContinues written rec.length then` `remain := appendRemain ..`, one environment result consumed
(`n := min r.n (appendRequest remain)`: the `write` call, `Ev.fw`),
`if appendShort n remain ∧ r.err = true then` stop with `counted := written` (NOT advanced), `failed := true`
`else` recurse on `appendAdvance written n`; `ferror` is consulted only after a short count (the conjunction is the
nested `if`).  Behind the loop `afterWrite`: `written := appendTotal s.written o.counted`, once. -/
def fileAppend : List Skel :=
  [ .act (.assign "written" "0"),
    .loop .whileDo "appendContinues"
      [ .act (.assign "remain" "len - written"),
        .act (.call "write" "logline + written, remain"),
        .act (.assign "n" "<result>"),
        .ite "appendShort"
          [ .act (.sys "ferror" "fp_"),
            .act (.assign "err" "<result>"),
            .ite "err"
              [ .act .brk ]
              [] ]
          [],
        .act (.assign "written" "written + n") ],
    .act (.store "writtenBytes_" "writtenBytes_ + written") ]

/-- `File.flush`: `flushedAt := f.flushedAt ++ [f.content.length]` - one `fflush` -/
def fileFlush : List Skel :=
  [ .act (.sys "fflush" "fp_") ]

/-- one `FwRes` of the environment / one `Ev.fw name off req n`: a single `fwrite_unlocked` of the whole request
(element size 1, so the result counts bytes) -/
def fileWrite : List Skel :=
  [ .act (.sys "fwrite_unlocked" "logline, 1, len, fp_"),
    .act (.ret "<result>") ]

end Decl

end MuduoVerif.LogFileSkel
