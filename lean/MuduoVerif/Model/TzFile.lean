import MuduoVerif.Generated.TzFileSkel
import MuduoVerif.Model.Zone
import MuduoVerif.Model.Buffer
/-!
Model of the zone-FILE READER of muduo/base/TimeZone.cc (C20): `detail::File`, `detail::readDataBlock`,
`detail::readTimeZoneFile`, `TimeZone::Data::addLocalTime` / `addTransition`, `TimeZone::loadZoneFile`, over the bytes
of the file.  The table it produces (`Loaded.data : Zone.Data`) is what the look-ups of `Model/Zone.lean` consume.

Every width, signedness, length, magic, test, reader choice and skip amount is a definition of
`Generated/TzFileSkel.lean` (extracted from /repo's source on every run); the control structure around them is written
here and tied to the source by the statement skeletons (`Model/TzFileSkelDecl.lean`, `Proofs/TzFileSkelTie.lean`).

* `File` is the `FILE*` opened on the bytes: the whole content and the position.  `fread` of `n` bytes delivers what is
  left up to `n`; `fseek(fp, k, SEEK_CUR)` moves the position, also beyond the end, and fails (position unchanged,
  result ignored by `File::skip`) when the new position would be negative.
* An exception leaves `loadZoneFile` with an invalid `TimeZone`; so does `readDataBlock` returning `false`.  `Err` says
  which one it was (the text is what the handler prints to stderr; the harness compares it).
* Outside the model (`Err.undefined`): `char buf[n]` with `n ≤ 0` (a variable-length array must have a positive
  size; `charcnt = 0` - which RFC 8536 forbids - or negative: g++ accepts a zero size silently, its sanitizer stops).  Not modelled: failure of an
  allocation (`reserve` of a huge positive count), overflow of signed arithmetic on the counters.

The second half is the REFERENCE ENCODER (`serialize`, RFC 8536), independent of the reader: the theorems of
`Props/C20.lean` relate the two.
-/
namespace MuduoVerif.TzFile
open MuduoVerif.TzFileSkel
open MuduoVerif.Gen.TzFileSkel (readInt32 readInt64 readUInt8 readBytesMsg readBytesArgTy skipArgTy magicLen badHead
  badHeadMsg versionLen reservedLen headerCountReader headerCountTy headerCounts isV2 v1BlockSkip magic2Len badHead2
  badHead2Msg header2Skip v2BranchV1 rewind v1BranchV1 timeSize blockCountReader blockCountTy blockCounts rejectLeap
  rejectIsut rejectIsstd timeReader timeElemTy timeConvs idxReader idxVarTy idxElemTy ttinfoReaders ttinfo transIdxTys
  transTimeTy charsLen blockSkips readsFooter)
open MuduoVerif.Buffer (Bytes decodeBE intBytes)
open MuduoVerif.Zone (LocalTime Transition Data)

/-- why `loadZoneFile` returned an invalid zone -/
inductive Err
  | logic (msg : String)      -- `std::logic_error(msg)` thrown by the reader itself
  | lengthError               -- `std::vector::reserve(n)` with `n > max_size()`: `std::length_error` (a `logic_error`)
  | outOfRange                -- `std::vector::at`: `std::out_of_range` (a `logic_error`)
  | rejected                  -- `readDataBlock` returned `false`
  | undefined (what : String) -- undefined behaviour in the source: outside the model
deriving DecidableEq, Repr

abbrev R (α : Type) := Except Err α

/-! ### `detail::File` -/

/-- the stream: content of the file and the position of the next read -/
structure File where
  data : Bytes
  pos : Nat
deriving DecidableEq, Repr

namespace File

/-- what `fread(buf, 1, n, fp_)` delivers -/
def peek (f : File) (n : Nat) : Bytes := (f.data.drop f.pos).take n

/-- `File::readBytes(int n)` -/
def readBytes (f : File) (n : Int) : R (Bytes × File) :=
  let n := conv readBytesArgTy n
  if n ≤ 0 then .error (.undefined "char buf[n] with n <= 0")
  else if (f.peek n.toNat).length = n.toNat then .ok (f.peek n.toNat, { f with pos := f.pos + n.toNat })
  else .error (.logic readBytesMsg)

/-- `File::readInt32 / readInt64 / readUInt8` (`r` says which): the value as the reader's return type -/
def readInt (f : File) (r : Reader) : R (Int × File) :=
  if (f.peek r.bytes).length = r.bytes then
    let bs := f.peek r.bytes
    let u := if r.swapBits = 0 then decodeBE bs.reverse else decodeBE bs
    .ok (conv r.ret u, { f with pos := f.pos + r.bytes })
  else .error (.logic r.msg)

/-- `File::skip(ssize_t bytes)`: `fseek(fp_, bytes, SEEK_CUR)`, result ignored -/
def skip (f : File) (bytes : Int) : File :=
  let b := conv skipArgTy bytes
  if (f.pos : Int) + b < 0 then f else { f with pos := ((f.pos : Int) + b).toNat }

/-- `File::readToEnd()` -/
def readToEnd (f : File) : Bytes := f.data.drop f.pos

end File

/-! ### `detail::readDataBlock` -/

/-- what `loadZoneFile` leaves in `TimeZone::Data`; `consumed` is the file position behind the designations (the last
byte the reader needs) -/
structure Loaded where
  data : Data
  abbreviation : Bytes
  tzstring : Bytes
  consumed : Nat
deriving Repr

/-- six calls of the counter reader, each result converted to the type of the variable it initialises -/
def readCounts (f : File) (r : Reader) (ty : IntTy) (mk : Int → Int → Int → Int → Int → Int → Counts) : R (Counts × File) := do
  let (r0, f) ← f.readInt r
  let (r1, f) ← f.readInt r
  let (r2, f) ← f.readInt r
  let (r3, f) ← f.readInt r
  let (r4, f) ← f.readInt r
  let (r5, f) ← f.readInt r
  pure (mk (conv ty r0) (conv ty r1) (conv ty r2) (conv ty r3) (conv ty r4) (conv ty r5), f)

/-- the loop `trans.push_back(v1 ? f.readInt32() : f.readInt64())`: the value passes through the conversions between the
reader's return type and the `int64_t` element (`timeConvs`: this is where a 32-bit time is sign-extended) -/
def readTimes (v1 : Bool) : Nat → File → R (List Int × File)
  | 0, f => .ok ([], f)
  | k+1, f => do
    let (t, f) ← f.readInt (timeReader v1)
    let (ts, f) ← readTimes v1 k f
    pure (conv timeElemTy ((timeConvs v1).foldl (fun v ty => conv ty v) t) :: ts, f)

/-- the loop `uint8_t local = f.readUInt8(); localtimes.push_back(local)` -/
def readIdxs : Nat → File → R (List Int × File)
  | 0, f => .ok ([], f)
  | k+1, f => do
    let (i, f) ← f.readInt idxReader
    let (is, f) ← readIdxs k f
    pure (conv idxElemTy (conv idxVarTy i) :: is, f)

/-- the reads of one ttinfo entry -/
def readMany (f : File) : List Reader → R (List Int × File)
  | [] => .ok ([], f)
  | r :: rs => do
    let (v, f) ← f.readInt r
    let (vs, f) ← readMany f rs
    pure (v :: vs, f)

/-- `data->addLocalTime(gmtoff, isdst, abbrind)` → `localtimes.push_back(LocalTime(utcOffset, isDst, desigIdx))` -/
def mkLocalTime (vs : List Int) : LocalTime :=
  let t := ttinfo (vs.getD 0 0) (vs.getD 1 0) (vs.getD 2 0)
  { utcOffset := t.utcOffset, isDst := t.isDst, desigIdx := t.desigIdx.toNat }

/-- the loop over `typecnt` -/
def readTypes : Nat → File → R (List LocalTime × File)
  | 0, f => .ok ([], f)
  | k+1, f => do
    let (vs, f) ← readMany f ttinfoReaders
    let (ls, f) ← readTypes k f
    pure (mkLocalTime vs :: ls, f)

/-- the index as `addTransition` receives it: through `int localIdx` and the parameter `int localtimeIdx` -/
def transIdx (i : Int) : Int := transIdxTys.foldl (fun v ty => conv ty v) i

/-- the loop `data->addTransition(trans[i], localtimes[i])`: `localtimes.at(localtimeIdx)` throws when the index is not
below `localtimes.size()`; the transition stores the shifted epoch `Gen.Zone.shiftedLocal` -/
def addTransitions (lts : List LocalTime) : List Int → List Int → R (List Transition)
  | t :: ts, i :: is =>
    let i := transIdx i
    let t := conv transTimeTy t
    if 0 ≤ i ∧ i.toNat < lts.length then do
      let rest ← addTransitions lts ts is
      pure ({ utctime := t, localtime := Gen.Zone.shiftedLocal t (lts.getD i.toNat default).utcOffset, localtimeIdx := i.toNat } :: rest)
    else .error .outOfRange
  | _, _ => .ok []

/-- `detail::readDataBlock(f, data, v1)` -/
def dataBlock (f : File) (v1 : Bool) : R Loaded := do
  let time_size := timeSize v1
  let (c, f) ← readCounts f blockCountReader blockCountTy blockCounts
  if rejectLeap c then .error .rejected
  else if rejectIsut c then .error .rejected
  else if rejectIsstd c then .error .rejected
  else if c.timecnt < 0 then .error .lengthError            -- trans.reserve(timecnt)
  else do
    let (trans, f) ← readTimes v1 c.timecnt.toNat f
    let (idxs, f) ← readIdxs c.timecnt.toNat f
    if c.typecnt < 0 then .error .lengthError               -- data->localtimes.reserve(typecnt)
    else do
      let (lts, f) ← readTypes c.typecnt.toNat f
      let trs ← addTransitions lts trans idxs
      let (abbr, f) ← f.readBytes (charsLen c)
      let g := (blockSkips c time_size).foldl File.skip f
      pure { data := { transitions := trs.toArray, localtimes := lts.toArray }, abbreviation := abbr,
             tzstring := if readsFooter v1 then g.readToEnd else [], consumed := f.pos }

/-! ### `detail::readTimeZoneFile`, `TimeZone::loadZoneFile` -/

def nats (b : Bytes) : List Nat := b.map UInt8.toNat

/-- `detail::readTimeZoneFile` on a file that could be opened: the `try` block -/
def zoneFile (f : File) : R Loaded := do
  let (head, f) ← f.readBytes magicLen
  if badHead (nats head) then .error (.logic badHeadMsg)
  else do
    let (version, f) ← f.readBytes versionLen
    let (_, f) ← f.readBytes reservedLen
    let (c, f) ← readCounts f headerCountReader headerCountTy headerCounts
    if isV2 (nats version) then do
      let f := f.skip (v1BlockSkip c)
      let (head, f) ← f.readBytes magic2Len
      if badHead2 (nats head) then .error (.logic badHead2Msg)
      else dataBlock (f.skip header2Skip) v2BranchV1
    else dataBlock (f.skip rewind) v1BranchV1

/-- `TimeZone::loadZoneFile` on the content of a readable file: `.ok` = a valid `TimeZone` with this table -/
def parse (bytes : Bytes) : R Loaded := zoneFile { data := bytes, pos := 0 }

/-- the table the look-ups of `Model/Zone.lean` run on (`none`: invalid `TimeZone`) -/
def loadZone (bytes : Bytes) : Option Data :=
  match parse bytes with
  | .ok l => some l.data
  | .error _ => none

/-! ## Reference encoder (RFC 8536), independent of the reader -/

/-- one local time type (ttinfo) -/
structure TType where
  utoff : Int
  isdst : Bool
  abbrind : Nat
deriving DecidableEq, Repr

/-- one data block without leap seconds -/
structure Block where
  times : List Int       -- transition times
  idxs : List Nat        -- local time type of each transition
  types : List TType
  chars : Bytes          -- designations
  isstd : Bytes          -- standard/wall indicators (none or one per type)
  isut : Bytes           -- UT/local indicators (none or one per type)
deriving DecidableEq, Repr

/-- a zone description: the version byte, the version-1 block (32-bit times), for version 2 and later the second block
(64-bit times) and the footer -/
structure ZoneDesc where
  version : UInt8
  v1 : Block
  v2 : Option (Block × Bytes)
deriving DecidableEq, Repr

def be32 (n : Nat) : Bytes := intBytes 4 n

/-- header: magic, version, fifteen reserved bytes, the six counts in the order of RFC 8536 §3.1:
isutcnt, isstdcnt, leapcnt, timecnt, typecnt, charcnt -/
def header (version : UInt8) (b : Block) : Bytes :=
  [84, 90, 105, 102] ++ [version] ++ List.replicate 15 0 ++
  be32 b.isut.length ++ be32 b.isstd.length ++ be32 0 ++ be32 b.times.length ++ be32 b.types.length ++ be32 b.chars.length

def encType (t : TType) : Bytes := intBytes 4 t.utoff ++ [if t.isdst then 1 else 0, UInt8.ofNat t.abbrind]

/-- the part of a data block the reader needs: transition times (`size` bytes each, two's complement, big-endian),
their type indices, the ttinfo entries, the designations -/
def essential (size : Nat) (b : Block) : Bytes :=
  b.times.flatMap (intBytes size) ++ b.idxs.map UInt8.ofNat ++ b.types.flatMap encType ++ b.chars

/-- data block (RFC 8536 §3.2; no leap-second records) -/
def body (size : Nat) (b : Block) : Bytes := essential size b ++ b.isstd ++ b.isut

/-- the whole file -/
def serialize (z : ZoneDesc) : Bytes :=
  header z.version z.v1 ++ body 4 z.v1 ++
  match z.v2 with
  | none => []
  | some (b, footer) => header z.version b ++ body 8 b ++ footer

/-- well-formed block for `size`-byte times -/
structure Block.WF (size : Nat) (b : Block) : Prop where
  times : ∀ t ∈ b.times, -(2 ^ (8 * size - 1) : Int) ≤ t ∧ t < (2 ^ (8 * size - 1) : Int)
  idxLen : b.idxs.length = b.times.length
  idxs : ∀ i ∈ b.idxs, i < b.types.length ∧ i < 256
  types : ∀ t ∈ b.types, -(2 ^ 31 : Int) ≤ t.utoff ∧ t.utoff < (2 ^ 31 : Int) ∧ t.abbrind < 256
  timecnt : b.times.length < 2 ^ 27
  typecnt : b.types.length < 2 ^ 27
  charcnt : b.chars.length < 2 ^ 27
  charpos : 0 < b.chars.length
  isstd : b.isstd.length = 0 ∨ b.isstd.length = b.types.length
  isut : b.isut.length = 0 ∨ b.isut.length = b.types.length

/-- the reader takes the 64-bit block exactly when the version byte is `'2'` (`isV2`) -/
def ZoneDesc.uses64 (z : ZoneDesc) : Bool := z.version = 50

/-- well-formed description: both blocks are, and a version-2 file has its second block -/
structure ZoneDesc.WF (z : ZoneDesc) : Prop where
  v1 : z.v1.WF 4
  v2 : ∀ b ft, z.v2 = some (b, ft) → b.WF 8
  has2 : z.version = 50 → z.v2.isSome

/-- the table a block describes -/
def Block.table (b : Block) : Data :=
  { localtimes := (b.types.map fun t => ({ utcOffset := t.utoff, isDst := t.isdst, desigIdx := t.abbrind } : LocalTime)).toArray
    transitions := (List.zipWith (fun t i =>
      ({ utctime := t, localtime := t + ((b.types.getD i ⟨0, false, 0⟩).utoff), localtimeIdx := i } : Transition)) b.times b.idxs).toArray }

/-- the block muduo's reader takes: the 64-bit one exactly when the version byte is `'2'` -/
def ZoneDesc.selected (z : ZoneDesc) : Block :=
  match z.v2 with
  | some (b, _) => if z.version = 50 then b else z.v1
  | none => z.v1

/-- the prefix of the file the reader needs: up to the designations of the block it takes -/
def ZoneDesc.needed (z : ZoneDesc) : Bytes :=
  match z.v2 with
  | some (b, _) =>
    if z.version = 50 then header z.version z.v1 ++ (body 4 z.v1 ++ (header z.version b ++ essential 8 b))
    else header z.version z.v1 ++ essential 4 z.v1
  | none => header z.version z.v1 ++ essential 4 z.v1

/-- what follows it -/
def ZoneDesc.optional (z : ZoneDesc) : Bytes :=
  match z.v2 with
  | some (b, ft) =>
    if z.version = 50 then b.isstd ++ (b.isut ++ ft)
    else z.v1.isstd ++ (z.v1.isut ++ (header z.version b ++ (body 8 b ++ ft)))
  | none => z.v1.isstd ++ z.v1.isut

/-- the footer as the reader stores it (`tzstring`): read only together with the 64-bit block -/
def ZoneDesc.footerRead (z : ZoneDesc) : Bytes :=
  match z.v2 with
  | some (_, ft) => if z.version = 50 then ft else []
  | none => []

end MuduoVerif.TzFile
