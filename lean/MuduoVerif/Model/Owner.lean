import MuduoVerif.Generated.Owner
import MuduoVerif.Generated.Conn
import MuduoVerif.Model.Pool
/-!
Model of the multi-loop ownership protocol of `muduo::net::TcpServer` (TcpServer.cc): the acceptor
("base") loop, `L` io loops, any number of connections.

* Loops are indexed `0 .. L`: `0` is the base loop (`TcpServer::loop_`), `1 .. L` the loops of the
  `EventLoopThreadPool` in creation order (`L = 0`: the base loop serves the connections itself).
  Each loop is a FIFO queue of functors (`EventLoop::pendingFunctors_`).
* One atomic step = one functor run by one loop, one channel event dispatched by one loop, one call
  of the thread-safe user API, `~TcpServer`, or the exit of a loop.  Which step happens next is
  chosen by a schedule (`List Action`): every interleaving of the loops is a schedule.  (Atomicity of
  a functor / an event dispatch with respect to the state it touches is loop confinement: C08.)
* Every hand-off (`runInLoop` / `queueInLoop`, its target loop, what the functor holds), the name
  construction, the id increment and the final drain of a loop's queue are constants of
  `Generated/Owner.lean`; the state tests of the connection are guards of `Generated/Conn.lean`.
* A connection object is destroyed at the moment its last holder lets go (map entry, functor holding
  a `TcpConnectionPtr`, user reference); the destructor closes the descriptor.  A functor a loop has
  run keeps its reference until the loop is through with the batch it belongs to
  (`doPendingFunctors` destroys its local vector on return): `done`, released by `Action.endBatch`.
  The model lets a batch end after any functor (the implementation's schedules are among them).
* `trace` records `(connection, event, loop)`; `loop` is the loop whose thread performed the step.
-/
namespace MuduoVerif.Owner
open MuduoVerif.Gen.Owner
open MuduoVerif.Gen.Conn (StateE forceCloseAccepts shutdownAccepts forceCloseInLoopActs destroyedWhileConnected)

/-- functors in a loop's queue -/
inductive Task
  /-- `bind(&TcpConnection::connectEstablished, conn)` -/
  | est (c : Nat)
  /-- `bind(&TcpServer::removeConnectionIfAlive, alive, server, conn)` (formerly `removeConnectionInLoop, this, conn`) -/
  | rem (c : Nat)
  /-- `bind(&TcpConnection::connectDestroyed, conn)` -/
  | des (c : Nat)
  /-- `bind(&TcpConnection::forceCloseInLoop, shared_from_this())` -/
  | fcl (c : Nat)
  /-- `makeWeakCallback(shared_from_this(), &TcpConnection::shutdownInLoop)`: half-closes the socket, nothing else -/
  | shut (c : Nat)
  /-- a user functor on the base loop that destroys the `TcpServer` -/
  | srvDtor
deriving DecidableEq, Repr

/-- does the functor keep connection `c` alive? -/
def Task.holds (t : Task) (c : Nat) : Bool :=
  match t with
  | .est i => i == c
  | .rem i => i == c
  | .des i => i == c
  | .fcl i => i == c && (MuduoVerif.Gen.Conn.forceCloseHold == .strong)
  | .shut i => i == c && (MuduoVerif.Gen.Conn.shutdownHold == .strong)
  | .srvDtor => false

inductive Kind
  /-- `TcpServer::newConnection` (name built, map insert) -/
  | new
  /-- connection callback, `connected()` -/
  | up
  /-- message callback -/
  | msg
  /-- connection callback, `!connected()` -/
  | down
  /-- close callback = `TcpServer::removeConnection` -/
  | closeCb
  /-- `removeConnectionInLoop`: `erase` found exactly one entry -/
  | erase
  /-- `removeConnectionInLoop`: `erase` found no entry (`assert(n == 1)` fails) -/
  | eraseMiss
  /-- `connectDestroyed`: channel removed from the poller -/
  | destroyed
  /-- `~TcpConnection`: descriptor closed -/
  | dtor
  /-- a failed `assertInLoopThread()` / `assert` -/
  | abort
  /-- `removeConnectionInLoop` run on a destroyed `TcpServer` (raw `this`) -/
  | uaf
deriving DecidableEq, Repr

structure Ev where
  conn : Nat
  kind : Kind
  loop : Nat
deriving DecidableEq, Repr

structure Conn where
  /-- the loop the connection was constructed with -/
  loop : Nat := 0
  name : Nat := 0
  st : StateE := .kConnecting
  /-- channel registered with the poller of `loop` (`addedToLoop_`) -/
  registered : Bool := false
  /-- the object exists -/
  alive : Bool := false
  fdOpen : Bool := false
  /-- `TcpConnectionPtr`s held by user code -/
  user : Nat := 0
  /-- ghost: a close cause occurred (peer close seen, `forceClose()` accepted, `~TcpServer`) -/
  cause : Bool := false
deriving DecidableEq, Repr

structure Srv where
  /-- number of io loops -/
  L : Nat
  /-- name (as a number) of the connection with id `i`: what `snprintf("-%s#%d")` + truncation make of it -/
  nameOf : Nat → Nat
  /-- does a loop run the functors still queued when it leaves `loop()`? (`init` takes it from the source) -/
  drain : Bool := finalDrain
  /-- is that drain repeated until the queue is empty? -/
  drainRepeats : Bool := finalDrainRepeats
  q : Nat → List Task := fun _ => []
  /-- functors of the current batch that loop `l` has already run (their references are still held) -/
  done : Nat → List Task := fun _ => []
  exited : Nat → Bool := fun _ => false
  /-- connections accepted so far; connection `i < n` is the `i`-th accepted one -/
  n : Nat := 0
  conn : Nat → Conn := fun _ => {}
  /-- `connections_`: (name, connection), keys distinct -/
  map : List (Nat × Nat) := []
  pool : Pool.Pool
  nextId : Nat := idInitial
  /-- the `TcpServer` object exists -/
  alive : Bool := true
  trace : List Ev := []

def init (L : Nat) (nameOf : Nat → Nat) : Srv := { L := L, nameOf := nameOf, pool := Pool.start L }

def loopIndex : Pool.LoopRef → Nat
  | .base => 0
  | .worker i => i + 1
  | .oob i => i + 1

def isUp (st : StateE) : Bool := st == .kConnected || st == .kDisconnecting

def Srv.setConn (s : Srv) (c : Nat) (C : Conn) : Srv := { s with conn := fun i => if i = c then C else s.conn i }
def Srv.enq (s : Srv) (l : Nat) (t : Task) : Srv := { s with q := fun i => if i = l then s.q i ++ [t] else s.q i }
def Srv.emit (s : Srv) (c : Nat) (k : Kind) (l : Nat) : Srv := { s with trace := s.trace ++ [⟨c, k, l⟩] }

def Srv.inMap (s : Srv) (c : Nat) : Bool := s.map.any (·.2 == c)
def Srv.inQueues (s : Srv) (c : Nat) : Bool :=
  (List.range (s.L + 1)).any (fun l => (s.q l).any (·.holds c) || (s.done l).any (·.holds c))
/-- somebody holds a `TcpConnectionPtr` to `c` -/
def Srv.held (s : Srv) (c : Nat) : Bool := s.inMap c || decide (0 < (s.conn c).user) || s.inQueues c

def mapInsert (m : List (Nat × Nat)) (k v : Nat) : List (Nat × Nat) := (k, v) :: m.filter (·.1 != k)
def mapErase (m : List (Nat × Nat)) (k : Nat) : List (Nat × Nat) := m.filter (·.1 != k)
def mapFind (m : List (Nat × Nat)) (k : Nat) : Option Nat := (m.find? (·.1 == k)).map (·.2)
def insertKey (e : Nat × Nat) : List (Nat × Nat) → List (Nat × Nat)
  | [] => [e]
  | x :: xs => if e.1 ≤ x.1 then e :: x :: xs else x :: insertKey e xs

/-- iteration order of `std::map`: ascending keys -/
def mapOrder (m : List (Nat × Nat)) : List (Nat × Nat) := m.foldr insertKey []

/-- the last `TcpConnectionPtr` to `c` may just have been dropped by thread `l`: `~TcpConnection` -/
def reapOne (s : Srv) (l c : Nat) : Srv :=
  if (s.conn c).alive && !s.held c then
    (s.setConn c { s.conn c with alive := false, fdOpen := false }).emit c .dtor l
  else s

def target (s : Srv) (c : Nat) : Target → Nat
  | .base => 0
  | .conn => (s.conn c).loop

/-- `TcpConnection::connectEstablished` on loop `l` -/
def connectEstablished (s : Srv) (l c : Nat) : Srv :=
  if l ≠ (s.conn c).loop then s.emit c .abort l
  else if (s.conn c).st ≠ .kConnecting then s.emit c .abort l
  else (s.setConn c { s.conn c with st := .kConnected, registered := true }).emit c .up l

/-- `TcpConnection::connectDestroyed` on loop `l` -/
def connectDestroyed (s : Srv) (l c : Nat) : Srv :=
  if l ≠ (s.conn c).loop then s.emit c .abort l
  else if !(s.conn c).registered then s.emit c .abort l        -- `Poller::removeChannel` of an unknown channel
  else if destroyedWhileConnected (s.conn c).st then
    ((s.setConn c { s.conn c with st := .kDisconnected, registered := false }).emit c .down l).emit c .destroyed l
  else (s.setConn c { s.conn c with registered := false }).emit c .destroyed l

def handDestroy (s : Srv) (l c : Nat) (d : Dispatch) (t : Target) : Srv :=
  if d = .run ∧ l = target s c t then connectDestroyed s l c else s.enq (target s c t) (.des c)

/-- the functor the close callback hands to the base loop, run on loop `l`: `removeConnectionIfAlive` (the server is
only touched if its life token has not expired) → `TcpServer::removeConnectionInLoop`; without the token the functor
runs `removeConnectionInLoop` on whatever is left of the server -/
def removeInLoop (s : Srv) (l c : Nat) : Srv :=
  if !s.alive then (if removeGuarded && dtorExpiresToken then s else s.emit c .uaf l)
  else if l ≠ 0 then s.emit c .abort l
  else
    let k := (s.map.filter (·.1 == (s.conn c).name)).length
    handDestroy ({ s with map := mapErase s.map (s.conn c).name }.emit c (if k = 1 then .erase else .eraseMiss) l)
      l c destroyDispatch destroyTarget

/-- the close callback (`TcpServer::removeConnectionGuarded`, formerly `removeConnection`), called by the connection on its loop `l` -/
def removeConnection (s : Srv) (l c : Nat) : Srv :=
  if removeDispatch = .run ∧ l = target s c removeTarget then removeInLoop s l c
  else s.enq (target s c removeTarget) (.rem c)

/-- `TcpConnection::handleClose` on loop `l` -/
def handleClose (s : Srv) (l c : Nat) : Srv :=
  if !isUp (s.conn c).st then s.emit c .abort l
  else
    removeConnection
      (((s.setConn c { s.conn c with st := .kDisconnected, cause := true }).emit c .down l).emit c .closeCb l) l c

/-- `TcpConnection::forceCloseInLoop` on loop `l` -/
def forceCloseInLoop (s : Srv) (l c : Nat) : Srv :=
  if l ≠ (s.conn c).loop then s.emit c .abort l
  else if (s.conn c).alive ∧ forceCloseInLoopActs (s.conn c).st then handleClose s l c
  else s

/-- body of `~TcpServer`'s loop for the (already reset) entry of connection `c` -/
def dtorOne (s : Srv) (c : Nat) : Srv :=
  reapOne (handDestroy (s.setConn c { s.conn c with cause := true }) 0 c dtorDispatch dtorTarget) 0 c

/-- `~TcpServer` on the base loop's thread -/
def destroyServer (s : Srv) : Srv :=
  if !s.alive then s
  else ((mapOrder s.map).map (·.2)).foldl dtorOne { s with map := [], alive := false }

def runTask (s : Srv) (l : Nat) : Task → Srv
  | .est c => connectEstablished s l c
  | .rem c => removeInLoop s l c
  | .des c => connectDestroyed s l c
  | .fcl c => forceCloseInLoop s l c
  | .shut _ => s
  | .srvDtor => destroyServer s

def Task.conn? : Task → Option Nat
  | .est c => some c
  | .rem c => some c
  | .des c => some c
  | .fcl c => some c
  | .shut c => some c
  | .srvDtor => none

/-- loop `l` runs the functor at the head of its queue; the functor object stays in the batch vector -/
def runHead (s : Srv) (l : Nat) : Srv :=
  match s.q l with
  | [] => s
  | t :: rest =>
    runTask { s with q := fun i => if i = l then rest else s.q i, done := fun i => if i = l then s.done i ++ [t] else s.done i } l t

def iterate (f : Srv → Srv) : Nat → Srv → Srv
  | 0, s => s
  | k + 1, s => iterate f k (f s)

/-- the first functor of loop `l`'s finished batch is destroyed: its reference goes away -/
def releaseHead (s : Srv) (l : Nat) : Srv :=
  match s.done l with
  | [] => s
  | t :: rest =>
    match t.conn? with
    | some c => reapOne { s with done := fun i => if i = l then rest else s.done i } l c
    | none => { s with done := fun i => if i = l then rest else s.done i }

/-- loop `l` is through with a batch: the functors it ran are destroyed one by one, first to last
(`doPendingFunctors` returns, its local vector goes out of scope) -/
def endBatch (s : Srv) (l : Nat) : Srv := iterate (fun s => releaseHead s l) (s.done l).length s

/-- one `doPendingFunctors()` after the loop has left its `while`: the batch is what is queued now; then the batch
vector dies -/
def drainBatch (s : Srv) (l : Nat) : Srv := endBatch (iterate (fun s => runHead s l) (s.q l).length s) l

/-- `do { doPendingFunctors(); } while (queueSize() > 0);` - at most `fuel` rounds (a functor of this model queues at
most one functor on its own loop, and that one queues none: the second round leaves nothing behind, `Proofs/OwnerExit`) -/
def drainAll (l : Nat) : Nat → Srv → Srv
  | 0, s => s
  | f + 1, s => if (drainBatch s l).q l = [] then drainBatch s l else drainAll l f (drainBatch s l)

/-- `~EventLoop` destroys a functor that was never run: its reference goes away -/
def dropHead (s : Srv) (l : Nat) : Srv :=
  match s.q l with
  | [] => s
  | t :: rest =>
    match t.conn? with
    | some c => reapOne { s with q := fun i => if i = l then rest else s.q i } l c
    | none => { s with q := fun i => if i = l then rest else s.q i }

/-- `TcpServer::newConnection` on the base loop (the acceptor's channel event) -/
def accept (s : Srv) : Srv :=
  if !s.alive || s.exited 0 then s
  else
    let l := loopIndex (Pool.getNextLoop s.pool).1
    let c := s.n
    let nm := s.nameOf s.nextId
    let old := mapFind s.map nm
    let s1 : Srv :=
      { s with n := c + 1, pool := (Pool.getNextLoop s.pool).2, nextId := s.nextId + idStep,
               conn := fun i => if i = c then { loop := l, name := nm, st := .kConnecting, alive := true, fdOpen := true } else s.conn i,
               map := mapInsert s.map nm c, trace := s.trace ++ [⟨c, .new, 0⟩] }
    let s2 :=
      if establishDispatch = .run ∧ 0 = target s1 c establishTarget then connectEstablished s1 0 c
      else s1.enq (target s1 c establishTarget) (.est c)
    match old with
    | some o => reapOne s2 0 o      -- the overwritten entry let go of its connection
    | none => s2

inductive Action
  /-- the acceptor's channel fires on the base loop -/
  | accept
  /-- loop `l` runs the next functor of its queue -/
  | run (l : Nat)
  /-- loop `l` ends a batch of functors (`doPendingFunctors` returns) -/
  | endBatch (l : Nat)
  /-- data arrived: read event of connection `c` on its loop -/
  | msg (c : Nat)
  /-- peer closed / reset / hung up: close event of connection `c` on its loop -/
  | close (c : Nat)
  /-- `conn->forceClose()` on thread `thr` (a loop index, or anything `> L` for another thread) -/
  | forceClose (c thr : Nat)
  /-- `conn->shutdown()` on thread `thr` -/
  | shutdown (c thr : Nat)
  /-- user code copies the `TcpConnectionPtr` -/
  | hold (c : Nat)
  /-- user code (thread `thr`) drops one -/
  | drop (c thr : Nat)
  /-- `~TcpServer` on the base loop's thread -/
  | destroy
  /-- a functor destroying the server is queued on the base loop -/
  | postDestroy
  /-- loop `l` leaves `loop()` (base loop: any time; io loops: when the pool is destroyed with the server) -/
  | exit (l : Nat)
  /-- the `EventLoop` object of loop `l` is destroyed (after `loop()` returned and the server is gone): the functors
  still in its queue are destroyed without having run, first to last -/
  | loopGone (l : Nat)
deriving DecidableEq, Repr

/-- channel events reach a connection that is registered, not yet taken down, on a running loop -/
def evReady (s : Srv) (c : Nat) : Bool :=
  (s.conn c).alive && (s.conn c).registered && isUp (s.conn c).st && !s.exited (s.conn c).loop

def step (s : Srv) : Action → Srv
  | .accept => accept s
  | .run l => if s.exited l then s else runHead s l
  | .endBatch l => endBatch s l
  | .msg c => if evReady s c then s.emit c .msg (s.conn c).loop else s
  | .close c => if evReady s c then reapOne (handleClose s (s.conn c).loop c) (s.conn c).loop c else s
  | .forceClose c thr =>
    if (s.conn c).alive ∧ forceCloseAccepts (s.conn c).st then
      let s1 := s.setConn c { s.conn c with st := .kDisconnecting, cause := true }
      if MuduoVerif.Gen.Conn.forceCloseDispatch = .run ∧ thr = (s.conn c).loop then forceCloseInLoop s1 thr c
      else s1.enq (s.conn c).loop (.fcl c)
    else s
  | .shutdown c thr =>
    if (s.conn c).alive ∧ shutdownAccepts (s.conn c).st then
      let s1 := s.setConn c { s.conn c with st := .kDisconnecting }
      if MuduoVerif.Gen.Conn.shutdownDispatch = .run ∧ thr = (s.conn c).loop then s1
      else s1.enq (s.conn c).loop (.shut c)
    else s
  | .hold c => if (s.conn c).alive then s.setConn c { s.conn c with user := (s.conn c).user + 1 } else s
  | .drop c thr =>
    if 0 < (s.conn c).user then reapOne (s.setConn c { s.conn c with user := (s.conn c).user - 1 }) thr c else s
  | .destroy => destroyServer s
  | .postDestroy => if s.alive then s.enq 0 .srvDtor else s
  | .exit l =>
    if s.exited l || !(s.done l).isEmpty || (l != 0 && (s.alive || decide (s.L < l))) then s
    else if s.drain then
      (if s.drainRepeats then drainAll l 3 { s with exited := fun i => if i = l then true else s.exited i }
       else drainBatch { s with exited := fun i => if i = l then true else s.exited i } l)
    else { s with exited := fun i => if i = l then true else s.exited i }
  | .loopGone l =>
    if s.exited l && (s.done l).isEmpty && !s.alive then iterate (fun s => dropHead s l) (s.q l).length s else s

def run (s : Srv) (as : List Action) : Srv := as.foldl step s

/-- nothing is left to do: every queue is empty and no loop is in the middle of a batch -/
def Srv.quiet (s : Srv) : Prop := ∀ l, s.q l = [] ∧ s.done l = []

end MuduoVerif.Owner
