import MuduoVerif.Generated.Http
import MuduoVerif.Model.Stream
/-!
Model of the HTTP request parser: `HttpContext::parseRequest` / `processRequestLine`
(muduo/net/http/HttpContext.cc), `HttpRequest::setMethod` / `addHeader`
(muduo/net/http/HttpRequest.h), and of the way a server drives it
(`HttpServer::onMessage`: parse; when `gotAll()` hand the request over and `reset()`),
extended to a drain driver that keeps calling the parser until it makes no progress.

From `Generated/Http.lean` (current source): the method table and its fall-back, the test
`setMethod` returns, the three separators of the request line, the test on the
request-target (`targetAccepted`, over pointer offsets) and its byte predicate `isControl`,
the version test (length, prefix, last-character table), the header separator, the number of bytes consumed behind
a line, the enums, and which parse states have a (non-empty) arm in the `while (hasMore)`
loop.  Hand-written: the pointer walk of `processRequestLine`, the trimming loops of
`addHeader`, `std::map`, `Buffer::findCRLF`, the loops.
-/
namespace MuduoVerif.Http
open MuduoVerif.Gen.Http MuduoVerif.Stream

abbrev Bytes := List UInt8

/-- `Buffer::findCRLF()`: offset of the first CR LF in the readable bytes -/
def findCRLF : Bytes → Option Nat
  | [] => none
  | [_] => none
  | a :: b :: rest => if a = 13 ∧ b = 10 then some 0 else (findCRLF (b :: rest)).map (· + 1)

/-- `std::find(first, last, ch) - first` -/
def find (ch : UInt8) (l : Bytes) : Nat := (l.takeWhile (· != ch)).length

/-- `std::find_if(first, last, pred) - first` -/
def findIf (p : UInt8 → Bool) (l : Bytes) : Nat := (l.takeWhile (fun b => !p b)).length

/-- `HttpRequest::setMethod(start, end)`: the value `method_` gets -/
def setMethod (tok : Bytes) : Method :=
  match methodTable.find? (fun e => e.1 == tok) with
  | some e => e.2
  | none => methodDefault

/-- the version test of `processRequestLine` on the bytes behind the second separator -/
def versionOf (tok : Bytes) : Option Version :=
  if tok.length = versionLen ∧ tok.take (versionLen - 1) = versionPrefix then
    match versionTable.find? (fun e => some e.1 == tok.getLast?) with
    | some e => some e.2
    | none => none
  else none

structure Request where
  method : Method
  version : Version
  path : Bytes
  query : Bytes
  /-- `std::map<string, string>`: sorted by key, one value per key -/
  headers : List (Bytes × Bytes)
deriving DecidableEq, Repr

/-- `HttpRequest()` -/
def Request.empty : Request :=
  { method := methodDefault, version := .kUnknown, path := [], query := [], headers := [] }

/-- `p = std::find(first, last, ch)`; when `p != last`: the bytes before `p` and the bytes from `p+1` -/
def splitAt (ch : UInt8) (l : Bytes) : Option (Bytes × Bytes) :=
  if find ch l < l.length then some (l.take (find ch l), l.drop (find ch l + 1)) else none

/-- what an accepted request line sets -/
structure Line where
  method : Method
  path : Bytes
  query : Bytes
  version : Version
deriving DecidableEq, Repr

/-- `HttpContext::processRequestLine(begin, end)` on the bytes of the line (without CR LF);
`none` = it returns false.  (On a failure behind a valid method the real object keeps the
method/path/query of the rejected line; the stream is abandoned then, so the model does not
track that.) -/
def processRequestLine (line : Bytes) : Option Line :=
  match splitAt methodSep line with               -- space = find(start, end, ' '); space != end
  | none => none
  | some (m, rest) =>
    if methodAccepted (setMethod m) then          -- && request_.setMethod(start, space)
      -- start = space+1 (`rest` = [start, end)); space = find(start, end, ' ');
      -- question = find(start, space, '?'); the test on the target [start, space)
      if targetAccepted (find targetSep rest) rest.length
          (find querySep (rest.take (find targetSep rest)))
          (findIf (fun b => decide (isControl b)) (rest.take (find targetSep rest))) then
        match versionOf (rest.drop (find targetSep rest + 1)) with   -- start = space+1; the version test
        | none => none
        | some v =>
          some { method := setMethod m
                 path := (rest.take (find targetSep rest)).take (find querySep (rest.take (find targetSep rest)))
                 query := (rest.take (find targetSep rest)).drop (find querySep (rest.take (find targetSep rest)))
                 version := v }
      else none
    else none

/-- C `isspace` in the "C" locale -/
def isspace (b : UInt8) : Bool := b == 32 || (9 ≤ b && b ≤ 13)

/-- the two trimming loops of `addHeader` -/
def trimValue (v : Bytes) : Bytes := ((v.dropWhile isspace).reverse.dropWhile isspace).reverse

/-- `std::string::compare` order (bytes as unsigned char) -/
def bytesLt : Bytes → Bytes → Bool
  | [], [] => false
  | [], _ :: _ => true
  | _ :: _, [] => false
  | a :: as, b :: bs => if a < b then true else if b < a then false else bytesLt as bs

/-- `headers_[field] = value` -/
def mapInsert (k v : Bytes) : List (Bytes × Bytes) → List (Bytes × Bytes)
  | [] => [(k, v)]
  | e :: rest =>
    if k = e.1 then (k, v) :: rest
    else if bytesLt k e.1 then (k, v) :: e :: rest
    else e :: mapInsert k v rest

/-- `HttpRequest::addHeader(start, colon, end)` for a line that contains the separator -/
def addHeader (r : Request) (line : Bytes) : Request :=
  { r with headers := mapInsert (line.take (find headerSep line))
                        (trimValue (line.drop (find headerSep line + 1))) r.headers }

structure Ctx where
  state : ParseState
  req : Request
deriving DecidableEq, Repr

/-- `HttpContext()` and `reset()` -/
def Ctx.fresh : Ctx := { state := initialState, req := Request.empty }

/-- in this state the body of `while (hasMore)` does nothing and leaves `hasMore` true:
there is no arm for the state, or its arm is empty -/
def spins (st : ParseState) : Bool := !(parseArms.contains st) || emptyArms.contains st

/-- one iteration of `while (hasMore)` in `parseRequest` -/
inductive LineOut where
  /-- no CR LF yet: `hasMore = false` -/
  | need
  /-- `processRequestLine` failed: `ok = false; hasMore = false` -/
  | fail
  /-- a line was consumed, go round again -/
  | next (ctx : Ctx) (k : Nat)
  /-- the line that ends the headers was consumed: `state_ = kGotAll; hasMore = false` -/
  | done (ctx : Ctx) (k : Nat)
  /-- nothing happens and `hasMore` stays true -/
  | spin

def lineStep (ctx : Ctx) (buf : Bytes) : LineOut :=
  if spins ctx.state then .spin
  else
    match ctx.state with
    | .kExpectRequestLine =>
      match findCRLF buf with
      | none => .need
      | some k =>
        match processRequestLine (buf.take k) with
        | some l =>
          .next { state := .kExpectHeaders
                  req := { ctx.req with method := l.method, path := l.path,
                                        query := if l.query = [] then ctx.req.query else l.query,
                                        version := l.version } } (k + crlfLen)
        | none => .fail
    | .kExpectHeaders =>
      match findCRLF buf with
      | none => .need
      | some k =>
        if find headerSep (buf.take k) < (buf.take k).length then
          .next { ctx with req := addHeader ctx.req (buf.take k) } (k + crlfLen)
        else .done { ctx with state := .kGotAll } (k + crlfLen)
    | _ => .spin

/-- result of `parseRequest` -/
structure PRes where
  ctx : Ctx
  rest : Bytes
  /-- the return value -/
  ok : Bool
  /-- the fuel ran out: the real call would not have returned yet -/
  stuck : Bool
deriving DecidableEq, Repr

/-- the `while (hasMore)` loop of `HttpContext::parseRequest` -/
def parseLoop : Nat → Ctx → Bytes → PRes
  | 0, ctx, buf => { ctx := ctx, rest := buf, ok := true, stuck := true }
  | n+1, ctx, buf =>
    match lineStep ctx buf with
    | .need => { ctx := ctx, rest := buf, ok := true, stuck := false }
    | .fail => { ctx := ctx, rest := buf, ok := false, stuck := false }
    | .next ctx' k => parseLoop n ctx' (buf.drop k)
    | .done ctx' k => { ctx := ctx', rest := buf.drop k, ok := true, stuck := false }
    | .spin => parseLoop n ctx buf

/-- `HttpContext::parseRequest(buf, receiveTime)` -/
def parseRequest (ctx : Ctx) (buf : Bytes) : PRes := parseLoop (buf.length + 1) ctx buf

inductive Event where
  /-- a complete request was handed over (`HttpServer::onRequest`) -/
  | request (r : Request)
  /-- `parseRequest` returned false ("400 Bad Request", connection shut down) -/
  | badRequest
deriving DecidableEq, Repr

/-- the drain driver: `HttpServer::onMessage` (parse; on failure give up; on `gotAll()`
hand the request over and `reset()`), repeated while complete requests keep coming out -/
def serveLoop : Nat → Ctx → Bytes → Res Ctx Event
  | 0, ctx, buf => { s := ctx, rest := buf, dead := false, stuck := true, evs := [] }
  | n+1, ctx, buf =>
    if (parseRequest ctx buf).stuck then
      { s := ctx, rest := buf, dead := false, stuck := true, evs := [] }
    else if (parseRequest ctx buf).ok = false then
      { s := (parseRequest ctx buf).ctx, rest := (parseRequest ctx buf).rest, dead := true, stuck := false,
        evs := [.badRequest] }
    else if (parseRequest ctx buf).ctx.state = .kGotAll then
      (serveLoop n Ctx.fresh (parseRequest ctx buf).rest).pre [.request (parseRequest ctx buf).ctx.req]
    else
      { s := (parseRequest ctx buf).ctx, rest := (parseRequest ctx buf).rest, dead := false,
        stuck := false, evs := [] }

def serve (ctx : Ctx) (buf : Bytes) : Res Ctx Event := serveLoop (buf.length + 1) ctx buf

/-- the same driver flattened to one loop over lines (shown equal to `serve` in
`Proofs/Http.lean`); this is the form the generic segmentation theorem applies to -/
def step (ctx : Ctx) (buf : Bytes) : Out Ctx Event :=
  match lineStep ctx buf with
  | .need => .need
  | .fail => .fail .badRequest
  | .next ctx' k => .adv ctx' [] k
  | .done ctx' k => .adv Ctx.fresh [.request ctx'.req] k
  | .spin => .adv ctx [] 0

def init : Dec Ctx := { s := Ctx.fresh, buf := [], dead := false }

/-- one delivery to the connection's input buffer followed by the drain driver -/
def feed (d : Dec Ctx) (chunk : Bytes) : Dec Ctx × List Event :=
  if d.dead then ({ s := d.s, buf := d.buf ++ chunk, dead := true }, [])
  else
    ({ s := (serve d.s (d.buf ++ chunk)).s, buf := (serve d.s (d.buf ++ chunk)).rest,
       dead := (serve d.s (d.buf ++ chunk)).dead }, (serve d.s (d.buf ++ chunk)).evs)

def feedAll (d : Dec Ctx) : List Bytes → Dec Ctx × List Event
  | [] => (d, [])
  | c :: cs => ((feedAll (feed d c).1 cs).1, (feed d c).2 ++ (feedAll (feed d c).1 cs).2)

end MuduoVerif.Http
