/-!
# Statement skeletons of `TcpServer.cc` (Owner engine, C02): vocabulary and the skeletons the model's steps assume

`Model/Owner.lean` takes the kind / target / hold of every hand-off, the name format, the id increment, the life token
and the final drain from `Generated/Owner.lean`; the ORDER of the statements inside each function of `TcpServer.cc` is
hand-written there, and the granularity of its steps ASSUMES an order: `Owner.accept` is ONE atomic step of the acceptor
thread that ends with the hand-over of `connectEstablished` to the connection's io loop.  From that statement on the io
thread may run `connectEstablished`, poll the descriptor and reach `TcpConnection::handleClose()` (which calls
`closeCallback_`) before the acceptor thread executes another instruction; the model lets every step of every other
loop follow `accept` immediately.  That is the behaviour of the code only if nothing the acceptor thread does to the
connection comes after the hand-over - the four callback installations and the map insertion all precede it.  This file
states, function by function, the skeleton the model's step implements (`Decl.*`, each with a pointer to the model
definition); `vlib/gen/ownerskel.py` extracts the skeleton of the same functions from /repo's current `TcpServer.cc`
(`Generated/OwnerSkel.lean`, in the vocabulary below); `Proofs/OwnerSkelTie.lean` proves the two equal by `decide` and
reads the facts the steps rely on off the skeletons (`handover_is_last`, `erase_precedes_destroy`,
`token_expires_first`, `pool_before_listen`).

What the model does not have, and the extraction therefore leaves out (the same list heads `Generated/OwnerSkel.lean`):
log statements; `(void)x`, casts, `CHECK_NOTNULL`; locals without an initialiser and default-constructed members;
`MUDUO_VERIF_POINT`.

Where the model is coarser than the skeleton it implements (nothing is left out of the extraction for these):
* A1 `TcpServer::TcpServer`, `setThreadNum`, `start`: the model begins at `Owner.init L nameOf` - a server that has been
  constructed, given `L` io threads and started: `pool := Pool.start L` (every io loop exists before the first `accept`,
  which is `threadPool_->start(..)` preceding the hand-over of `Acceptor::listen`), `nextId := idInitial`, `alive := true`
  (the life token made by the constructor), `map := []`, the acceptor's callback is `newConnection` (the only step that
  creates a connection is `Action.accept`).
* A2 `newConnection` is one step (`Owner.accept`), `~TcpServer` is one step (`Owner.destroyServer`, a fold of `dtorOne`
  over the map in key order); the statements inside are sequential on the acceptor thread, and the only statement after
  which another thread can act on what the step touched is the hand-off - which is why its POSITION is what matters.
* A3 the trace event `new` of the model stands for the whole prefix of `newConnection` up to and including the map
  insertion (loop picked, name formatted, id incremented, connection created, entry inserted).
-/
namespace MuduoVerif.OwnerSkel

/-- `runInLoop` (inline on the loop's own thread, else queued) / `queueInLoop` (always queued) -/
inductive Dispatch | run | queue
deriving DecidableEq, Repr

/-- one significant action; strings are canonical prints of source expressions (casts dropped, `->` as `.`,
`std::bind(&C::f, a, b)` as `C::f(a, b)`, `std::weak_ptr<void>(x)` as `weak(x)`); the text of an assertion is its source
text; `<result>` is the value of the action just before -/
inductive Act
  | assertLoop (loop : String)                            -- `loop->assertInLoopThread()`: `abort` in the model
  | assertion (text : String)                             -- `assert(text)`
  | store (member value : String)                         -- constructor initialiser / store to a member
  | assign (var value : String)                           -- declaration of a local with an initialiser / assignment
  | create (type args : String)                           -- `new type(args)`
  | on (obj fn args : String)                             -- `obj->fn(args)` / `obj.fn(args)` on another object
  | call (fn args : String)                               -- direct call of a member function of `TcpServer`
  | mapInsert (key value : String)                        -- `connections_[key] = value`
  | mapErase (key : String)                               -- `connections_.erase(key)`
  | sys (fn args : String)                                -- `sockets::getLocalAddr`, `snprintf`
  | handoff (d : Dispatch) (loop functor : String)        -- `loop->runInLoop / queueInLoop(std::bind(&C::f, args))`
  | ret
deriving DecidableEq, Repr

/-- a statement: an action, `if (guard) { thn } else { els }`, or `for (var : range) { body }` -/
inductive Skel
  | act (a : Act)
  | ite (guard : String) (thn els : List Skel)
  | each (var range : String) (body : List Skel)
deriving Repr

/-! `deriving DecidableEq` does not handle the nesting through `List`; the instance is written out
(structural recursion, so `decide` evaluates it in the kernel). -/
mutual
def Skel.decEq : (x y : Skel) → Decidable (x = y)
  | .act a, .act a' => if h : a = a' then isTrue (by rw [h]) else isFalse (by intro e; cases e; exact h rfl)
  | .ite g t e, .ite g' t' e' =>
    if hg : g = g' then
      match Skel.decEqL t t' with
      | isTrue ht =>
        match Skel.decEqL e e' with
        | isTrue he => isTrue (by rw [hg, ht, he])
        | isFalse he => isFalse (by intro q; cases q; exact he rfl)
      | isFalse ht => isFalse (by intro q; cases q; exact ht rfl)
    else isFalse (by intro q; cases q; exact hg rfl)
  | .each v r b, .each v' r' b' =>
    if hv : v = v' then
      if hr : r = r' then
        match Skel.decEqL b b' with
        | isTrue hb => isTrue (by rw [hv, hr, hb])
        | isFalse hb => isFalse (by intro q; cases q; exact hb rfl)
      else isFalse (by intro q; cases q; exact hr rfl)
    else isFalse (by intro q; cases q; exact hv rfl)
  | .act _, .ite .. => isFalse (by intro e; cases e)
  | .act _, .each .. => isFalse (by intro e; cases e)
  | .ite .., .act _ => isFalse (by intro e; cases e)
  | .ite .., .each .. => isFalse (by intro e; cases e)
  | .each .., .act _ => isFalse (by intro e; cases e)
  | .each .., .ite .. => isFalse (by intro e; cases e)
def Skel.decEqL : (x y : List Skel) → Decidable (x = y)
  | [], [] => isTrue rfl
  | [], _ :: _ => isFalse (by intro e; cases e)
  | _ :: _, [] => isFalse (by intro e; cases e)
  | a :: as, b :: bs =>
    match Skel.decEq a b with
    | isTrue h =>
      match Skel.decEqL as bs with
      | isTrue h' => isTrue (by rw [h, h'])
      | isFalse h' => isFalse (by intro q; cases q; exact h' rfl)
    | isFalse h => isFalse (by intro q; cases q; exact h rfl)
end
instance : DecidableEq Skel := Skel.decEq
instance : DecidableEq (List Skel) := Skel.decEqL

/-! ## Reading a skeleton: what follows a hand-off

The facts the steps of `Model/Owner.lean` rely on are facts about POSITIONS inside a skeleton; they are decidable
functions of the skeleton, evaluated on the extracted one in `Proofs/OwnerSkelTie.lean`. -/

mutual
/-- the actions of a statement list in source order (both branches of an `if`, the body of a `for`) -/
def flatten : List Skel → List Act
  | [] => []
  | s :: ss => flatten1 s ++ flatten ss
def flatten1 : Skel → List Act
  | .act a => [a]
  | .ite _ t e => flatten t ++ flatten e
  | .each _ _ b => flatten b
end

def Act.isHandoff : Act → Bool
  | .handoff .. => true
  | _ => false

/-- is the action a hand-off of functor `f`? -/
def Act.handsOver (f : String) : Act → Bool
  | .handoff _ _ g => g == f
  | _ => false

/-- does the acting thread itself operate on object `v`: a member call on it, a store of it into the map or into a
member / local (another holder appears), its creation -/
def Act.touches (v : String) : Act → Bool
  | .on o _ _ => o == v
  | .mapInsert _ x => x == v
  | .store _ x => x == v
  | .assign x y => x == v || y == v
  | _ => false

/-- the member functions called on object `v`, in order -/
def callsOn (v : String) (as : List Act) : List String :=
  as.filterMap (fun a => match a with | .on o f _ => if o == v then some f else none | _ => none)

/-- the actions strictly after the first hand-off of functor `f` (`[]` if there is none) -/
def afterHandover (f : String) (as : List Act) : List Act := (as.dropWhile (fun a => !a.handsOver f)).drop 1

/-- the actions before the first hand-off of functor `f` -/
def beforeHandover (f : String) (as : List Act) : List Act := as.takeWhile (fun a => !a.handsOver f)

/-- **the hand-over of `v` by functor `f` is the last thing the function does to `v`**: `f` is handed over exactly once,
it is the only hand-off of the function, no action on `v` follows it, and every member function of `setup` has been
called on `v` before it -/
def HandoverLast (v f : String) (setup : List String) (sk : List Skel) : Prop :=
  ((flatten sk).filter Act.isHandoff).length = 1 ∧
  ((flatten sk).filter (Act.handsOver f)).length = 1 ∧
  (afterHandover f (flatten sk)).all (fun a => !a.touches v) = true ∧
  setup.all (fun m => (callsOn v (beforeHandover f (flatten sk))).contains m) = true

instance (v f : String) (setup : List String) (sk : List Skel) : Decidable (HandoverLast v f setup sk) := by
  unfold HandoverLast; exact inferInstance

/-- action `a` occurs, and every occurrence of an action satisfying `q` comes after the first `a` -/
def Precedes (a : Act) (q : Act → Bool) (as : List Act) : Prop :=
  as.contains a = true ∧ (as.takeWhile (fun x => x != a)).all (fun x => !q x) = true

instance (a : Act) (q : Act → Bool) (as : List Act) : Decidable (Precedes a q as) := by
  unfold Precedes; exact inferInstance

/-! ## The skeleton each step of the model assumes

Conventions of the reading.  `s.map` is `connections_` (`mapInsert s.map nm c` = `connections_[connName] = conn`,
`mapErase s.map nm` = `connections_.erase(conn->name())`, its result `n` is the `k` of `Owner.removeInLoop`: `.erase` iff
`k = 1`, `.eraseMiss` is the failing `assert(n == 1)`); `s.nextId` is `nextConnId_` (`s.nameOf s.nextId` = what `snprintf`
+ `name_ + buf` make of it, `nextId := s.nextId + idStep` = `++nextConnId_`, after the formatting); `s.pool` is
`threadPool_` (`Pool.getNextLoop s.pool` = `threadPool_->getNextLoop()`); `s.alive` is the life token `alive_`
(`alive := false` = `alive_.reset()`; the `!s.alive` test of `removeInLoop` = `alive.expired()`); `(s.conn c).loop` is the
`ioLoop` the connection was created with = `conn->getLoop()`; `s.enq l t` is `queueInLoop` on loop `l`, `if d = .run ∧ l =
target .. then <inline> else s.enq ..` is `runInLoop` / `queueInLoop` as the generated `Dispatch` says; `emit .. .abort l`
for `l ≠ 0` is the failing `loop_->assertInLoopThread()`. -/
namespace Decl

/-- `Owner.init L nameOf` (A1): `nextId := idInitial` (`Generated/Owner.lean`), `alive := true`, `map := []`,
`pool := Pool.start L` over loops that `start()` creates; the acceptor's callback is `newConnection` -/
def ctor : List Skel :=
  [ .act (.store "loop_" "loop"),
    .act (.store "ipPort_" "listenAddr.toIpPort()"),
    .act (.store "name_" "nameArg"),
    .act (.create "Acceptor" "loop, listenAddr, option == kReusePort"),
    .act (.store "acceptor_" "<result>"),
    .act (.create "EventLoopThreadPool" "loop, name_"),
    .act (.store "threadPool_" "<result>"),
    .act (.store "connectionCallback_" "defaultConnectionCallback"),
    .act (.store "messageCallback_" "defaultMessageCallback"),
    .act (.store "nextConnId_" "1"),
    .act (.create "int" "0"),
    .act (.store "alive_" "<result>"),
    .act (.on "acceptor_" "setNewConnectionCallback" "TcpServer::newConnection(this, _1, _2)") ]

/-- `Owner.destroyServer` (on the base loop's thread: `Action.destroy` / the functor `srvDtor` run by loop 0):
`{ s with map := [], alive := false }` FIRST (the life token expires before any connection is handed its
`connectDestroyed`: a `rem` functor that reaches the base loop later finds `!s.alive` and leaves the server alone), then
`foldl dtorOne` over `mapOrder s.map`: `dtorOne` = the entry is already reset (`map := []`; the local copy `conn` keeps
the object alive), `handDestroy .. dtorDispatch dtorTarget` (`runInLoop` on `conn->getLoop()`), then `reapOne` (the local
copy goes out of scope at the end of the loop body) -/
def dtor : List Skel :=
  [ .act (.assertLoop "loop_"),
    .act (.on "alive_" "reset" ""),
    .each "&item" "connections_"
      [ .act (.assign "conn" "item.second"),
        .act (.on "item.second" "reset" ""),
        .act (.handoff .run "conn.getLoop()" "TcpConnection::connectDestroyed(conn)") ] ]

/-- `Owner.init L ..` (A1): the `L` of the pool -/
def setThreadNum : List Skel :=
  [ .act (.assertion "0 <= numThreads"),
    .act (.on "threadPool_" "setThreadNum" "numThreads") ]

/-- `Owner.init L ..` (A1): once only (`startOnce`); the pool is started (all `L` loops exist) before `Acceptor::listen`
is handed to the base loop, so `accept` never sees a pool without its loops -/
def start : List Skel :=
  [ .ite "started_.getAndSet(1) == 0"
      [ .act (.on "threadPool_" "start" "threadInitCallback_"),
        .act (.assertion "!acceptor_->listening()"),
        .act (.handoff .run "loop_" "Acceptor::listen(get_pointer(acceptor_))") ] [] ]

/-- `Owner.accept` (A2, A3), one step on loop 0: `l := loopIndex (Pool.getNextLoop s.pool).1`, `nm := s.nameOf
s.nextId`, `nextId := s.nextId + idStep`, the connection `{ loop := l, name := nm, st := .kConnecting, alive := true, .. }`,
`map := mapInsert s.map nm c`, trace `new` - and LAST `s1.enq (target s1 c establishTarget) (.est c)` (or
`connectEstablished s1 0 c` inline when `L = 0`).  The step installs no callback because in the model the callbacks are
there from the connection's first event on: `handleClose` always emits `closeCb` and calls `removeConnection` - the four
installations are part of the step, ahead of the hand-over. -/
def newConnection : List Skel :=
  [ .act (.assertLoop "loop_"),
    .act (.on "threadPool_" "getNextLoop" ""),
    .act (.assign "ioLoop" "<result>"),
    .act (.sys "snprintf" "buf, sizeof(buf), \"-%s#%d\", ipPort_.c_str(), nextConnId_"),
    .act (.store "nextConnId_" "++nextConnId_"),
    .act (.assign "connName" "name_ + buf"),
    .act (.sys "getLocalAddr" "sockfd"),
    .act (.assign "localAddr" "<result>"),
    .act (.create "TcpConnection" "ioLoop, connName, sockfd, localAddr, peerAddr"),
    .act (.assign "conn" "<result>"),
    .act (.mapInsert "connName" "conn"),
    .act (.on "conn" "setConnectionCallback" "connectionCallback_"),
    .act (.on "conn" "setMessageCallback" "messageCallback_"),
    .act (.on "conn" "setWriteCompleteCallback" "writeCompleteCallback_"),
    .act (.on "conn" "setCloseCallback" "TcpServer::removeConnectionGuarded(weak(alive_), this, loop_, _1)"),
    .act (.handoff .run "ioLoop" "TcpConnection::connectEstablished(conn)") ]

/-- the unguarded form of the close callback (`removeGuarded = false` in `Owner.removeConnection` / `removeInLoop`; kept
by the source, no longer installed by `newConnection`): one hand-off to the base loop -/
def removeConnection : List Skel :=
  [ .act (.handoff .run "loop_" "TcpServer::removeConnectionInLoop(this, conn)") ]

/-- `Owner.removeConnection` (the close callback, on the connection's loop): `if removeDispatch = .run ∧ l = target s c
removeTarget then removeInLoop s l c else s.enq (target ..) (.rem c)` - one hand-off to the base loop and nothing else -/
def removeConnectionGuarded : List Skel :=
  [ .act (.handoff .run "baseLoop" "TcpServer::removeConnectionIfAlive(alive, server, conn)") ]

/-- first test of `Owner.removeInLoop`: `if !s.alive then (if removeGuarded && dtorExpiresToken then s else ..)` - the
server is touched only under the token -/
def removeConnectionIfAlive : List Skel :=
  [ .ite "!alive.expired()"
      [ .act (.on "server" "removeConnectionInLoop" "conn") ] [] ]

/-- rest of `Owner.removeInLoop`: `if l ≠ 0 then abort`, `k := ..`, `map := mapErase s.map (s.conn c).name` with the event
`erase` / `eraseMiss`, THEN `handDestroy .. destroyDispatch destroyTarget` (`queueInLoop` on `conn->getLoop()`): the
entry is gone before `connectDestroyed` can run -/
def removeConnectionInLoop : List Skel :=
  [ .act (.assertLoop "loop_"),
    .act (.mapErase "conn.name()"),
    .act (.assign "n" "<result>"),
    .act (.assertion "n == 1"),
    .act (.assign "ioLoop" "conn.getLoop()"),
    .act (.handoff .queue "ioLoop" "TcpConnection::connectDestroyed(conn)") ]

end Decl

end MuduoVerif.OwnerSkel
