import MuduoVerif.Generated.Pool
/-!
Model of the loop selection of `muduo::net::EventLoopThreadPool`
(muduo/net/EventLoopThreadPool.cc: `getNextLoop`, `getLoopForHash`, `getAllLoops`).

After `start()` the pool holds `loops_` = the loops of the `numThreads_` worker threads in creation
order, so a loop is identified by its index: `worker i` is `loops_[i]`, `base` is `baseLoop_`.
The state that matters is the size of `loops_` and the round-robin cursor `next_`.

Every guard, every subscript expression, the cursor update and the initial cursor value come from
`Generated/Pool.lean`, i.e. from the current source.  A subscript outside `loops_` (undefined
behaviour in the code) is kept visible as `oob i` instead of being clamped, so that a wrong cursor
or a wrong hash reduction produces a wrong answer of the model as well.
-/
namespace MuduoVerif.Pool
open MuduoVerif.Gen.Pool

/-- which `EventLoop*` a call hands out -/
inductive LoopRef where
  /-- `baseLoop_` -/
  | base
  /-- `loops_[i]`, `i < loops_.size()` -/
  | worker (i : Nat)
  /-- `loops_[i]` with `i ≥ loops_.size()`: out of range -/
  | oob (i : Nat)
deriving DecidableEq, Repr

/-- `n` = `loops_.size()` (= `numThreads_` once started), `next` = `next_` -/
structure Pool where
  n    : Nat
  next : Nat
deriving DecidableEq, Repr

/-- the state `start()` leaves behind when `setThreadNum(n)` was called before -/
def start (n : Nat) : Pool := ⟨n, initialNext⟩

/-- `loops_[i]` -/
def subscript (n i : Nat) : LoopRef := if i < n then .worker i else .oob i

/-- `EventLoopThreadPool::getNextLoop` -/
def getNextLoop (p : Pool) : LoopRef × Pool :=
  if nextGuard p.n then
    (subscript p.n (nextIndex p.next p.n), { p with next := nextCursor p.next p.n })
  else
    (.base, p)

/-- `EventLoopThreadPool::getLoopForHash` (does not touch the cursor) -/
def getLoopForHash (p : Pool) (h : Nat) : LoopRef :=
  if hashGuard p.n then subscript p.n (hashIndex h p.n) else .base

/-- `EventLoopThreadPool::getAllLoops` -/
def getAllLoops (p : Pool) : List LoopRef :=
  if allEmpty p.n then List.replicate allBaseCount .base else (List.range p.n).map .worker

/-- the pool after `k` calls of `getNextLoop` -/
def afterNext (p : Pool) : Nat → Pool
  | 0 => p
  | k + 1 => afterNext (getNextLoop p).2 k

/-- the results of `k` successive calls of `getNextLoop` -/
def nextSeq (p : Pool) : Nat → List LoopRef
  | 0 => []
  | k + 1 => (getNextLoop p).1 :: nextSeq (getNextLoop p).2 k

end MuduoVerif.Pool
