import MuduoVerif.Generated.LogStream
/-!
Model of `muduo::LogStream` / `detail::FixedBuffer` (muduo/base/LogStream.{h,cc}),
`Logger::Impl` (muduo/base/Logging.{h,cc}) and `formatSI` / `formatIEC`.

Characters are their codes (`Nat`); a byte string is a `List Nat`.  Constants, tables,
space guards, printf formats, the order of the pieces of a log line, the macro gates, the
SI/IEC branch tables and the calendar arithmetic come from `Generated/LogStream.lean`
(re-extracted from /repo on every run); the two digit loops, the buffer, the printf
interpreter for `%d`, the per-thread time cache, the per-thread tid cache (its guards, initial
values, the statements of `Impl::Impl` and of the thread start-up code are generated) and the floating-point arithmetic of
`formatSI`/`formatIEC` (exact, over `Nat`) are written here.
-/
namespace MuduoVerif.LogStream
open MuduoVerif.Gen.LogStream

abbrev Bytes := List Nat

/-! ### the two digit loops (`detail::convert`, `detail::convertHex`) -/

/-- `zero[lsd]` with `zero = digits + zeroOffset`; `lsd` is negative for negative values -/
def zeroAt (lsd : Int) : Nat := digits.getD (Int.toNat ((zeroOffset : Int) + lsd)) 0

/-- the characters the `do … while (i != 0)` loop of `convert` stores, least significant
first; `fuel` bounds the number of further iterations (`|i|` is always enough) -/
def digitLoop : Nat → Int → Bytes
  | 0, i => [zeroAt (Int.tmod i radixDec)]
  | fuel + 1, i =>
    if Int.tdiv i radixDec = 0 then [zeroAt (Int.tmod i radixDec)]
    else zeroAt (Int.tmod i radixDec) :: digitLoop fuel (Int.tdiv i radixDec)

/-- `convert(buf, value)`: digits, then `-` for a negative value, then `std::reverse` -/
def convert (v : Int) : Bytes :=
  (digitLoop v.natAbs v ++ (if v < 0 then [45] else [])).reverse

def hexLoop : Nat → Nat → Bytes
  | 0, i => [digitsHex.getD (i % radixHex) 0]
  | fuel + 1, i =>
    if i / radixHex = 0 then [digitsHex.getD (i % radixHex) 0]
    else digitsHex.getD (i % radixHex) 0 :: hexLoop fuel (i / radixHex)

/-- `convertHex(buf, value)` -/
def convertHex (v : Nat) : Bytes := (hexLoop v v).reverse

/-! ### specification of the printf conversions `%d` / `%u` / `%ld` … and `%X` -/

/-- decimal digits of `n`, most significant first, in front of `acc` -/
def decimalAux : Nat → Nat → Bytes → Bytes
  | 0, n, acc => (48 + n % 10) :: acc
  | fuel + 1, n, acc =>
    if n < 10 then (48 + n) :: acc else decimalAux fuel (n / 10) ((48 + n % 10) :: acc)

/-- `%u`: no leading zeros, `"0"` for zero -/
def decimalNat (n : Nat) : Bytes := decimalAux n n []

/-- `%d` of any integer: sign, then the digits of the magnitude -/
def decimal (v : Int) : Bytes := if v < 0 then 45 :: decimalNat v.natAbs else decimalNat v.natAbs

def hexChar (d : Nat) : Nat := if d < 10 then 48 + d else 55 + d

def hexAux : Nat → Nat → Bytes → Bytes
  | 0, n, acc => hexChar (n % 16) :: acc
  | fuel + 1, n, acc =>
    if n < 16 then hexChar n :: acc else hexAux fuel (n / 16) (hexChar (n % 16) :: acc)

/-- `%X` (upper case, no prefix) -/
def hexUpper (n : Nat) : Bytes := hexAux n n []

/-! ### `FixedBuffer<SIZE>` and the insertion operators of `LogStream` -/

structure FixedBuf where
  cap  : Nat       -- SIZE
  data : Bytes     -- `data_[0 .. cur_)`
deriving Repr, DecidableEq

def mkBuf (cap : Nat) : FixedBuf := { cap := cap, data := [] }

/-- `avail()` -/
def avail (b : FixedBuf) : Nat := b.cap - b.data.length

/-- one thing handed to a `LogStream` -/
inductive Item
  | int (v : Int)          -- any integer type (value of that type): `formatInteger`
  | ptr (v : Nat)          -- `const void*`
  | dbl (text : Bytes)     -- `double`: what `snprintf("%.12g")` produced (environment input)
  | bool (b : Bool)
  | chr (c : Nat)
  | str (s : Bytes)        -- `append(data, len)`: string / StringPiece / `const char*` / `T`
deriving Repr, DecidableEq

/-- the characters the item contributes when it is inserted -/
def Item.text : Item → Bytes
  | .int v => convert v
  | .ptr v => pointerPrefix ++ convertHex v
  | .dbl t => t
  | .bool b => if b then boolTrue else boolFalse
  | .chr c => [c]
  | .str s => s

/-- the space test the code makes before it writes the item -/
def Item.fits (room : Nat) : Item → Prop
  | .int _ => integerFits room
  | .ptr _ => pointerFits room
  | .dbl _ => doubleFits room
  | .bool b => appendFits room (if b then boolTrue else boolFalse).length
  | .chr _ => appendFits room 1
  | .str s => appendFits room s.length

instance (room : Nat) (it : Item) : Decidable (it.fits room) := by
  cases it <;> simp only [Item.fits] <;> infer_instance

def insert (b : FixedBuf) (it : Item) : FixedBuf :=
  if it.fits (avail b) then { b with data := b.data ++ it.text } else b

def run (b : FixedBuf) (items : List Item) : FixedBuf := items.foldl insert b

/-- `operator<<(const char*)` uses `strlen` -/
def cstr (s : Bytes) : Bytes := s.takeWhile (· ≠ 0)

/-! ### `snprintf` for formats made of literal characters and `%[0][width]d` -/

inductive Dir
  | lit (c : Nat)
  | int (zero : Bool) (width : Nat)
deriving Repr, DecidableEq

/-- state: `none` outside a conversion, `some (zeroFlag, width, sawWidthDigit)` inside -/
def parseFmtGo : Option (Bool × Nat × Bool) → Bytes → List Dir
  | _, [] => []
  | none, c :: rest => if c = 37 then parseFmtGo (some (false, 0, false)) rest else .lit c :: parseFmtGo none rest
  | some (z, w, started), c :: rest =>
    if c = 100 then .int z w :: parseFmtGo none rest
    else if c = 48 ∧ started = false then parseFmtGo (some (true, w, false)) rest
    else if 48 ≤ c ∧ c ≤ 57 then parseFmtGo (some (z, w * 10 + (c - 48), true)) rest
    else .lit c :: parseFmtGo none rest

def parseFmt (fmt : Bytes) : List Dir := parseFmtGo none fmt

/-- `%[0]<w>d` -/
def fmtInt (zero : Bool) (w : Nat) (v : Int) : Bytes :=
  let s := decimal v
  if zero then
    if v < 0 then 45 :: (List.replicate (w - s.length) 48 ++ decimalNat v.natAbs)
    else List.replicate (w - s.length) 48 ++ s
  else List.replicate (w - s.length) 32 ++ s

def sprintf : List Dir → List Int → Bytes
  | [], _ => []
  | .lit c :: ds, args => c :: sprintf ds args
  | .int z w :: ds, a :: args => fmtInt z w a ++ sprintf ds args
  | .int _ _ :: ds, [] => sprintf ds []

/-! ### the time stamp (`Logger::Impl::formatTime`) -/

structure DateTime where
  year : Int
  month : Int
  day : Int
  hour : Int
  minute : Int
  second : Int
deriving Repr, DecidableEq

/-- `detail::BreakTime` = `TimeZone::toUtcTime`; its arithmetic is generated -/
def breakTime (t : Int) : DateTime :=
  let sd := breakSplit t
  let hms := fillHMS sd.1
  let ymd := getYearMonthDay sd.2
  { year := ymd.1, month := ymd.2.1, day := ymd.2.2, hour := hms.1, minute := hms.2.1, second := hms.2.2 }

/-- `g_logTimeZone`: `none` = invalid zone (UTC, marked `Z`), `some off` = fixed zone `off` seconds east -/
abbrev Zone := Option Int

/-- `g_logTimeZone.toLocalTime(seconds)` for a fixed zone / `TimeZone::toUtcTime(seconds)` -/
def zoneTime (z : Zone) (seconds : Int) : DateTime :=
  match z with
  | some off => breakTime (seconds + off)
  | none => breakTime seconds

/-- the text `snprintf(t_time, …)` stores for one second -/
def secondText (z : Zone) (seconds : Int) : Bytes :=
  let dt := zoneTime z seconds
  sprintf (parseFmt timeFormat) [dt.year, dt.month, dt.day, dt.hour, dt.minute, dt.second]

/-- per-thread cache: `t_lastSecond`, `t_lastZoneGen`, `t_time` (zero-initialised thread-local storage) -/
structure TimeCache where
  lastSecond : Int
  zoneGen : Int        -- `t_lastZoneGen`: the value of `g_logTimeZoneGen` the text was formatted under
  text : Bytes
deriving Repr, DecidableEq

def TimeCache.fresh : TimeCache := { lastSecond := 0, zoneGen := lastZoneGenInit, text := [] }

/-- `T(p, n)`: exactly `n` bytes starting at `p` (zero bytes after the text: static storage) -/
def readN (n : Nat) (s : Bytes) : Bytes := (s ++ List.replicate n 0).take n

/-- the cache after `formatTime` looked at the instant; `gen` is `g_logTimeZoneGen`, the number of
`Logger::setTimeZone` calls so far -/
def cacheStep (z : Zone) (gen : Int) (c : TimeCache) (us : Int) : TimeCache :=
  let seconds := splitSeconds us
  if cacheMiss seconds c.lastSecond gen c.zoneGen then
    { lastSecond := seconds, zoneGen := if cacheStoresGen then gen else c.zoneGen, text := secondText z seconds }
  else c

/-- the `Fmt us(".%06d ", microseconds)` text -/
def usText (z : Zone) (us : Int) : Bytes :=
  sprintf (parseFmt (if z.isSome then usFormatZone else usFormatUtc)) [splitMicros us]

/-! ### the thread id cache (`CurrentThread::t_cachedTid`, `t_tidString`, `t_tidStringLength`) -/

/-- the three thread-local variables of one thread -/
structure TidState where
  cached : Int      -- `t_cachedTid` (0: nothing cached yet)
  str : Bytes       -- the text in `t_tidString` (zero bytes behind it: zero-filled thread-local storage)
  len : Int         -- `t_tidStringLength`
deriving Repr, DecidableEq

/-- a thread that has not run any muduo code yet: the initialisers of CurrentThread.cc -/
def TidState.fresh : TidState := { cached := tidInitCached, str := [], len := tidInitLength }

/-- what `snprintf(t_tidString, sizeof t_tidString, "%5d ", tid)` stores -/
def tidText (tid : Int) : Bytes := sprintf (parseFmt tidFormat) [tid]

/-- `CurrentThread::cacheTid()`; `gettid` is what the system call returns on the calling thread -/
def cacheTid (gettid : Int) (t : TidState) : TidState :=
  if cacheTidGuard t.cached then
    { cached := gettid, str := tidText gettid, len := cacheTidLength (tidText gettid).length }
  else t

/-- `CurrentThread::tid()` (for its effect on the cache) -/
def tidCall (gettid : Int) (t : TidState) : TidState :=
  if tidCacheEmpty t.cached then cacheTid gettid t else t

/-- the cache of a thread that has cached its own id -/
def TidState.of (tid : Int) : TidState := { cached := tid, str := tidText tid, len := (tidText tid).length }

def tidStep (gettid : Int) (t : TidState) : TidStep → TidState
  | .reset => { t with cached := 0 }
  | .callTid => tidCall gettid t

def tidRun (gettid : Int) (t : TidState) (steps : List TidStep) : TidState := steps.foldl (tidStep gettid) t

/-- how the emitting thread came to be -/
inductive ThreadKind
  | main                      -- the thread that ran the static initialisers
  | muduoThread               -- started by `muduo::Thread`
  | foreign (calledTid : Bool)  -- created with `pthread_create` / `std::thread`; `calledTid`: it has called `CurrentThread::tid()` itself
  | forkChild (parentTid : Int) (parent : TidState)  -- the thread that returned from `fork()` in the child
deriving Repr, DecidableEq

/-- the tid cache of a thread of that kind whose kernel id is `tid`, when it reaches its first log statement -/
def entryState (tid : Int) : ThreadKind → TidState
  | .main => tidRun tid TidState.fresh staticInitSteps
  | .muduoThread => tidRun tid TidState.fresh threadStartSteps
  | .foreign called => if called then tidCall tid TidState.fresh else TidState.fresh
  | .forkChild _ parent => if atforkChildRegistered then tidRun tid parent afterForkSteps else parent

/-- `T(tidString(), tidStringLength())`: `tidStringLength()` bytes starting at `t_tidString` -/
def tidField (t : TidState) : Bytes := readN t.len.toNat t.str

/-- the `assert(strlen(str) == len_)` of the helper class `T` for that insertion (builds without NDEBUG) -/
def tidAssert (t : TidState) : Prop := ((cstr t.str).length : Int) = t.len
instance : Decidable (tidAssert t) := by unfold tidAssert; infer_instance

/-! ### one log line (`Logger::Impl::Impl`, the `Logger` constructors, `finish`) -/

/-- `SourceFile`: what follows the last `/` -/
def basename (path : Bytes) : Bytes := (path.reverse.takeWhile (· ≠ 47)).reverse

structure LogReq where
  level : Nat            -- `LogLevel` given to `Impl`
  errno : Int            -- `savedErrno` (0 unless the `bool` constructor was used)
  errText : Bytes        -- `strerror_tl(savedErrno)` (environment input)
  func : Option Bytes    -- `__func__` (TRACE / DEBUG constructor)
  file : Bytes           -- `__FILE__`
  line : Int
  tid : Int              -- what `gettid` returns on this thread (environment input)
  us : Int               -- `Timestamp::now()` (environment input)
  msg : List Item        -- what the caller streams into the Logger
deriving Repr, DecidableEq

structure LineEnv where
  timeText : Bytes
  usText : Bytes
  tid : TidState         -- the thread's tid cache at this point of `Impl::Impl`
  req : LogReq

def pieceItem (e : LineEnv) : Piece → Item
  | .lit s => .str (cstr s)
  | .chr c => .chr c
  | .base => .str (basename e.req.file)
  | .line => .int e.req.line
  | .errtext => .str (cstr e.req.errText)
  | .errno => .int e.req.errno
  | .func => .str (cstr (e.req.func.getD []))
  | .tid => .str (tidField e.tid)
  | .level n => .str (readN n (logLevelName.getD e.req.level []))
  | .time n => .str (readN n e.timeText)
  | .us n => .str (readN n e.usText)

/-- one statement of `Impl::Impl`: the tid cache afterwards and what it inserted -/
def implStep (z : Zone) (e : LineEnv) : ImplStep → LineEnv × List Item
  | .formatTime => (e, (if z.isSome then timePiecesZone else timePiecesUtc).map (pieceItem e))
  | .callTid => ({ e with tid := tidCall e.req.tid e.tid }, [])
  | .ins ps => (e, ps.map (pieceItem e))
  | .errnoIf ps => (e, if errnoShown e.req.errno then ps.map (pieceItem e) else [])

/-- the statements of `Impl::Impl` in order -/
def implRun (z : Zone) : LineEnv → List ImplStep → LineEnv × List Item
  | e, [] => (e, [])
  | e, s :: rest => ((implRun z (implStep z e s).1 rest).1, (implStep z e s).2 ++ (implRun z (implStep z e s).1 rest).2)

/-- the `assert` of `T` holds at every insertion of the tid string (asserts-on builds abort otherwise) -/
def implAsserts (z : Zone) : LineEnv → List ImplStep → Bool
  | _, [] => true
  | e, s :: rest =>
    (match s with
     | .ins ps => decide (Piece.tid ∈ ps → tidAssert e.tid)
     | _ => true) && implAsserts z (implStep z e s).1 rest

def lineEnv (z : Zone) (gen : Int) (c : TimeCache) (t : TidState) (r : LogReq) : LineEnv :=
  { timeText := (cacheStep z gen c r.us).text, usText := usText z r.us, tid := t, req := r }

/-- everything a Logger whose `Impl::Impl` consists of `steps` inserts: those statements, the `func` constructor's
body, the caller's message, `finish` -/
def lineItemsOf (steps : List ImplStep) (z : Zone) (gen : Int) (c : TimeCache) (t : TidState) (r : LogReq) : List Item :=
  let res := implRun z (lineEnv z gen c t r) steps
  res.2 ++ (if r.func.isSome then funcPieces else []).map (pieceItem res.1) ++ r.msg ++ finishPieces.map (pieceItem res.1)

structure LineResult where
  cache : TimeCache      -- the thread's time cache afterwards
  tid : TidState         -- the thread's tid cache afterwards
  asserts : Bool         -- no `assert` of `T` failed (otherwise a build without NDEBUG aborts before any output)
  text : Bytes           -- what `~Logger` hands to `g_output`
deriving Repr, DecidableEq

def logLineOf (steps : List ImplStep) (z : Zone) (gen : Int) (c : TimeCache) (t : TidState) (r : LogReq) : LineResult :=
  { cache := cacheStep z gen c r.us,
    tid := (implRun z (lineEnv z gen c t r) steps).1.tid,
    asserts := implAsserts z (lineEnv z gen c t r) steps,
    text := (run (mkBuf kSmallBuffer) (lineItemsOf steps z gen c t r)).data }

/-- the code that exists: the statements of `Impl::Impl` as extracted -/
def lineItems := lineItemsOf implSteps
def logLine := logLineOf implSteps

/-- a `LOG_*` macro statement produces a line iff -/
def emits (m : Nat) (configured : Nat) : Prop := macroGate m configured
instance : Decidable (emits m configured) := by unfold emits; infer_instance

/-! ### the logger of one thread over time -/

inductive LogOp
  | log (r : LogReq)
  | setZone (z : Zone)
deriving Repr, DecidableEq

structure LogState where
  zone : Zone            -- `g_logTimeZone`
  gen : Int              -- `g_logTimeZoneGen`
  cache : TimeCache      -- of the logging thread
  tid : TidState         -- of the logging thread
deriving Repr, DecidableEq

/-- process start, seen from a thread (of any kind) before its first log statement -/
def LogState.init (t : TidState) : LogState := { zone := none, gen := zoneGenInit, cache := TimeCache.fresh, tid := t }

def logStep (s : LogState) : LogOp → LogState × List Bytes
  | .log r =>
    let res := logLine s.zone s.gen s.cache s.tid r
    ({ s with cache := res.cache, tid := res.tid }, [res.text])
  | .setZone z => ({ s with zone := z, gen := if zoneGenBumped then s.gen + 1 else s.gen }, [])

def logRun : LogState → List LogOp → List Bytes
  | _, [] => []
  | s, op :: rest => (logStep s op).2 ++ logRun (logStep s op).1 rest

/-- the state after a sequence of operations -/
def logAfter (s : LogState) (ops : List LogOp) : LogState := ops.foldl (fun s op => (logStep s op).1) s

/-! ### exact arithmetic of `formatSI` / `formatIEC` -/

/-- nearest integer to `a / b`, ties to even -/
def rne (a b : Nat) : Nat :=
  let q := a / b
  let r := a % b
  if 2 * r < b then q else if b < 2 * r then q + 1 else if q % 2 = 0 then q else q + 1

/-- `static_cast<double>(s)` for `0 ≤ s < 2^64`: round to 53 significant bits, ties to even -/
def rnInt (s : Nat) : Nat :=
  if s < 2 ^ 53 then s else rne s (2 ^ (Nat.log2 s - 52)) * 2 ^ (Nat.log2 s - 52)

/-- the correctly rounded `double` quotient `a / b` of two positive doubles holding integers,
as the fraction `num / den` (`den` a power of two).  No overflow, no subnormal results:
`2^-64 ≤ a / b < 2^1000`. -/
def rnDiv (a b : Nat) : Nat × Nat :=
  let j := Nat.log2 (a * 2 ^ 64 / b)
  if j ≤ 116 then (rne (a * 2 ^ (116 - j)) b, 2 ^ (116 - j))
  else (rne a (b * 2 ^ (j - 116)) * 2 ^ (j - 116), 1)

/-- `%.<k>f` of the non-negative value `q.1 / q.2`: the integer `round_half_even(value * 10^k)` -/
def fixedR (k : Nat) (q : Nat × Nat) : Nat := rne (q.1 * 10 ^ k) q.2

/-- … and its text: at least `k + 1` digits, a point in front of the last `k` -/
def renderFixed (k : Nat) (r : Nat) : Bytes :=
  let ds := decimalNat r
  let ds := List.replicate (k + 1 - ds.length) 48 ++ ds
  if k = 0 then ds else ds.take (ds.length - k) ++ [46] ++ ds.drop (ds.length - k)

/-- `snprintf(buf, …, "%.<k>f<unit>", n / 1e<e>)` with `n = (double) s` -/
def siFormat (s k e : Nat) (unit : Bytes) : Bytes :=
  renderFixed k (fixedR k (rnDiv (rnInt s) (10 ^ e))) ++ unit

/-- the `if … else if …` cascade; a row marked `true` compares the converted value
`n = (double) s` with its bound, a row marked `false` the 64-bit integer `s` itself -/
def siGo (s : Nat) : List (Bool × Nat × Nat × Nat × Bytes) → Bytes
  | [] => siFormat s siLast.1 siLast.2.1 siLast.2.2
  | (onDouble, thr, k, e, u) :: rest =>
    if (if onDouble then rnInt s else s) < thr then siFormat s k e u else siGo s rest

/-- `formatSI(s)` for `0 ≤ s < 2^63` -/
def formatSI (s : Nat) : Bytes := if s < siIntBelow then decimalNat s else siGo s siTable

/-- `snprintf(buf, …, "%.<k>f<unit>", n / 2^j)`: the division by a power of two is exact -/
def iecFormat (n k j : Nat) (unit : Bytes) : Bytes :=
  renderFixed k (fixedR k (n, 2 ^ j)) ++ unit

def iecGo (n : Nat) : List (Nat × Nat × Nat × Nat × Bytes) → Bytes
  | [] => iecFormat n iecLast.1 iecLast.2.1 iecLast.2.2
  | (num, den, k, j, u) :: rest => if n * den < num then iecFormat n k j u else iecGo n rest

/-- `formatIEC(s)` for `0 ≤ s < 2^63`; all comparisons are made on `n = (double) s` -/
def formatIEC (s : Nat) : Bytes :=
  if rnInt s < iecIntBelow then decimalNat s else iecGo (rnInt s) iecTable

end MuduoVerif.LogStream
