import MuduoVerif.Generated.LogStream
/-!
# Statement skeletons of LogStream / Logging (C17): vocabulary and the skeletons the model implements

`Model/LogStream.lean` takes the constants, the digit tables, every space guard, the printf formats, the pieces of a
log line (incl. the statement list of `Logger::Impl::Impl`, `implSteps`, which it executes) and the branch tables of
`formatSI` / `formatIEC` from `Generated/LogStream.lean`; the ORDER and NESTING of the statements of the other
functions (the digit of the OLD value stored, the division, then the test - a `do .. while`; the sign behind the digits
and in front of the reverse; the length added only when the space test passed; the copy before `cur_` moves; the
cached second and the zone generation stored only on a cache miss, the text rebuilt in the same branch; `finish()`
before the hand-over to `g_output`) is hand-written there.  This file states, function by function, the skeleton that
the model's definition implements (`Decl.*`, written by reading `Model/LogStream.lean`, each with a pointer to the
model definition it mirrors).  `vlib/gen/logstreamskel.py` extracts the skeleton of the same functions from /repo's
current `muduo/base/LogStream.h` / `LogStream.cc` / `Logging.cc` (`Generated/LogStreamSkel.lean`, in the vocabulary
below) and `Proofs/LogStreamSkelTie.lean` proves the two equal by `decide`.  A source change that swaps two
statements, moves a call into or out of an `if`, merges two `if`s into `if / else if`, drops an `else`, turns a
`do .. while` into a `while`, duplicates or drops a statement in one of these functions changes the extracted skeleton
and breaks that proof.

An `ite` / `loop` is named after the generated guard (`Gen.LogStream.<name>`) the model branches on at that point, the
tests of the two cascades after the table row generated from them (`siRow<i>` / `iecRow<i>`); a condition the model has
no generated guard for is printed (`i != 0`, `value < 0`, `str`, `g_logTimeZone.valid()`, `impl_.level_ == FATAL`).
Insertion chains are lists of `Gen.LogStream.Piece` - the declared ones ARE the generated piece lists the model inserts
(`finishPieces`, `timePiecesZone`, `timePiecesUtc`).  Expressions are canonical prints of the source expressions (casts
dropped, minimal parentheses).  Core Lean + `Generated/LogStream.lean`.

Classes of statements that are NOT part of a skeleton (the generator ignores exactly these):
* I1 (no log statement or diagnostic output occurs in these functions);
* I2 declarations of locals without an initialiser or default-constructed (`char buf[64]`, `struct DateTime dt`);
* I3 casts of every kind and `(void)len` - the model computes over `Int` / `Nat` / code lists (the one cast with a
  meaning, `static_cast<double>(s)` of `formatSI` / `formatIEC`, is `rnInt`; `vlib/gen/logstream.py` checks it is there);
* I4 the base-class initialiser and default-constructed members of a constructor;
* I5 `static_assert`, `MUDUO_VERIF_POINT`, empty statements.
Not declared (and not extracted): `Logger::Impl::Impl` - `Gen.LogStream.implSteps` is its statement list and
`implRun` executes it; the `Logger` constructors (`funcPieces`); the getters of `FixedBuffer` / `Fmt`.

Declared beyond what the model computes with (listed as the code performs them; the model's reading is given at the
function):
* D1 the terminating NUL of `convert` / `convertHex` (`*p = '\0'`): outside the returned range `[buf, p)`, which is all
  the model's `Bytes` hold;
* D2 the FATAL tail of `~Logger` (`g_flush(); abort();`): `logLineOf` ends with the text handed to `g_output`; that a
  FATAL statement (and only that) aborts after its line is judged by the oracle of `vlib/props/c17.py`;
* D3 `return *this` / `return s` of the insertion operators: the model's `run` folds `insert` over the items.
-/
namespace MuduoVerif.LogStreamSkel
open MuduoVerif.Gen.LogStream

/-- `while (g) body` tests before the first iteration, `do body while (g)` after it -/
inductive LoopKind | whileDo | doWhile
deriving DecidableEq, Repr

/-- one significant action; strings are canonical prints of source expressions -/
inductive Act
  | store (lhs value : String)        -- `lhs = value` on a member / global / through a pointer (`x += e` is the store of `x + e`)
  | assign (var value : String)       -- an initialised local, an assignment to a local; `<result>` = value of the action before
  | call (fn args : String)           -- another function of the engine: `convert`, `buffer_.append`, `operator<<(int)`, `g_output`, ...
  | sys (fn args : String)            -- a libc call: `memcpy`, `snprintf`, `reverse`, `abort`
  | lock (mutex : String)             -- (`MutexLockGuard`; does not occur)
  | ins (pieces : List Piece)         -- `stream_ << a << b ..`
  | fmtRow (dst bound row : String)   -- `snprintf(dst, bound, <format and argument of that row of siTable / iecTable>)`
  | assertion (cond : String)         -- `assert(cond)`
  | brk                               -- (`break`; does not occur)
  | ret (value : String)              -- `return value`
deriving DecidableEq, Repr

/-- a statement: an action, `if (guard) { thn } else { els }`, or a loop -/
inductive Skel
  | act (a : Act)
  | ite (guard : String) (thn els : List Skel)
  | loop (kind : LoopKind) (guard : String) (body : List Skel)
deriving Repr

/-! `deriving DecidableEq` does not handle the nesting through `List`; the instance is written out
(structural recursion, so `decide` evaluates it in the kernel). -/
mutual
def Skel.decEq : (x y : Skel) → Decidable (x = y)
  | .act a, .act a' => if h : a = a' then isTrue (by rw [h]) else isFalse (by intro e; cases e; exact h rfl)
  | .ite g t e, .ite g' t' e' =>
    if hg : g = g' then
      match Skel.decEqL t t' with
      | isTrue ht =>
        match Skel.decEqL e e' with
        | isTrue he => isTrue (by rw [hg, ht, he])
        | isFalse he => isFalse (by intro q; cases q; exact he rfl)
      | isFalse ht => isFalse (by intro q; cases q; exact ht rfl)
    else isFalse (by intro q; cases q; exact hg rfl)
  | .loop k g b, .loop k' g' b' =>
    if hk : k = k' then
      if hg : g = g' then
        match Skel.decEqL b b' with
        | isTrue hb => isTrue (by rw [hk, hg, hb])
        | isFalse hb => isFalse (by intro q; cases q; exact hb rfl)
      else isFalse (by intro q; cases q; exact hg rfl)
    else isFalse (by intro q; cases q; exact hk rfl)
  | .act _, .ite .. => isFalse (by intro e; cases e)
  | .act _, .loop .. => isFalse (by intro e; cases e)
  | .ite .., .act _ => isFalse (by intro e; cases e)
  | .ite .., .loop .. => isFalse (by intro e; cases e)
  | .loop .., .act _ => isFalse (by intro e; cases e)
  | .loop .., .ite .. => isFalse (by intro e; cases e)
def Skel.decEqL : (x y : List Skel) → Decidable (x = y)
  | [], [] => isTrue rfl
  | [], _ :: _ => isFalse (by intro e; cases e)
  | _ :: _, [] => isFalse (by intro e; cases e)
  | a :: as, b :: bs =>
    match Skel.decEq a b with
    | isTrue h =>
      match Skel.decEqL as bs with
      | isTrue h' => isTrue (by rw [h, h'])
      | isFalse h' => isFalse (by intro q; cases q; exact h' rfl)
    | isFalse h => isFalse (by intro q; cases q; exact h rfl)
end
instance : DecidableEq Skel := Skel.decEq
instance : DecidableEq (List Skel) := Skel.decEqL

/-! ## The skeleton each model function implements

Conventions of the reading (`b : FixedBuf` is a `FixedBuffer`, `b.data` = `[data_, cur_)`, `avail b` = `avail()`).
* `insert b it = if it.fits (avail b) then { b with data := b.data ++ it.text } else b` is every insertion operator:
  `it.fits` is the generated space guard of that operator, `b.data ++ it.text` the bytes written at `cur_` followed by
  `cur_` moving behind them.  For `Item.str / chr / bool` the write is `FixedBuffer::append` (`memcpy`, then
  `cur_ += len`); for `Item.int / ptr / dbl` the text is generated in place at `current()` and `add(len)` moves `cur_`.
* `run b items = items.foldl insert b`: the operators return the stream (D3).
* A recursion of the model on a test is `loop`; a recursion over a generated table is the `else if` cascade whose i-th
  test is that row.
* `if g .. then A else B` on a generated guard `g` is `ite "g" A B`; a `match` on `z : Zone` (`none` = invalid zone) or
  `z.isSome` is `ite "g_logTimeZone.valid()"`. -/
namespace Decl

/-- `insert b (.str s)` (also `.chr`, `.bool`): `if appendFits (avail b) s.length then { b with data := b.data ++ s }
else b` - the copy to `cur_`, then `cur_` advanced by the same length; nothing at all otherwise. -/
def bufAppend : List Skel :=
  [ .ite "appendFits"
      [ .act (.sys "memcpy" "cur_, buf, len"),
        .act (.store "cur_" "cur_ + len") ]
      [] ]

/-- `{ b with data := b.data ++ it.text }` for a text generated in place: `cur_` moves by its length -/
def bufAdd : List Skel := [ .act (.store "cur_" "cur_ + len") ]

/-- `mkBuf cap = { cap := cap, data := [] }`: `cur_` back at `data_` -/
def bufReset : List Skel := [ .act (.store "cur_" "data_") ]

/-- `insert b (.bool v)`: `Item.text = if v then boolTrue else boolFalse`, `Item.fits = appendFits room (..).length`
(both literals have length 1: `C17`'s model driver and `boolTrue/boolFalse` of `Generated/LogStream.lean`) -/
def insBool : List Skel :=
  [ .act (.call "buffer_.append" "v ? \"1\" : \"0\", 1"),
    .act (.ret "*this") ]

/-- a `float` is inserted as the `double` of the same value: `Item.dbl` -/
def insFloat : List Skel :=
  [ .act (.call "operator<<(double)" "v"),
    .act (.ret "*this") ]

/-- `insert b (.chr c)`: `text = [c]`, `fits = appendFits room 1` -/
def insChar : List Skel :=
  [ .act (.call "buffer_.append" "&v, 1"),
    .act (.ret "*this") ]

/-- `insert b (.str (cstr s))` (`cstr s = s.takeWhile (· ≠ 0)` is `strlen`); a null pointer inserts `nullText`
(6 bytes) instead -/
def insCStr : List Skel :=
  [ .ite "str"
      [ .act (.call "buffer_.append" "str, strlen(str)") ]
      [ .act (.call "buffer_.append" "\"(null)\", 6") ],
    .act (.ret "*this") ]

/-- the same `Item.str (cstr s)`: delegates to the `const char*` operator and returns ITS result -/
def insUCStr : List Skel :=
  [ .act (.call "operator<<(const char *)" "str"),
    .act (.ret "<result>") ]

/-- `insert b (.str s)`: all `size()` bytes from `c_str()` -/
def insString : List Skel :=
  [ .act (.call "buffer_.append" "v.c_str(), v.size()"),
    .act (.ret "*this") ]

/-- `insert b (.str s)`: all `size()` bytes from `data()` -/
def insPiece : List Skel :=
  [ .act (.call "buffer_.append" "v.data(), v.size()"),
    .act (.ret "*this") ]

/-- `insert b (.str other.data)`: the other buffer's `[data_, cur_)` as a `StringPiece` -/
def insBuffer : List Skel :=
  [ .act (.call "operator<<(const StringPiece &)" "v.toStringPiece()"),
    .act (.ret "*this") ]

/-- `insert b (.str s)` as used by `pieceItem` (`T`, `SourceFile`, `Fmt`): straight to `FixedBuffer::append` -/
def streamAppend : List Skel := [ .act (.call "buffer_.append" "data, len") ]

/-- `mkBuf kSmallBuffer` for the next line -/
def resetBuffer : List Skel := [ .act (.call "buffer_.reset" "") ]

/-- `pieceItem e (.us n) = .str (readN n e.usText)` reaches the buffer through `LogStream::append(data, length)` -/
def insFmt : List Skel :=
  [ .act (.call "s.append" "fmt.data(), fmt.length()"),
    .act (.ret "s") ]

/-- `LogStream.convert v = (digitLoop v.natAbs v ++ (if v < 0 then [45] else [])).reverse`.
`digitLoop fuel i` is the `do .. while`: it FIRST emits `zeroAt (Int.tmod i radixDec)` (the digit of the value before
the division: `lsd`, `i /= 10`, `*p++ = zero[lsd]`), THEN tests `Int.tdiv i radixDec = 0` (`while (i != 0)` on the
divided value) and recurses on `Int.tdiv i radixDec` - at least one digit even for 0.  The sign goes behind the digits
(`value < 0` on the ARGUMENT, not on `i`), the reverse comes last; the NUL is D1; the result is the length. -/
def convert : List Skel :=
  [ .act (.assign "i" "value"),
    .act (.assign "p" "buf"),
    .loop .doWhile "i != 0"
      [ .act (.assign "lsd" "i % 10"),
        .act (.assign "i" "i / 10"),
        .act (.store "*p++" "zero[lsd]") ],
    .ite "value < 0"
      [ .act (.store "*p++" "'-'") ]
      [],
    .act (.store "*p" "char(0)"),
    .act (.sys "reverse" "buf, p"),
    .act (.ret "p - buf") ]

/-- `LogStream.convertHex v = (hexLoop v v).reverse`; `hexLoop fuel i` is the `do .. while` in the same way:
`digitsHex.getD (i % radixHex) 0` emitted first, then `i / radixHex = 0` tested, recursion on `i / radixHex`; no sign. -/
def convertHex : List Skel :=
  [ .act (.assign "i" "value"),
    .act (.assign "p" "buf"),
    .loop .doWhile "i != 0"
      [ .act (.assign "lsd" "i % 16"),
        .act (.assign "i" "i / 16"),
        .act (.store "*p++" "digitsHex[lsd]") ],
    .act (.store "*p" "char(0)"),
    .act (.sys "reverse" "buf, p"),
    .act (.ret "p - buf") ]

/-- the `if .. else if .. else` cascade of `formatSI` / `formatIEC`: test `i` selects the `snprintf` of row `i`, its
`else` is the rest of the cascade; after the last row the final `else`.  This is the recursion of `siGo` / `iecGo` over
the generated table (`| row :: rest => if .. < bound then <format of row> else go rest`, `| [] => <last>`), preceded by
the integer test of `formatSI` / `formatIEC` themselves (row 0). -/
def cascade (pfx : String) : Nat → Nat → List Skel
  | _, 0 => [ .act (.fmtRow "buf" "sizeof(buf)" (pfx ++ "Else")) ]
  | i, k + 1 =>
    [ .ite (pfx ++ "Row" ++ toString i)
        [ .act (.fmtRow "buf" "sizeof(buf)" (pfx ++ "Row" ++ toString i)) ]
        (cascade pfx (i + 1) k) ]

/-- `LogStream.formatSI s = if s < siIntBelow then decimalNat s else siGo s siTable`: `n` is `rnInt s` (the converted
value the rows marked `true` compare); one test per row of `siTable` in table order, then `siLast`; the text is
returned. -/
def formatSI : List Skel :=
  [ .act (.assign "n" "s") ] ++ cascade "si" 0 (siTable.length + 1) ++ [ .act (.ret "buf") ]

/-- `LogStream.formatIEC s = if rnInt s < iecIntBelow then decimalNat s else iecGo (rnInt s) iecTable`: `n = rnInt s`;
the six unit constants are the powers of 1024 the generated bounds `num / den` and exponents `j` are computed from
(`vlib/gen/logstream.py` evaluates these very initialisers); one test per row of `iecTable`, then `iecLast`. -/
def formatIEC : List Skel :=
  [ .act (.assign "n" "s"),
    .act (.assign "Ki" "1024"),
    .act (.assign "Mi" "Ki * 1024"),
    .act (.assign "Gi" "Mi * 1024"),
    .act (.assign "Ti" "Gi * 1024"),
    .act (.assign "Pi" "Ti * 1024"),
    .act (.assign "Ei" "Pi * 1024") ] ++ cascade "iec" 0 (iecTable.length + 1) ++ [ .act (.ret "buf") ]

/-- `insert b (.int v)`: `if integerFits (avail b) then { b with data := b.data ++ convert v } else b` - the digits are
generated at `current()` and `cur_` moves by the length `convert` returned, both only under the guard -/
def formatInteger : List Skel :=
  [ .ite "integerFits"
      [ .act (.call "convert" "buffer_.current(), v"),
        .act (.assign "len" "<result>"),
        .act (.call "buffer_.add" "len") ]
      [] ]

/-- `Item.int v` for a `short`: the value as an `int` -/
def insShort : List Skel :=
  [ .act (.call "operator<<(int)" "v"),
    .act (.ret "*this") ]

/-- `Item.int v` for an `unsigned short`: the value as an `unsigned int` -/
def insUShort : List Skel :=
  [ .act (.call "operator<<(unsigned int)" "v"),
    .act (.ret "*this") ]

/-- `Item.int v` ("any integer type"): `formatInteger(v)`, the stream returned -/
def insInteger : List Skel :=
  [ .act (.call "formatInteger" "v"),
    .act (.ret "*this") ]

/-- `insert b (.ptr v)`: `if pointerFits (avail b) then { b with data := b.data ++ (pointerPrefix ++ convertHex v) }
else b` - the two prefix characters at `buf[0..1]`, the digits behind them, `cur_` moved by both; all under the guard -/
def insPointer : List Skel :=
  [ .act (.assign "v" "p"),
    .ite "pointerFits"
      [ .act (.assign "buf" "buffer_.current()"),
        .act (.store "buf[0]" "'0'"),
        .act (.store "buf[1]" "'x'"),
        .act (.call "convertHex" "buf + 2, v"),
        .act (.assign "len" "<result>"),
        .act (.call "buffer_.add" "len + 2") ]
      [],
    .act (.ret "*this") ]

/-- `insert b (.dbl text)`: `if doubleFits (avail b) then { b with data := b.data ++ text } else b`; `text` is what
`snprintf(current(), doubleBound, doubleFormat, v)` produced (environment input), `cur_` moves by what it returned -/
def insDouble : List Skel :=
  [ .ite "doubleFits"
      [ .act (.sys "snprintf" "buffer_.current(), kMaxNumericSize, \"%.12g\", v"),
        .act (.assign "len" "<result>"),
        .act (.call "buffer_.add" "len") ]
      [],
    .act (.ret "*this") ]

/-- `usText z us = sprintf (parseFmt ..) [splitMicros us]` (and `tidText`): one `snprintf` into `buf_`, its result is the
length -/
def fmtCtor : List Skel :=
  [ .act (.sys "snprintf" "buf_, sizeof(buf_), fmt, val"),
    .act (.store "length_" "<result>"),
    .act (.assertion "length_ < sizeof(buf_)") ]

/-- `readN n s` + `tidAssert t : (cstr t.str).length = t.len`: the helper keeps pointer and length and asserts that the
length is the `strlen` -/
def tCtor : List Skel :=
  [ .act (.store "str_" "str"),
    .act (.store "len_" "len"),
    .act (.assertion "strlen(str) == len_") ]

/-- `pieceItem e (.tid / .level n / .time n / .us n) = .str (readN ..)`: exactly `len_` bytes from `str_` -/
def insT : List Skel :=
  [ .act (.call "s.append" "v.str_, v.len_"),
    .act (.ret "s") ]

/-- `pieceItem e .base = .str (basename e.req.file)`: `size_` bytes from `data_` -/
def insSourceFile : List Skel :=
  [ .act (.call "s.append" "v.data_, v.size_"),
    .act (.ret "s") ]

/-- `cacheStep z gen c us`, then `implStep z e .formatTime`:
`let seconds := splitSeconds us` (and `splitMicros us`), `gen` read once in front of the test;
`if cacheMiss seconds c.lastSecond gen c.zoneGen then { lastSecond := seconds, zoneGen := gen (cacheStoresGen),
text := secondText z seconds } else c` - both stores and the rebuilt text in the SAME branch, `secondText` =
`zoneTime z seconds` (`match z`: local time of the zone / UTC) printed with `timeFormat`;
then, cache hit or miss, `(if z.isSome then timePiecesZone else timePiecesUtc).map (pieceItem e)` with
`usText z us = sprintf (parseFmt (if z.isSome then usFormatZone else usFormatUtc)) [splitMicros us]`. -/
def formatTime : List Skel :=
  [ .act (.assign "microSecondsSinceEpoch" "time_.microSecondsSinceEpoch()"),
    .act (.assign "seconds" "microSecondsSinceEpoch / kMicroSecondsPerSecond"),
    .act (.assign "microseconds" "microSecondsSinceEpoch % kMicroSecondsPerSecond"),
    .act (.assign "zoneGen" "g_logTimeZoneGen"),
    .ite "cacheMiss"
      [ .act (.store "t_lastSecond" "seconds"),
        .act (.store "t_lastZoneGen" "zoneGen"),
        .ite "g_logTimeZone.valid()"
          [ .act (.assign "dt" "g_logTimeZone.toLocalTime(seconds)") ]
          [ .act (.assign "dt" "toUtcTime(seconds)") ],
        .act (.sys "snprintf" "t_time, sizeof(t_time), \"%4d%02d%02d %02d:%02d:%02d\", dt.year, dt.month, dt.day, dt.hour, dt.minute, dt.second"),
        .act (.assign "len" "<result>"),
        .act (.assertion "len == 17") ]
      [],
    .ite "g_logTimeZone.valid()"
      [ .act (.assign "us" "Fmt(\".%06d \", microseconds)"),
        .act (.assertion "us.length() == 8"),
        .act (.ins timePiecesZone) ]
      [ .act (.assign "us" "Fmt(\".%06dZ \", microseconds)"),
        .act (.assertion "us.length() == 9"),
        .act (.ins timePiecesUtc) ] ]

/-- the tail of `lineItemsOf`: `.. ++ r.msg ++ finishPieces.map (pieceItem res.1)` - one insertion chain -/
def finish : List Skel := [ .act (.ins finishPieces) ]

/-- `logLineOf`: `text := (run (mkBuf kSmallBuffer) (lineItemsOf ..)).data` - `finish()` completes the line, THEN the
whole buffer (`data()`, `length()`) is handed to `g_output`, once.  The FATAL tail is D2. -/
def loggerDtor : List Skel :=
  [ .act (.call "impl_.finish" ""),
    .act (.assign "buf" "stream().buffer()"),
    .act (.call "g_output" "buf.data(), buf.length()"),
    .ite "impl_.level_ == FATAL"
      [ .act (.call "g_flush" ""),
        .act (.sys "abort" "") ]
      [] ]

end Decl

end MuduoVerif.LogStreamSkel
