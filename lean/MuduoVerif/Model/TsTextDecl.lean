import MuduoVerif.Generated.Calendar
/-!
# Text forms of `muduo::Timestamp` (C20): what the model is written for

`Model/Calendar.lean` renders `Timestamp::toString` / `toFormattedString` from the definitions of
`Generated/TsText.lean` (split of the microsecond count, the three `snprintf` formats as characters, their buffers,
their arguments, the test that selects the format with microseconds), extracted by `vlib/gen/tstext.py` from /repo's
current `muduo/base/Timestamp.cc`.  `Decl.x` is the value of `Gen.TsText.x` in the source the theorems
(`C20.timestamp_text_roundtrip`, ...) were proved for; `Proofs/TsTextTie.lean` proves them equal.

Reading: `seconds` / `microseconds` are the two locals; `tm_time.tm_year + 1900`, `tm_time.tm_mon + 1`, `tm_time.tm_mday`,
`tm_time.tm_hour`, `tm_time.tm_min`, `tm_time.tm_sec` of `gmtime_r(&seconds, &tm_time)` are the fields `year`, `month`, `day`,
`hour`, `minute`, `second` of `BreakTime seconds` in the model (that glibc's `gmtime_r` computes the proleptic Gregorian
date is the tested claim of this property; `BreakTime` is proved to).
-/
namespace MuduoVerif.TsText
namespace Decl


/-- `Timestamp::toString`: `int64_t seconds = ..` -/
def toStringSeconds (us : Int) : Int := (Int.tdiv us Gen.Calendar.kMicroSecondsPerSecond)

/-- `Timestamp::toString`: `int64_t microseconds = ..` -/
def toStringMicros (us : Int) : Int := (Int.tmod us Gen.Calendar.kMicroSecondsPerSecond)

/-- its format `"%ld.%06ld"` -/
def toStringFormat : List Char := ['%', 'l', 'd', '.', '%', '0', '6', 'l', 'd']

/-- size of the buffer -/
def toStringBuf : Nat := 32

/-- the arguments after the format -/
def toStringArgs : List String := ["seconds", "microseconds"]

/-- `Timestamp::toFormattedString`: `time_t seconds = ..` -/
def formattedSeconds (us : Int) : Int := (Int.tdiv us Gen.Calendar.kMicroSecondsPerSecond)

/-- `Timestamp::toFormattedString`: `int microseconds = ..` -/
def formattedMicros (us : Int) : Int := (Int.tmod us Gen.Calendar.kMicroSecondsPerSecond)

/-- the format with microseconds is used when -/
def formattedShowsMicros (showMicroseconds : Bool) : Prop := (showMicroseconds = true)
instance : Decidable (formattedShowsMicros b) := by unfold formattedShowsMicros; infer_instance

/-- the format with microseconds: `"%4d%02d%02d %02d:%02d:%02d.%06d"` -/
def formattedFormatMicro : List Char := ['%', '4', 'd', '%', '0', '2', 'd', '%', '0', '2', 'd', ' ', '%', '0', '2', 'd', ':', '%', '0', '2', 'd', ':', '%', '0', '2', 'd', '.', '%', '0', '6', 'd']

/-- size of the buffer -/
def formattedBufMicro : Nat := 64

/-- the arguments after the format (`tm_time` is what `gmtime_r(&seconds, &tm_time)` delivered) -/
def formattedArgsMicro : List String := ["tm_time.tm_year + 1900", "tm_time.tm_mon + 1", "tm_time.tm_mday", "tm_time.tm_hour", "tm_time.tm_min", "tm_time.tm_sec", "microseconds"]

/-- the format without microseconds: `"%4d%02d%02d %02d:%02d:%02d"` -/
def formattedFormat : List Char := ['%', '4', 'd', '%', '0', '2', 'd', '%', '0', '2', 'd', ' ', '%', '0', '2', 'd', ':', '%', '0', '2', 'd', ':', '%', '0', '2', 'd']

/-- size of the buffer -/
def formattedBuf : Nat := 64

/-- the arguments after the format (`tm_time` is what `gmtime_r(&seconds, &tm_time)` delivered) -/
def formattedArgs : List String := ["tm_time.tm_year + 1900", "tm_time.tm_mon + 1", "tm_time.tm_mday", "tm_time.tm_hour", "tm_time.tm_min", "tm_time.tm_sec"]

/-- `gmtime_r(&seconds, &tm_time)`: the broken-down time comes from these -/
def formattedGmtime : List String := ["seconds", "tm_time"]


end Decl
end MuduoVerif.TsText
