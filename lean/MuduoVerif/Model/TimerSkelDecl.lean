import MuduoVerif.Generated.Timer
/-!
# Statement skeletons of the timer engine: vocabulary and the skeletons the model implements

`Model/Timer.lean` takes every constant, small integer function and branch guard from `Generated/Timer.lean`; the
ORDER and NESTING of the statements inside each function is hand-written there.  This file states, function by
function, the skeleton that the model's definition implements (`Decl.*`, written by reading `Model/Timer.lean`, each
with a pointer to the model definition).  `vlib/gen/timerskel.py` extracts the skeleton of the same functions from
/repo's current `TimerQueue.cc` / `Timer.cc` (`Generated/TimerSkel.lean`, in the vocabulary below), and
`Proofs/TimerSkelTie.lean` proves the two equal by `decide`.  A source change that deletes a timer before its last
dereference, moves `activeTimers_.erase` out of its loop, clears `cancelingTimers_` after the callbacks, merges the
two independent `if`s at the end of `reset` into `if / else if`, re-arms unconditionally, adds, drops or duplicates a
statement in one of these functions changes the extracted skeleton and breaks that proof.

An `ite` is named after the generated guard (`Gen.Timer.<name>`) the model branches on at that point; the two
conditions that `vlib/gen/timer.py` translates as part of a whole function (`howMuchUs`'s floor, `restart`'s test) are
printed.  Core Lean only.

What the model does not have, and the extraction therefore leaves out (the same list heads `Generated/TimerSkel.lean`):
log statements; `loop_->assertInLoopThread()`; `assert(..)` (no abort event in `Model/Timer.lean`: `C06.sets_agree` is the
theorem that the size assertions hold); locals declared without an initialiser or default-constructed; casts;
an `if` that only logs; `MUDUO_VERIF_POINT`.
-/
namespace MuduoVerif.TimerSkel
open MuduoVerif.Gen.Timer

/-- the three sets of `TimerQueue`: `timers_`, `activeTimers_`, `cancelingTimers_` -/
inductive SetName | timers | active | cancelling
deriving DecidableEq, Repr

/-- mutating set operations; `eraseRange` is `erase(first, last)` -/
inductive SetOp | insert | erase | eraseRange | clear
deriving DecidableEq, Repr

/-- member calls through a `Timer*` - each one dereferences the pointer (`repeats` is `Timer::repeat()`) -/
inductive TimerOp | sequence | expiration | repeats | restart | run
deriving DecidableEq, Repr

inductive SysOp | read | timerfdSettime
deriving DecidableEq, Repr

/-- one significant action; strings are canonical prints of source expressions (casts dropped, `->` as `.`) -/
inductive Act
  | clock                                                -- `Timestamp::now()`
  | sys (op : SysOp) (args : String)                     -- `::read`, `::timerfd_settime`
  | zero (args : String)                                 -- `memZero(&x, sizeof x)`
  | alloc (what : String)                                -- `new Timer(..)`
  | free (ptr : String)                                  -- `delete ptr`
  | tmr (op : TimerOp) (ptr : String) (args : String)    -- `ptr->op(args)`
  | setOp (set : SetName) (op : SetOp) (args : String)
  | copyOut (args : String)                              -- `std::copy(first, last, back_inserter(v))`
  | run (what : String)                                  -- `loop_->runInLoop(functor running what)`
  | queue (what : String)                                -- `loop_->queueInLoop(..)`
  | call (fn : String) (args : String)                   -- direct call of another function of the engine
  | assign (var : String) (value : String)               -- declaration with an initialiser / assignment
  | ret (value : String)
deriving DecidableEq, Repr

/-- a statement: an action, `if (guard) { thn } else { els }`, or `for (var : range) { body }` -/
inductive Skel
  | act (a : Act)
  | ite (guard : String) (thn els : List Skel)
  | each (var range : String) (body : List Skel)
deriving Repr

/-! `deriving DecidableEq` does not handle the nesting through `List`; the instance is written out
(structural recursion, so `decide` evaluates it in the kernel). -/
mutual
def Skel.decEq : (x y : Skel) → Decidable (x = y)
  | .act a, .act a' => if h : a = a' then isTrue (by rw [h]) else isFalse (by intro e; cases e; exact h rfl)
  | .ite g t e, .ite g' t' e' =>
    if hg : g = g' then
      match Skel.decEqL t t' with
      | isTrue ht =>
        match Skel.decEqL e e' with
        | isTrue he => isTrue (by rw [hg, ht, he])
        | isFalse he => isFalse (by intro q; cases q; exact he rfl)
      | isFalse ht => isFalse (by intro q; cases q; exact ht rfl)
    else isFalse (by intro q; cases q; exact hg rfl)
  | .each v r b, .each v' r' b' =>
    if hv : v = v' then
      if hr : r = r' then
        match Skel.decEqL b b' with
        | isTrue hb => isTrue (by rw [hv, hr, hb])
        | isFalse hb => isFalse (by intro q; cases q; exact hb rfl)
      else isFalse (by intro q; cases q; exact hr rfl)
    else isFalse (by intro q; cases q; exact hv rfl)
  | .act _, .ite .. => isFalse (by intro e; cases e)
  | .act _, .each .. => isFalse (by intro e; cases e)
  | .ite .., .act _ => isFalse (by intro e; cases e)
  | .ite .., .each .. => isFalse (by intro e; cases e)
  | .each .., .act _ => isFalse (by intro e; cases e)
  | .each .., .ite .. => isFalse (by intro e; cases e)
def Skel.decEqL : (x y : List Skel) → Decidable (x = y)
  | [], [] => isTrue rfl
  | [], _ :: _ => isFalse (by intro e; cases e)
  | _ :: _, [] => isFalse (by intro e; cases e)
  | a :: as, b :: bs =>
    match Skel.decEq a b with
    | isTrue h =>
      match Skel.decEqL as bs with
      | isTrue h' => isTrue (by rw [h, h'])
      | isFalse h' => isFalse (by intro q; cases q; exact h' rfl)
    | isFalse h => isFalse (by intro q; cases q; exact h rfl)
end
instance : DecidableEq Skel := Skel.decEq
instance : DecidableEq (List Skel) := Skel.decEqL

/-! ## The skeleton each model function implements

Conventions of the reading.  `readNow s` is `Timestamp::now()` (`clock`).  `chk s a` is a dereference of the `Timer*`
`a` (observable as `uaf` when the object was freed) and `cellAt s a` reads the object: together they are the member
calls `a->sequence() / expiration() / repeat()`; one `chk` stands for all getter calls on the same pointer up to the
next change of the heap (a second `chk` of a live object is the identity).  `hset` on the cell's `exp` is
`Timer::restart`, `hfree` is `delete`, `allocTimer` is `new Timer`.  `timers` is `timers_` (`insEntry` = `insert`,
`filter (· ≠ e)` = `erase(e)`, `takeWhile` / `dropWhile` of the expired prefix = `std::copy(begin, end, ..)` /
`erase(begin, end)`), `active` is `activeTimers_` (`::` = `insert`, `filter` = `erase`), `cancelling` is
`cancelingTimers_`.  A record update that changes several fields at once stands for the stores in the order the
source performs them; the values it uses are read before it (`let c := cellAt ..` precedes `hfree`).
`if g .. then A else B` on a generated guard `g` is `ite "g" A B`; `List.foldl f s l` is `for (it : l) f`.
`emit .. (.registered/.restarted/.cancel ..)` are ghost events and not part of a skeleton; `emit .. (.arm ..)` is the
`timerfd_settime` call.  Locals that only name the value of the call before them (`n`, `ret`, `result`, `timer`,
`sequence`, `now`, `expired`, `when`, `earliestChanged`) are `let`s of the model. -/
namespace Decl

/-- `Timer.armFd`: `let (now, s) := readNow s; let ts := Gen.Timer.howMuchTimeFromNow when now` - one clock reading,
then the generated function (`Generated/Timer.lean`: `howMuchUs` = the difference and the 100 µs floor,
`howMuchTimeFromNow` = the two fields of the `timespec`) -/
def howMuchTimeFromNow : List Skel :=
  [ .act .clock,
    .act (.assign "microseconds" "when.microSecondsSinceEpoch() - now().microSecondsSinceEpoch()"),
    .ite "microseconds < 100" [.act (.assign "microseconds" "100")] [],
    .act (.assign "ts.tv_sec" "microseconds / kMicroSecondsPerSecond"),
    .act (.assign "ts.tv_nsec" "(microseconds % kMicroSecondsPerSecond) * 1000"),
    .act (.ret "ts") ]

/-- `Timer.handleRead`: `{ r.2 with readable := false }` - reading the descriptor drains it; the value read and a
short read only feed log lines -/
def readTimerfd : List Skel :=
  [ .act (.sys .read "timerfd, &howmany, sizeof(howmany)"),
    .act (.assign "n" "read(timerfd, &howmany, sizeof(howmany))") ]

/-- `Timer.armFd`: `howMuchTimeFromNow when now` (with its clock reading), then `emit { s with alarm := some (now +
howMuchUs when now), readable := false, .. } (.arm ..)`: a one-shot alarm (`newValue` zeroed: no `it_interval`) at the
relative time `it_value`; the old value and a failure only feed a log line -/
def resetTimerfd : List Skel :=
  [ .act (.zero "&newValue, sizeof(newValue)"),
    .act (.zero "&oldValue, sizeof(oldValue)"),
    .act (.call "howMuchTimeFromNow" "expiration"),
    .act (.assign "newValue.it_value" "howMuchTimeFromNow(expiration)"),
    .act (.sys .timerfdSettime "timerfd, 0, &newValue, &oldValue"),
    .act (.assign "ret" "timerfd_settime(timerfd, 0, &newValue, &oldValue)") ]

/-- `Timer.addL` (loop thread) and `Timer.addAlloc` + `Timer.addFinish` (foreign thread): `allocTimer` (`new Timer`);
`let seq := (cellAt s a).seq` (the sequence number is read before the hand-over: `addTimerDerefsAfterHandOver =
false`); `addInLoop s a` inline / `pending := pending ++ [.add a]` (`runInLoop`); `bindId s name a seq`
(`return TimerId(timer, sequence)`) -/
def addTimer : List Skel :=
  [ .act (.alloc "Timer(move(cb), when, interval)"),
    .act (.assign "timer" "new Timer(move(cb), when, interval)"),
    .act (.tmr .sequence "timer" ""),
    .act (.assign "sequence" "timer.sequence()"),
    .act (.run "addTimerInLoop(timer)"),
    .act (.ret "TimerId(timer, sequence)") ]

/-- `Timer.step`: `.cancel .loop v k => cancelInLoop s (lookupId s v)` inline, `.cancel .foreign v k => pending :=
pending ++ [.cancel (lookupId s v), ..]`: `runInLoop` -/
def cancel : List Skel :=
  [ .act (.run "cancelInLoop(timerId)") ]

/-- `Timer.addInLoop`: `let r := insertTimer s0 a; if addRearms r.2 then armFd (chk r.1 a) (cellAt r.1 a).exp else r.1`
(`s0` only adds the ghost event `registered`) -/
def addTimerInLoop : List Skel :=
  [ .act (.call "insert" "timer"),
    .act (.assign "earliestChanged" "insert(timer)"),
    .ite "addRearms"
      [ .act (.tmr .expiration "timer" ""),
        .act (.call "resetTimerfd" "timerfd_, timer.expiration()") ]
      [] ]

/-- `Timer.cancelInLoop`: `found := (id.addr, id.seq) ∈ s.active`; `if cancelErases found then` `chk s id.addr`,
`c := cellAt ..`, `timers := timers.filter (· ≠ (c.exp, id.addr))`, `heap := hfree ..`, `active := active.filter ..`
`else if cancelRemembers found s.calling then cancelling := (id.addr, id.seq) :: cancelling else s` -/
def cancelInLoop : List Skel :=
  [ .act (.assign "timer" "ActiveTimer(timerId.timer_, timerId.sequence_)"),
    .act (.assign "it" "activeTimers_.find(timer)"),
    .ite "cancelErases"
      [ .act (.tmr .expiration "it.first" ""),
        .act (.setOp .timers .erase "Entry(it.first.expiration(), it.first)"),
        .act (.assign "n" "timers_.erase(Entry(it.first.expiration(), it.first))"),
        .act (.free "it.first"),
        .act (.setOp .active .erase "it") ]
      [ .ite "cancelRemembers" [.act (.setOp .cancelling .insert "timer")] [] ] ]

/-- `Timer.handleRead`: `readNow`; `readable := false` (`readTimerfd`); `getExpired .. now`; `calling := true,
cancelling := []`; `g.1.foldl (runTimer now)` (`runTimer`: `chk`, the `run` event, the callback's script);
`calling := false`; `reset .. g.1 now` -/
def handleRead : List Skel :=
  [ .act .clock,
    .act (.assign "now" "now()"),
    .act (.call "readTimerfd" "timerfd_, now"),
    .act (.call "getExpired" "now"),
    .act (.assign "expired" "getExpired(now)"),
    .act (.assign "callingExpiredTimers_" "true"),
    .act (.setOp .cancelling .clear ""),
    .each "it" "expired" [.act (.tmr .run "it.second" "")],
    .act (.assign "callingExpiredTimers_" "false"),
    .act (.call "reset" "expired, now") ]

/-- `Timer.getExpired`: `expired := timers.takeWhile (isExpired now)` (`isExpired` = `Gen.Timer.entryExpired`: the
entries before the sentry `(now, sentinelAddr)`); `timers := timers.dropWhile ..`; for each expired entry `chk s e.2`
and `active := active.filter (· ≠ (e.2, (cellAt s e.2).seq))`; the result is `expired` -/
def getExpired : List Skel :=
  [ .act (.assign "sentry" "Entry(now, 18446744073709551615)"),
    .act (.assign "end" "timers_.lower_bound(sentry)"),
    .act (.copyOut "timers_.begin(), end, back_inserter(expired)"),
    .act (.setOp .timers .eraseRange "timers_.begin(), end"),
    .each "it" "expired"
      [ .act (.tmr .sequence "it.second" ""),
        .act (.assign "timer" "ActiveTimer(it.second, it.second.sequence())"),
        .act (.setOp .active .erase "timer"),
        .act (.assign "n" "activeTimers_.erase(timer)") ],
    .act (.ret "expired") ]

/-- `Timer.reset` = `rearm (expired.foldl (resetOne now) s)`.
`resetOne`: `chk s e.2`; `c := cellAt ..`; `cancelled := (e.2, c.seq) ∈ s.cancelling`; `if resetRestarts c.rep cancelled
then (insertTimer { s with heap := hset .. { c with exp := restart c.rep now c.delta, .. } } e.2).1 else { s with heap :=
hfree s.heap e.2 }`.
`rearm`: `if resetHasNext s.timers.isEmpty then ((cellAt s e.2).exp, chk s e.2)` for the first entry `else
timestampInvalid`; then, independently, `if resetRearms r.1 then armFd r.2 r.1 else r.2` -/
def reset : List Skel :=
  [ .each "it" "expired"
      [ .act (.tmr .sequence "it.second" ""),
        .act (.assign "timer" "ActiveTimer(it.second, it.second.sequence())"),
        .act (.tmr .repeats "it.second" ""),
        .ite "resetRestarts"
          [ .act (.tmr .restart "it.second" "now"),
            .act (.call "insert" "it.second") ]
          [ .act (.free "it.second") ] ],
    .ite "resetHasNext"
      [ .act (.tmr .expiration "timers_.begin().second" ""),
        .act (.assign "nextExpire" "timers_.begin().second.expiration()") ]
      [],
    .ite "resetRearms" [.act (.call "resetTimerfd" "timerfd_, nextExpire")] [] ]

/-- `Timer.insertTimer`: `chk s a`; `c := cellAt s a`; `changed := decide (insertEarliestChanged s.timers.isEmpty c.exp
(firstExp s.timers))` (initially false, set by the one `if`; `it = timers_.begin()`, `first` = its deadline);
`timers := insEntry (c.exp, a) s.timers`; `active := (a, c.seq) :: s.active`; the result is `changed` -/
def insert : List Skel :=
  [ .act (.assign "earliestChanged" "false"),
    .act (.tmr .expiration "timer" ""),
    .act (.assign "when" "timer.expiration()"),
    .act (.assign "it" "timers_.begin()"),
    .ite "insertEarliestChanged" [.act (.assign "earliestChanged" "true")] [],
    .act (.setOp .timers .insert "Entry(when, timer)"),
    .act (.assign "result" "timers_.insert(Entry(when, timer))"),
    .act (.tmr .sequence "timer" ""),
    .act (.setOp .active .insert "ActiveTimer(timer, timer.sequence())"),
    .act (.assign "result" "activeTimers_.insert(ActiveTimer(timer, timer.sequence()))"),
    .act (.ret "earliestChanged") ]

/-- `Gen.Timer.restart` (used by `Timer.resetOne`): `if repeat_ then addTime now delta else timestampInvalid` is the new
`expiration_` -/
def restart : List Skel :=
  [ .ite "repeat_"
      [.act (.assign "expiration_" "addTime(now, interval_)")]
      [.act (.assign "expiration_" "invalid()")] ]

end Decl
end MuduoVerif.TimerSkel
