import MuduoVerif.Generated.Client
/-!
# Statement skeletons of the client engine (C12): vocabulary and the skeletons the model implements

`Model/Client.lean` takes its constants, the errno table, every state test, the hand-off kinds and the destructor's
branch tests from `Generated/Client.lean`; the ORDER and NESTING of the statements inside each `Connector` /
`TcpClient` function is hand-written there.  This file states, function by function, the skeleton that the model's
definition implements (`Decl.*`, written by reading `Model/Client.lean`, each with a pointer to the model
definition).  `vlib/gen/clientskel.py` extracts the skeleton of the same functions from /repo's current sources
(`Generated/ClientSkel.lean`, in the vocabulary below), and `Proofs/ClientSkelTie.lean` proves the two equal by
`decide`.  A source change that moves `setState(kConnected)` behind the hand-over, calls `retry(sockfd)` before the
channel is removed, merges two independent `if`s into `if / else if`, drops an `else`, moves a call into or out of a
branch, adds, drops or duplicates a statement in one of these functions changes the extracted skeleton and breaks
that proof.

An `ite` is named after the generated guard (`Gen.Client.<name>`) the model branches on at that point; `sw
"connectTable"` is the model's `match classifyConnect r with | .proceed | .retry | .giveUp`.  Core Lean only.

What the model abstracts from - and the extractor therefore leaves out (classes I1-I9 in the header of
`Generated/ClientSkel.lean`): log statements; `assertInLoopThread()`; locals that carry no action (`connName`,
`buf`); the scope of `MutexLockGuard lock(mutex_)` (every model function is one atomic step); `snprintf` of the
connection's name; the `break`s of the switch.  Actions the model does not represent as state but which are kept in
the skeleton are said so at the function (`getPeerAddr/getLocalAddr`, `++nextConnId_`, the user callbacks handed to
the connection, the `loop_ == conn->getLoop()` assertions: one loop in the model).
-/
namespace MuduoVerif.ClientSkel
open MuduoVerif.Gen.Client

/-- `channel_->op(..)` on the connector's channel -/
inductive ChanOp | enableWriting | disableAll | remove | setWriteCallback | setErrorCallback
deriving DecidableEq, Repr

/-- `newConnectionCallback_(sockfd)` (bound to `TcpClient::newConnection` by the client's constructor) -/
inductive CbKind | newConnection
deriving DecidableEq, Repr

/-- socket calls (`sockets::`); their results are the model's environment inputs -/
inductive SysOp | createNonblockingOrDie | connect | close | getSocketError | isSelfConnect | getPeerAddr | getLocalAddr
deriving DecidableEq, Repr

/-- one significant action; strings are canonical prints of source expressions (casts dropped, `->` as `.`); a functor
is printed as the function it runs, `Class::f(bound arguments)` for a member function (the object is left out when it
is `this` / `shared_from_this()`), `f(bound arguments)` for a free function -/
inductive Act
  | setState (s : States)                                -- `setState(s)` of the connector
  | chan (op : ChanOp) (arg : String)                    -- `channel_->op(..)`; `arg`: the functor of a `set*Callback`
  | chanNew (args : String)                              -- `channel_.reset(new Channel(args))`
  | chanReset                                            -- `channel_.reset()`: the channel object is destroyed
  | cb (which : CbKind) (args : String)                  -- `xxxCallback_(args)`
  | queue (what : String)                                -- `loop_->queueInLoop(functor running what)`
  | run (what : String)                                  -- `loop_->runInLoop(..)`
  | timer (delay : String) (what : String)               -- `loop_->runAfter(delay, ..)`
  | cancelTimer (member : String)                        -- `loop_->cancel(member)`: the timer whose id `member` holds
  | call (fn : String) (args : String)                   -- direct call of another member function
  | sys (op : SysOp) (args : String)
  | on (obj : String) (method : String) (args : String)  -- `obj->method(args)`: `connector_`, `connection_`, `conn`
  | create (cls : String) (args : String)                -- `new cls(args)`
  | assign (var : String) (value : String)               -- store to a member or to a local (a call in `value` is the
                                                         -- action just before it)
  | assertion (text : String)                            -- `assert(..)` over members
  | ret (value : String)
deriving DecidableEq, Repr

/-- a statement: an action, `if (guard) { thn } else { els }`, or the `switch` behind a generated errno table with one
branch per class of `Gen.Client.ConnectClass` -/
inductive Skel
  | act (a : Act)
  | ite (guard : String) (thn els : List Skel)
  | sw (table : String) (proceed retry giveUp : List Skel)
deriving Repr

/-! `deriving DecidableEq` does not handle the nesting through `List`; the instance is written out
(structural recursion, so `decide` evaluates it in the kernel). -/
mutual
def Skel.decEq : (x y : Skel) → Decidable (x = y)
  | .act a, .act a' => if h : a = a' then isTrue (by rw [h]) else isFalse (by intro e; cases e; exact h rfl)
  | .act _, .ite .. => isFalse (by intro e; cases e)
  | .act _, .sw .. => isFalse (by intro e; cases e)
  | .ite .., .act _ => isFalse (by intro e; cases e)
  | .ite .., .sw .. => isFalse (by intro e; cases e)
  | .sw .., .act _ => isFalse (by intro e; cases e)
  | .sw .., .ite .. => isFalse (by intro e; cases e)
  | .ite g t e, .ite g' t' e' =>
    if hg : g = g' then
      match Skel.decEqL t t' with
      | isTrue ht =>
        match Skel.decEqL e e' with
        | isTrue he => isTrue (by rw [hg, ht, he])
        | isFalse he => isFalse (by intro q; cases q; exact he rfl)
      | isFalse ht => isFalse (by intro q; cases q; exact ht rfl)
    else isFalse (by intro q; cases q; exact hg rfl)
  | .sw g a b c, .sw g' a' b' c' =>
    if hg : g = g' then
      match Skel.decEqL a a' with
      | isTrue ha =>
        match Skel.decEqL b b' with
        | isTrue hb =>
          match Skel.decEqL c c' with
          | isTrue hc => isTrue (by rw [hg, ha, hb, hc])
          | isFalse hc => isFalse (by intro q; cases q; exact hc rfl)
        | isFalse hb => isFalse (by intro q; cases q; exact hb rfl)
      | isFalse ha => isFalse (by intro q; cases q; exact ha rfl)
    else isFalse (by intro q; cases q; exact hg rfl)
def Skel.decEqL : (x y : List Skel) → Decidable (x = y)
  | [], [] => isTrue rfl
  | [], _ :: _ => isFalse (by intro e; cases e)
  | _ :: _, [] => isFalse (by intro e; cases e)
  | a :: as, b :: bs =>
    match Skel.decEq a b with
    | isTrue h =>
      match Skel.decEqL as bs with
      | isTrue h' => isTrue (by rw [h, h'])
      | isFalse h' => isFalse (by intro q; cases q; exact h' rfl)
    | isFalse h => isFalse (by intro q; cases q; exact h rfl)
end
instance : DecidableEq Skel := Skel.decEq
instance : DecidableEq (List Skel) := Skel.decEqL

/-! ## The skeleton each model function implements

Conventions of the reading.  The connector's fields: `cstate` is `state_` (a store is `setState`), `cConnect` is
`connect_`, `delay` is `retryDelayMs_`, `chan : Option Nat` is `channel_` (`some k`: a channel object watching socket
`k` exists - `chan := some k` is `channel_.reset(new Channel(loop_, sockfd))`, `chan := none` is `channel_.reset()`),
`chanOn` is "registered with write interest" (`chanOn := true` is `enableWriting`, `chanOn := false` is `disableAll` +
`remove`).  The client's fields: `tConnect` is `TcpClient::connect_`, `connection` is `connection_`.  `enqueue c t` /
`pending := pending ++ [t]` is `queueInLoop`; `match <x>Dispatch, w` (a generated `Dispatch`) is `runInLoop` /
`queueInLoop` as the source says; `timers := timers ++ [..]` (or `.addTimer` from a foreign thread) is `runAfter`.
`closeSock` is `sockets::close`; `popConnect` / `popSoErr` / `popSelf` are the scripted results of `::connect`,
`getSocketError`, `isSelfConnect` - the model pops each exactly where the source makes the call.  The local
`sockfd` is the model's `k`.  `if g .. then A else B` on a generated guard `g` is `ite "g" A B`. -/
namespace Decl

/-- `Client.userConnect` (second half: `Connector::start`): `cConnect := true`, then `match startDispatch, w with
| .run, .loop => startCycle c1 | _, _ => enqueue c1 .startCycle` with `startDispatch = .run` (`Generated/Client.lean`) -/
def start : List Skel :=
  [ .act (.assign "connect_" "true"), .act (.run "Connector::startCycleInLoop") ]

/-- `Client.startCycle`: `startInLoop { c with cstate := if cycleClearsState c.cstate then .kDisconnected else c.cstate,
delay := if cycleResetsDelay then kInitRetryDelayMs else c.delay, .. }` (`cycleResetsDelay` = the unconditional store
is there) -/
def startCycleInLoop : List Skel :=
  [ .ite "cycleClearsState" [.act (.setState .kDisconnected)] [],
    .act (.assign "retryDelayMs_" "kInitRetryDelayMs"),
    .act (.call "cancelRetryTimer" ""),
    .act (.call "startInLoop" "") ]

/-- `Client.startInLoop`: `if c.asserts ∧ ¬ startAssert c.cstate then <abort "state_ == kDisconnected"> else if
startConnects c.cConnect then connect c else c` -/
def startInLoop : List Skel :=
  [ .act (.assertion "state_ == kDisconnected"),
    .ite "startConnects" [.act (.call "connect" "")] [] ]

/-- `Client.connectorStop`: `cConnect := false`, then `match stopDispatch, w with | .run, .loop => stopInLoop c1
| _, _ => enqueue c1 .stopInLoop` with `stopDispatch = .queue` -/
def stop : List Skel :=
  [ .act (.assign "connect_" "false"), .act (.queue "Connector::stopInLoop") ]

/-- `Client.stopInLoop`: `if stopActs c.cstate then match c.chan with | some k => retry { c with cstate :=
.kDisconnected, chanOn := false, chan := none } k` (the branch `stopResetsChannelNow = true`): the state store, the
channel unregistered (`disableAll`, `remove`), its socket `k` taken (`channel_->fd()`), the channel object destroyed,
then `retry k` -/
def stopInLoop : List Skel :=
  [ .ite "stopCancelsRetryTimer" [.act (.call "cancelRetryTimer" "")] [],
    .ite "stopActs"
      [ .act (.setState .kDisconnected),
        .act (.chan .disableAll ""),
        .act (.chan .remove ""),
        .act (.assign "sockfd" "channel_.fd()"),
        .act .chanReset,
        .act (.call "retry" "sockfd") ]
      [] ]

/-- `Client.connect`: a new socket `k := c.nsock` (`.sockCreated k`: `createNonblockingOrDie`), `.attempt k now` and
`popConnect` (`::connect`; the model's `r` is `savedErrno`, 0 for success), then `match classifyConnect r with
| .proceed => connecting c2 k | .retry => retry c2 k | .giveUp => closeSock c2 k` -/
def connect : List Skel :=
  [ .act (.sys .createNonblockingOrDie "serverAddr_.family()"),
    .act (.assign "sockfd" "createNonblockingOrDie(serverAddr_.family())"),
    .act (.sys .connect "sockfd, serverAddr_.getSockAddr()"),
    .act (.assign "ret" "connect(sockfd, serverAddr_.getSockAddr())"),
    .act (.assign "savedErrno" "((ret == 0) ? 0 : errno)"),
    .sw "connectTable"
      [.act (.call "connecting" "sockfd")]
      [.act (.call "retry" "sockfd")]
      [.act (.sys .close "sockfd")] ]

/-- `Client.restart`: `startInLoop { c with cstate := .kDisconnected, delay := kInitRetryDelayMs, cConnect := true, .. }` -/
def restart : List Skel :=
  [ .act (.setState .kDisconnected),
    .act (.assign "retryDelayMs_" "kInitRetryDelayMs"),
    .act (.assign "connect_" "true"),
    .act (.call "startInLoop" "") ]

/-- `Client.connecting`: the state store comes first (`die { c with cstate := .kConnecting } (.abort "!channel_")`: the
assertion fails in state `kConnecting`), then `assert(!channel_)` (`connectingAssert`), then `chan := some k` (a new
`Channel` on the socket; replacing a registered one is the model's `.uaf`), `chanOn := true` (`enableWriting`).  The two
callbacks installed in between are what `Client.dispatchConnector` runs: `handleWrite` for writable, `handleError` for
an error -/
def connecting : List Skel :=
  [ .act (.setState .kConnecting),
    .act (.assertion "!channel_"),
    .act (.chanNew "loop_, sockfd"),
    .act (.chan .setWriteCallback "Connector::handleWrite"),
    .act (.chan .setErrorCallback "Connector::handleError"),
    .act (.chan .enableWriting "") ]

/-- the first lines of `Client.handleWrite` / `Client.handleError`: `c1 := { c with chanOn := false, pending :=
c.pending ++ [.resetChannel] }` with `k` from `c.chan = some k`: unregistered, the socket number taken, the destruction
of the channel object queued (`resetChannelQueued`), `k` returned -/
def removeAndResetChannel : List Skel :=
  [ .act (.chan .disableAll ""),
    .act (.chan .remove ""),
    .act (.assign "sockfd" "channel_.fd()"),
    .act (.queue "Connector::resetChannel"),
    .act (.ret "sockfd") ]

/-- `Client.resetChannel`: `{ c with chan := none }` (a registered channel destroyed: `.uaf`) -/
def resetChannel : List Skel :=
  [ .act .chanReset ]

/-- `Client.handleWrite`: `if writeActs c.cstate then` (`removeAndResetChannel`, above) `let (err, c2) := popSoErr c1;
if writeSoError err then retry c2 k else let (self, c3) := popSelf c2` - the self-connect query is made only here, in
the else branch - `if writeSelfConnect self then retry c3 k else if writeHandsOver c3.cConnect then newConnection { c3
with cstate := .kConnected } k else closeSock { c3 with cstate := .kConnected } k` - the state store precedes both the
callback and the close; `else if c.asserts ∧ ¬ writeElseAssert c.cstate then <abort "state_ == kDisconnected">` -/
def handleWrite : List Skel :=
  [ .ite "writeActs"
      [ .act (.call "removeAndResetChannel" ""),
        .act (.assign "sockfd" "removeAndResetChannel()"),
        .act (.sys .getSocketError "sockfd"),
        .act (.assign "err" "getSocketError(sockfd)"),
        .ite "writeSoError"
          [.act (.call "retry" "sockfd")]
          [ .act (.sys .isSelfConnect "sockfd"),
            .ite "writeSelfConnect"
              [.act (.call "retry" "sockfd")]
              [ .act (.setState .kConnected),
                .ite "writeHandsOver" [.act (.cb .newConnection "sockfd")] [.act (.sys .close "sockfd")] ] ] ]
      [.act (.assertion "state_ == kDisconnected")] ]

/-- `Client.handleError`: `if errorActs c.cstate then` (`removeAndResetChannel`) `let (_, c2) := popSoErr c1; retry c2 k`
- `SO_ERROR` is read (and only logged), then `retry` unconditionally -/
def handleError : List Skel :=
  [ .ite "errorActs"
      [ .act (.call "removeAndResetChannel" ""),
        .act (.assign "sockfd" "removeAndResetChannel()"),
        .act (.sys .getSocketError "sockfd"),
        .act (.assign "err" "getSocketError(sockfd)"),
        .act (.call "retry" "sockfd") ]
      [] ]

/-- `Client.retry`: `c1 := closeSock c k` (`retryClosesSocket`), `cstate := .kDisconnected` in both branches, and `if
retrySchedules c1.cConnect then` a timer at `now + retryDelayUs used` running `startInLoop` (`Client.fireTimers`:
`.retry => startInLoop c`) with `used` the delay before the update (`retryUsesOldDelay`), then `delay := nextDelay
c1.delay` -/
def retry : List Skel :=
  [ .act (.sys .close "sockfd"),
    .act (.setState .kDisconnected),
    .ite "retrySchedules"
      [ .act (.timer "retryDelayMs_ / 1000" "Connector::startInLoop"),
        .act (.assign "retryTimer_" "loop_.runAfter(retryDelayMs_ / 1000, bind Connector::startInLoop)"),
        .act (.assign "retryDelayMs_" "min(retryDelayMs_ * 2, kMaxRetryDelayMs)") ]
      [] ]

/-- `Client.cancelRetry`: the timer whose id `retry` stored last (`retryTimerStored`) is removed from the timer queue
- `timers.filter (¬ retry)`: in every guarded history at most one back-off timer is pending (`Mid.a8`), so the one
`retryTimer_` names is all of them - and the id is forgotten -/
def cancelRetryTimer : List Skel :=
  [ .act (.cancelTimer "retryTimer_"),
    .act (.assign "retryTimer_" "muduo::net::TimerId()") ]

/-- `Client.handleClose`, `| .detached => enqueue c1 (.connectDestroyed k)` -/
def detailRemoveConnection : List Skel :=
  [ .act (.queue "TcpConnection::connectDestroyed(conn)") ]

/-- `Client.fireTimers`, `| .park => c`: the parked functor does nothing (it only keeps the connector alive:
`Client.timerHolds`) -/
def detailRemoveConnector : List Skel := []

/-- `Client.userDestroy`: `match c0.connection with | some k =>` (`dtorHasConn`) `unique := useCount c0 k == 1` (taken
first, together with the copy of `connection_`), then `match dtorSetCbDispatch, w with | .run, .loop => updConn c0 k
(closeCb := .detached) | _, _ => enqueue c0 (.setCloseCb k)` (`runInLoop` of `setCloseCallback(detail::removeConnection)`),
then `if dtorForceCloses unique then connForceClose c1 k`; `| none => connectorStop c0 w`, then the park timer at `now +
dtorParkUs` (`runAfter(1, removeConnector)`).  `assert(loop_ == conn->getLoop())`: the model has one loop -/
def dtor : List Skel :=
  [ .act (.assign "unique" "false"),
    .act (.assign "unique" "connection_.unique()"),
    .act (.assign "conn" "connection_"),
    .ite "dtorHasConn"
      [ .act (.assertion "loop_ == conn->getLoop()"),
        .act (.assign "cb" "bind removeConnection(loop_, _1)"),
        .act (.run "TcpConnection::setCloseCallback(conn, cb)"),
        .ite "dtorForceCloses" [.act (.on "conn" "forceClose" "")] [] ]
      [ .act (.on "connector_" "stop" ""),
        .act (.timer "1" "removeConnector(connector_)") ] ]

/-- `Client.userConnect` (first half): `tConnect := true`, then `Connector::start` (`Decl.start`) -/
def clientConnect : List Skel :=
  [ .act (.assign "connect_" "true"), .act (.on "connector_" "start" "") ]

/-- `Client.userDisconnect`: `c1 := { c with tConnect := false }; match c1.connection with | some k => connShutdown c1 k
| none => c1` -/
def clientDisconnect : List Skel :=
  [ .act (.assign "connect_" "false"),
    .ite "connection_" [.act (.on "connection_" "shutdown" "")] [] ]

/-- `Client.userStop`: `connectorStop { c with tConnect := false, .. } w` -/
def clientStop : List Skel :=
  [ .act (.assign "connect_" "false"), .act (.on "connector_" "stop" "") ]

/-- `Client.newConnection`: `sockSt[k] := .handedOver`, `conns ++ [{ sock := k }]` (a `TcpConnection` on the socket, close
callback `.client` = `TcpClient::removeConnection`), `connection := some k`, then `.up k` (`connectEstablished`) and, inside
it, the user's callback (`runHookUp`) - the trace is `[.handedOver k, .up k]` followed by what the callback does,
`connection_` is set before the UP callback.  That order is also the generated `Gen.Client.publishBeforeEstablish`, on
which the model branches (the callback of the other order would find `connection_` empty).  Not represented in the
model's state: the addresses and the name (`getPeerAddr`, `getLocalAddr`, `nextConnId_`: a connection is named by its
socket) and the three user callbacks handed on -/
def newConnection : List Skel :=
  [ .act (.sys .getPeerAddr "sockfd"),
    .act (.assign "nextConnId_" "++nextConnId_"),
    .act (.sys .getLocalAddr "sockfd"),
    .act (.create "TcpConnection" "loop_, connName, sockfd, localAddr, peerAddr"),
    .act (.on "conn" "setConnectionCallback" "connectionCallback_"),
    .act (.on "conn" "setMessageCallback" "messageCallback_"),
    .act (.on "conn" "setWriteCompleteCallback" "writeCompleteCallback_"),
    .act (.on "conn" "setCloseCallback" "bind TcpClient::removeConnection(_1)"),
    .act (.assign "connection_" "conn"),
    .act (.on "conn" "connectEstablished" "") ]

/-- `Client.handleClose`, `| .client =>`: `if c1.asserts ∧ c1.connection ≠ some k then <abort "connection_ == conn">
else c2 := { c1 with connection := none, pending := c1.pending ++ [.connectDestroyed k] }; if reconnects c2.retry
c2.tConnect then restart c2 else c2`.  `assert(loop_ == conn->getLoop())`: the model has one loop -/
def removeConnection : List Skel :=
  [ .act (.assertion "loop_ == conn->getLoop()"),
    .act (.assertion "connection_ == conn"),
    .act (.assign "connection_" "nullptr"),
    .act (.queue "TcpConnection::connectDestroyed(conn)"),
    .ite "reconnects" [.act (.on "connector_" "restart" "")] [] ]

end Decl
end MuduoVerif.ClientSkel
