import MuduoVerif.Generated.Zone
import MuduoVerif.Generated.Calendar
/-!
Model of the time-zone half of muduo/base/TimeZone.cc (C20).

* the zone table (`Data`: transitions + local time types) as `TimeZone::Data` holds it; the reader
  that fills it from the bytes of a zone file is `Model/TzFile.lean` (`TzFile.parse`, parameters
  extracted from the source, theorems `C20.tzfile_*`);
* `searchLoop` — the loops of libstdc++'s `std::__upper_bound` / `std::__lower_bound`
  (`len`/`half`/`middle`), so the model takes the same probes as the code even on data
  that is not sorted;
* `findUtc`, `findLocal` — the two overloads of `TimeZone::Data::findLocalTime` **as the
  code writes them**: every comparison, the choice of search, the `afterLast` flag and the
  `prior_second` arithmetic are the definitions of `Generated/Zone.lean` (translated from
  /repo's AST on every run); the order of the tests and the record each branch returns are
  hand-written;
* `toLocalTime`, `fromLocalTime` — with `BreakTime` / `fromUtcTime` of `Generated/Calendar.lean`.

Integer widths are not modelled (`int64_t`/`int32_t` are `Int`); iterators are indices.
Reading outside a vector (`localtimes.front()` of an empty vector, `*(begin()-1)`), which is
undefined in C++, yields the default record here; the well-formedness predicate of
`Proofs/Zone.lean` excludes it.
-/
namespace MuduoVerif.Zone
open MuduoVerif.Gen.Zone MuduoVerif.Gen.Calendar

/-- `TimeZone::Data::LocalTime` -/
structure LocalTime where
  utcOffset : Int := 0
  isDst : Bool := false
  desigIdx : Nat := 0
deriving Repr, DecidableEq, Inhabited

/-- `TimeZone::Data::Transition` -/
structure Transition where
  utctime : Int := 0
  localtime : Int := 0
  localtimeIdx : Nat := 0
deriving Repr, DecidableEq, Inhabited

/-- `TimeZone::Data` (without the designation text and the TZ string, which no look-up reads) -/
structure Data where
  transitions : Array Transition := #[]
  localtimes : Array LocalTime := #[]
deriving Repr, Inhabited

namespace Data
/-- `transitions.size()` -/
def n (d : Data) : Nat := d.transitions.size
/-- `transitions[i]` -/
def tr (d : Data) (i : Nat) : Transition := d.transitions.getD i default
/-- `localtimes[i]` -/
def lt (d : Data) (i : Nat) : LocalTime := d.localtimes.getD i default
/-- `localtimes[transitions[i].localtimeIdx]` -/
def lrec (d : Data) (i : Nat) : LocalTime := d.lt (d.tr i).localtimeIdx
/-- `Data::addLocalTime` -/
def addLocalTime (d : Data) (utcOffset : Int) (isDst : Bool) (desigIdx : Nat) : Data :=
  { d with localtimes := d.localtimes.push { utcOffset := utcOffset, isDst := isDst, desigIdx := desigIdx } }
/-- `Data::addTransition`; `none` = `localtimes.at()` throws `std::out_of_range` -/
def addTransition (d : Data) (utcTime : Int) (localtimeIdx : Nat) : Option Data :=
  if localtimeIdx < d.localtimes.size then
    let t : Transition :=
      { utctime := utcTime, localtime := shiftedLocal utcTime (d.lt localtimeIdx).utcOffset, localtimeIdx := localtimeIdx }
    some { d with transitions := d.transitions.push t }
  else none
end Data

/-- `TimeZone::TimeZone(int eastOfUtc, const char* name)` -/
def fixed (eastOfUtc : Int) : Data := (default : Data).addLocalTime eastOfUtc false 0

/-! ### the binary searches of libstdc++ -/

/-- `std::__upper_bound` (`upper = true`: `if (comp(val, *middle)) len = half; else first = middle + 1, …`)
and `std::__lower_bound` (`upper = false`: `if (comp(*middle, val)) first = middle + 1, …; else len = half`)
on the index range `first .. first+len`; `fuel ≥ len` steps always suffice. -/
def searchLoop (upper : Bool) (key : Nat → Int) (less : Int → Int → Bool) (val : Int) : Nat → Nat → Nat → Nat
  | 0, first, _ => first
  | fuel+1, first, len =>
    if len = 0 then first
    else
      let half := len / 2
      let middle := first + half
      if upper then
        if less val (key middle) then searchLoop upper key less val fuel first half
        else searchLoop upper key less val fuel (middle + 1) (len - half - 1)
      else
        if less (key middle) val then searchLoop upper key less val fuel (middle + 1) (len - half - 1)
        else searchLoop upper key less val fuel first half

def search (upper : Bool) (key : Nat → Int) (less : Int → Int → Bool) (val : Int) (n : Nat) : Nat :=
  searchLoop upper key less val n 0 n

/-! ### the two look-ups -/

/-- `transI` of `findLocalTime(int64_t utcTime)` -/
def utcBound (d : Data) (utcTime : Int) : Nat :=
  search utcSearchUpper (fun k => (d.tr k).utctime) (fun a b => decide (cmpUtc a b)) utcTime d.n

/-- `TimeZone::Data::findLocalTime(int64_t utcTime)` -/
def findUtc (d : Data) (utcTime : Int) : LocalTime :=
  if utcUseFirst d.n utcTime (d.tr 0).utctime then d.lt 0
  else
    let i := utcBound d utcTime
    if utcInside i d.n then d.lrec (i - 1) else d.lrec (d.n - 1)

/-- `transI` of `findLocalTime(const DateTime&, bool)` -/
def localBound (d : Data) (localtime : Int) : Nat :=
  search localSearchUpper (fun k => (d.tr k).localtime) (fun a b => decide (cmpLocal a b)) localtime d.n

/-- `TimeZone::Data::findLocalTime(const DateTime& lt, bool postTransition)` with
`localtime = fromUtcTime(lt)` -/
def findLocal (d : Data) (localtime : Int) (post : Bool) : LocalTime :=
  if localUseFirst d.n localtime (d.tr 0).localtime then
    -- skipped by the first transition and read after it: `&localtimes[transitions.front().localtimeIdx]`
    if firstSkipPost post d.n (d.tr 0).utctime (d.lt 0).utcOffset localtime then d.lrec 0 else d.lt 0
  else
    let i := localBound d localtime
    let afterLast : Bool := decide (localAfterLast i d.n)
    -- Transition prior_trans = *(transI - 1);
    let prior := i - 1
    let ps := priorSecond afterLast (d.tr i).utctime (d.lrec prior).utcOffset
    if isSkip afterLast ps localtime then
      if post then d.lrec i else d.lrec prior
    else
      -- --transI;
      let j := i - 1
      if hasPrior j then
        -- prior_trans = *(transI - 1); prior_second = …
        let prior := j - 1
        let ps := priorSecond2 (d.tr j).utctime (d.lrec prior).utcOffset
        if isRepeat afterLast localtime ps then
          if post then d.lrec j else d.lrec prior
        else d.lrec j
      else
        -- the first transition: prior_trans.localtimeIdx = 0; prior_second = … + localtimes.front().utcOffset
        let ps := priorSecondFirst (d.tr j).utctime (d.lt 0).utcOffset
        if isRepeat afterLast localtime ps then
          if post then d.lrec j else d.lt priorIdxFirst
        else d.lrec j

/-- `TimeZone::toLocalTime(seconds, &utcOffset)` for a valid zone -/
def toLocalTime (d : Data) (seconds : Int) : DateTime × Int :=
  let l := findUtc d seconds
  (BreakTime (toLocalShift seconds l.utcOffset), l.utcOffset)

/-- `TimeZone::fromLocalTime(localtime, postTransition)` for a valid zone -/
def fromLocalTime (d : Data) (dt : DateTime) (post : Bool) : Int :=
  let l := findLocal d (fromUtcTime dt) post
  fromLocalShift (fromUtcTime dt) l.utcOffset

/-! ### well-formed zone data (decidable; evaluated by the check on every zone file) -/

namespace Data
/-- UTC instant of transition `i` -/
def u (d : Data) (i : Nat) : Int := (d.tr i).utctime
/-- UTC offset in force from transition `i` on -/
def o (d : Data) (i : Nat) : Int := (d.lrec i).utcOffset
/-- UTC offset in force BEFORE transition `i`: that of the transition before it; before the first
transition `localtimes.front()` is in force (both look-ups use it there, and so does glibc) -/
def oPrev (d : Data) (i : Nat) : Int := if i = 0 then (d.lt 0).utcOffset else d.o (i - 1)
/-- the record in force before transition `i` -/
def prevRec (d : Data) (i : Nat) : LocalTime := if i = 0 then d.lt 0 else d.lrec (i - 1)
/-- absolute size of the offset change made by transition `i` -/
def chg (d : Data) (i : Nat) : Int := if d.oPrev i ≤ d.o i then d.o i - d.oPrev i else d.oPrev i - d.o i
end Data

/-- **Well-formed zone data**: every transition carries the shifted-epoch local time that
`addTransition` computes, and the time between two consecutive transitions is longer than the two
offset changes at its ends together (so the transitions are strictly increasing in UTC and in local
time, and no local time occurs more than twice). -/
def WF (d : Data) : Prop :=
  (∀ i, i < d.n → (d.tr i).localtime = d.u i + d.o i) ∧
  (∀ i, i < d.n - 1 → d.chg i + d.chg (i + 1) < d.u (i + 1) - d.u i)

instance (d : Data) : Decidable (WF d) := by unfold WF; infer_instance

end MuduoVerif.Zone
