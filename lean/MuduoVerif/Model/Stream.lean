/-!
Incremental stream decoders, generically.

Both decoders of C18 have the same shape: bytes arrive in chunks and are appended to a
`muduo::net::Buffer`; a `while` loop looks at the readable bytes and each iteration either
needs more input (`need`: leave the loop, nothing consumed), reports an error (`fail`:
leave the loop, nothing consumed, the stream is abandoned) or makes progress (`adv`: emit
events, consume `k` bytes with `Buffer::retrieve`, go round again).  `loop` is that `while`
loop; the fuel only exists to make the recursion structural - `Proofs/Stream.lean` shows
that `buf.length + 1` iterations always suffice when every `adv` consumes at least one
byte, and the flag `stuck` records the opposite case (used for the termination finding of
the HTTP parser).
-/
namespace MuduoVerif.Stream

abbrev Bytes := List UInt8

/-- result of one iteration of the decoder's loop on parser state `σ`, events `ε` -/
inductive Out (σ ε : Type) where
  | need
  | fail (e : ε)
  | adv (s : σ) (evs : List ε) (k : Nat)

/-- what a run of the loop leaves behind -/
structure Res (σ ε : Type) where
  s : σ
  /-- the unconsumed bytes -/
  rest : Bytes
  /-- an error was reported (the stream is abandoned) -/
  dead : Bool
  /-- the fuel ran out (the real loop would still be running) -/
  stuck : Bool
  evs : List ε

/-- prepend events that were emitted earlier -/
def Res.pre (evs : List ε) (r : Res σ ε) : Res σ ε :=
  { s := r.s, rest := r.rest, dead := r.dead, stuck := r.stuck, evs := evs ++ r.evs }

def loop (step : σ → Bytes → Out σ ε) : Nat → σ → Bytes → Res σ ε
  | 0, s, buf => { s := s, rest := buf, dead := false, stuck := true, evs := [] }
  | n+1, s, buf =>
    match step s buf with
    | .need => { s := s, rest := buf, dead := false, stuck := false, evs := [] }
    | .fail e => { s := s, rest := buf, dead := true, stuck := false, evs := [e] }
    | .adv s' evs k => (loop step n s' (buf.drop k)).pre evs

/-- the `while` loop run to completion on a buffer holding `buf` -/
def drain (step : σ → Bytes → Out σ ε) (s : σ) (buf : Bytes) : Res σ ε :=
  loop step (buf.length + 1) s buf

/-- a decoder between two deliveries: parser state, unconsumed bytes, "an error was
reported" (after which nothing is decoded any more: the error callback shuts the
connection down) -/
structure Dec (σ : Type) where
  s : σ
  buf : Bytes
  dead : Bool

/-- one delivery: append the chunk to the buffer, run the loop -/
def feed (step : σ → Bytes → Out σ ε) (d : Dec σ) (chunk : Bytes) : Dec σ × List ε :=
  if d.dead then ({ s := d.s, buf := d.buf ++ chunk, dead := true }, [])
  else
    let r := drain step d.s (d.buf ++ chunk)
    ({ s := r.s, buf := r.rest, dead := r.dead }, r.evs)

/-- a sequence of deliveries -/
def feedAll (step : σ → Bytes → Out σ ε) (d : Dec σ) : List Bytes → Dec σ × List ε
  | [] => (d, [])
  | c :: cs =>
    let r1 := feed step d c
    let r2 := feedAll step r1.1 cs
    (r2.1, r1.2 ++ r2.2)

end MuduoVerif.Stream
