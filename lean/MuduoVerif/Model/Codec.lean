import MuduoVerif.Generated.Codec
import MuduoVerif.Model.Buffer
import MuduoVerif.Model.Stream
/-!
Model of the length-prefixed, checksummed protobuf framing:
`muduo::net::ProtobufCodecLite` (muduo/net/protobuf/ProtobufCodecLite.{h,cc}; `RpcCodec` is
its instance with tag "RPC0") and the example `ProtobufCodec` with a type-name field
(examples/protobuf/codec/codec.{h,cc}).

Wire format (ProtobufCodecLite.h): 4-byte big-endian length `M+N+4`, `M`-byte tag, `N`-byte
payload, 4-byte Adler-32 of tag+payload.

Every constant, guard, offset and the order of `parse`'s tests come from
`Generated/Codec.lean` (current source).  Hand-written: the `while` loop (generic, in
`Model/Stream.lean`), the slicing, Adler-32 (the code calls zlib; tied by the differential
run), big-endian integers (`Model/Buffer.lean`).  Protobuf itself is not modelled: whether a
payload parses is the parameter `parsePayload`.
-/
namespace MuduoVerif.Codec
open MuduoVerif.Stream
open MuduoVerif.Buffer (encodeBE decodeBE toSigned toUnsigned intBytes)

abbrev Bytes := List UInt8

/-! ### Adler-32 (RFC 1950), as zlib's `adler32(init, buf, len)` -/
def adlerMod : Nat := 65521

def adlerStep (s : Nat × Nat) (b : UInt8) : Nat × Nat :=
  ((s.1 + b.toNat) % adlerMod, (s.2 + (s.1 + b.toNat) % adlerMod) % adlerMod)

def adler32 (init : Nat) (bs : Bytes) : Nat :=
  let r := bs.foldl adlerStep (init % 65536, init / 65536)
  r.2 * 65536 + r.1

/-- `bs[off, off+len)`; the offsets come from the generated definitions as C `int`s -/
def slice (bs : Bytes) (off len : Int) : Bytes := (bs.drop off.toNat).take len.toNat

/-- `asInt32(p)` / `Buffer::peekInt32()`: signed big-endian 32-bit value at `off` -/
def asInt32 (bs : Bytes) (off : Int) : Int := toSigned 32 (decodeBE (slice bs off 4))

/-- `static_cast<int32_t>(::adler32(init, ...))` -/
def checksum32 (init : Nat) (bs : Bytes) : Int := toSigned 32 (adler32 init bs)

/-- what the loop reports -/
inductive Event where
  | msg (payload : Bytes)
  | err (e : Gen.Codec.ErrorCode)
deriving DecidableEq, Repr

/-! ### ProtobufCodecLite -/
section Lite
open MuduoVerif.Gen.Codec

structure Cfg where
  /-- `tag_` -/
  tag : Bytes
  /-- `parseFromBuffer` = protobuf's `ParseFromArray` on the payload -/
  parsePayload : Bytes → Bool
  /-- `rawCb_ && !rawCb_(frame)`: the raw callback tells the codec to drop the frame -/
  rawSkip : Bytes → Bool := fun _ => false

def minLen (c : Cfg) : Nat := kMinMessageLen c.tag.length

/-- `validateChecksum(buf, len)` on the frame body (`len = body.length`) -/
def validateChecksum (body : Bytes) : Bool :=
  checksum32 adlerInit (slice body checksumFrom (checksumLen body.length))
    == asInt32 body (checksumAt body.length)

/-- `memcmp(buf, tag_.data(), tag_.size()) == 0` -/
def tagMatches (c : Cfg) (body : Bytes) : Bool :=
  slice body tagAt (tagCmpLen c.tag.length) == c.tag.take (tagCmpLen (c.tag.length : Int)).toNat

/-- the bytes handed to `parseFromBuffer` -/
def payloadOf (c : Cfg) (body : Bytes) : Bytes :=
  slice body (payloadAt c.tag.length) (payloadLen body.length c.tag.length)

/-- `ProtobufCodecLite::parse(buf, len, message)` -/
def parse (c : Cfg) (body : Bytes) : ErrorCode :=
  parseDecision (validateChecksum body) (tagMatches c body) (c.parsePayload (payloadOf c body))

/-- one iteration of the `while` loop of `ProtobufCodecLite::onMessage` -/
def step (c : Cfg) (_ : Unit) (buf : Bytes) : Out Unit Event :=
  if headerAvailable buf.length (minLen c) then
    if lenOutOfRange (asInt32 buf 0) (minLen c) then .fail (.err lengthError)
    else if frameAvailable buf.length (asInt32 buf 0) then
      if c.rawSkip (buf.take (consumedBytes (asInt32 buf 0)).toNat) then
        .adv () [] (consumedBytes (asInt32 buf 0)).toNat
      else
        match parse c (slice buf frameOffset (frameLen (asInt32 buf 0))) with
        | .kNoError =>
          .adv () [.msg (payloadOf c (slice buf frameOffset (frameLen (asInt32 buf 0))))]
            (consumedBytes (asInt32 buf 0)).toNat
        | e => .fail (.err e)
    else .need
  else .need

/-- `ProtobufCodecLite::onMessage` called once on a buffer holding `buf` -/
def onMessage (c : Cfg) (buf : Bytes) : Res Unit Event := drain (step c) () buf

/-- `fillEmptyBuffer`: tag, payload (the serialised message), checksum of both, then the
length of all that prepended (`static_cast<int32_t>(readableBytes())`, big-endian) -/
def encode (c : Cfg) (payload : Bytes) : Bytes :=
  intBytes 4 ((c.tag ++ payload ++ intBytes 4 (checksum32 adlerInit (c.tag ++ payload))).length : Int)
    ++ (c.tag ++ payload ++ intBytes 4 (checksum32 adlerInit (c.tag ++ payload)))

def init : Dec Unit := { s := (), buf := [], dead := false }
def feed (c : Cfg) : Dec Unit → Bytes → Dec Unit × List Event := Stream.feed (step c)
def feedAll (c : Cfg) : Dec Unit → List Bytes → Dec Unit × List Event := Stream.feedAll (step c)

/-- decode a whole stream delivered in one piece to a fresh decoder -/
def decode (c : Cfg) (stream : Bytes) : Dec Unit × List Event := feed c init stream

/-! ### the message objects one `onMessage` call hands to its consumer

`ProtobufCodecLite::onMessage` hands every decoded message to the message callback as a `shared_ptr`; a consumer may
keep it (RpcCodec_test.cc does, a server that queues requests to a worker pool does).  Whether the pointers of one
call are distinct objects - and therefore whether a message that was handed out STAYS that message while later frames
of the same call are decoded - depends on where `prototype_->New()` sits relative to the loop:
`Gen.Codec.allocPerFrame` (T1).  The heap below is what the consumer can observe of one call: which object each
pointer it was handed refers to, and what that object holds when `onMessage` has returned.  It is a function of the
events of the call (`feed c d chunk`).2: `.msg p` = a frame was parsed into the current object and the object handed
out; `.err kParseError` = a frame was parsed into the current object and the parse failed (content unspecified, nothing
handed out); every other error is reported before anything is parsed. -/

/-- the heap of message objects during one `onMessage` call: `allocs` = number of `prototype_->New()` so far =
identity of the next object; `cur` = the object the local `message` points to; `store` = content of the objects, latest
write first (the payload last parsed into it, `none` after a failed parse); `handed` = the pointers given to the
message callback, in order -/
structure Heap where
  allocs : Nat := 0
  cur : Option Nat := none
  store : List (Nat × Option Bytes) := []
  handed : List Nat := []
deriving Repr, DecidableEq

/-- what object `o` holds now -/
def Heap.content (h : Heap) (o : Nat) : Option Bytes :=
  match h.store.find? (fun e => e.1 == o) with
  | some e => e.2
  | none => none

/-- one frame reaches `parse`: the object it is parsed into is a new one (`perFrame`, or none exists yet: lazily
allocated), else the object of the frame before; `content` is what the parse leaves in it; `deliver`: handed to the
callback -/
def Heap.parseFrame (perFrame : Bool) (h : Heap) (content : Option Bytes) (deliver : Bool) : Heap :=
  { allocs := if perFrame || h.cur.isNone then h.allocs + 1 else h.allocs
    cur := some (if perFrame then h.allocs else h.cur.getD h.allocs)
    store := (if perFrame then h.allocs else h.cur.getD h.allocs, content) :: h.store
    handed := if deliver then h.handed ++ [if perFrame then h.allocs else h.cur.getD h.allocs] else h.handed }

/-- the heap after the events of one call -/
def heapOf (perFrame : Bool) : Heap → List Event → Heap
  | h, [] => h
  | h, .msg p :: es => heapOf perFrame (h.parseFrame perFrame (some p) true) es
  | h, .err e :: es => heapOf perFrame (if e = .kParseError then h.parseFrame perFrame none false else h) es

/-- what the consumer holds after the call: for each pointer it was handed, the object and that object's content -/
def Heap.held (h : Heap) : List (Nat × Option Bytes) := h.handed.map (fun o => (o, h.content o))

/-- the retained messages after one `onMessage` call whose events were `evs`, under the allocation discipline of the
current source -/
def heldAfter (evs : List Event) : List (Nat × Option Bytes) := (heapOf allocPerFrame {} evs).held

/-- the payloads delivered by the events, in order -/
def delivered : List Event → List Bytes
  | [] => []
  | .msg p :: es => p :: delivered es
  | .err _ :: es => delivered es

end Lite

/-! ### the example codec: length, nameLen, typeName (NUL-terminated), payload, checksum -/
namespace Ex
open MuduoVerif.Gen.ExCodec

inductive Event where
  | msg (typeName payload : Bytes)
  | err (e : Gen.ExCodec.ErrorCode)
deriving DecidableEq, Repr

structure Cfg where
  /-- `createMessage(typeName)` finds a descriptor and a prototype -/
  typeKnown : Bytes → Bool
  /-- `message->ParseFromArray(data, dataLen)` for that type -/
  parsePayload : Bytes → Bytes → Bool

def validateChecksum (body : Bytes) : Bool :=
  checksum32 adlerInit (slice body checksumFrom (checksumLen body.length))
    == asInt32 body (checksumAt body.length)

def nameLenOf (body : Bytes) : Int := asInt32 body nameLenAt

/-- `std::string typeName(buf + kHeaderLen, buf + kHeaderLen + nameLen - 1)` -/
def typeNameOf (body : Bytes) : Bytes :=
  slice body typeNameFrom (typeNameTo (nameLenOf body) - typeNameFrom)

def payloadOf (body : Bytes) : Bytes :=
  slice body (payloadAt (nameLenOf body)) (payloadLen body.length (nameLenOf body))

/-- `ProtobufCodec::parse(buf, len, &error)` -/
def parse (c : Cfg) (body : Bytes) : ErrorCode :=
  parseDecision (validateChecksum body) (decide (nameLenOk (nameLenOf body) body.length))
    (c.typeKnown (typeNameOf body)) (c.parsePayload (typeNameOf body) (payloadOf body))

/-- one iteration of the `while` loop of `ProtobufCodec::onMessage` -/
def step (c : Cfg) (_ : Unit) (buf : Bytes) : Out Unit Event :=
  if headerAvailable buf.length then
    if lenOutOfRange (asInt32 buf 0) then .fail (.err lengthError)
    else if frameAvailable buf.length (asInt32 buf 0) then
      match parse c (slice buf frameOffset (frameLen (asInt32 buf 0))) with
      | .kNoError =>
        .adv () [.msg (typeNameOf (slice buf frameOffset (frameLen (asInt32 buf 0))))
                      (payloadOf (slice buf frameOffset (frameLen (asInt32 buf 0))))]
          (consumedBytes (asInt32 buf 0)).toNat
      | e => .fail (.err e)
    else .need
  else .need

/-- `ProtobufCodec::fillEmptyBuffer`: nameLen (= typeName.size()+1), typeName and its NUL,
payload, checksum of all three, length prepended -/
def encode (typeName payload : Bytes) : Bytes :=
  let body := intBytes 4 ((typeName.length + 1 : Nat) : Int) ++ (typeName ++ [0]) ++ payload
  intBytes 4 ((body ++ intBytes 4 (checksum32 adlerInit body)).length : Int)
    ++ (body ++ intBytes 4 (checksum32 adlerInit body))

def init : Dec Unit := { s := (), buf := [], dead := false }
def feed (c : Cfg) : Dec Unit → Bytes → Dec Unit × List Event := Stream.feed (step c)
def feedAll (c : Cfg) : Dec Unit → List Bytes → Dec Unit × List Event := Stream.feedAll (step c)

end Ex

end MuduoVerif.Codec
