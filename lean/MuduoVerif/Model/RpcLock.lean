import MuduoVerif.Model.Rpc
/-!
The channel's mutex, and completion closures that call back into their own channel (property C19).

`Model/Rpc.lean` takes every `MutexLockGuard lock(mutex_)` scope as one atomic step and has no notion of which
thread performs a step.  That is enough as long as no thread needs `mutex_` while it holds it.  This file adds
what is needed to speak about exactly that:

* `held` - `mutex_` is held by the loop thread *between* two atomic steps.  The only lock scope that can span more
  than one step is the one of the RESPONSE branch of `onRpcMessage`: the loop thread does
  `lock; find; copy; erase` (`recv`), and whether the guard's scope ends there or extends over
  `ParseFromString` / `done->Run()` / `~unique_ptr` (`finish`) is what T1 reads off the source:
  `respLookupUnderLock`, `respRunOutsideLock` (`vlib/gen/rpc.py`, re-extracted on every run).
* the effect of a completion closure: while it runs (between `recv` and `finish` of its call) it may issue
  `CallMethod` on the same channel - the chained call - any number of times, one after the other.  These are the
  ordinary three steps of a call (id fetch, insert under the lock, send), performed by the loop thread:
  `chainBegin`, `chainInsert`, `chainSend`; the closure cannot return (`finish`) while it is inside `CallMethod`.
* `mutex_` is a non-recursive `MutexLock`: `chainInsert` with `held` is `pthread_mutex_lock` by the owner -
  it never returns: `deadlocked`, and nothing moves any more (the loop thread is stuck holding the lock, every
  other caller blocks behind it).  For any other thread `held` only means that its insert is not enabled yet.

Every step of this machine is a step of `Model/Rpc.lean` on the field `ch` or leaves `ch` alone
(`Proofs/RpcLock.lean`: `locked_refines`), so everything proved about `run` holds for the histories with chained
calls; with the lock scopes that the source has, `held` is never set and nothing deadlocks.
-/
namespace MuduoVerif.Rpc
open MuduoVerif.Gen.Rpc

/-- T1: the loop thread leaves the critical section of the RESPONSE branch still holding `mutex_` (the guard's scope
    covers the completion too).  With the scopes of the unchanged source: `false` -/
def lockHeldIntoCompletion : Bool := respLookupUnderLock && !respRunOutsideLock

structure LChan where
  ch : Chan
  /-- `mutex_` is held by the loop thread across steps -/
  held : Bool := false
  /-- the closure that the loop thread is running is inside `CallMethod` for this (chained) call -/
  chain : Option Nat := none
  /-- ghost: (chained call, the call whose closure issued it), newest first -/
  chained : List (Nat × Nat) := []
  /-- the loop thread waits for a mutex that it holds itself -/
  deadlocked : Bool := false

inductive LAct
  /-- a step of `Model/Rpc.lean`; its call steps are those of threads that are not inside a completion closure -/
  | base (a : Act)
  /-- the running closure enters `CallMethod` on its own channel: id fetch -/
  | chainBegin
  /-- ... `MutexLockGuard lock(mutex_); outstandings_[id] = out;` -/
  | chainInsert
  /-- ... `codec_.send`, return to the closure -/
  | chainSend
deriving DecidableEq, Repr

/-- call `k` stands before its `MutexLockGuard` -/
def atInsert (c : Chan) (k : Nat) : Bool :=
  if callInsertBeforeSend then c.stage k = .fetched else c.stage k = .sentOnly

/-- `onRpcMessage`.  RESPONSE: lock; find, copy, erase; the lock is released here iff the guard's scope ends before the
    completion.  Nothing is held when the look-up finds nothing (the branch is left) or for the other message types -/
def lrecv (s : LChan) (m : Msg) : LChan :=
  if s.ch.pending.isSome then s   -- the loop thread is sequential
  else
    let ch' := step s.ch (.recv m)
    { s with ch := ch', held := ch'.pending.isSome && lockHeldIntoCompletion }

/-- the closure returns, the response object is freed, every scope of the branch is left -/
def lfinish (s : LChan) : LChan :=
  if s.chain.isSome then s        -- the closure is inside `CallMethod`: it cannot return
  else { s with ch := step s.ch .finish, held := false }

/-- the insert of a thread other than the loop thread inside a closure -/
def lcallInsert (s : LChan) (k : Nat) : LChan :=
  if s.chain = some k then s                          -- that call belongs to the running closure: `chainInsert`
  else if callInsertUnderLock && s.held then s         -- blocks in `MutexLockGuard` until the loop thread leaves its scope
  else { s with ch := step s.ch (.callInsert k) }

def lcallSend (s : LChan) (k : Nat) : LChan :=
  if s.chain = some k then s else { s with ch := step s.ch (.callSend k) }

def chainBegin (s : LChan) : LChan :=
  match s.ch.pending, s.chain with
  | some (k, _), none =>
    { s with ch := step s.ch .callBegin, chain := some s.ch.nextCall, chained := (s.ch.nextCall, k) :: s.chained }
  | _, _ => s

def chainInsert (s : LChan) : LChan :=
  match s.chain with
  | some k' =>
    if atInsert s.ch k' then
      if callInsertUnderLock && s.held then { s with deadlocked := true }    -- `mutex_.lock()` by the thread that holds `mutex_`
      else { s with ch := step s.ch (.callInsert k') }
    else s
  | none => s

def chainSend (s : LChan) : LChan :=
  match s.chain with
  | some k' =>
    { s with ch := step s.ch (.callSend k')
             chain := if (step s.ch (.callSend k')).stage k' = .returned then none else s.chain }
  | none => s

def lstep (s : LChan) (a : LAct) : LChan :=
  if s.deadlocked then s
  else if s.ch.halted then s
  else
    match a with
    | .base (.recv m) => lrecv s m
    | .base .finish => lfinish s
    | .base (.callInsert k) => lcallInsert s k
    | .base (.callSend k) => lcallSend s k
    | .base a => { s with ch := step s.ch a }
    | .chainBegin => chainBegin s
    | .chainInsert => chainInsert s
    | .chainSend => chainSend s

def linit (asserts hasServices : Bool) : LChan := { ch := init asserts hasServices }

def lrun (asserts hasServices : Bool) (acts : List LAct) : LChan :=
  acts.foldl lstep (linit asserts hasServices)

/-- a completion closure that issues one call on its own channel -/
def chainOnce : List LAct := [.chainBegin, .chainInsert, .chainSend]

end MuduoVerif.Rpc
