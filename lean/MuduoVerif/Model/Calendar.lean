import MuduoVerif.Generated.Calendar
/-!
Model of the calendar part of C20 (muduo/base/Date.{h,cc}, the UTC half of
TimeZone.cc, Timestamp.cc's text forms).

All arithmetic is **the generated code** (`Generated/Calendar.lean`, translated statement
by statement from /repo's current AST): `getJulianDayNumber`, `getYearMonthDay`,
`Date_weekDay`, `fillHMS`, `BreakTime`, `fromUtcTime`.  Hand-written here: the `printf`
conversions used by `Date::toIsoString`, `DateTime::toIsoString`, `Timestamp::toString`
and `Timestamp::toFormattedString` (tied to the code by the differential run only).
-/
namespace MuduoVerif.Calendar
open MuduoVerif.Gen.Calendar

/-- decimal digits of a natural number -/
def natDigits (n : Nat) : List Char := (Nat.toDigits 10 n)

/-- `printf("%<w>d")` (`zero = false`, blank padded) / `printf("%0<w>d")` (`zero = true`) -/
def fmtInt (w : Nat) (zero : Bool) (v : Int) : List Char :=
  let ds := natDigits v.natAbs
  let neg := decide (v < 0)
  let len := ds.length + (if neg then 1 else 0)
  let fill := w - len
  if zero then
    (if neg then ['-'] else []) ++ List.replicate fill '0' ++ ds
  else
    List.replicate fill ' ' ++ (if neg then ['-'] else []) ++ ds

/-- `Date::toIsoString`: `"%4d-%02d-%02d"` -/
def dateIso (j : Int) : String :=
  let x := Date_yearMonthDay j
  String.ofList (fmtInt 4 false x.year ++ ['-'] ++ fmtInt 2 true x.month ++ ['-'] ++ fmtInt 2 true x.day)

/-- `DateTime::toIsoString`: `"%04d-%02d-%02d %02d:%02d:%02d"` -/
def dtIso (dt : DateTime) : String :=
  String.ofList (fmtInt 4 true dt.year ++ ['-'] ++ fmtInt 2 true dt.month ++ ['-'] ++ fmtInt 2 true dt.day ++ [' ']
    ++ fmtInt 2 true dt.hour ++ [':'] ++ fmtInt 2 true dt.minute ++ [':'] ++ fmtInt 2 true dt.second)

/-- `Timestamp::toString`: `"%ld.%06ld"` of the C quotient and remainder by 10^6 -/
def tsToString (us : Int) : String :=
  String.ofList (fmtInt 0 false (Int.tdiv us kMicroSecondsPerSecond) ++ ['.']
    ++ fmtInt 6 true (Int.tmod us kMicroSecondsPerSecond))

/-- `Timestamp::toFormattedString(showMicroseconds)`; the code calls `gmtime_r`, the model
uses the translated `BreakTime` (their agreement is part of what the run compares) -/
def tsFormatted (us : Int) (showMicro : Bool) : String :=
  let dt := BreakTime (Int.tdiv us kMicroSecondsPerSecond)
  let base := fmtInt 4 false dt.year ++ fmtInt 2 true dt.month ++ fmtInt 2 true dt.day ++ [' ']
    ++ fmtInt 2 true dt.hour ++ [':'] ++ fmtInt 2 true dt.minute ++ [':'] ++ fmtInt 2 true dt.second
  String.ofList (if showMicro then base ++ ['.'] ++ fmtInt 6 true (Int.tmod us kMicroSecondsPerSecond) else base)

/-- the documented argument ranges of `DateTime` (TimeZone.h) -/
def DateTime.fieldsOk (dt : DateTime) : Prop :=
  0 ≤ dt.hour ∧ dt.hour < 24 ∧ 0 ≤ dt.minute ∧ dt.minute < 60 ∧ 0 ≤ dt.second ∧ dt.second < 60

instance (dt : DateTime) : Decidable (DateTime.fieldsOk dt) := by unfold DateTime.fieldsOk; infer_instance

end MuduoVerif.Calendar
