import MuduoVerif.Generated.Calendar
import MuduoVerif.Generated.TsText
/-!
Model of the calendar part of C20 (muduo/base/Date.{h,cc}, the UTC half of
TimeZone.cc, Timestamp.cc's text forms).

All arithmetic is **the generated code** (`Generated/Calendar.lean`, translated statement
by statement from /repo's current AST): `getJulianDayNumber`, `getYearMonthDay`,
`Date_weekDay`, `fillHMS`, `BreakTime`, `fromUtcTime`.  The text forms of `Timestamp` (`toString`, `toFormattedString`) render the
`snprintf` formats, buffers and arguments extracted from Timestamp.cc (`Generated/TsText.lean`).
Hand-written here: what `%[0][width]d` prints (`fmtInt`) and the formats of `Date::toIsoString` /
`DateTime::toIsoString` (tied to the code by the differential run only).
-/
namespace MuduoVerif.Calendar
open MuduoVerif.Gen.Calendar

/-- decimal digits of a natural number -/
def natDigits (n : Nat) : List Char := (Nat.toDigits 10 n)

/-- `printf("%<w>d")` (`zero = false`, blank padded) / `printf("%0<w>d")` (`zero = true`) -/
def fmtInt (w : Nat) (zero : Bool) (v : Int) : List Char :=
  let ds := natDigits v.natAbs
  let neg := decide (v < 0)
  let len := ds.length + (if neg then 1 else 0)
  let fill := w - len
  if zero then
    (if neg then ['-'] else []) ++ List.replicate fill '0' ++ ds
  else
    List.replicate fill ' ' ++ (if neg then ['-'] else []) ++ ds

/-- `Date::toIsoString`: `"%4d-%02d-%02d"` -/
def dateIso (j : Int) : String :=
  let x := Date_yearMonthDay j
  String.ofList (fmtInt 4 false x.year ++ ['-'] ++ fmtInt 2 true x.month ++ ['-'] ++ fmtInt 2 true x.day)

/-- `DateTime::toIsoString`: `"%04d-%02d-%02d %02d:%02d:%02d"` -/
def dtIso (dt : DateTime) : String :=
  String.ofList (fmtInt 4 true dt.year ++ ['-'] ++ fmtInt 2 true dt.month ++ ['-'] ++ fmtInt 2 true dt.day ++ [' ']
    ++ fmtInt 2 true dt.hour ++ [':'] ++ fmtInt 2 true dt.minute ++ [':'] ++ fmtInt 2 true dt.second)

/-! ### `snprintf` with the formats of Timestamp.cc (`Generated/TsText.lean`) -/

/-- state: `none` outside a conversion, `some (zeroFlag, width, sawWidthDigit)` inside `%..`; conversions are
`%[0][width]d` and `%[0][width]ld`, everything else is copied -/
def renderGo : Option (Bool × Nat × Bool) → List Char → List Int → List Char
  | _, [], _ => []
  | none, c :: rest, args =>
    if c = '%' then renderGo (some (false, 0, false)) rest args else c :: renderGo none rest args
  | some (z, w, started), c :: rest, args =>
    if c = 'd' then
      match args with
      | a :: as => fmtInt w z a ++ renderGo none rest as
      | [] => renderGo none rest []
    else if c = 'l' then renderGo (some (z, w, started)) rest args
    else if c = '0' ∧ started = false then renderGo (some (true, w, false)) rest args
    else if c.isDigit then renderGo (some (z, w * 10 + (c.toNat - 48), true)) rest args
    else c :: renderGo none rest args

/-- `snprintf(buf, size, fmt, args..)`: the text, cut to what fits the buffer with its terminating NUL -/
def snprintf (size : Nat) (fmt : List Char) (args : List Int) : List Char := (renderGo none fmt args).take (size - 1)

open MuduoVerif.Gen.TsText in
/-- `Timestamp::toString`: the format, the buffer and the two arguments of the source -/
def tsToStringChars (us : Int) : List Char :=
  snprintf toStringBuf toStringFormat [toStringSeconds us, toStringMicros us]

def tsToString (us : Int) : String := String.ofList (tsToStringChars us)

open MuduoVerif.Gen.TsText in
/-- `Timestamp::toFormattedString(showMicroseconds)`; the code calls `gmtime_r`, the model uses the translated
`BreakTime` (their agreement is part of what the run compares): `tm_year + 1900`, `tm_mon + 1`, `tm_mday`, `tm_hour`,
`tm_min`, `tm_sec` are the fields of `BreakTime seconds` -/
def tsFormattedChars (us : Int) (showMicro : Bool) : List Char :=
  let dt := BreakTime (formattedSeconds us)
  let args := [dt.year, dt.month, dt.day, dt.hour, dt.minute, dt.second]
  if formattedShowsMicros showMicro then snprintf formattedBufMicro formattedFormatMicro (args ++ [formattedMicros us])
  else snprintf formattedBuf formattedFormat args

def tsFormatted (us : Int) (showMicro : Bool) : String := String.ofList (tsFormattedChars us showMicro)

/-! ### reading the text forms back (specification side of `C20.timestamp_text_roundtrip`) -/

/-- value of a string of ASCII digits -/
def digitsVal (cs : List Char) : Nat := Nat.ofDigitChars 10 cs 0

/-- `"<seconds>.<6 digits>"` → microseconds -/
def parseToString (cs : List Char) : Option Int :=
  let a := cs.takeWhile Char.isDigit
  match cs.dropWhile Char.isDigit with
  | '.' :: b => if a ≠ [] ∧ b.length = 6 ∧ b.all Char.isDigit then some ((digitsVal a : Int) * 1000000 + digitsVal b) else none
  | _ => none

/-- `"[blanks]Y..YMMDD HH:MM:SS[.uuuuuu]"` → microseconds since the epoch (through the translated `fromUtcTime`) -/
def parseFormatted (cs : List Char) : Option Int :=
  let cs := cs.dropWhile (· = ' ')
  let ymd := cs.takeWhile Char.isDigit
  match cs.dropWhile Char.isDigit with
  | ' ' :: h1 :: h2 :: ':' :: m1 :: m2 :: ':' :: s1 :: s2 :: tail =>
    if ymd.length < 5 then none
    else
      let dt : DateTime :=
        { year := digitsVal (ymd.take (ymd.length - 4)), month := digitsVal ((ymd.drop (ymd.length - 4)).take 2),
          day := digitsVal (ymd.drop (ymd.length - 2)), hour := digitsVal [h1, h2], minute := digitsVal [m1, m2],
          second := digitsVal [s1, s2] }
      let sec := fromUtcTime dt
      match tail with
      | [] => some (sec * 1000000)
      | '.' :: u => if u.length = 6 then some (sec * 1000000 + digitsVal u) else none
      | _ => none
  | _ => none

/-- the documented argument ranges of `DateTime` (TimeZone.h) -/
def DateTime.fieldsOk (dt : DateTime) : Prop :=
  0 ≤ dt.hour ∧ dt.hour < 24 ∧ 0 ≤ dt.minute ∧ dt.minute < 60 ∧ 0 ≤ dt.second ∧ dt.second < 60

instance (dt : DateTime) : Decidable (DateTime.fieldsOk dt) := by unfold DateTime.fieldsOk; infer_instance

end MuduoVerif.Calendar
