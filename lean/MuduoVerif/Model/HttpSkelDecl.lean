/-!
# Statement skeletons of the HTTP engine: vocabulary and the skeletons the model implements

`Model/Http.lean` takes the tables, separators, the guard on the request-target and the list of parse states that have
an arm from `Generated/Http.lean`; the ORDER and NESTING of the statements of `HttpContext::processRequestLine`,
`HttpContext::parseRequest` and of the `HttpRequest` setters they call - when the line is consumed, which arm clears
`hasMore`, when `state_` moves on, what `addHeader` trims in which order - is hand-written there.  This file states,
function by function, the skeleton that the model's definition implements (`Decl.*`, written by reading
`Model/Http.lean`, each with a pointer to the model definition it mirrors).  `vlib/gen/httpskel.py` extracts the
skeleton of the same functions from /repo's current `muduo/net/http/HttpContext.cc` / `HttpRequest.h`
(`Generated/HttpSkel.lean`, in the vocabulary below) and `Proofs/HttpSkelTie.lean` proves the two equal by `decide`.
A source change that swaps two statements, moves a call into or out of an `if`, merges two `if`s into `if / else if`,
drops an `else`, turns a `while` into an `if`, duplicates or drops a statement in one of these functions changes the
extracted skeleton and breaks that proof.

An `ite` is named after the generated guard (`Gen.Http.targetAccepted`) where the model branches on one; every other
condition is printed.  Expressions are canonical prints of the source expressions (casts dropped, `->` as `.`, minimal
parentheses, characters as `' '`).  The one action a condition may perform is a setter of `request_`; it precedes the
`ite`.  Every `if` is part of the skeleton, also one with two empty branches.  Core Lean only; imports nothing.

Classes of statements that are NOT part of a skeleton (the generator ignores exactly these):
* I2 casts of every kind, parentheses, temporaries;
* I3 declarations of locals without an initialiser;
* I4 `MUDUO_VERIF_POINT` and empty statements.

Where the model ABSTRACTS from something the code does, the code's action is declared (so that moving it is noticed)
and the function's comment says what the model has in its place:
* `request_.setReceiveTime(receiveTime)` / `receiveTime_`: the model's `Request` has no receive time;
* `assert(method_ == kInvalid)` in `setMethod`: the model has no such test - it holds on every path the model covers
  (a request line is only processed on a fresh or `reset()` context; after a rejected line the stream is abandoned:
  assumption of C18, `Http.feed` does nothing once `dead`);
* a REJECTED request line: the code has already stored `method_` (inside the first condition) and `path_` / `query_`
  (before the version test) when it returns false; `Http.processRequestLine` returns `none` and `Http.lineStep` leaves
  the request untouched.  Not observable under the same assumption (stated at `Http.processRequestLine`); the
  skeleton below is the code's order.
-/
namespace MuduoVerif.HttpSkel

/-- the setters of `HttpRequest` that `HttpContext` calls on `request_` -/
inductive ReqOp | setMethod | setPath | setQuery | setVersion | addHeader | setReceiveTime
deriving DecidableEq, Repr

/-- mutating operations of `muduo::net::Buffer` used by the parser -/
inductive BufOp | retrieveUntil
deriving DecidableEq, Repr

/-- one significant action; strings are canonical prints of source expressions -/
inductive Act
  | assign (var : String) (value : String)              -- a store (initialised local, assignment, `++p` = `p + 1`); `<result>` = result of the action before
  | call (fn : String) (args : String)                  -- `processRequestLine(..)`
  | req (op : ReqOp) (args : String)                    -- `request_.op(..)`
  | bufOp (op : BufOp) (buf : String) (args : String)
  | strOp (obj : String) (op : String) (args : String)  -- `path_.assign(..)`, `value.resize(..)`
  | mapStore (map : String) (key : String) (value : String)   -- `headers_[key] = value`
  | assertion (cond : String)                           -- `assert(cond)`
  | ret (value : String)                                -- `return value`
deriving DecidableEq, Repr

/-- a statement: an action, `if (guard) { thn } else { els }`, or `while (guard) { body }` -/
inductive Skel
  | act (a : Act)
  | ite (guard : String) (thn els : List Skel)
  | loop (guard : String) (body : List Skel)
deriving Repr

/-! `deriving DecidableEq` does not handle the nesting through `List`; the instance is written out
(structural recursion, so `decide` evaluates it in the kernel). -/
mutual
def Skel.decEq : (x y : Skel) → Decidable (x = y)
  | .act a, .act a' => if h : a = a' then isTrue (by rw [h]) else isFalse (by intro e; cases e; exact h rfl)
  | .act _, .ite .. => isFalse (by intro e; cases e)
  | .act _, .loop .. => isFalse (by intro e; cases e)
  | .ite .., .act _ => isFalse (by intro e; cases e)
  | .ite .., .loop .. => isFalse (by intro e; cases e)
  | .loop .., .act _ => isFalse (by intro e; cases e)
  | .loop .., .ite .. => isFalse (by intro e; cases e)
  | .ite g t e, .ite g' t' e' =>
    if hg : g = g' then
      match Skel.decEqL t t' with
      | isTrue ht =>
        match Skel.decEqL e e' with
        | isTrue he => isTrue (by rw [hg, ht, he])
        | isFalse he => isFalse (by intro q; cases q; exact he rfl)
      | isFalse ht => isFalse (by intro q; cases q; exact ht rfl)
    else isFalse (by intro q; cases q; exact hg rfl)
  | .loop g b, .loop g' b' =>
    if hg : g = g' then
      match Skel.decEqL b b' with
      | isTrue hb => isTrue (by rw [hg, hb])
      | isFalse hb => isFalse (by intro q; cases q; exact hb rfl)
    else isFalse (by intro q; cases q; exact hg rfl)
def Skel.decEqL : (x y : List Skel) → Decidable (x = y)
  | [], [] => isTrue rfl
  | [], _ :: _ => isFalse (by intro e; cases e)
  | _ :: _, [] => isFalse (by intro e; cases e)
  | a :: as, b :: bs =>
    match Skel.decEq a b with
    | isTrue h =>
      match Skel.decEqL as bs with
      | isTrue h' => isTrue (by rw [h, h'])
      | isFalse h' => isFalse (by intro q; cases q; exact h' rfl)
    | isFalse h => isFalse (by intro q; cases q; exact h rfl)
end
instance : DecidableEq Skel := Skel.decEq
instance : DecidableEq (List Skel) := Skel.decEqL

/-! ## The skeleton each model function implements

Conventions of the reading.
* Pointers into the line are offsets: `find ch l` is `std::find(first, last, ch) - first`, `p != last` is
  `find ch l < l.length`; `splitAt ch l = some (l.take .., l.drop (.. + 1))` is "found, and `start = p + 1`".
* `Http.findCRLF buf = some k` is `crlf != NULL` with `crlf = peek() + k`; `buf.take k` is the line `[peek(), crlf)`;
  consuming `k + crlfLen` bytes (`parseLoop`: `buf.drop k'`) is `retrieveUntil(crlf + 2)`.
* `LineOut`: `.need`, `.fail`, `.done ..` end `parseLoop` - the code clears `hasMore`; `.next ..` and `.spin` recurse -
  `hasMore` stays true.  `.fail` makes `parseLoop` return `ok := false`: the code's `ok` is the value
  `processRequestLine` returned.
* a record update `{ ctx with state := s }` / `{ r with f := v }` is the store to `state_` / the setter of `request_`. -/
namespace Decl

/-- `Http.processRequestLine line`.
`match splitAt methodSep line with | none => none | some (m, rest) => if methodAccepted (setMethod m) then ..`: the
first `find`, and the condition `space != end && request_.setMethod(start, space)` (the setter it calls is declared in
front of it; `rest` is `[start, end)` after `start = space+1`).
`if targetAccepted (find targetSep rest) rest.length (find querySep (rest.take ..)) (findIf isControl ..) then`: the
second and third `find` and the generated guard.
`path := target.take q`, `query := target.drop q` with `q = find querySep target`: `setPath(start, question)`,
`setQuery(question, space)` when `question != space`; otherwise `q = target.length`, the path is the whole target and
the query `[]`, which `lineStep` treats as "`setQuery` was not called" (`query := if l.query = [] then ctx.req.query`).
`versionOf (rest.drop (find targetSep rest + 1))`: `start = space+1`, `succeed = end-start == 8 && equal(..)` (`tok.length
= versionLen ∧ tok.take (versionLen - 1) = versionPrefix`), then the chain over the last character
(`versionTable.find?`: `'1'` first, then `'0'`), anything else `none` (`succeed = false`).
The model evaluates the version before it builds the result; the code has stored path and query by then (see the
header: not tracked for a rejected line). -/
def processRequestLine : List Skel :=
  [ .act (.assign "succeed" "false"),
    .act (.assign "start" "begin"),
    .act (.assign "space" "find(start, end, ' ')"),
    .act (.req .setMethod "start, space"),
    .ite "space != end && request_.setMethod(start, space)"
      [ .act (.assign "start" "space + 1"),
        .act (.assign "space" "find(start, end, ' ')"),
        .act (.assign "question" "find(start, space, '?')"),
        .ite "targetAccepted"
          [ .ite "question != space"
              [ .act (.req .setPath "start, question"),
                .act (.req .setQuery "question, space") ]
              [ .act (.req .setPath "start, space") ],
            .act (.assign "start" "space + 1"),
            .act (.assign "succeed" "end - start == 8 && equal(start, end - 1, \"HTTP/1.\")"),
            .ite "succeed"
              [ .ite "*(end - 1) == '1'"
                  [ .act (.req .setVersion "kHttp11") ]
                  [ .ite "*(end - 1) == '0'"
                      [ .act (.req .setVersion "kHttp10") ]
                      [ .act (.assign "succeed" "false") ] ] ]
              [] ]
          [] ]
      [],
    .act (.ret "succeed") ]

/-- `Http.parseRequest` = `Http.parseLoop` over `Http.lineStep`: the `loop` node mirrors the recursion `parseLoop`
(one iteration = one `lineStep`; fuel `buf.length + 1`).
`lineStep`, `.kExpectRequestLine`: `match findCRLF buf with | none => .need | some k => match processRequestLine
(buf.take k) with | some l => .next { state := .kExpectHeaders, req := .. } (k + crlfLen) | none => .fail`.
`.kExpectHeaders`: `match findCRLF buf with | none => .need | some k => if find headerSep (buf.take k) < (buf.take
k).length then .next { ctx with req := addHeader .. } (k + crlfLen) else .done { ctx with state := .kGotAll } (k +
crlfLen)` - the line is consumed on BOTH paths (`retrieveUntil` behind the inner `if`).
`spins st` (no arm, or an empty arm: `Gen.Http.parseArms` / `emptyArms`) is the end of the chain: `.kExpectBody` has
the empty arm, `.kGotAll` none; there `hasMore` stays true (`.spin => parseLoop n ctx buf`).
`setReceiveTime`: no counterpart in the model. -/
def parseRequest : List Skel :=
  [ .act (.assign "ok" "true"),
    .act (.assign "hasMore" "true"),
    .loop "hasMore"
      [ .ite "state_ == kExpectRequestLine"
          [ .act (.assign "crlf" "buf.findCRLF()"),
            .ite "crlf"
              [ .act (.call "processRequestLine" "buf.peek(), crlf"),
                .act (.assign "ok" "<result>"),
                .ite "ok"
                  [ .act (.req .setReceiveTime "receiveTime"),
                    .act (.bufOp .retrieveUntil "buf" "crlf + 2"),
                    .act (.assign "state_" "kExpectHeaders") ]
                  [ .act (.assign "hasMore" "false") ] ]
              [ .act (.assign "hasMore" "false") ] ]
          [ .ite "state_ == kExpectHeaders"
              [ .act (.assign "crlf" "buf.findCRLF()"),
                .ite "crlf"
                  [ .act (.assign "colon" "find(buf.peek(), crlf, ':')"),
                    .ite "colon != crlf"
                      [ .act (.req .addHeader "buf.peek(), colon, crlf") ]
                      [ .act (.assign "state_" "kGotAll"),
                        .act (.assign "hasMore" "false") ],
                    .act (.bufOp .retrieveUntil "buf" "crlf + 2") ]
                  [ .act (.assign "hasMore" "false") ] ]
              [ .ite "state_ == kExpectBody" [] [] ] ] ],
    .act (.ret "ok") ]

/-- `lineStep`: `version := l.version` -/
def setVersion : List Skel :=
  [ .act (.assign "version_" "v") ]

/-- `Http.setMethod tok = match methodTable.find? (fun e => e.1 == tok) with | some e => e.2 | none => methodDefault`
and `methodAccepted`: the token as a string, the chain of comparisons in the order of the generated `methodTable`
(first match wins), the generated default in the final `else`, the generated test as the value returned.
The leading `assert`: see the header. -/
def setMethod : List Skel :=
  [ .act (.assertion "method_ == kInvalid"),
    .act (.assign "m" "string(start, end)"),
    .ite "m == \"GET\""
      [ .act (.assign "method_" "kGet") ]
      [ .ite "m == \"POST\""
          [ .act (.assign "method_" "kPost") ]
          [ .ite "m == \"HEAD\""
              [ .act (.assign "method_" "kHead") ]
              [ .ite "m == \"PUT\""
                  [ .act (.assign "method_" "kPut") ]
                  [ .ite "m == \"DELETE\""
                      [ .act (.assign "method_" "kDelete") ]
                      [ .act (.assign "method_" "kInvalid") ] ] ] ] ],
    .act (.ret "method_ != kInvalid") ]

/-- `lineStep`: `path := l.path` -/
def setPath : List Skel :=
  [ .act (.strOp "path_" "assign" "start, end") ]

/-- `lineStep`: `query := ..  l.query` -/
def setQuery : List Skel :=
  [ .act (.strOp "query_" "assign" "start, end") ]

/-- no counterpart in the model (`Request` has no receive time) -/
def setReceiveTime : List Skel :=
  [ .act (.assign "receiveTime_" "t") ]

/-- `Http.addHeader r line = { r with headers := mapInsert (line.take (find headerSep line)) (trimValue (line.drop
(find headerSep line + 1))) r.headers }`: the field is `[start, colon)`; `++colon` is the `+ 1`; `trimValue v =
((v.dropWhile isspace).reverse.dropWhile isspace).reverse` - the FIRST loop mirrors the inner `dropWhile` (leading
white space, on the pointer), then the value is built, the SECOND loop mirrors the outer `dropWhile` on the reversed
list (trailing white space, one `resize` per byte); `mapInsert` is `headers_[field] = value` -/
def addHeader : List Skel :=
  [ .act (.assign "field" "string(start, colon)"),
    .act (.assign "colon" "colon + 1"),
    .loop "colon < end && isspace(*colon)"
      [ .act (.assign "colon" "colon + 1") ],
    .act (.assign "value" "string(colon, end)"),
    .loop "!value.empty() && isspace(value[value.size() - 1])"
      [ .act (.strOp "value" "resize" "value.size() - 1") ],
    .act (.mapStore "headers_" "field" "value") ]

end Decl
end MuduoVerif.HttpSkel
