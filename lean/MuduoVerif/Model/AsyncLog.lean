import MuduoVerif.Generated.LogFile
/-!
# Model of `muduo::AsyncLogging` (C16, concurrent half)

A thread-indexed transition system.  One `Step` is the code one thread executes between two
consecutive yield points of the deterministic scheduler (before a mutex acquisition, at a condition
wait, at the named points `threadFunc:swapped` / `threadFunc:beforeRetest`, at thread exit / join);
every critical section of `mutex_` is therefore inside one step and the mutex itself needs no state.

* front-end (any thread, any number of them): `front r` = `AsyncLogging::append` — the strict space
  test, the buffer switch, the notify;
* back-end thread: `test` (evaluate `while (running_)`), `enter` (lock; wait if nothing is queued,
  else collect + swap), `wake k` (return from the timed wait — notified / timed out / spurious — then
  collect + swap), `write` (overload valve · write · recycle · flush, i.e. `swapped` →
  `beforeRetest`), `final` (the collect-and-write after the loop, then the thread ends);
* `start`, `stopCall` (`running_ = false; cond_.notify()`), `stopJoin` (`thread_.join()` returns).

A record is an opaque whole (`tid`, `seq`, `len`); buffers have a byte capacity `cap`
(`asyncBufferSize` for the real class).  Guards and constants come from `Generated/LogFile.lean`.
Ghost fields (`appended`, `ledger`, `atStop`, …) record the history the theorems talk about; no
guard reads them.  Core Lean only.
-/
namespace MuduoVerif.AsyncLog
open MuduoVerif.Gen.LogFile

structure Rec where
  tid : Nat
  seq : Nat
  len : Nat
  deriving DecidableEq, Repr

/-- a `FixedBuffer`: the records copied into it, oldest first -/
abbrev Buf := List Rec

def used (b : Buf) : Nat := (b.map Rec.len).sum

/-- `FixedBuffer::avail()` -/
def avail (cap : Nat) (b : Buf) : Nat := cap - used b

/-- `FixedBuffer::append`: copies the bytes, or does nothing at all -/
def bufAppend (cap : Nat) (b : Buf) (r : Rec) : Buf :=
  if fixedAppendFits (avail cap b) r.len then b ++ [r] else b

/-- where the back-end thread stands -/
inductive Pc where
  | idle      -- not started
  | test      -- about to evaluate `while (running_)`
  | enter     -- inside the loop, about to lock `mutex_`
  | waiting   -- in `cond_.waitForSeconds`
  | swapped   -- at `threadFunc:swapped`, `buffersToWrite` filled
  | final     -- left the loop, about to lock `mutex_` for the last collect
  | done      -- thread function returned
  deriving DecidableEq, Repr

/-- what reaches `LogFile::append`, in call order -/
inductive Item where
  | record (r : Rec)
  | note (n : Nat)      -- the drop announcement, reporting `n` buffers
  deriving DecidableEq, Repr

/-- ghost ledger: the fate of every record the back-end has taken, in linearisation order -/
inductive Led where
  | kept (r : Rec)
  | dropped (bufs : List Buf)
  deriving Repr

structure St where
  cap : Nat
  /-- `currentBuffer_` -/
  cur : Buf
  /-- `nextBuffer_` is non-null (it is always empty when present) -/
  hasNext : Bool
  /-- `buffers_` -/
  bufs : List Buf
  running : Bool
  pc : Pc
  /-- the waiting back-end has been notified -/
  woken : Bool
  /-- `buffersToWrite` -/
  toWrite : List Buf
  /-- `newBuffer1` / `newBuffer2` are non-null -/
  nb1 : Bool
  nb2 : Bool
  /-- everything handed to the `LogFile`, in order -/
  disk : List Item
  /-- length of `disk` at the last `output.flush()` -/
  flushed : Nat
  -- ghost
  /-- every record passed to `append`, in the order of the critical sections -/
  appended : List Rec
  ledger : List Led
  started : Bool
  stopCalled : Bool
  stopReturned : Bool
  /-- `appended` when `stop()` cleared `running_` -/
  atStop : List Rec
  deriving Repr

def init (cap : Nat) : St :=
  { cap := cap, cur := [], hasNext := true, bufs := [], running := false, pc := .idle, woken := false,
    toWrite := [], nb1 := true, nb2 := true, disk := [], flushed := 0, appended := [], ledger := [],
    started := false, stopCalled := false, stopReturned := false, atStop := [] }

inductive Step where
  | start
  | front (r : Rec)
  | test
  | enter
  | wake (kind : Nat)     -- 0 notified, 1 timed out, 2 spurious
  | write
  | final
  | stopCall
  | stopJoin
  deriving Repr

/-- `cond_.notify()`: releases the back-end if (and only if) it is waiting right now -/
def notified (s : St) : Bool := s.woken || (s.pc == .waiting)

/-- `AsyncLogging::append` -/
def front (s : St) (r : Rec) : St :=
  if frontFits (avail s.cap s.cur) r.len then
    { s with cur := bufAppend s.cap s.cur r, appended := s.appended ++ [r] }
  else
    { s with bufs := s.bufs ++ [s.cur], cur := bufAppend s.cap [] r, hasNext := false,
             woken := if frontNotifies then notified s else s.woken,
             appended := s.appended ++ [r] }

/-- the critical section of the loop after the wait: queue the current buffer, install `newBuffer1`,
swap the queue out, refill `nextBuffer_` -/
def collect (s : St) : St :=
  { s with toWrite := s.bufs ++ [s.cur], bufs := s.toWrite, cur := [], nb1 := false,
           hasNext := true, nb2 := s.nb2 && s.hasNext, woken := false, pc := .swapped }

def items (bs : List Buf) : List Item := bs.flatten.map Item.record
def keeps (bs : List Buf) : List Led := bs.flatten.map Led.kept

/-- `swapped` → `beforeRetest`: overload valve, write, recycle, flush -/
def writePhase (s : St) : St :=
  if overloaded s.toWrite.length then
    { s with disk := s.disk ++ [Item.note (dropAnnounce s.toWrite.length)] ++ items (s.toWrite.take dropKeep),
             ledger := s.ledger ++ keeps (s.toWrite.take dropKeep) ++ [Led.dropped (s.toWrite.drop dropKeep)],
             flushed := if cycleFlushes then (s.disk ++ [Item.note (dropAnnounce s.toWrite.length)] ++ items (s.toWrite.take dropKeep)).length
                        else s.flushed,
             toWrite := [], nb1 := true, nb2 := true, pc := .test }
  else
    { s with disk := s.disk ++ items s.toWrite,
             ledger := s.ledger ++ keeps s.toWrite,
             flushed := if cycleFlushes then (s.disk ++ items s.toWrite).length else s.flushed,
             toWrite := [], nb1 := true, nb2 := true, pc := .test }

/-- after the loop: collect once more (no wait, no valve), write, flush -/
def finalPhase (s : St) : St :=
  { s with bufs := s.toWrite, cur := [], nb1 := false,
           disk := s.disk ++ items (s.bufs ++ [s.cur]),
           ledger := s.ledger ++ keeps (s.bufs ++ [s.cur]),
           flushed := if finalFlush then (s.disk ++ items (s.bufs ++ [s.cur])).length else s.flushed,
           pc := .done }

/-- one atomic step; `none` when the step is not enabled in `s` -/
def step (s : St) : Step → Option St
  | .start =>
    if s.started then none
    else some { s with started := true, running := true, pc := .test }
  | .front r => some (front s r)
  | .test =>
    if s.pc = .test then
      some (if s.running then { s with pc := .enter }
            else if finalCollect then { s with pc := .final } else { s with pc := .done })
    else none
  | .enter =>
    if s.pc = .enter then
      some (if backWaits s.bufs.length then { s with pc := .waiting, woken := false } else collect s)
    else none
  | .wake kind =>
    if s.pc = .waiting ∧ (kind = 0 → s.woken = true) then some (collect s) else none
  | .write => if s.pc = .swapped then some (writePhase s) else none
  | .final => if s.pc = .final then some (finalPhase s) else none
  | .stopCall =>
    if s.started ∧ ¬ s.stopCalled then
      some { s with running := false, woken := notified s, stopCalled := true, atStop := s.appended }
    else none
  | .stopJoin =>
    if s.stopCalled ∧ ¬ s.stopReturned ∧ s.pc = .done then some { s with stopReturned := true } else none

/-- a history: every step must be enabled -/
def run (s : St) : List Step → Option St
  | [] => some s
  | a :: rest => match step s a with
    | some s' => run s' rest
    | none => none

/-- the records of a history's `append` calls -/
def fronts : List Step → List Rec
  | [] => []
  | .front r :: rest => r :: fronts rest
  | _ :: rest => fronts rest

def expand : List Led → List Rec
  | [] => []
  | .kept r :: rest => r :: expand rest
  | .dropped bs :: rest => bs.flatten ++ expand rest

def keptOf : List Led → List Rec
  | [] => []
  | .kept r :: rest => r :: keptOf rest
  | .dropped _ :: rest => keptOf rest

/-- sizes (in buffers) of the dropped groups, in order -/
def dropsOf : List Led → List Nat
  | [] => []
  | .kept _ :: rest => dropsOf rest
  | .dropped bs :: rest => bs.length :: dropsOf rest

def recsOf : List Item → List Rec
  | [] => []
  | .record r :: rest => r :: recsOf rest
  | .note _ :: rest => recsOf rest

def notesOf : List Item → List Nat
  | [] => []
  | .record _ :: rest => notesOf rest
  | .note n :: rest => n :: notesOf rest

end MuduoVerif.AsyncLog
