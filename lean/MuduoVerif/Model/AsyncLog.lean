import MuduoVerif.Generated.LogFile
import MuduoVerif.Generated.AsyncLog
/-!
# Model of `muduo::AsyncLogging` (C16, concurrent half)

A transition system with arbitrary interleaving at the granularity of critical sections.  One `Step`
is the code one thread executes between two consecutive yield points of the deterministic scheduler
(before a mutex acquisition, at a condition wait, at the named points `threadFunc:swapped` /
`threadFunc:beforeRetest`, at thread exit / join).

*Why this granularity is enough.*  `currentBuffer_`, `nextBuffer_`, `buffers_` are touched only while
`mutex_` is held (GUARDED_BY in the header; C08 checks the accesses), `running_` is a `std::atomic`
read exactly once per cycle (its own step `test`), and everything else the back-end touches
(`newBuffer1/2`, `buffersToWrite`, `output`) is local to its thread.  So every execution is equivalent
to one in which each critical section and each lock-free stretch of the back-end runs without
interruption — the steps below.  `notify()` outside the lock only sets the `woken` flag of a waiting
back-end; since time-outs and spurious wake-ups (`wake 1`, `wake 2`) are always possible, every
behaviour with a differently timed notification is among the histories considered as well.

*What is generated and what is hand-written.*  The statements of every critical section and phase are
NOT written here: `frontThen`, `frontElse`, `loopCollect`, `loopWrite`, `finalCollect`, `finalWrite`,
`startOps`, `stopOps` are lists of statement shapes (`Op`) that `vlib/gen/asynclog.py` reads from the
clang AST of AsyncLogging.{h,cc} on every run, together with the guards `frontFits`, `backWaits`,
`overloaded`, `shrinkIf` and the constants.  Hand-written: the meaning of one statement shape
(`exec`), the control skeleton of `threadFunc` (`step`), and `FixedBuffer::append` (`bufAppend`, with
the generated guard `fixedAppendFits`).

A record is an opaque whole (`tid`, `seq`, `len`); buffers have a byte capacity `cap`
(`asyncBufferSize` for the real class).  Ghost fields (`appended`, `ledger`, `pending`, `atStop`, …)
record the history the theorems talk about; no guard reads them.  Core Lean only.
-/
namespace MuduoVerif.AsyncLog
open MuduoVerif.Gen.LogFile (fixedAppendFits)
open MuduoVerif.Gen.AsyncLog

structure Rec where
  tid : Nat
  seq : Nat
  len : Nat
  deriving DecidableEq, Repr, Inhabited

/-- a `FixedBuffer`: the records copied into it, oldest first -/
abbrev Buf := List Rec

def used (b : Buf) : Nat := (b.map Rec.len).sum

/-- `FixedBuffer::avail()` -/
def avail (cap : Nat) (b : Buf) : Nat := cap - used b

/-- `FixedBuffer::append`: copies the bytes, or does nothing at all -/
def bufAppend (cap : Nat) (b : Buf) (r : Rec) : Buf :=
  if fixedAppendFits (avail cap b) r.len then b ++ [r] else b

/-- where the back-end thread stands -/
inductive Pc where
  | idle      -- not started
  | test      -- about to evaluate `while (running_)`
  | enter     -- inside the loop, about to lock `mutex_`
  | waiting   -- in `cond_.waitForSeconds`
  | swapped   -- at `threadFunc:swapped`, `buffersToWrite` filled
  | final     -- left the loop, about to lock `mutex_` for the last collect
  | done      -- thread function returned
  deriving DecidableEq, Repr

/-- what reaches `LogFile::append`, in call order -/
inductive Item where
  | record (r : Rec)
  | note (n : Nat)      -- the drop announcement, reporting `n` buffers
  deriving DecidableEq, Repr

/-- ghost ledger: the fate of every record the back-end has taken, in the order of the appends -/
inductive Led where
  | kept (r : Rec)
  | dropped (bufs : List Buf)
  deriving Repr

structure St where
  cap : Nat
  /-- `currentBuffer_` (its contents; meaningless while `curOk = false`) -/
  cur : Buf
  /-- `currentBuffer_` is non-null -/
  curOk : Bool
  /-- `nextBuffer_` is non-null (it is always empty when present) -/
  hasNext : Bool
  /-- `buffers_` -/
  bufs : List Buf
  running : Bool
  pc : Pc
  /-- the waiting back-end has been notified -/
  woken : Bool
  /-- `buffersToWrite` -/
  toWrite : List Buf
  /-- `newBuffer1` / `newBuffer2` are non-null -/
  nb1 : Bool
  nb2 : Bool
  /-- everything handed to the `LogFile`, in order -/
  disk : List Item
  /-- length of `disk` at the last `output.flush()` -/
  flushed : Nat
  /-- the announcements written to stderr -/
  errNotes : List Nat
  /-- a null buffer pointer was used (undefined behaviour / failed `assert`) -/
  fault : Bool
  -- ghost
  /-- every record passed to `append`, in the order of the critical sections -/
  appended : List Rec
  ledger : List Led
  /-- buffers the valve erased in the running cycle; they enter the ledger behind the kept ones -/
  pending : List Led
  started : Bool
  stopCalled : Bool
  stopReturned : Bool
  /-- `appended` when `stop()` was called -/
  atStop : List Rec
  deriving Repr

def init (cap : Nat) : St :=
  { cap := cap, cur := [], curOk := true, hasNext := true, bufs := [], running := false, pc := .idle,
    woken := false, toWrite := [], nb1 := true, nb2 := true, disk := [], flushed := 0, errNotes := [],
    fault := false, appended := [], ledger := [], pending := [], started := false, stopCalled := false,
    stopReturned := false, atStop := [] }

/-- `cond_.notify()`: releases the back-end if (and only if) it is waiting right now -/
def notified (s : St) : Bool := s.woken || (s.pc == .waiting)

def items (bs : List Buf) : List Item := bs.flatten.map Item.record
def keeps (bs : List Buf) : List Led := bs.flatten.map Led.kept

/-- the meaning of one statement shape; `r` is the record of the running `append` call -/
def exec (r : Rec) (o : Op) (s : St) : St :=
  match o with
  | .appendCur =>
    if s.curOk then { s with cur := bufAppend s.cap s.cur r } else { s with fault := true }
  | .pushCur => { s with bufs := s.bufs ++ [s.cur], cur := [], curOk := false, fault := s.fault || !s.curOk }
  | .pushCurW => { s with toWrite := s.toWrite ++ [s.cur], cur := [], curOk := false, fault := s.fault || !s.curOk }
  | .curFromNextOrNew => { s with cur := [], curOk := true, hasNext := false }
  | .curFromNext => { s with cur := [], curOk := s.hasNext, hasNext := false }
  | .curNew => { s with cur := [], curOk := true }
  | .curFromNew1 => { s with cur := [], curOk := s.nb1, nb1 := false }
  | .curFromNew2 => { s with cur := [], curOk := s.nb2, nb2 := false }
  | .refillNext => if s.hasNext then s else { s with hasNext := s.nb2, nb2 := false }
  | .refillNext1 => if s.hasNext then s else { s with hasNext := s.nb1, nb1 := false }
  | .swapQueue => { s with toWrite := s.bufs, bufs := s.toWrite }
  | .notify => { s with woken := notified s }
  | .valve =>
    if overloaded s.toWrite.length then
      { s with disk := if valveAnnouncesFile then s.disk ++ [Item.note (dropAnnounce s.toWrite.length)] else s.disk,
               errNotes := if valveAnnouncesStderr then s.errNotes ++ [dropAnnounce s.toWrite.length] else s.errNotes,
               pending := s.pending ++ [Led.dropped (s.toWrite.drop dropKeep)],
               toWrite := s.toWrite.take dropKeep }
    else s
  | .writeAll => { s with disk := s.disk ++ items s.toWrite, ledger := s.ledger ++ keeps s.toWrite ++ s.pending,
                          pending := [] }
  | .shrink => if shrinkIf s.toWrite.length then { s with toWrite := s.toWrite.take shrinkTo } else s
  | .recycle1 =>
    if s.nb1 then s
    else { s with nb1 := !s.toWrite.isEmpty, fault := s.fault || s.toWrite.isEmpty, toWrite := s.toWrite.dropLast }
  | .recycle2 =>
    if s.nb2 then s
    else { s with nb2 := !s.toWrite.isEmpty, fault := s.fault || s.toWrite.isEmpty, toWrite := s.toWrite.dropLast }
  | .clear => { s with toWrite := [] }
  | .flush => { s with flushed := s.disk.length }
  | .setRunning => { s with running := true }
  | .clearRunning => { s with running := false }
  | .spawn => if s.pc = .idle then { s with pc := .test } else { s with fault := true }
  | .latchWait => s
  | .join => s

def runOps (r : Rec) (ops : List Op) (s : St) : St := ops.foldl (fun s o => exec r o s) s

/-- the record argument of the statements that run outside `append` (none of them reads it) -/
def noRec : Rec := ⟨0, 0, 0⟩

/-- `AsyncLogging::append`: one critical section -/
def front (s : St) (r : Rec) : St :=
  if s.curOk then
    let s' := if frontFits (avail s.cap s.cur) r.len then runOps r frontThen s else runOps r frontElse s
    { s' with appended := s.appended ++ [r] }
  else { s with fault := true, appended := s.appended ++ [r] }

/-- the critical section of the loop after the wait -/
def collect (s : St) : St :=
  { runOps noRec loopCollect s with woken := false, pc := .swapped }

/-- `swapped` → `beforeRetest`: overload valve, write, recycle, flush -/
def writePhase (s : St) : St :=
  { runOps noRec loopWrite s with pc := .test }

/-- after the loop: what the generated lists say, then the thread ends; `output` (a local `LogFile`) goes out
of scope there, and closing the stream writes out whatever stdio still buffers -/
def finalPhase (s : St) : St :=
  let t := runOps noRec finalWrite (runOps noRec finalCollect s)
  { t with flushed := t.disk.length, pc := .done }

/-- `stop()` up to (not including) `thread_.join()` -/
def stopPrefix : List Op := stopOps.takeWhile (· ≠ .join)

inductive Step where
  | start
  | front (r : Rec)
  | test
  | enter
  | wake (kind : Nat)     -- 0 notified, 1 timed out, 2 spurious
  | write
  | final
  | stopCall
  | stopJoin
  deriving Repr

/-- one atomic step; `none` when the step is not enabled in `s` -/
def step (s : St) : Step → Option St
  | .start =>
    if s.started then none
    else some (runOps noRec startOps { s with started := true })
  | .front r => some (front s r)
  | .test =>
    if s.pc = .test then some (if s.running then { s with pc := .enter } else { s with pc := .final })
    else none
  | .enter =>
    if s.pc = .enter then
      some (if backWaits s.bufs.length then { s with pc := .waiting, woken := false } else collect s)
    else none
  | .wake kind =>
    if s.pc = .waiting ∧ (kind = 0 → s.woken = true) then some (collect s) else none
  | .write => if s.pc = .swapped then some (writePhase s) else none
  | .final => if s.pc = .final then some (finalPhase s) else none
  | .stopCall =>
    if s.started ∧ ¬ s.stopCalled then
      some (runOps noRec stopPrefix { s with stopCalled := true, atStop := s.appended })
    else none
  | .stopJoin =>
    if s.stopCalled ∧ ¬ s.stopReturned ∧ (Op.join ∈ stopOps → s.pc = .done) then some { s with stopReturned := true }
    else none

/-- a history: every step must be enabled -/
def run (s : St) : List Step → Option St
  | [] => some s
  | a :: rest => match step s a with
    | some s' => run s' rest
    | none => none

/-- the records of a history's `append` calls -/
def fronts : List Step → List Rec
  | [] => []
  | .front r :: rest => r :: fronts rest
  | _ :: rest => fronts rest

def expand : List Led → List Rec
  | [] => []
  | .kept r :: rest => r :: expand rest
  | .dropped bs :: rest => bs.flatten ++ expand rest

def keptOf : List Led → List Rec
  | [] => []
  | .kept r :: rest => r :: keptOf rest
  | .dropped _ :: rest => keptOf rest

/-- sizes (in buffers) of the dropped groups, in order -/
def dropsOf : List Led → List Nat
  | [] => []
  | .kept _ :: rest => dropsOf rest
  | .dropped bs :: rest => bs.length :: dropsOf rest

def recsOf : List Item → List Rec
  | [] => []
  | .record r :: rest => r :: recsOf rest
  | .note _ :: rest => recsOf rest

def notesOf : List Item → List Nat
  | [] => []
  | .record _ :: rest => notesOf rest
  | .note n :: rest => n :: notesOf rest

/-- the buffers the back-end has taken but not yet handed to the file -/
def inflight (s : St) : List Buf := if s.pc = .swapped then s.toWrite else []

end MuduoVerif.AsyncLog
