import MuduoVerif.Generated.Buffer
/-!
Model of `muduo::net::Buffer` (muduo/net/Buffer.h, Buffer.cc), function by function.

The storage is the whole `std::vector<char>` (including the bytes outside the readable
window, which the API never shows but which the code copies around), the two indices
are the code's `readerIndex_` / `writerIndex_`.  Every guard that decides a branch is
taken from `Generated/Buffer.lean`, i.e. from the current source.

Preconditions (the code's `assert`s) are the `*Pre` predicates; the driver rejects an
operation outside its precondition and the generator never produces one.
-/
namespace MuduoVerif.Buffer
open MuduoVerif.Gen.Buffer

abbrev Bytes := List UInt8

structure Buf where
  data   : Bytes
  reader : Nat
  writer : Nat
deriving Repr, DecidableEq

/-- overwrite `x.length` bytes of `d` starting at `pos` (a `std::copy` into the vector) -/
def splice (d : Bytes) (pos : Nat) (x : Bytes) : Bytes :=
  d.take pos ++ x ++ d.drop (pos + x.length)

/-- `std::vector<char>::resize(n)` (new elements value-initialised) -/
def resize (d : Bytes) (n : Nat) : Bytes :=
  d.take n ++ List.replicate (n - d.length) 0

def mk (initial : Nat) : Buf :=
  { data := List.replicate (kCheapPrepend + initial) 0, reader := kCheapPrepend, writer := kCheapPrepend }

def readable (b : Buf) : Nat := b.writer - b.reader
def writable (b : Buf) : Nat := b.data.length - b.writer
def prependable (b : Buf) : Nat := b.reader

/-- the readable window: what `peek()`/`toStringPiece()` expose -/
def content (b : Buf) : Bytes := (b.data.drop b.reader).take (b.writer - b.reader)

def retrieveAll (b : Buf) : Buf := { b with reader := kCheapPrepend, writer := kCheapPrepend }

def retrievePre (b : Buf) (n : Nat) : Prop := n ≤ readable b
instance : Decidable (retrievePre b n) := by unfold retrievePre; infer_instance

def retrieve (b : Buf) (n : Nat) : Buf :=
  if retrieveKeeps n (readable b) then { b with reader := b.reader + n } else retrieveAll b

def makeSpace (b : Buf) (len : Nat) : Buf :=
  if makeSpaceGrows (writable b) (prependable b) len then
    { b with data := resize b.data (b.writer + len) }
  else
    { data := splice b.data kCheapPrepend (content b)
      reader := kCheapPrepend
      writer := kCheapPrepend + readable b }

def ensureWritable (b : Buf) (len : Nat) : Buf :=
  if ensureNeedsSpace (writable b) len then makeSpace b len else b

def hasWrittenPre (b : Buf) (n : Nat) : Prop := n ≤ writable b
instance : Decidable (hasWrittenPre b n) := by unfold hasWrittenPre; infer_instance
def hasWritten (b : Buf) (n : Nat) : Buf := { b with writer := b.writer + n }

def unwritePre (b : Buf) (n : Nat) : Prop := n ≤ readable b
instance : Decidable (unwritePre b n) := by unfold unwritePre; infer_instance
def unwrite (b : Buf) (n : Nat) : Buf := { b with writer := b.writer - n }

/-- `append(data,len)`: ensureWritableBytes; copy at beginWrite(); hasWritten -/
def append (b : Buf) (x : Bytes) : Buf :=
  let b' := ensureWritable b x.length
  { b' with data := splice b'.data b'.writer x, writer := b'.writer + x.length }

def prependPre (b : Buf) (x : Bytes) : Prop := x.length ≤ prependable b
instance : Decidable (prependPre b x) := by unfold prependPre; infer_instance
def prepend (b : Buf) (x : Bytes) : Buf :=
  { b with reader := b.reader - x.length, data := splice b.data (b.reader - x.length) x }

/-- `shrink(reserve)`: fresh default buffer, ensureWritableBytes(readable+reserve), append, swap -/
def shrink (b : Buf) (reserve : Nat) : Buf :=
  append (ensureWritable (mk kInitialSize) (readable b + reserve)) (content b)

/-- what `readv` may deliver at most in one call (`iovcnt` segments) -/
def readFdCapacity (b : Buf) : Nat :=
  if readFdIovcnt (writable b) = 2 then writable b + extrabufSize else writable b

def readFdPre (b : Buf) (d : Bytes) : Prop := d.length ≤ readFdCapacity b
instance : Decidable (readFdPre b d) := by unfold readFdPre; infer_instance

/-- `readFd` when `readv` delivered the bytes `d` (`n = d.length ≥ 0`). The kernel fills
`vec[0]` (the writable area) first and the rest goes to `extrabuf`. -/
def readFd (b : Buf) (d : Bytes) : Buf :=
  if readFdFits d.length (writable b) then
    { b with data := splice b.data b.writer d, writer := b.writer + d.length }
  else
    let w := writable b
    let b1 : Buf := { b with data := splice b.data b.writer (d.take w), writer := b.data.length }
    append b1 (d.drop w)

/-! ### big-endian integers (Endian.h + append/peek/prependIntN) -/

/-- `n` big-endian bytes of `u` -/
def encodeBE : Nat → Nat → Bytes
  | 0, _ => []
  | n+1, u => UInt8.ofNat (u / 256 ^ n) :: encodeBE n (u % 256 ^ n)

def decodeBE (bs : Bytes) : Nat := bs.foldl (fun acc b => acc * 256 + b.toNat) 0

/-- two's complement of a signed value in `bits` bits -/
def toUnsigned (bits : Nat) (v : Int) : Nat := (v % (2 ^ bits : Int)).toNat
def toSigned (bits : Nat) (u : Nat) : Int :=
  if u < 2 ^ (bits - 1) then (u : Int) else (u : Int) - (2 ^ bits : Int)

def intBytes (bytes : Nat) (v : Int) : Bytes := encodeBE bytes (toUnsigned (8 * bytes) v)

def appendInt (b : Buf) (bytes : Nat) (v : Int) : Buf := append b (intBytes bytes v)
def prependInt (b : Buf) (bytes : Nat) (v : Int) : Buf := prepend b (intBytes bytes v)
def peekIntPre (b : Buf) (bytes : Nat) : Prop := bytes ≤ readable b
instance : Decidable (peekIntPre b n) := by unfold peekIntPre; infer_instance
def peekInt (b : Buf) (bytes : Nat) : Int := toSigned (8 * bytes) (decodeBE ((content b).take bytes))
def readInt (b : Buf) (bytes : Nat) : Buf × Int := (retrieve b bytes, peekInt b bytes)

/-! ### searches -/

/-- index (relative to `l`) of the first position where `pat` occurs -/
def findSub (pat : Bytes) : Bytes → Nat → Option Nat
  | [], i => if pat = [] then some i else none
  | (c :: cs), i => if pat.isPrefixOf (c :: cs) then some i else findSub pat cs (i + 1)

def findByte (c : UInt8) (l : Bytes) : Option Nat :=
  let i := l.findIdx (· == c)
  if i < l.length then some i else none

/-- `findCRLF(start)`; positions are offsets from `peek()`; `from ≤ readable` is the code's assert -/
def findCRLF (b : Buf) (start : Nat) : Option Nat :=
  (findSub [13, 10] ((content b).drop start) 0).map (· + start)
def findEOL (b : Buf) (start : Nat) : Option Nat :=
  (findByte 10 ((content b).drop start)).map (· + start)

/-! ### operation sequences (shared by the theorems and by the driver) -/

/-- `hasWritten(len)` after the caller stored `x` at `beginWrite()` -/
def writeAtEnd (b : Buf) (x : Bytes) : Buf :=
  hasWritten { b with data := splice b.data b.writer x } x.length

inductive Op
  | append (x : Bytes)
  | prepend (x : Bytes)
  | retrieve (n : Nat)
  | retrieveAll
  | ensure (n : Nat)
  | write (x : Bytes)
  | unwrite (n : Nat)
  | shrink (reserve : Nat)
  | swapFresh (initial : Nat) (x : Bytes)
  | readFd (d : Bytes)
  | appendInt (bytes : Nat) (v : Int)
  | prependInt (bytes : Nat) (v : Int)
  | readInt (bytes : Nat)
deriving Repr

/-- documented preconditions (the `assert`s of Buffer.h) -/
def okOp (b : Buf) : Op → Prop
  | .prepend x => prependPre b x
  | .retrieve n => retrievePre b n
  | .write x => hasWrittenPre b x.length
  | .unwrite n => unwritePre b n
  | .readFd d => readFdPre b d
  | .prependInt n _ => n ≤ prependable b
  | .readInt n => peekIntPre b n
  | _ => True

instance (b : Buf) (op : Op) : Decidable (okOp b op) := by
  cases op <;> simp only [okOp] <;> infer_instance

def step (b : Buf) : Op → Buf
  | .append x => append b x
  | .prepend x => prepend b x
  | .retrieve n => retrieve b n
  | .retrieveAll => retrieveAll b
  | .ensure n => ensureWritable b n
  | .write x => writeAtEnd b x
  | .unwrite n => unwrite b n
  | .shrink r => shrink b r
  | .swapFresh i x => append (mk i) x
  | .readFd d => readFd b d
  | .appendInt n v => appendInt b n v
  | .prependInt n v => prependInt b n v
  | .readInt n => (readInt b n).1

/-- the specification: an unbounded FIFO byte string with a front door -/
def specStep (c : Bytes) : Op → Bytes
  | .append x => c ++ x
  | .prepend x => x ++ c
  | .retrieve n => c.drop n
  | .retrieveAll => []
  | .ensure _ => c
  | .write x => c ++ x
  | .unwrite n => c.take (c.length - n)
  | .shrink _ => c
  | .swapFresh _ x => x
  | .readFd d => c ++ d
  | .appendInt n v => c ++ intBytes n v
  | .prependInt n v => intBytes n v ++ c
  | .readInt n => c.drop n

def run (b : Buf) (ops : List Op) : Buf := ops.foldl step b
def specRun (c : Bytes) (ops : List Op) : Bytes := ops.foldl specStep c

/-- every operation of the sequence is called within its precondition -/
def okRun (b : Buf) : List Op → Prop
  | [] => True
  | op :: rest => okOp b op ∧ okRun (step b op) rest

/-- ghost counter for the cheap-prepend guarantee: bytes the caller took from the
prepend area since the read index was last put back to `kCheapPrepend` -/
def borrowedStep (g : Nat) (b : Buf) (op : Op) : Nat :=
  match op with
  | .prepend x => g + x.length
  | .prependInt n _ => g + n
  | _ => if (step b op).reader = kCheapPrepend then 0 else g

def runG : Buf × Nat → List Op → Buf × Nat
  | s, [] => s
  | (b, g), op :: rest => runG (step b op, borrowedStep g b op) rest

end MuduoVerif.Buffer
