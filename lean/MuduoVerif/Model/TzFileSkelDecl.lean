/-!
# The zone-file reader of `muduo/base/TimeZone.cc` (C20): vocabulary, and what the model declares it implements

`Model/TzFile.lean` is the TZif reader of muduo (`detail::File`, `detail::readDataBlock`, `detail::readTimeZoneFile`,
`TimeZone::Data::addLocalTime` / `addTransition`, `TimeZone::loadZoneFile`) over the bytes of a file.

* Its PARAMETERS - how many bytes each integer reader takes, whether the value is byte-swapped, the return type that
  decides between sign and zero extension, the texts of the exceptions, the magic, the version test, reader / type /
  order of the counters, the size of the first data block as the code computes it (with every implicit conversion), the
  skips, which reader reads a transition time, the types a value passes through on its way into the table - are
  `Gen.TzFileSkel.*`, extracted by `vlib/gen/tzfileskel.py` from /repo's current source on every run
  (`Generated/TzFileSkel.lean`); the model CALLS them.  `Decl.*` below states the value each of them has in the code the
  theorems were proved for; `Proofs/TzFileSkelTie.lean` proves `Gen.x = Decl.x`.
* The ORDER and NESTING of its statements is hand-written in the model; `Decl.<function>` is the statement skeleton the
  model's definition implements, `Gen.TzFileSkel.<function>` the one extracted from the source, equal by `decide`.

Vocabulary of a skeleton: significant actions in source order - stores to members / through pointers (`store`),
initialised locals and assignments to locals (`assign`, `<result>` = value of the action just before), calls of other
functions of the reader or of `std::vector` / `std::string` / `std::unique_ptr` that change something or can throw
(`call`), libc calls (`sys`), `throw T("text")`, `return`; `if`, loops (`for (int i = 0; i < N; ++i)` is
`assign i 0` + `loop .forUp "i < N"`), `try { } catch (T) { }`.  Expressions are canonical prints (casts and
temporaries dropped - what the casts DO is part A -, minimal parentheses).

Not part of a skeleton: I1 diagnostic output (`fprintf(stderr, "%s\n", e.what())` of the handler); I2 declarations of
locals without an initialiser or default-constructed (`char buf[n]`, `std::vector<int64_t> trans`); I3 casts; I4 base
class initialisers; I5 `MUDUO_VERIF_POINT` and empty statements.  `File::File` (`fopen`), `File::~File` (`fclose`),
`File::valid` and `File::readToEnd` (reads whatever is left: `File.readToEnd`) are not listed.

Core Lean only; imports nothing.
-/
namespace MuduoVerif.TzFileSkel

/-! ## integer types and conversions -/

/-- a fixed-width integer type of the source -/
structure IntTy where
  bits : Nat
  signed : Bool
deriving DecidableEq, Repr

/-- C++ conversion of an integer value to `ty` (modular; two's complement for a signed target - what gcc does) -/
def conv (ty : IntTy) (v : Int) : Int :=
  let m := v % (2 ^ ty.bits : Int)
  if ty.signed ∧ m ≥ (2 ^ (ty.bits - 1) : Int) then m - (2 ^ ty.bits : Int) else m

/-- one of `File::readInt32 / readInt64 / readUInt8`: `fread(&x, 1, bytes, fp_)`, a short read throws
`std::logic_error(msg)`; the bytes are taken most significant first when `swapBits = 8 * bytes` (`beNNtoh` on this
little-endian host) and as they lie in memory when `swapBits = 0`; the value is returned as `ret` -/
structure Reader where
  bytes : Nat
  swapBits : Nat
  ret : IntTy
  msg : String
deriving DecidableEq, Repr

/-- the six counters of a TZif header, by the names `readDataBlock` gives them (`isgmtcnt` of `readTimeZoneFile` is
`isutccnt`) -/
structure Counts where
  isutccnt : Int
  isstdcnt : Int
  leapcnt : Int
  timecnt : Int
  typecnt : Int
  charcnt : Int
deriving DecidableEq, Repr

/-- the arguments of `TimeZone::Data::addLocalTime(int32_t utcOffset, bool isDst, int desigIdx)` -/
structure TTInfo where
  utcOffset : Int
  isDst : Bool
  desigIdx : Int
deriving DecidableEq, Repr

/-! ## statement skeletons -/

/-- `while (g) body`, `do body while (g)`, `for (int i = 0; g; ++i) body` (the initialisation is the `assign` in front) -/
inductive LoopKind | whileDo | doWhile | forUp
deriving DecidableEq, Repr

/-- one significant action; strings are canonical prints of source expressions -/
inductive Act
  | store (lhs value : String)        -- `lhs = value` on a member / through a pointer
  | assign (var value : String)       -- an initialised local, an assignment to a local; `<result>` = value of the action before
  | call (fn args : String)           -- another function of the reader, a mutating / throwing method of a library object
  | sys (fn args : String)            -- a libc call: `fread`, `fseek`
  | lock (mutex : String)             -- (not used by the reader; emitted by the shared walker for a lock guard)
  | assertion (cond : String)         -- `assert(cond)`
  | brk                               -- `break`
  | ret (value : String)              -- `return value`
  | throw (type text : String)        -- `throw type("text")`
deriving DecidableEq, Repr

/-- a statement: an action, `if (guard) { thn } else { els }`, a loop, `try { body } catch (exc) { handler }` -/
inductive Skel
  | act (a : Act)
  | ite (guard : String) (thn els : List Skel)
  | loop (kind : LoopKind) (guard : String) (body : List Skel)
  | tryCatch (exc : String) (body handler : List Skel)
deriving Repr

/-! `deriving DecidableEq` does not handle the nesting through `List`; the instance is written out
(structural recursion, so `decide` evaluates it in the kernel). -/
mutual
def Skel.decEq : (x y : Skel) → Decidable (x = y)
  | .act a, .act a' => if h : a = a' then isTrue (by rw [h]) else isFalse (by intro e; cases e; exact h rfl)
  | .ite g t e, .ite g' t' e' =>
    if hg : g = g' then
      match Skel.decEqL t t' with
      | isTrue ht =>
        match Skel.decEqL e e' with
        | isTrue he => isTrue (by rw [hg, ht, he])
        | isFalse he => isFalse (by intro q; cases q; exact he rfl)
      | isFalse ht => isFalse (by intro q; cases q; exact ht rfl)
    else isFalse (by intro q; cases q; exact hg rfl)
  | .loop k g b, .loop k' g' b' =>
    if hk : k = k' then
      if hg : g = g' then
        match Skel.decEqL b b' with
        | isTrue hb => isTrue (by rw [hk, hg, hb])
        | isFalse hb => isFalse (by intro q; cases q; exact hb rfl)
      else isFalse (by intro q; cases q; exact hg rfl)
    else isFalse (by intro q; cases q; exact hk rfl)
  | .tryCatch x b h, .tryCatch x' b' h' =>
    if hx : x = x' then
      match Skel.decEqL b b' with
      | isTrue hb =>
        match Skel.decEqL h h' with
        | isTrue hh => isTrue (by rw [hx, hb, hh])
        | isFalse hh => isFalse (by intro q; cases q; exact hh rfl)
      | isFalse hb => isFalse (by intro q; cases q; exact hb rfl)
    else isFalse (by intro q; cases q; exact hx rfl)
  | .act _, .ite .. => isFalse (by intro e; cases e)
  | .act _, .loop .. => isFalse (by intro e; cases e)
  | .act _, .tryCatch .. => isFalse (by intro e; cases e)
  | .ite .., .act _ => isFalse (by intro e; cases e)
  | .ite .., .loop .. => isFalse (by intro e; cases e)
  | .ite .., .tryCatch .. => isFalse (by intro e; cases e)
  | .loop .., .act _ => isFalse (by intro e; cases e)
  | .loop .., .ite .. => isFalse (by intro e; cases e)
  | .loop .., .tryCatch .. => isFalse (by intro e; cases e)
  | .tryCatch .., .act _ => isFalse (by intro e; cases e)
  | .tryCatch .., .ite .. => isFalse (by intro e; cases e)
  | .tryCatch .., .loop .. => isFalse (by intro e; cases e)
def Skel.decEqL : (x y : List Skel) → Decidable (x = y)
  | [], [] => isTrue rfl
  | [], _ :: _ => isFalse (by intro e; cases e)
  | _ :: _, [] => isFalse (by intro e; cases e)
  | a :: as, b :: bs =>
    match Skel.decEq a b with
    | isTrue h =>
      match Skel.decEqL as bs with
      | isTrue h' => isTrue (by rw [h, h'])
      | isFalse h' => isFalse (by intro q; cases q; exact h' rfl)
    | isFalse h => isFalse (by intro q; cases q; exact h rfl)
end
instance : DecidableEq Skel := Skel.decEq
instance : DecidableEq (List Skel) := Skel.decEqL


/-! ## What the model is written for

`Decl.<x>` is the value of the parameter `Gen.TzFileSkel.<x>` in the source the theorems were proved for, and
`Decl.<function>` the statement skeleton that the definition of `Model/TzFile.lean` named in its comment implements.

Reading of the model (`f : File` is the `FILE*`: content + position):
* `File.readInt f r` is one call `f.readInt32() / readInt64() / readUInt8()` (`fileReadInt32/64/UInt8`): `fread` of
  `r.bytes` bytes (`File.peek`), `.error (.logic r.msg)` on a short count (the `throw`), else the value converted to the
  return type and the position advanced;  `File.readBytes f n` is `fileReadBytes`; `File.skip` is `fileSkip`.
* `readCounts f r ty mk`: six reader calls in a row, each initialising one `const int32_t` - the run of six
  `call f.readInt32` / `assign <counter>` pairs in `readTimeZoneFile` and `readDataBlock`; which value becomes which
  counter is `Gen.headerCounts / blockCounts`.
* `dataBlock f v1` is `readDataBlock`: counters; `if rejectLeap .. / rejectIsut .. / rejectIsstd ..` = the three
  `ite .. [ret false]`; `c.timecnt < 0 → lengthError` is `trans.reserve(timecnt)`; `readTimes` the first loop with its
  `ite v1`; `readIdxs` the second; `c.typecnt < 0 → lengthError` is `data.localtimes.reserve(typecnt)`
  (`localtimes.reserve(timecnt)` between the loops cannot fail once `trans.reserve(timecnt)` passed); `readTypes` the
  third loop (three reads, `addLocalTime`); `addTransitions` the fourth (`localtimes.at` → `outOfRange`);
  `File.readBytes f (charsLen c)` → `abbreviation`; `(blockSkips ..).foldl File.skip` the three skips;
  `if readsFooter v1` the last `ite`; `.ok` = `ret true`.
* `zoneFile f` is the `try` block of `readTimeZoneFile`; an `.error` is what the handler catches (both make
  `loadZoneFile` reset the table: `parse`/`loadZone`); `File(zonefile)` / `f.valid()` are the caller's concern (the
  model starts from the bytes of a file that could be opened).
* `mkLocalTime` is `addLocalTime` + `localTimeCtor`; the record built in `addTransitions` is `addTransition` +
  `transitionCtor` (`utcTime + lt.utcOffset` = `Gen.Zone.shiftedLocal`).
-/
namespace Decl
/-! ## A. parameters of the reader -/

/-- `File::readInt32`: `fread` of 4 byte(s), `be32toh`, returned as `int32_t`; a short read throws `std::logic_error('bad int32_t data')` -/
def readInt32 : Reader :=
  { bytes := 4, swapBits := 32, ret := ⟨32, true⟩, msg := "bad int32_t data" }

/-- `File::readInt64`: `fread` of 8 byte(s), `be64toh`, returned as `int64_t`; a short read throws `std::logic_error('bad int64_t data')` -/
def readInt64 : Reader :=
  { bytes := 8, swapBits := 64, ret := ⟨64, true⟩, msg := "bad int64_t data" }

/-- `File::readUInt8`: `fread` of 1 byte(s), returned as read, returned as `uint8_t`; a short read throws `std::logic_error('bad uint8_t data')` -/
def readUInt8 : Reader :=
  { bytes := 1, swapBits := 0, ret := ⟨8, false⟩, msg := "bad uint8_t data" }

/-- `File::readBytes(n)`: text of the exception on a short read -/
def readBytesMsg : String := "no enough data"

/-- type of its parameter `n` -/
def readBytesArgTy : IntTy := ⟨32, true⟩

/-- `File::skip(bytes)`: type of the parameter handed to `fseek(fp_, bytes, whence)` -/
def skipArgTy : IntTy := ⟨64, true⟩

/-- its `whence` argument (1 = SEEK_CUR) -/
def skipWhence : Nat := 1

/-! ### `detail::readTimeZoneFile` -/

/-- length of the magic: `f.readBytes(4)` -/
def magicLen : Int := 4

/-- the file is refused when `head != "TZif"` (bytes of the literal) -/
def badHead (head : List Nat) : Prop := head ≠ [84, 90, 105, 102]
instance : Decidable (badHead head) := by unfold badHead; infer_instance

/-- text of the exception -/
def badHeadMsg : String := "bad head"

/-- `string version = f.readBytes(1)` -/
def versionLen : Int := 1

/-- reserved bytes read and dropped: `f.readBytes(15)` -/
def reservedLen : Int := 15

/-- reader of the six counters of the first header -/
def headerCountReader : Reader := readInt32

/-- type of the six variables (`const int32_t`) -/
def headerCountTy : IntTy := ⟨32, true⟩

/-- the k-th value read goes to the counter of that name: isgmtcnt, isstdcnt, leapcnt, timecnt, typecnt, charcnt -/
def headerCounts (r0 r1 r2 r3 r4 r5 : Int) : Counts :=
  { isutccnt := r0, isstdcnt := r1, leapcnt := r2, timecnt := r3, typecnt := r4, charcnt := r5 }

/-- the 64-bit block is taken when `version == "2"` -/
def isV2 (version : List Nat) : Prop := version = [50]
instance : Decidable (isV2 version) := by unfold isV2; infer_instance

/-- argument of the `skip` over the first data block, as `ssize_t` (`size_t skip = ..; f.skip(skip)`) -/
def v1BlockSkip (c : Counts) : Int :=
  conv ⟨64, true⟩ (conv ⟨64, false⟩ ((conv ⟨64, false⟩ ((conv ⟨64, false⟩ ((conv ⟨64, false⟩ ((conv ⟨64, false⟩ ((conv ⟨64, false⟩ ((conv ⟨64, false⟩ (4 * (conv ⟨64, false⟩ c.timecnt))) + (conv ⟨64, false⟩ c.timecnt))) + (conv ⟨64, false⟩ (6 * c.typecnt)))) + (conv ⟨64, false⟩ c.charcnt))) + (conv ⟨64, false⟩ (8 * c.leapcnt)))) + (conv ⟨64, false⟩ c.isstdcnt))) + (conv ⟨64, false⟩ c.isutccnt)))

/-- length of the second magic -/
def magic2Len : Int := 4

/-- the second header is refused when `head != "TZif"` -/
def badHead2 (head : List Nat) : Prop := head ≠ [84, 90, 105, 102]
instance : Decidable (badHead2 head) := by unfold badHead2; infer_instance

/-- text of that exception -/
def badHead2Msg : String := "bad head"

/-- skip over version, reserved bytes ... of the second header up to what `readDataBlock` reads -/
def header2Skip : Int := 16

/-- `v1` argument of `readDataBlock` in the version-2 branch -/
def v2BranchV1 : Bool := false

/-- the other branch: `f.skip(..)` back to the counters -/
def rewind : Int := (-4) * 6

/-- `v1` argument of `readDataBlock` there -/
def v1BranchV1 : Bool := true

/-! ### `detail::readDataBlock` -/

/-- `const int time_size = ..` -/
def timeSize (v1 : Bool) : Int :=
  conv ⟨32, true⟩ (if v1 = true then 4 else 8)

/-- reader of the six counters of a data block -/
def blockCountReader : Reader := readInt32

/-- type of the six variables (`const int32_t`) -/
def blockCountTy : IntTy := ⟨32, true⟩

/-- the k-th value read goes to the counter of that name: isutccnt, isstdcnt, leapcnt, timecnt, typecnt, charcnt -/
def blockCounts (r0 r1 r2 r3 r4 r5 : Int) : Counts :=
  { isutccnt := r0, isstdcnt := r1, leapcnt := r2, timecnt := r3, typecnt := r4, charcnt := r5 }

/-- `if (..) return false;` on leapcnt -/
def rejectLeap (c : Counts) : Prop := c.leapcnt ≠ 0
instance : Decidable (rejectLeap c) := by unfold rejectLeap; infer_instance

/-- `if (..) return false;` on isutccnt, typecnt -/
def rejectIsut (c : Counts) : Prop := c.isutccnt ≠ 0 ∧ c.isutccnt ≠ c.typecnt
instance : Decidable (rejectIsut c) := by unfold rejectIsut; infer_instance

/-- `if (..) return false;` on isstdcnt, typecnt -/
def rejectIsstd (c : Counts) : Prop := c.isstdcnt ≠ 0 ∧ c.isstdcnt ≠ c.typecnt
instance : Decidable (rejectIsstd c) := by unfold rejectIsstd; infer_instance

/-- the order in which they are tested -/
def rejectOrder : List String := ["rejectLeap", "rejectIsut", "rejectIsstd"]

/-- which reader reads a transition time (`if (v1) trans.push_back(f.readInt32()) else trans.push_back(f.readInt64())`) -/
def timeReader (v1 : Bool) : Reader := if v1 = true then readInt32 else readInt64

/-- element type of `std::vector<int64_t> trans`: what the value read is converted to -/
def timeElemTy : IntTy := ⟨64, true⟩

/-- the integer conversions the value goes through between the reader and `push_back`, innermost first (the implicit one to the element type included) -/
def timeConvs (v1 : Bool) : List IntTy := if v1 = true then [⟨64, true⟩] else []

/-- reader of a transition's type index -/
def idxReader : Reader := readUInt8

/-- type of the local it is read into (`uint8_t local`) -/
def idxVarTy : IntTy := ⟨8, false⟩

/-- element type of `std::vector<int> localtimes` -/
def idxElemTy : IntTy := ⟨32, true⟩

/-- readers of one ttinfo entry, in the order of the reads -/
def ttinfoReaders : List Reader := [readInt32, readUInt8, readUInt8]

/-- what reaches `addLocalTime(utcOffset, isDst, desigIdx)` from the k-th value read (through the types of the locals `gmtoff`,`isdst`,`abbrind` and of the parameters) -/
def ttinfo (r0 r1 r2 : Int) : TTInfo :=
  { utcOffset := r0, isDst := decide (r1 ≠ 0), desigIdx := r2 }

/-- `int localIdx = localtimes[i]` and the parameter `localtimeIdx` of `addTransition`: the index is converted to these -/
def transIdxTys : List IntTy := [⟨32, true⟩, ⟨32, true⟩]

/-- type of `addTransition`'s parameter `utcTime` -/
def transTimeTy : IntTy := ⟨64, true⟩

/-- `data->abbreviation = f.readBytes(..)`: the argument, as the parameter type of readBytes -/
def charsLen (c : Counts) : Int :=
  c.charcnt

/-- arguments of the three `f.skip(..)` behind the designations, as `ssize_t` -/
def blockSkips (c : Counts) (time_size : Int) : List Int :=
  [c.leapcnt * (time_size + 4),
   c.isstdcnt,
   c.isutccnt]

/-- the footer is read (`data->tzstring = f.readToEnd()`) when -/
def readsFooter (v1 : Bool) : Prop := ¬ (v1 = true)
instance : Decidable (readsFooter v1) := by unfold readsFooter; infer_instance

/-! ## B. statement skeletons -/

/-- `File::readBytes(int)` -/
def fileReadBytes : List Skel :=
  [
    .act (.sys "fread" "buf, 1, n, fp_"),
    .act (.assign "nr" "<result>"),
    .ite "nr != n"
      [
        .act (.throw "std::logic_error" "no enough data")
      ] [],
    .act (.ret "string(buf, n)")
  ]

/-- `File::readInt64()` -/
def fileReadInt64 : List Skel :=
  [
    .act (.assign "x" "0"),
    .act (.sys "fread" "&x, 1, sizeof(int64_t), fp_"),
    .act (.assign "nr" "<result>"),
    .ite "nr != sizeof(int64_t)"
      [
        .act (.throw "std::logic_error" "bad int64_t data")
      ] [],
    .act (.ret "__bswap_64(x)")
  ]

/-- `File::readInt32()` -/
def fileReadInt32 : List Skel :=
  [
    .act (.assign "x" "0"),
    .act (.sys "fread" "&x, 1, sizeof(int32_t), fp_"),
    .act (.assign "nr" "<result>"),
    .ite "nr != sizeof(int32_t)"
      [
        .act (.throw "std::logic_error" "bad int32_t data")
      ] [],
    .act (.ret "__bswap_32(x)")
  ]

/-- `File::readUInt8()` -/
def fileReadUInt8 : List Skel :=
  [
    .act (.assign "x" "0"),
    .act (.sys "fread" "&x, 1, sizeof(uint8_t), fp_"),
    .act (.assign "nr" "<result>"),
    .ite "nr != sizeof(uint8_t)"
      [
        .act (.throw "std::logic_error" "bad uint8_t data")
      ] [],
    .act (.ret "x")
  ]

/-- `File::skip(ssize_t)` -/
def fileSkip : List Skel :=
  [
    .act (.sys "fseek" "fp_, bytes, 1"),
    .act (.ret "<result>")
  ]

/-- `readDataBlock(detail::File &, struct TimeZone::Data *, bool)` -/
def readDataBlock : List Skel :=
  [
    .act (.assign "time_size" "v1 ? sizeof(int32_t) : sizeof(int64_t)"),
    .act (.call "f.readInt32" ""),
    .act (.assign "isutccnt" "<result>"),
    .act (.call "f.readInt32" ""),
    .act (.assign "isstdcnt" "<result>"),
    .act (.call "f.readInt32" ""),
    .act (.assign "leapcnt" "<result>"),
    .act (.call "f.readInt32" ""),
    .act (.assign "timecnt" "<result>"),
    .act (.call "f.readInt32" ""),
    .act (.assign "typecnt" "<result>"),
    .act (.call "f.readInt32" ""),
    .act (.assign "charcnt" "<result>"),
    .ite "leapcnt != 0"
      [
        .act (.ret "false")
      ] [],
    .ite "isutccnt != 0 && isutccnt != typecnt"
      [
        .act (.ret "false")
      ] [],
    .ite "isstdcnt != 0 && isstdcnt != typecnt"
      [
        .act (.ret "false")
      ] [],
    .act (.call "trans.reserve" "timecnt"),
    .act (.assign "i" "0"),
    .loop .forUp "i < timecnt"
      [
        .ite "v1"
          [
            .act (.call "f.readInt32" ""),
            .act (.call "trans.push_back" "<result>")
          ]
          [
            .act (.call "f.readInt64" ""),
            .act (.call "trans.push_back" "<result>")
          ]
      ],
    .act (.call "localtimes.reserve" "timecnt"),
    .act (.assign "i" "0"),
    .loop .forUp "i < timecnt"
      [
        .act (.call "f.readUInt8" ""),
        .act (.assign "local" "<result>"),
        .act (.call "localtimes.push_back" "local")
      ],
    .act (.call "data.localtimes.reserve" "typecnt"),
    .act (.assign "i" "0"),
    .loop .forUp "i < typecnt"
      [
        .act (.call "f.readInt32" ""),
        .act (.assign "gmtoff" "<result>"),
        .act (.call "f.readUInt8" ""),
        .act (.assign "isdst" "<result>"),
        .act (.call "f.readUInt8" ""),
        .act (.assign "abbrind" "<result>"),
        .act (.call "data.addLocalTime" "gmtoff, isdst, abbrind")
      ],
    .act (.assign "i" "0"),
    .loop .forUp "i < timecnt"
      [
        .act (.assign "localIdx" "localtimes[i]"),
        .act (.call "data.addTransition" "trans[i], localIdx")
      ],
    .act (.call "f.readBytes" "charcnt"),
    .act (.store "data.abbreviation" "<result>"),
    .act (.call "f.skip" "leapcnt * (time_size + 4)"),
    .act (.call "f.skip" "isstdcnt"),
    .act (.call "f.skip" "isutccnt"),
    .ite "!v1"
      [
        .act (.call "f.readToEnd" ""),
        .act (.store "data.tzstring" "<result>")
      ] [],
    .act (.ret "true")
  ]

/-- `readTimeZoneFile(const char *, struct TimeZone::Data *)` -/
def readTimeZoneFile : List Skel :=
  [
    .act (.assign "f" "File(zonefile)"),
    .ite "f.valid()"
      [
        .tryCatch "std::logic_error &"
          [
            .act (.call "f.readBytes" "4"),
            .act (.assign "head" "<result>"),
            .ite "head != \"TZif\""
              [
                .act (.throw "std::logic_error" "bad head")
              ] [],
            .act (.call "f.readBytes" "1"),
            .act (.assign "version" "<result>"),
            .act (.call "f.readBytes" "15"),
            .act (.call "f.readInt32" ""),
            .act (.assign "isgmtcnt" "<result>"),
            .act (.call "f.readInt32" ""),
            .act (.assign "isstdcnt" "<result>"),
            .act (.call "f.readInt32" ""),
            .act (.assign "leapcnt" "<result>"),
            .act (.call "f.readInt32" ""),
            .act (.assign "timecnt" "<result>"),
            .act (.call "f.readInt32" ""),
            .act (.assign "typecnt" "<result>"),
            .act (.call "f.readInt32" ""),
            .act (.assign "charcnt" "<result>"),
            .ite "version == \"2\""
              [
                .act (.assign "skip" "sizeof(int32_t) * timecnt + timecnt + 6 * typecnt + charcnt + 8 * leapcnt + isstdcnt + isgmtcnt"),
                .act (.call "f.skip" "skip"),
                .act (.call "f.readBytes" "4"),
                .act (.assign "head" "<result>"),
                .ite "head != \"TZif\""
                  [
                    .act (.throw "std::logic_error" "bad head")
                  ] [],
                .act (.call "f.skip" "16"),
                .act (.call "readDataBlock" "f, data, false"),
                .act (.ret "<result>")
              ]
              [
                .act (.call "f.skip" "-4 * 6"),
                .act (.call "readDataBlock" "f, data, true"),
                .act (.ret "<result>")
              ]
          ] []
      ] [],
    .act (.ret "false")
  ]

/-- `Transition::Transition(int64_t, int64_t, int)` -/
def transitionCtor : List Skel :=
  [
    .act (.store "utctime" "t"),
    .act (.store "localtime" "l"),
    .act (.store "localtimeIdx" "localIdx")
  ]

/-- `LocalTime::LocalTime(int32_t, bool, int)` -/
def localTimeCtor : List Skel :=
  [
    .act (.store "utcOffset" "offset"),
    .act (.store "isDst" "dst"),
    .act (.store "desigIdx" "idx")
  ]

/-- `Data::addLocalTime(int32_t, bool, int)` -/
def addLocalTime : List Skel :=
  [
    .act (.call "localtimes.push_back" "LocalTime(utcOffset, isDst, desigIdx)")
  ]

/-- `Data::addTransition(int64_t, int)` -/
def addTransition : List Skel :=
  [
    .act (.call "localtimes.at" "localtimeIdx"),
    .act (.assign "lt" "<result>"),
    .act (.call "transitions.push_back" "Transition(utcTime, utcTime + lt.utcOffset, localtimeIdx)")
  ]

/-- `loadZoneFile(const char *)` -/
def loadZoneFile : List Skel :=
  [
    .act (.assign "data" "unique_ptr(new TimeZone::Data())"),
    .act (.call "readTimeZoneFile" "zonefile, data.get()"),
    .ite "!<result>"
      [
        .act (.call "data.reset" "")
      ] [],
    .act (.ret "TimeZone(TimeZone(unique_ptr(data)))")
  ]

end Decl

end MuduoVerif.TzFileSkel
