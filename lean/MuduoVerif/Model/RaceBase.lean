/-!
# C08 — vocabulary of the generated access tables

`Generated/Race.lean` (rewritten from /repo's clang AST on every run) is a list of these
records; `Model/Race.lean` holds the hand-written policies and the decidable checks.
Core Lean only.
-/
namespace MuduoVerif.Race

/-- type class of a member, from its declared C++ type -/
inductive TyClass
  | plain    -- anything else
  | atomic   -- std::atomic<T>, AtomicIntegerT<T>
  | mutex    -- muduo::MutexLock
  | cond     -- muduo::Condition
  | latch    -- muduo::CountDownLatch
  | thread   -- muduo::Thread
  | konst    -- const-qualified non-pointer member
  deriving DecidableEq, Repr

/-- kind of one member access -/
inductive AKind
  | rd     -- plain read (a const member call on a by-value member counts as a read)
  | wr     -- plain write (a non-const member call, `=`, `++`, address taken, bound to a non-const reference)
  | ard    -- atomic read (`load`, conversion operator of std::atomic, `get` of AtomicIntegerT)
  | awr    -- atomic write / read-modify-write
  | call   -- call of `callee` through the member (raw or smart pointer, function object); the pointer itself is read
  deriving DecidableEq, Repr

/-- why a function is a root of the table -/
inductive RootKind
  | ts        -- documented as callable from any thread, or the body of a thread such calls talk to
  | confined  -- must start with the owner-thread assertion
  | handler   -- channel / timer / queued callback that the owning loop invokes
  | owner     -- single-owner API: only the thread that owns the object calls it (API contract)
  | other     -- touches members but is not reached from any listed root (analysed without context)
  deriving DecidableEq, Repr

structure Field where
  cls : String
  name : String
  ty : String
  tc : TyClass
  /-- the member named by a `GUARDED_BY(...)` annotation, "" when there is none -/
  guardedBy : String
  /-- every method other than constructors/destructors that writes the member -/
  writers : List String
  deriving Repr

structure Root where
  cls : String
  fn : String
  /-- `Class::name` without the parameter list -/
  qname : String
  kind : RootKind
  deriving Repr

structure ConfinedOp where
  cls : String
  fn : String
  /-- "this" / the loop member on which `assertInLoopThread()` is called as an unconditional
  top-level statement (possibly as the first action of a method of the same class called
  unconditionally at top level); "" when there is none -/
  check : String
  line : Nat
  deriving Repr

structure Row where
  cls : String
  /-- the root the access was reached from (`?f` = unreached method `f` analysed on its own) -/
  root : String
  rootKind : RootKind
  /-- the function that contains the access -/
  fn : String
  file : String
  line : Nat
  /-- member of `this` ("(this)" for a call of one of the class's own hand-off / owner-test methods) -/
  field : String
  kind : AKind
  callee : String
  /-- mutex members named by the `MutexLockGuard`s in scope -/
  locks : List String
  /-- owner-thread facts that dominate the access by position -/
  inLoop : List String
  /-- inside the condition of an `assert(...)` -/
  inAssert : Bool
  deriving Repr

end MuduoVerif.Race
