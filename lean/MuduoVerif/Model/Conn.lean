import MuduoVerif.Generated.Conn
/-!
Model of `muduo::net::TcpConnection` on one event loop (TcpConnection.cc), together with
the parts of `Channel`, the poller slot of its channel, the loop's functor queue and the
owner's (`TcpServer`-style) close path that decide its observable behaviour.

* Every branch guard is a definition of `Generated/Conn.lean`, re-extracted from the
  source on every run.
* Everything the environment decides is an input: results of `write`/`readv`, the
  `revents` the poller reports, clock readings, and which callbacks perform which
  operations (`hooks`).
* Ghost fields (`accepted`, `wrote`, `discarded`, `trace`) record history for the theorems.
-/
namespace MuduoVerif.Conn
open MuduoVerif.Gen.Conn

abbrev Bytes := List UInt8

inductive Backend | epoll | poll
deriving DecidableEq, Repr

/-- poller slot of a channel: epoll's `kNew / kAdded / kDeleted`; for poll: no entry /
entry with the descriptor / entry with the negated descriptor -/
inductive Slot | new | added | deleted
deriving DecidableEq, Repr

structure Chan where
  evRead  : Bool := false
  evWrite : Bool := false
  slot    : Slot := .new
  /-- the kernel may report hang-up/error for the descriptor (it is in the epoll set /
  its pollfd is not negated) -/
  watch   : Bool := false
deriving DecidableEq, Repr

def Chan.none (ch : Chan) : Bool := !ch.evRead && !ch.evWrite

/-- `Poller::updateChannel` as seen by one channel (EPollPoller.cc / PollPoller.cc) -/
def chanUpdate (be : Backend) (ch : Chan) : Chan :=
  match be, ch.slot with
  | .epoll, .new     => { ch with slot := .added, watch := true }            -- EPOLL_CTL_ADD
  | .epoll, .deleted => if ch.none then ch                                    -- still nothing to watch
                        else { ch with slot := .added, watch := true }       -- EPOLL_CTL_ADD
  | .epoll, .added   => if ch.none then { ch with slot := .deleted, watch := false }   -- EPOLL_CTL_DEL
                        else ch                                               -- EPOLL_CTL_MOD
  | .poll, .new      => { ch with slot := .added, watch := true }            -- push_back, fd as is
  | .poll, _         => if ch.none then { ch with slot := .deleted, watch := false }   -- fd negated
                        else { ch with slot := .added, watch := true }

/-- `Poller::removeChannel` as seen by the channel (slot state afterwards is irrelevant for
a connection: the channel is destroyed next) -/
def chanRemove (_be : Backend) (ch : Chan) : Chan := { ch with slot := .new, watch := false }

inductive WriteRes | took (n : Nat) | err (errno : Nat)
deriving DecidableEq, Repr
inductive ReadRes | got (n : Nat) | err (errno : Nat)
deriving DecidableEq, Repr

inductive Cb | up | msg | wc | hwm | down
deriving DecidableEq, Repr

/-- operations a user can perform on a connection (from a thread, or from inside a callback) -/
inductive Act
  | send (data : Bytes)
  | shutdown
  | forceClose
  | forceCloseDelay (us : Nat)
  | stopRead
  | startRead
  /-- `setWriteCompleteCallback(cb)`: `k` names the callback installed (0 = an empty `std::function`) -/
  | setWc (k : Nat)
  /-- `setHighWaterMarkCallback(cb, mark)`: callback identity (0 = empty) and the new mark -/
  | setHwm (k : Nat) (mark : Nat)
deriving DecidableEq, Repr

/-- what a notification functor carries of the user's callback: a COPY of the `std::function`, made when the
functor was bound (the identity installed at that moment), or a REFERENCE to the connection's member, which is
read only when the functor runs -/
inductive Bound | val (k : Nat) | ref
deriving DecidableEq, Repr

/-- `std::bind(.., callback_member, ..)` according to how the source passes the member (`Gen.Conn.Capture`) -/
def bindCb : Capture → Nat → Bound
  | .byValue, k => .val k
  | .byRef, _ => .ref

/-- the callback the functor invokes when it runs; `cur` = the identity installed at that time -/
def Bound.resolve : Bound → Nat → Nat
  | .val k, _ => k
  | .ref, cur => cur

/-- functors in the loop's pending queue -/
inductive Task
  | sendInLoop (data : Bytes)        -- raw `this`
  | shutdownInLoop                   -- queued by `shutdown()`
  | drainShutdownInLoop              -- queued by the drain path of `handleWrite`
  | forceCloseInLoop                 -- holds a reference
  | connectDestroyed                 -- holds a reference
  | writeComplete (cb : Bound)       -- the user's callback as bound when the notification was scheduled
  | highWater (cb : Bound) (n : Nat) -- the same, and the backlog computed at that moment
  | startReadInLoop | stopReadInLoop -- raw `this`
  | addDelayTimer (deadline : Nat)   -- `runAfter` from a foreign thread; weak reference inside
deriving DecidableEq, Repr

/-- A functor bound with a weak pointer behaves like a weak one only if the trampoline that runs it locks the
pointer, tests the result and calls with the locked pointer (`locks`: `notifyLocks` for `notifyWriteComplete` /
`notifyHighWaterMark`, `weakCallbackLocks` for `WeakCallback::operator()`, both extracted); otherwise it is a call
through whatever the pointer refers to: the raw object -/
def _root_.MuduoVerif.Gen.Conn.Hold.eff (h : Hold) (locks : Bool) : Hold := if h = .weak ∧ locks = false then .raw else h

/-- what the functor holds of the connection (taken from the source where the hand-off is
written, and - for the weak ones - from the trampoline that runs them; `connectDestroyed` is bound by the owner
with its `TcpConnectionPtr`, the delayed close is a weak callback inside a timer) -/
def Task.hold : Task → Hold
  | .connectDestroyed => .strong
  | .writeComplete _ => wcHold.eff notifyLocks
  | .highWater _ _ => hwmHold.eff notifyLocks
  | .forceCloseInLoop => forceCloseHold.eff weakCallbackLocks
  | .shutdownInLoop => shutdownHold.eff weakCallbackLocks
  | .drainShutdownInLoop => drainShutdownHold.eff weakCallbackLocks
  | .sendInLoop _ => sendPieceHold.eff weakCallbackLocks
  | .startReadInLoop => startReadHold.eff weakCallbackLocks
  | .stopReadInLoop => stopReadHold.eff weakCallbackLocks
  | .addDelayTimer _ => .weak

/-- does the functor keep the connection alive? -/
def Task.strong (t : Task) : Bool := t.hold = .strong

inductive Ev
  | up | msg (readable : Nat) (hash : UInt64)
  | wc (k : Nat)                -- the write-complete callback with identity `k` ran
  | hwm (k : Nat) (n : Nat)     -- the high-water callback with identity `k` ran, argument `n`
  | down | closeCb
  | destroyed
  | sysWrite (req : Nat) (res : WriteRes)
  | sysReadv (res : ReadRes)
  | sysShutdownWr | sysClose
  | abort (what : String)
  | uaf (what : String)
  | note (what : String)
deriving DecidableEq, Repr

structure Conn where
  be : Backend := .epoll
  asserts : Bool := true
  st : StateE := .kConnecting
  reading : Bool := true
  ch : Chan := {}
  registered : Bool := false      -- `addedToLoop_`
  outBuf : Bytes := []
  inBuf : Bytes := []
  mark : Nat := 64 * 1024 * 1024
  hasWC : Bool := true            -- `writeCompleteCallback_` is non-empty
  hasHWM : Bool := true           -- `highWaterMarkCallback_` is non-empty
  wcId : Nat := 1                 -- which callback `writeCompleteCallback_` holds (0 = none)
  hwmId : Nat := 1                -- which callback `highWaterMarkCallback_` holds (0 = none)
  retrieveMax : Nat := 1 <<< 40   -- how much the message callback retrieves
  -- the loop
  pending : List Task := []
  batch : List Task := []          -- functors swapped out by `doPendingFunctors`, not yet run
  timers : List Nat := []         -- deadlines of delayed force-closes (weak), in firing order
  now : Nat := 0
  -- ownership
  owner : Bool := true            -- the map of the server/client object
  alive : Bool := true
  dead : Bool := false            -- process aborted (failed assertion)
  -- environment
  peerPending : Bytes := []
  peerAll : Bytes := []           -- ghost: everything the peer ever wrote
  delivered : Bytes := []         -- ghost: everything ever appended to the input buffer
  writes : List WriteRes := []
  reads : List ReadRes := []
  hooks : List (Cb × Act) := []
  starved : Bool := false         -- the model asked for an environment result that was not supplied
  -- ghost
  accepted : Bytes := []
  /-- the accepted blocks one by one, in processing order; `true` = the block came through the
  functor queue (`send()` on another thread) -/
  blocks : List (Bool × Bytes) := []
  /-- blocks handed to `send()` on the loop thread that passed its state test, in call order -/
  offeredL : List Bytes := []
  /-- blocks handed to `send()` on other threads that passed its state test, in call order -/
  offeredF : List Bytes := []
  wrote : Bytes := []
  discarded : Bool := false
  shutWr : Bool := false
  trace : List Ev := []
deriving Repr


def fnv64 (bs : Bytes) : UInt64 :=
  bs.foldl (fun h b => (h ^^^ b.toUInt64) * 1099511628211) 14695981039346656037

def emit (c : Conn) (e : Ev) : Conn := { c with trace := c.trace ++ [e] }

/-! ### channel operations -/
def setEvents (c : Conn) (r w : Bool) : Conn :=
  { c with ch := chanUpdate c.be { c.ch with evRead := r, evWrite := w }, registered := true }

def enableReading (c : Conn) : Conn := setEvents c true c.ch.evWrite
def disableReading (c : Conn) : Conn := setEvents c false c.ch.evWrite
def enableWriting (c : Conn) : Conn := setEvents c c.ch.evRead true
def disableWriting (c : Conn) : Conn := setEvents c c.ch.evRead false
def disableAll (c : Conn) : Conn := setEvents c false false

/-! ### environment -/
def peekWrite (c : Conn) : WriteRes := c.writes.headD (.err 11)
def popWrite (c : Conn) : Conn :=
  match c.writes with
  | [] => { c with starved := true }
  | _ :: rest => { c with writes := rest }

def peekRead (c : Conn) : ReadRes := c.reads.headD (.err 11)
def popRead (c : Conn) : Conn :=
  match c.reads with
  | [] => { c with starved := true }
  | _ :: rest => { c with reads := rest }

def enqueue (c : Conn) (t : Task) : Conn := { c with pending := c.pending ++ [t] }

/-! ### send path -/

/-- the part of `sendInLoop` after the direct write: `nwrote` bytes of `data` were taken -/
def queueRemainder (c : Conn) (data : Bytes) (nwrote : Nat) (fault : Bool) : Conn :=
  if queueRest fault (data.length - nwrote) then
    let c1 : Conn := if hwmCross c.outBuf.length (data.length - nwrote) c.mark c.hasHWM
      then enqueue c (.highWater (bindCb hwmBind c.hwmId) (c.outBuf.length + (data.length - nwrote))) else c
    let c2 : Conn := { c1 with outBuf := c1.outBuf ++ data.drop nwrote }
    if sendEnablesWriting c2.ch.evWrite then enableWriting c2 else c2
  else if fault then { c with discarded := true } else c

/-- `sendInLoop` after `sockets::write` returned `r` -/
def sendDirect (c : Conn) (data : Bytes) : WriteRes → Conn
  | .took n =>
    let c1 : Conn := { c with wrote := c.wrote ++ data.take n }
    let c2 : Conn := if sendWholeWC (data.length - n) c1.hasWC then enqueue c1 (.writeComplete (bindCb wcBindSend c1.wcId)) else c1
    queueRemainder c2 data n false
  | .err e => queueRemainder c data 0 (decide (writeErrLogged e) && decide (writeErrFatal e))

def accept (c : Conn) (data : Bytes) (queued : Bool) : Conn :=
  { c with accepted := c.accepted ++ data, blocks := c.blocks ++ [(queued, data)] }

/-- `queued`: the call comes out of the functor queue (ghost; the code does not know) -/
def sendInLoop (c : Conn) (data : Bytes) (queued : Bool) : Conn :=
  if sendGivesUp c.st then emit c (.note "disconnected, give up writing")
  else if directWrite c.ch.evWrite c.outBuf.length then
    sendDirect (emit (popWrite (accept c data queued)) (.sysWrite data.length (peekWrite c))) data (peekWrite c)
  else queueRemainder (accept c data queued) data 0 false

def shutdownInLoop (c : Conn) : Conn :=
  if shutdownNow c.ch.evWrite then emit { c with shutWr := true } .sysShutdownWr else c

/-! ### user operations -/

def startReadInLoop (c : Conn) : Conn :=
  if startReadActs c.st c.reading c.ch.evRead then { enableReading c with reading := true } else c

def stopReadInLoop (c : Conn) : Conn :=
  if stopReadActs c.st c.reading c.ch.evRead then { disableReading c with reading := false } else c

/-- `loop_->runInLoop(f)` / `loop_->queueInLoop(f)` from the loop thread (`foreign = false`)
or from another thread: inline only for `runInLoop` on the loop thread -/
def handOff (c : Conn) (foreign : Bool) (d : Dispatch) (t : Task) (inline : Conn → Conn) : Conn :=
  if foreign || d = .queue then enqueue c t else inline c

/-- a user operation, called on the loop thread (`foreign = false`, outside callbacks or
inside one) or on another thread -/
def act (c : Conn) (foreign : Bool) : Act → Conn
  | .send d =>
    if sendAcceptsPiece c.st then
      (if foreign then enqueue { c with offeredF := c.offeredF ++ [d] } (.sendInLoop d)
       else sendInLoop { c with offeredL := c.offeredL ++ [d] } d false)   -- explicit isInLoopThread() test
    else c
  | .shutdown =>
    if shutdownAccepts c.st then
      handOff { c with st := .kDisconnecting } foreign shutdownDispatch Task.shutdownInLoop shutdownInLoop
    else c
  | .forceClose =>
    if forceCloseAccepts c.st then
      handOff { c with st := .kDisconnecting } foreign forceCloseDispatch .forceCloseInLoop id
    else c
  | .forceCloseDelay us =>
    if forceCloseDelayAccepts c.st then
      (if foreign then enqueue { c with st := .kDisconnecting } (.addDelayTimer (c.now + us))
       else { c with st := .kDisconnecting, timers := c.timers ++ [c.now + us] })
    else c
  | .stopRead => handOff c foreign stopReadDispatch .stopReadInLoop stopReadInLoop
  | .startRead => handOff c foreign startReadDispatch .startReadInLoop startReadInLoop
  -- plain assignments to the members (not thread safe: the harness calls them on the loop thread only)
  | .setWc k => { c with hasWC := decide (k ≠ 0), wcId := k }
  | .setHwm k m => { c with hasHWM := decide (k ≠ 0), hwmId := k, mark := m }

def actLoop (c : Conn) (a : Act) : Conn := act c false a
def actForeign (c : Conn) (a : Act) : Conn := act c true a

/-! ### callbacks (the user's code: scripted by `hooks`) -/
def takeHook (k : Cb) : List (Cb × Act) → Option Act
  | [] => none
  | (k', a) :: rest => if k' = k then some a else takeHook k rest

def dropHook (k : Cb) : List (Cb × Act) → List (Cb × Act)
  | [] => []
  | (k', a) :: rest => if k' = k then rest else (k', a) :: dropHook k rest

def callback (c : Conn) (k : Cb) (e : Ev) : Conn :=
  match takeHook k c.hooks with
  | some a => actLoop { emit c e with hooks := dropHook k c.hooks } a
  | none => emit c e

/-! ### handlers -/
def handleCloseOk (c : Conn) : Bool := c.st = .kConnected || c.st = .kDisconnecting

def handleClose (c : Conn) : Conn :=
  if c.asserts && !handleCloseOk c then
    emit { c with dead := true } (.abort handleCloseAssertText)
  else
    -- closeCallback_: the owner erases the connection and queues connectDestroyed
    enqueue { emit (callback (disableAll { c with st := .kDisconnected }) .down .down) .closeCb with owner := false }
      .connectDestroyed

def deliver (c : Conn) (n : Nat) : Conn :=
  { c with inBuf := c.inBuf ++ c.peerPending.take n, peerPending := c.peerPending.drop n,
           delivered := c.delivered ++ c.peerPending.take n }

def consume (c : Conn) : Conn := { c with inBuf := c.inBuf.drop c.retrieveMax }

def handleReadRes (c : Conn) : ReadRes → Conn
  | .got 0 => handleClose c
  | .got (n+1) =>
    let c1 := deliver c (n+1)
    consume (callback c1 .msg (.msg c1.inBuf.length (fnv64 c1.inBuf)))
  | .err _ => c   -- logged only (handleError)

def handleRead (c : Conn) : Conn :=
  handleReadRes (emit (popRead c) (.sysReadv (peekRead c))) (peekRead c)

def afterDrain (c : Conn) : Conn :=
  let c1 := disableWriting c
  let c2 : Conn := if drainWC c1.hasWC then enqueue c1 (.writeComplete (bindCb wcBindDrain c.wcId)) else c1
  -- the deferred half-close: a direct call, or queued behind what is already pending
  if drainShutdown c2.st then
    handOff c2 false drainShutdownDispatch .drainShutdownInLoop shutdownInLoop
  else c2

def handleWriteRes (c : Conn) : WriteRes → Conn
  | .took (n+1) =>
    let c1 : Conn := { c with wrote := c.wrote ++ c.outBuf.take (n+1), outBuf := c.outBuf.drop (n+1) }
    if drained c1.outBuf.length then afterDrain c1 else c1
  | _ => c   -- logged only

def handleWrite (c : Conn) : Conn :=
  if handleWriteActs c.ch.evWrite then
    handleWriteRes (emit (popWrite c) (.sysWrite c.outBuf.length (peekWrite c))) (peekWrite c)
  else c

/-- one branch of `Channel::handleEventWithGuard`: the reported condition (`rev`, from the
poll result) and the channel's CURRENT interest (`sub`, re-tested before each callback) -/
def guarded (f : Conn → Conn) (rev : Prop) [Decidable rev] (sub : Bool → Bool → Bool → Prop)
    [∀ a b c, Decidable (sub a b c)] (c : Conn) : Conn :=
  if rev ∧ sub c.ch.none c.ch.evRead c.ch.evWrite ∧ c.dead = false then f c else c

/-- `Channel::handleEvent` for the connection's channel: close, (error: logged only), read, write -/
def handleEvent (c : Conn) (revents : Nat) : Conn :=
  if !c.alive then c else   -- the tie: weak pointer no longer locks
  guarded handleWrite (dispWrite revents) dispWriteSub
    (guarded handleRead (dispRead revents) dispReadSub
      (guarded handleClose (dispClose revents) dispCloseSub c))

def connectEstablished (c : Conn) : Conn :=
  if c.asserts && c.st ≠ .kConnecting then emit { c with dead := true } (.abort "state_ == kConnecting")
  else callback (enableReading { c with st := .kConnected }) .up .up

def removeChannel (c : Conn) : Conn :=
  if c.asserts && !c.ch.none then emit { c with dead := true } (.abort "isNoneEvent()")
  else { c with ch := chanRemove c.be c.ch, registered := false }

def connectDestroyed (c : Conn) : Conn :=
  if destroyedWhileConnected c.st then
    removeChannel (callback (disableAll { c with st := .kDisconnected }) .down .down)
  else removeChannel c

def fireDelay (c : Conn) : Conn :=
  if c.alive then actLoop c .forceClose
  -- the object is gone: a weak callback does nothing; anything else calls into freed memory
  else if forceCloseDelayHold.eff weakCallbackLocks = .weak then c
  else emit { c with dead := true } (.uaf "delayed forceClose() on a destroyed connection")

def runTask (c : Conn) (t : Task) : Conn :=
  if !c.alive && !t.strong then
    match t with
    | .addDelayTimer d => { c with timers := c.timers ++ [d] }
    | _ =>
      if t.hold = .weak then c   -- the weak callback finds the object gone: nothing happens
      else emit { c with dead := true } (.uaf "functor with a raw pointer ran after destruction")
  else
  match t with
  | .sendInLoop d => sendInLoop c d true
  | .shutdownInLoop => shutdownInLoop c
  | .drainShutdownInLoop => shutdownInLoop c
  | .forceCloseInLoop => if forceCloseInLoopActs c.st then handleClose c else c
  | .connectDestroyed => connectDestroyed c
  | .writeComplete b => callback c .wc (.wc (b.resolve c.wcId))
  | .highWater b n => callback c .hwm (.hwm (b.resolve c.hwmId) n)
  | .startReadInLoop => startReadInLoop c
  | .stopReadInLoop => stopReadInLoop c
  | .addDelayTimer d => { c with timers := c.timers ++ [d] }

/-- the last reference goes away: `~TcpConnection`, `~Channel`, `~Socket` -/
def maybeDestroy (c : Conn) : Conn :=
  if c.alive && !c.owner && !(c.batch ++ c.pending).any Task.strong then
    if c.asserts && c.st ≠ .kDisconnected then emit { c with dead := true } (.abort "state_ == kDisconnected")
    else if c.asserts && c.registered then emit { c with dead := true } (.abort "!addedToLoop_")
    else emit (emit { c with alive := false } .sysClose) .destroyed
  else c

/-- the `for` loop of `doPendingFunctors` over the swapped-out functors; functors queued
meanwhile go to `pending`, so `batch` only shrinks (`n` = its length) -/
def runBatch : Nat → Conn → Conn
  | 0, c => c
  | n+1, c =>
    if c.dead then c else
    match c.batch with
    | [] => c
    | t :: rest => runBatch n (runTask { c with batch := rest } t)

def fireN (c : Conn) : Nat → Conn
  | 0 => c
  | n+1 => fireN (fireDelay c) n

def fireTimers (c : Conn) : Conn :=
  fireN { c with timers := c.timers.filter (fun d => ¬ d ≤ c.now) } (c.timers.filter (· ≤ c.now)).length

inductive Src | conn (revents : Nat) | timer
deriving DecidableEq, Repr

/-- one iteration of `EventLoop::loop`: dispatch the active channels in the order the
poller reported them, then run the functors that were pending at the swap -/
def dispatch (c : Conn) : Src → Conn
  | .conn r => if c.dead then c else handleEvent c r
  | .timer => if c.dead then c else fireTimers c

/-- `doPendingFunctors`: swap the pending functors out, run them (`batch` is empty whenever
this is called; written so that it does not matter) -/
def drainPending (c : Conn) : Conn :=
  runBatch (c.batch ++ c.pending).length { c with pending := [], batch := c.batch ++ c.pending }

def iter (c : Conn) (active : List Src) : Conn :=
  if c.dead then c else
  let c1 := drainPending (active.foldl dispatch c)
  -- the batch's functors are destroyed when `doPendingFunctors` returns
  if c1.dead then c1 else maybeDestroy c1

/-! ### inputs -/
inductive Input
  | establish
  | act (foreign : Bool) (a : Act)
  | hook (k : Cb) (a : Act)
  | setMark (n : Nat)
  | setRetrieve (n : Nat)
  | peerWrite (d : Bytes)
  | envWrite (r : WriteRes)
  | envRead (r : ReadRes)
  | advance (us : Nat)
  | ownerDestroy
  | iter (active : List Src)
deriving Repr

def step (c : Conn) : Input → Conn
  | .establish => if c.dead then c else connectEstablished c
  | .act f a => if c.dead || !c.alive then c else if f then actForeign c a else actLoop c a
  | .hook k a => { c with hooks := c.hooks ++ [(k, a)] }
  | .setMark n => { c with mark := n }
  | .setRetrieve n => { c with retrieveMax := n }
  | .peerWrite d => { c with peerPending := c.peerPending ++ d, peerAll := c.peerAll ++ d }
  | .envWrite r => { c with writes := c.writes ++ [r] }
  | .envRead r => { c with reads := c.reads ++ [r] }
  | .advance us => { c with now := c.now + us }
  -- `~TcpServer` for this connection, on the loop thread: drop the map's reference and run
  -- `connectDestroyed` (through `runInLoop`, i.e. at once); the functor's reference goes
  -- away when the call returns
  | .ownerDestroy => if c.dead || !c.alive || !c.owner then c else maybeDestroy { connectDestroyed c with owner := false }
  | .iter a => iter c a

def run (c : Conn) (ins : List Input) : Conn := ins.foldl step c

end MuduoVerif.Conn
