import MuduoVerif.Proofs.TPoolStep
/-! Invariants of the ThreadPool model, part B: what happens to the accepted tasks (ghost accounting). -/
namespace MuduoVerif.Monitor

/-- tasks accepted by `run()` (pushed on `queue_`), in order of acceptance -/
def acceptedOf (log : List PEv) : List Task := log.filterMap fun | .accept _ x => some x | _ => none
/-- tasks removed from `queue_` by `take()`, in order -/
def tookOf (log : List PEv) : List Task := log.filterMap fun | .took _ x => some x | _ => none
/-- tasks a worker has started (`task()` called), in order -/
def execOf (log : List PEv) : List Task := log.filterMap fun | .exec _ x => some x | _ => none

/-- an event that concerns no queued task -/
def PEv.plain : PEv → Prop
  | .accept _ _ | .took _ _ | .exec _ _ => False
  | _ => True

theorem ghost_plain {evs : List PEv} (h : ∀ e ∈ evs, e.plain) (log : List PEv) :
    acceptedOf (log ++ evs) = acceptedOf log ∧ tookOf (log ++ evs) = tookOf log ∧ execOf (log ++ evs) = execOf log := by
  induction evs generalizing log with
  | nil => simp
  | cons e evs ih =>
    have he := h e (by simp)
    have := ih (fun e' he' => h e' (by simp [he'])) (log ++ [e])
    rw [List.append_assoc] at this
    simp only [List.singleton_append] at this
    rw [this.1, this.2.1, this.2.2]
    cases e <;> simp [PEv.plain] at he <;> simp [acceptedOf, tookOf, execOf, List.filterMap_append]

theorem nodup_of_map {α β : Type} (f : α → β) : ∀ {l : List α}, (l.map f).Nodup → l.Nodup
  | [], _ => List.nodup_nil
  | a :: l, h => by
    rw [List.map_cons, List.nodup_cons] at h
    rw [List.nodup_cons]
    exact ⟨fun ha => h.1 (List.mem_map_of_mem ha), nodup_of_map f h.2⟩

structure PB (s : PState) : Prop where
  fifo : tookOf s.log ++ s.q = acceptedOf s.log
  serial : (acceptedOf s.log).map (·.1) = List.range s.nacc
  execTook : ∀ x, x ∈ execOf s.log → x ∈ tookOf s.log ∧ ∀ w, s.pc w ≠ .wExec x
  pend : ∀ w x, s.pc w = .wExec x → x ∈ tookOf s.log ∧ ∀ w', s.pc w' = .wExec x → w' = w
  execNodup : (execOf s.log).Nodup
  tookDone : ∀ x, x ∈ tookOf s.log → x ∈ execOf s.log ∨ ∃ w, s.pc w = .wExec x

theorem PB.nodup {s : PState} (h : PB s) : (tookOf s.log ++ s.q).Nodup := by
  have : ((tookOf s.log ++ s.q).map (·.1)).Nodup := by rw [h.fifo, h.serial]; exact List.nodup_range
  exact nodup_of_map _ this

/-- a step that moves `t` between positions other than `wExec` and neither takes nor starts a task -/
theorem pb_move {s : PState} (h : PB s) {t : Nat} {p : PPc} (h1 : ∀ x, s.pc t ≠ .wExec x) (h2 : ∀ x, p ≠ .wExec x)
    (log' : List PEv) (gt : tookOf log' = tookOf s.log) (ge : execOf log' = execOf s.log)
    (q' : List Task) (nacc' : Nat) (hfifo : tookOf log' ++ q' = acceptedOf log')
    (hserial : (acceptedOf log').map (·.1) = List.range nacc')
    (toMon' : Mon) (running' : Bool) (prog' : Nat → List POp) {gate' : Bool} :
    PB { toMon := toMon', n := s.n, maxq := s.maxq, running := running', q := q', nacc := nacc', pc := upd s.pc t p,
         prog := prog', log := log', kind := s.kind, gate := gate' } := by
  have hpc : ∀ w x, upd s.pc t p w = .wExec x ↔ s.pc w = .wExec x := by
    intro w x
    by_cases hw : w = t
    · subst hw; rw [upd_same]; exact ⟨fun hh => absurd hh (h2 x), fun hh => absurd hh (h1 x)⟩
    · rw [upd_other _ _ _ _ hw]
  refine ⟨hfifo, hserial, ?_, ?_, ?_, ?_⟩
  · intro x hx
    have hx' : x ∈ execOf log' := hx
    rw [ge] at hx'
    obtain ⟨a, b⟩ := h.execTook x hx'
    refine ⟨by show x ∈ tookOf log'; rw [gt]; exact a, fun w hw => b w ((hpc w x).mp hw)⟩
  · intro w x hw
    obtain ⟨a, b⟩ := h.pend w x ((hpc w x).mp hw)
    exact ⟨by show x ∈ tookOf log'; rw [gt]; exact a, fun w' hw' => b w' ((hpc w' x).mp hw')⟩
  · show (execOf log').Nodup; rw [ge]; exact h.execNodup
  · intro x hx
    have hx' : x ∈ tookOf log' := hx
    rw [gt] at hx'
    show x ∈ execOf log' ∨ _
    rw [ge]
    rcases h.tookDone x hx' with a | ⟨w, hw⟩
    · exact Or.inl a
    · exact Or.inr ⟨w, (hpc w x).mpr hw⟩

theorem pb_other {s : PState} (h : PB s) {t : Nat} {p : PPc} (h1 : ∀ x, s.pc t ≠ .wExec x) (h2 : ∀ x, p ≠ .wExec x)
    (evs : List PEv) (hev : ∀ e ∈ evs, e.plain) (log' : List PEv) (hlog : log' = s.log ++ evs)
    (toMon' : Mon) (running' : Bool) (prog' : Nat → List POp) {gate' : Bool} :
    PB { toMon := toMon', n := s.n, maxq := s.maxq, running := running', q := s.q, nacc := s.nacc, pc := upd s.pc t p,
         prog := prog', log := log', kind := s.kind, gate := gate' } := by
  subst hlog
  obtain ⟨ga, gt, ge⟩ := ghost_plain hev s.log
  exact pb_move h h1 h2 _ gt ge _ _ (by rw [ga, gt]; exact h.fifo) (by rw [ga]; exact h.serial) _ _ _

/-- steps that leave position, queue and log alone -/
theorem pb_same {s : PState} (h : PB s) (toMon' : Mon) :
    PB { s with toMon := toMon' } := ⟨h.fifo, h.serial, h.execTook, h.pend, h.execNodup, h.tookDone⟩


theorem pb_step {s s' : PState} (h : PB s) (hs : PStep s s') : PB s' := by
  cases hs with
  | acq t ho hl hE hF => exact pb_same h _
  | spur t c ht => exact pb_same h _
  | takePark t S' hpc ho hS hq hr => exact pb_same h _
  | runPark t id rest S' hpc hp hn ho hS hfull hr => exact pb_same h _
  | test t hpc =>
    exact pb_other h (by rw [hpc]; intro x hc; cases hc) (by intro x hc; split at hc <;> cases hc) [] (by simp) _
      (List.append_nil _).symm _ _ _
  | takeNone t S' hpc ho hS hq hr =>
    exact pb_other h (by rw [hpc]; intro x hc; cases hc) (by intro x hc; cases hc) [] (by simp) _ (List.append_nil _).symm _ _ _
  | runInline t id rest hpc hp hn =>
    exact pb_other h (by rw [hpc]; intro x hc; cases hc) (by intro x hc; cases hc) [.inl t id, .runRet t id]
      (by simp [PEv.plain]) _ rfl _ _ _
  | runStopped t id rest S' hpc hp hn ho hS hr =>
    exact pb_other h (by rw [hpc]; intro x hc; cases hc) (by intro x hc; cases hc) [.runRet t id] (by simp [PEv.plain]) _ rfl _ _ _
  | stopFlag t rest hpc hp ho =>
    exact pb_other h (by rw [hpc]; intro x hc; cases hc) (by intro x hc; cases hc) [.stopFlag t] (by simp [PEv.plain]) _ rfl _ _ _
  | stopNotify t hpc ho hn =>
    exact pb_other h (by rw [hpc]; intro x hc; cases hc) (by intro x hc; cases hc) [] (by simp) _ (List.append_nil _).symm _ _ _
  | stopNotify0 t hpc ho hn =>
    exact pb_other h (by rw [hpc]; intro x hc; cases hc) (by intro x hc; cases hc) [.stopRet t] (by simp [PEv.plain]) _ rfl _ _ _
  | joinNext t i hpc hd hi =>
    exact pb_other h (by rw [hpc]; intro x hc; cases hc) (by intro x hc; cases hc) [] (by simp) _ (List.append_nil _).symm _ _ _
  | joinLast t i hpc hd hi =>
    exact pb_other h (by rw [hpc]; intro x hc; cases hc) (by intro x hc; cases hc) [.stopRet t] (by simp [PEv.plain]) _ rfl _ _ _
  | runPush t id rest S' hpc hp hn ho hS hroom hr =>
    have ga : acceptedOf (s.log ++ [.accept t (s.nacc, id), .runRet t id]) = acceptedOf s.log ++ [(s.nacc, id)] := by
      simp [acceptedOf, List.filterMap_append]
    have gt : tookOf (s.log ++ [.accept t (s.nacc, id), .runRet t id]) = tookOf s.log := by
      simp [tookOf, List.filterMap_append]
    have ge : execOf (s.log ++ [.accept t (s.nacc, id), .runRet t id]) = execOf s.log := by
      simp [execOf, List.filterMap_append]
    refine pb_move h (by rw [hpc]; intro x hc; cases hc) (by intro x hc; cases hc) _ gt ge _ _ ?_ ?_ _ _ _
    · rw [ga, gt, ← List.append_assoc, h.fifo]
    · rw [ga, List.map_append, h.serial, List.range_succ]; rfl
  | takeSome t S' x q' hpc ho hS hq =>
    have ga : acceptedOf (s.log ++ [.took t x]) = acceptedOf s.log := by simp [acceptedOf, List.filterMap_append]
    have gt : tookOf (s.log ++ [.took t x]) = tookOf s.log ++ [x] := by simp [tookOf, List.filterMap_append]
    have ge : execOf (s.log ++ [.took t x]) = execOf s.log := by simp [execOf, List.filterMap_append]
    have hnd := h.nodup
    rw [hq] at hnd
    have hx : x ∉ tookOf s.log := by
      intro hx
      exact (List.nodup_append.mp hnd).2.2 x hx x (by simp) rfl
    have hnt : ∀ y, s.pc t ≠ .wExec y := by rw [hpc]; intro y hc; cases hc
    refine ⟨?_, ?_, ?_, ?_, ?_, ?_⟩
    · show tookOf (s.log ++ [.took t x]) ++ q' = acceptedOf (s.log ++ [.took t x])
      rw [ga, gt, ← h.fifo, hq]; simp
    · show (acceptedOf (s.log ++ [.took t x])).map (·.1) = _; rw [ga]; exact h.serial
    · intro y hy
      have hy' : y ∈ execOf (s.log ++ [.took t x]) := hy
      rw [ge] at hy'
      obtain ⟨a, b⟩ := h.execTook y hy'
      refine ⟨by show y ∈ tookOf (s.log ++ [.took t x]); rw [gt]; simp [a], ?_⟩
      intro w hw
      have hw' : upd s.pc t (.wExec x) w = .wExec y := hw
      by_cases hwt : w = t
      · subst hwt; rw [upd_same] at hw'; cases hw'; exact hx a
      · rw [upd_other _ _ _ _ hwt] at hw'; exact b w hw'
    · intro w y hw
      have hw' : upd s.pc t (.wExec x) w = .wExec y := hw
      show y ∈ tookOf (s.log ++ [.took t x]) ∧ ∀ w', upd s.pc t (.wExec x) w' = .wExec y → w' = w
      rw [gt]
      by_cases hwt : w = t
      · subst hwt; rw [upd_same] at hw'; cases hw'
        refine ⟨by simp, fun w' hw'' => ?_⟩
        by_cases hw't : w' = w
        · exact hw't
        · rw [upd_other _ _ _ _ hw't] at hw''
          exact absurd (h.pend w' x hw'').1 hx
      · rw [upd_other _ _ _ _ hwt] at hw'
        obtain ⟨a, b⟩ := h.pend w y hw'
        refine ⟨by simp [a], fun w' hw'' => ?_⟩
        by_cases hw't : w' = t
        · subst hw't; rw [upd_same] at hw''; cases hw''; exact absurd a hx
        · rw [upd_other _ _ _ _ hw't] at hw''; exact b w' hw''
    · show (execOf (s.log ++ [.took t x])).Nodup; rw [ge]; exact h.execNodup
    · intro y hy
      have hy' : y ∈ tookOf (s.log ++ [.took t x]) := hy
      rw [gt, List.mem_append, List.mem_singleton] at hy'
      show y ∈ execOf (s.log ++ [.took t x]) ∨ ∃ w, upd s.pc t (.wExec x) w = .wExec y
      rw [ge]
      rcases hy' with hy' | rfl
      · rcases h.tookDone y hy' with a | ⟨w, hw⟩
        · exact Or.inl a
        · refine Or.inr ⟨w, ?_⟩
          have : w ≠ t := by rintro rfl; exact hnt y hw
          rw [upd_other _ _ _ _ this]; exact hw
      · exact Or.inr ⟨t, upd_same _ _ _⟩
  | exec t x p g hpc hp =>
    have hpne : ∀ y, p ≠ .wExec y := by
      intro y hc; rcases hp with rfl | ⟨rfl, _⟩ <;> cases hc
    have ga : acceptedOf (s.log ++ [.exec t x]) = acceptedOf s.log := by simp [acceptedOf, List.filterMap_append]
    have gt : tookOf (s.log ++ [.exec t x]) = tookOf s.log := by simp [tookOf, List.filterMap_append]
    have ge : execOf (s.log ++ [.exec t x]) = execOf s.log ++ [x] := by simp [execOf, List.filterMap_append]
    obtain ⟨hxt, hxu⟩ := h.pend t x hpc
    have hxe : x ∉ execOf s.log := fun hx => (h.execTook x hx).2 t hpc
    refine ⟨?_, ?_, ?_, ?_, ?_, ?_⟩
    · show tookOf (s.log ++ [.exec t x]) ++ s.q = acceptedOf (s.log ++ [.exec t x]); rw [ga, gt]; exact h.fifo
    · show (acceptedOf (s.log ++ [.exec t x])).map (·.1) = _; rw [ga]; exact h.serial
    · intro y hy
      have hy' : y ∈ execOf (s.log ++ [.exec t x]) := hy
      rw [ge, List.mem_append, List.mem_singleton] at hy'
      show y ∈ tookOf (s.log ++ [.exec t x]) ∧ ∀ w, upd s.pc t p w ≠ .wExec y
      rw [gt]
      rcases hy' with hy' | rfl
      · obtain ⟨a, b⟩ := h.execTook y hy'
        refine ⟨a, fun w hw => ?_⟩
        by_cases hwt : w = t
        · subst hwt; rw [upd_same] at hw; exact hpne y hw
        · rw [upd_other _ _ _ _ hwt] at hw; exact b w hw
      · refine ⟨hxt, fun w hw => ?_⟩
        by_cases hwt : w = t
        · subst hwt; rw [upd_same] at hw; exact hpne _ hw
        · rw [upd_other _ _ _ _ hwt] at hw; exact hwt (hxu w hw)
    · intro w y hw
      have hw' : upd s.pc t p w = .wExec y := hw
      show y ∈ tookOf (s.log ++ [.exec t x]) ∧ ∀ w', upd s.pc t p w' = .wExec y → w' = w
      rw [gt]
      have hwt : w ≠ t := by rintro rfl; rw [upd_same] at hw'; exact hpne y hw'
      rw [upd_other _ _ _ _ hwt] at hw'
      obtain ⟨a, b⟩ := h.pend w y hw'
      refine ⟨a, fun w' hw'' => ?_⟩
      have hw't : w' ≠ t := by rintro rfl; rw [upd_same] at hw''; exact hpne y hw''
      rw [upd_other _ _ _ _ hw't] at hw''; exact b w' hw''
    · show (execOf (s.log ++ [.exec t x])).Nodup
      rw [ge]
      have : (execOf s.log ++ [x]).Perm (x :: execOf s.log) := List.perm_append_singleton _ _
      rw [this.nodup_iff, List.nodup_cons]
      exact ⟨hxe, h.execNodup⟩
    · intro y hy
      have hy' : y ∈ tookOf (s.log ++ [.exec t x]) := hy
      rw [gt] at hy'
      show y ∈ execOf (s.log ++ [.exec t x]) ∨ ∃ w, upd s.pc t p w = .wExec y
      rw [ge]
      rcases h.tookDone y hy' with a | ⟨w, hw⟩
      · exact Or.inl (by simp [a])
      · by_cases hwt : w = t
        · subst hwt; rw [hpc] at hw; cases hw; exact Or.inl (by simp)
        · exact Or.inr ⟨w, by rw [upd_other _ _ _ _ hwt]; exact hw⟩

  | pass t x hpc hg =>
    exact pb_other h (by rw [hpc]; intro y hc; cases hc) (by intro y hc; cases hc) [.pass t x] (by simp [PEv.plain]) _ rfl _ _ _
  | openGate t rest hpc hp =>
    exact pb_other h (by rw [hpc]; intro y hc; cases hc) (by intro y hc; cases hc) [.openRet t] (by simp [PEv.plain]) _ rfl _ _ _

end MuduoVerif.Monitor
