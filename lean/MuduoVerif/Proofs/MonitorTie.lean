import MuduoVerif.Model.Monitor
/-!
# T1 tie for the blocking queues and the latch (C14; the ThreadPool part is Proofs/TPoolTie.lean)

`Declared.*` is the statement skeleton each method is *modelled* with; the theorems `tie_*` show that
the skeleton extracted from /repo's current sources (`Generated/Monitor.lean`) is exactly that one
(lock scope, `while` vs `if` around the wait, the condition waited on, `notify` vs `notifyAll`, the
position of every notification relative to the mutation, reads outside the lock).  The lemmas below
them evaluate what the transition systems read off the skeletons (`waitOf`, `notifsOf`) and state the
generated guards in the form the proofs use.  A source change that alters any of it breaks this file
and with it every theorem of `Props/C14.lean`.
-/
namespace MuduoVerif.Monitor
open MuduoVerif.MonitorSkel
open MuduoVerif.Generated.Monitor

namespace Declared
def bq_put : List Stmt := [.lock, .act "push_back queue_", .notify "notEmpty_", .unlock]
def bq_take : List Stmt :=
  [.lock, .whileWait "notEmpty_", .act "decl front queue_", .act "pop_front queue_", .ret, .unlock]
def bq_drain : List Stmt := [.lock, .act "operator= queue_", .unlock, .ret]
def q_size : List Stmt := [.lock, .act "return size queue_", .ret, .unlock]
def bbq_put : List Stmt := [.lock, .whileWait "notFull_", .act "push_back queue_", .notify "notEmpty_", .unlock]
def bbq_take : List Stmt :=
  [.lock, .whileWait "notEmpty_", .act "decl front queue_", .act "pop_front queue_", .notify "notFull_", .ret, .unlock]
def bbq_empty : List Stmt := [.lock, .act "return empty queue_", .ret, .unlock]
def bbq_full : List Stmt := [.lock, .act "return full queue_", .ret, .unlock]
def bbq_capacity : List Stmt := [.lock, .act "return capacity queue_", .ret, .unlock]
def latch_wait : List Stmt := [.lock, .whileWait "condition_", .unlock]
def latch_countDown : List Stmt := [.lock, .act "-- count_", .ifBegin, .notifyAll "condition_", .ifEnd, .unlock]
def latch_getCount : List Stmt := [.lock, .act "return count_", .ret, .unlock]
end Declared

theorem tie_bq_put_copy : bq_put_copy = Declared.bq_put := by decide
theorem tie_bq_put_move : bq_put_move = Declared.bq_put := by decide
theorem tie_bq_take : bq_take = Declared.bq_take := by decide
theorem tie_bq_drain : bq_drain = Declared.bq_drain := by decide
theorem tie_bq_size : bq_size = Declared.q_size := by decide
theorem tie_bbq_put_copy : bbq_put_copy = Declared.bbq_put := by decide
theorem tie_bbq_put_move : bbq_put_move = Declared.bbq_put := by decide
theorem tie_bbq_take : bbq_take = Declared.bbq_take := by decide
theorem tie_bbq_empty : bbq_empty = Declared.bbq_empty := by decide
theorem tie_bbq_full : bbq_full = Declared.bbq_full := by decide
theorem tie_bbq_size : bbq_size = Declared.q_size := by decide
theorem tie_bbq_capacity : bbq_capacity = Declared.bbq_capacity := by decide
theorem tie_latch_wait : latch_wait = Declared.latch_wait := by decide
theorem tie_latch_countDown : latch_countDown = Declared.latch_countDown := by decide
theorem tie_latch_getCount : latch_getCount = Declared.latch_getCount := by decide
/-! ### what the models read off the skeletons -/

theorem putF_bounded (v : Nat) : methF (putSkel true v) = ⟨some ⟨true, .notFull⟩, [⟨false, .notEmpty⟩]⟩ := by
  simp only [putSkel, if_true, tie_bbq_put_copy, tie_bbq_put_move, ite_self]; decide
theorem putF_unbounded (v : Nat) : methF (putSkel false v) = ⟨none, [⟨false, .notEmpty⟩]⟩ := by
  simp only [putSkel, Bool.false_eq_true, if_false, tie_bq_put_copy, tie_bq_put_move, ite_self]; decide
theorem takeF_bounded : methF (takeSkel true) = ⟨some ⟨true, .notEmpty⟩, [⟨false, .notFull⟩]⟩ := by
  simp [takeSkel, tie_bbq_take]; decide
theorem takeF_unbounded : methF (takeSkel false) = ⟨some ⟨true, .notEmpty⟩, []⟩ := by
  simp [takeSkel, tie_bq_take]; decide
theorem latch_waitF : waitOf latch_wait = some ⟨true, .notEmpty⟩ := by rw [tie_latch_wait]; decide
theorem latch_countDownF : notifsOf latch_countDown = [⟨true, .notEmpty⟩] := by rw [tie_latch_countDown]; decide
/-! ### the generated guards, as the proofs use them -/

theorem putGuard_some (c v n : Nat) : putGuard (some c) v n = decide (n = c) := by
  simp only [putGuard, bbq_put_copy_g1, bbq_put_move_g1, ite_self]
theorem putGuard_none (v n : Nat) : putGuard none v n = false := rfl
theorem takeGuard_eq (cap : Option Nat) (n : Nat) : takeGuard cap n = decide (n = 0) := by
  unfold takeGuard; cases cap <;> simp [bq_take_g1, bbq_take_g1]
theorem latch_wait_guard (c : Int) : latch_wait_g1 c ↔ 0 < c := by unfold latch_wait_g1; omega
theorem latch_countDown_guard (c : Int) : latch_countDown_g1 c ↔ c = 0 := by unfold latch_countDown_g1; omega
end MuduoVerif.Monitor
