import MuduoVerif.Generated.ThreadSkel
/-!
# T1 tie for muduo's threading primitives (C14 / C15 / C05 / C16 / C17)

`Gen.ThreadSkel.<fn>` is the statement skeleton `vlib/gen/threadskel.py` extracts from /repo's current
`muduo/base/Mutex.h`, `Condition.h`, `Condition.cc`, `CountDownLatch.cc`, `Thread.cc`, `CurrentThread.h` on every run;
`Decl.<fn>` (`Model/ThreadSkelDecl.lean`) is the skeleton the models' atomic reading of that primitive stands for.
Each `skeleton_<fn>` is closed by `decide`: it holds exactly as long as the source performs the same stores (of the
same expressions), muduo calls, pthread / libc calls (with the same arguments, checked by `MCHECK` or not), guard
scopes, assertions, `delete`s and returns, in the same order, under the same nesting of the same conditions, loops and
`try` / `catch` clauses.  What the pthread functions DO stays trusted (POSIX); that the code asks them in the modelled
order is what is tied here.

The second part proves the deadline arithmetic of `Condition::waitForSeconds`
(`Gen.ThreadSkel.waitForSecondsDeadline`, a translation of the two assignments): a valid `timespec` that loses no time
for every non-negative wait - and an invalid one for a negative wait that crosses a second boundary downwards.
-/
namespace MuduoVerif.ThreadSkel

theorem skeleton_mutexCtor : Gen.ThreadSkel.mutexCtor = Decl.mutexCtor := by decide
theorem skeleton_mutexDtor : Gen.ThreadSkel.mutexDtor = Decl.mutexDtor := by decide
theorem skeleton_isLockedByThisThread : Gen.ThreadSkel.isLockedByThisThread = Decl.isLockedByThisThread := by decide
theorem skeleton_assertLocked : Gen.ThreadSkel.assertLocked = Decl.assertLocked := by decide
theorem skeleton_mutexLock : Gen.ThreadSkel.mutexLock = Decl.mutexLock := by decide
theorem skeleton_mutexUnlock : Gen.ThreadSkel.mutexUnlock = Decl.mutexUnlock := by decide
theorem skeleton_unassignHolder : Gen.ThreadSkel.unassignHolder = Decl.unassignHolder := by decide
theorem skeleton_assignHolder : Gen.ThreadSkel.assignHolder = Decl.assignHolder := by decide
theorem skeleton_unassignGuardCtor : Gen.ThreadSkel.unassignGuardCtor = Decl.unassignGuardCtor := by decide
theorem skeleton_unassignGuardDtor : Gen.ThreadSkel.unassignGuardDtor = Decl.unassignGuardDtor := by decide
theorem skeleton_lockGuardCtor : Gen.ThreadSkel.lockGuardCtor = Decl.lockGuardCtor := by decide
theorem skeleton_lockGuardDtor : Gen.ThreadSkel.lockGuardDtor = Decl.lockGuardDtor := by decide
theorem skeleton_condCtor : Gen.ThreadSkel.condCtor = Decl.condCtor := by decide
theorem skeleton_condDtor : Gen.ThreadSkel.condDtor = Decl.condDtor := by decide
theorem skeleton_condWait : Gen.ThreadSkel.condWait = Decl.condWait := by decide
theorem skeleton_condNotify : Gen.ThreadSkel.condNotify = Decl.condNotify := by decide
theorem skeleton_condNotifyAll : Gen.ThreadSkel.condNotifyAll = Decl.condNotifyAll := by decide
theorem skeleton_condWaitForSeconds : Gen.ThreadSkel.condWaitForSeconds = Decl.condWaitForSeconds := by decide
theorem skeleton_latchCtor : Gen.ThreadSkel.latchCtor = Decl.latchCtor := by decide
theorem skeleton_latchWait : Gen.ThreadSkel.latchWait = Decl.latchWait := by decide
theorem skeleton_latchCountDown : Gen.ThreadSkel.latchCountDown = Decl.latchCountDown := by decide
theorem skeleton_latchGetCount : Gen.ThreadSkel.latchGetCount = Decl.latchGetCount := by decide
theorem skeleton_tid : Gen.ThreadSkel.tid = Decl.tid := by decide
theorem skeleton_cacheTid : Gen.ThreadSkel.cacheTid = Decl.cacheTid := by decide
theorem skeleton_isMainThread : Gen.ThreadSkel.isMainThread = Decl.isMainThread := by decide
theorem skeleton_sleepUsec : Gen.ThreadSkel.sleepUsec = Decl.sleepUsec := by decide
theorem skeleton_gettid : Gen.ThreadSkel.gettid = Decl.gettid := by decide
theorem skeleton_afterFork : Gen.ThreadSkel.afterFork = Decl.afterFork := by decide
theorem skeleton_threadNameInitializer : Gen.ThreadSkel.threadNameInitializer = Decl.threadNameInitializer := by decide
theorem skeleton_threadDataCtor : Gen.ThreadSkel.threadDataCtor = Decl.threadDataCtor := by decide
theorem skeleton_runInThread : Gen.ThreadSkel.runInThread = Decl.runInThread := by decide
theorem skeleton_startThread : Gen.ThreadSkel.startThread = Decl.startThread := by decide
theorem skeleton_threadCtor : Gen.ThreadSkel.threadCtor = Decl.threadCtor := by decide
theorem skeleton_threadDtor : Gen.ThreadSkel.threadDtor = Decl.threadDtor := by decide
theorem skeleton_setDefaultName : Gen.ThreadSkel.setDefaultName = Decl.setDefaultName := by decide
theorem skeleton_threadStart : Gen.ThreadSkel.threadStart = Decl.threadStart := by decide
theorem skeleton_threadJoin : Gen.ThreadSkel.threadJoin = Decl.threadJoin := by decide

/-- every extracted skeleton is the declared one -/
theorem skeletons_agree :
    (Gen.ThreadSkel.mutexCtor = Decl.mutexCtor ∧
     Gen.ThreadSkel.mutexDtor = Decl.mutexDtor ∧
     Gen.ThreadSkel.isLockedByThisThread = Decl.isLockedByThisThread ∧
     Gen.ThreadSkel.assertLocked = Decl.assertLocked ∧
     Gen.ThreadSkel.mutexLock = Decl.mutexLock ∧
     Gen.ThreadSkel.mutexUnlock = Decl.mutexUnlock ∧
     Gen.ThreadSkel.unassignHolder = Decl.unassignHolder ∧
     Gen.ThreadSkel.assignHolder = Decl.assignHolder ∧
     Gen.ThreadSkel.unassignGuardCtor = Decl.unassignGuardCtor ∧
     Gen.ThreadSkel.unassignGuardDtor = Decl.unassignGuardDtor ∧
     Gen.ThreadSkel.lockGuardCtor = Decl.lockGuardCtor ∧
     Gen.ThreadSkel.lockGuardDtor = Decl.lockGuardDtor) ∧
    (Gen.ThreadSkel.condCtor = Decl.condCtor ∧
     Gen.ThreadSkel.condDtor = Decl.condDtor ∧
     Gen.ThreadSkel.condWait = Decl.condWait ∧
     Gen.ThreadSkel.condNotify = Decl.condNotify ∧
     Gen.ThreadSkel.condNotifyAll = Decl.condNotifyAll ∧
     Gen.ThreadSkel.condWaitForSeconds = Decl.condWaitForSeconds) ∧
    (Gen.ThreadSkel.latchCtor = Decl.latchCtor ∧
     Gen.ThreadSkel.latchWait = Decl.latchWait ∧
     Gen.ThreadSkel.latchCountDown = Decl.latchCountDown ∧
     Gen.ThreadSkel.latchGetCount = Decl.latchGetCount) ∧
    (Gen.ThreadSkel.tid = Decl.tid ∧
     Gen.ThreadSkel.cacheTid = Decl.cacheTid ∧
     Gen.ThreadSkel.isMainThread = Decl.isMainThread ∧
     Gen.ThreadSkel.sleepUsec = Decl.sleepUsec ∧
     Gen.ThreadSkel.gettid = Decl.gettid ∧
     Gen.ThreadSkel.afterFork = Decl.afterFork ∧
     Gen.ThreadSkel.threadNameInitializer = Decl.threadNameInitializer) ∧
    (Gen.ThreadSkel.threadDataCtor = Decl.threadDataCtor ∧
     Gen.ThreadSkel.runInThread = Decl.runInThread ∧
     Gen.ThreadSkel.startThread = Decl.startThread ∧
     Gen.ThreadSkel.threadCtor = Decl.threadCtor ∧
     Gen.ThreadSkel.threadDtor = Decl.threadDtor ∧
     Gen.ThreadSkel.setDefaultName = Decl.setDefaultName ∧
     Gen.ThreadSkel.threadStart = Decl.threadStart ∧
     Gen.ThreadSkel.threadJoin = Decl.threadJoin) :=
  ⟨⟨skeleton_mutexCtor, skeleton_mutexDtor, skeleton_isLockedByThisThread, skeleton_assertLocked, skeleton_mutexLock,
    skeleton_mutexUnlock, skeleton_unassignHolder, skeleton_assignHolder, skeleton_unassignGuardCtor,
    skeleton_unassignGuardDtor, skeleton_lockGuardCtor, skeleton_lockGuardDtor⟩,
   ⟨skeleton_condCtor, skeleton_condDtor, skeleton_condWait, skeleton_condNotify, skeleton_condNotifyAll,
    skeleton_condWaitForSeconds⟩,
   ⟨skeleton_latchCtor, skeleton_latchWait, skeleton_latchCountDown, skeleton_latchGetCount⟩,
   ⟨skeleton_tid, skeleton_cacheTid, skeleton_isMainThread, skeleton_sleepUsec, skeleton_gettid, skeleton_afterFork,
    skeleton_threadNameInitializer⟩,
   ⟨skeleton_threadDataCtor, skeleton_runInThread, skeleton_startThread, skeleton_threadCtor, skeleton_threadDtor,
    skeleton_setDefaultName, skeleton_threadStart, skeleton_threadJoin⟩⟩

/-! ## What the primitives amount to once the wrappers are unfolded

`MutexLockGuard` and `UnassignGuard` are two-line wrappers; the models read `lock m .. unlock m` and `c.wait()` as the
pthread calls they end in.  The lemmas below spell that reading out on the EXTRACTED skeletons (they are consequences
of `skeletons_agree`; a change of a wrapper breaks them together with its `skeleton_*`). -/

/-- the actions of a straight-line skeleton -/
def acts : List Skel → List Act
  | [] => []
  | .act a :: r => a :: acts r
  | _ :: r => acts r

/-- `lock m` = `m.lock()` = `pthread_mutex_lock(&mutex_)` and THEN the holder; `unlock m` = `m.unlock()` = the holder
and THEN `pthread_mutex_unlock(&mutex_)`: `holder_` is written only while the pthread mutex is held -/
theorem lock_is_pthread_lock_then_holder :
    acts Gen.ThreadSkel.lockGuardCtor = [.store "mutex_" "mutex", .call "mutex_.lock" ""] ∧
    acts Gen.ThreadSkel.mutexLock = [.mcheck "pthread_mutex_lock" "&mutex_", .call "assignHolder" ""] ∧
    acts Gen.ThreadSkel.lockGuardDtor = [.call "mutex_.unlock" ""] ∧
    acts Gen.ThreadSkel.mutexUnlock = [.call "unassignHolder" "", .mcheck "pthread_mutex_unlock" "&mutex_"] := by
  rw [skeleton_lockGuardCtor, skeleton_mutexLock, skeleton_lockGuardDtor, skeleton_mutexUnlock]; decide

/-- `Condition::wait()` = clear the holder; `pthread_cond_wait(&pcond_, <the pthread mutex of mutex_>)`; assign the
holder - the model's "release the mutex and park; re-acquire before returning" is what pthread is asked for -/
theorem wait_is_unassign_condwait_assign :
    acts Gen.ThreadSkel.condWait =
      [.guard "UnassignGuard" "mutex_", .mcheck "pthread_cond_wait" "&pcond_, mutex_.getPthreadMutex()",
       .guardEnd "UnassignGuard" "mutex_"] ∧
    acts Gen.ThreadSkel.unassignGuardCtor = [.store "owner_" "owner", .call "owner_.unassignHolder" ""] ∧
    acts Gen.ThreadSkel.unassignGuardDtor = [.call "owner_.assignHolder" ""] := by
  rw [skeleton_condWait, skeleton_unassignGuardCtor, skeleton_unassignGuardDtor]; decide

/-! ## The deadline of `Condition::waitForSeconds` -/
open Gen.ThreadSkel (Timespec waitForSecondsDeadline kNanoSecondsPerSecond)

/-- the clock the deadline is measured on is the clock the condition variable waits on: `waitForSeconds` reads clock 0
(`CLOCK_REALTIME`) and `Condition`'s constructor initialises `pcond_` with NULL attributes, for which
`pthread_cond_timedwait` measures `abstime` against `CLOCK_REALTIME` (POSIX).  Reading `CLOCK_MONOTONIC` without a
`pthread_condattr_setclock` would make every timed wait expire at once. -/
theorem wait_clock_is_cond_clock :
    Gen.ThreadSkel.waitClockId = 0 ∧
    acts Gen.ThreadSkel.condCtor = [.store "mutex_" "mutex", .mcheck "pthread_cond_init" "&pcond_, NULL"] := by
  rw [skeleton_condCtor]; decide

/-- the translated constant is 10^9 -/
theorem kNanoSecondsPerSecond_eq : kNanoSecondsPerSecond = 1000000000 := by decide

/-- **no time is lost or invented**, whatever the sign of the wait: seconds and nanoseconds of the deadline add up to
the clock reading plus the wait (truncating division and its remainder are complementary) -/
theorem deadline_conserves (now : Timespec) (ns : Int) :
    (waitForSecondsDeadline now ns).tv_sec * 1000000000 + (waitForSecondsDeadline now ns).tv_nsec =
      now.tv_sec * 1000000000 + now.tv_nsec + ns := by
  simp only [waitForSecondsDeadline, kNanoSecondsPerSecond]
  have h := Int.mul_tdiv_add_tmod (now.tv_nsec + ns) 1000000000
  omega

/-- **a non-negative wait gives a valid `timespec`**: for a valid clock reading (`0 ≤ tv_nsec < 10^9`) and `ns ≥ 0` the
deadline's `tv_nsec` is in `[0, 10^9)` (what `pthread_cond_timedwait` requires, else `EINVAL`) and no time is lost -/
theorem deadline_valid (now : Timespec) (ns : Int) (h0 : 0 ≤ now.tv_nsec) (h1 : now.tv_nsec < 1000000000)
    (hns : 0 ≤ ns) :
    0 ≤ (waitForSecondsDeadline now ns).tv_nsec ∧ (waitForSecondsDeadline now ns).tv_nsec < 1000000000 ∧
    (waitForSecondsDeadline now ns).tv_sec * 1000000000 + (waitForSecondsDeadline now ns).tv_nsec =
      now.tv_sec * 1000000000 + now.tv_nsec + ns := by
  refine ⟨?_, ?_, deadline_conserves now ns⟩
  · simp only [waitForSecondsDeadline, kNanoSecondsPerSecond]
    rw [Int.tmod_eq_emod_of_nonneg (by omega)]
    omega
  · simp only [waitForSecondsDeadline, kNanoSecondsPerSecond]
    rw [Int.tmod_eq_emod_of_nonneg (by omega)]
    omega

/-- the deadline is not before the clock reading (a non-negative wait never times out "in the past") -/
theorem deadline_not_before_now (now : Timespec) (ns : Int) (hns : 0 ≤ ns) :
    now.tv_sec * 1000000000 + now.tv_nsec ≤
      (waitForSecondsDeadline now ns).tv_sec * 1000000000 + (waitForSecondsDeadline now ns).tv_nsec := by
  rw [deadline_conserves]; omega

/-- **the hypothesis `ns ≥ 0` is needed**: nothing in `waitForSeconds` (nor in `AsyncLogging`, whose `flushInterval` is
a plain `int`) excludes a negative wait, and C's `%` keeps the sign of the dividend: whenever `tv_nsec + ns` is negative
and not a whole number of seconds, the deadline's `tv_nsec` is negative - an invalid `timespec` -/
theorem deadline_invalid_of_negative (now : Timespec) (ns : Int) (hneg : now.tv_nsec + ns < 0)
    (hfrac : (now.tv_nsec + ns) % 1000000000 ≠ 0) :
    (waitForSecondsDeadline now ns).tv_nsec < 0 := by
  simp only [waitForSecondsDeadline, kNanoSecondsPerSecond]
  have e : now.tv_nsec + ns = -(-(now.tv_nsec + ns)) := by omega
  rw [e, Int.neg_tmod, Int.tmod_eq_emod_of_nonneg (by omega)]
  omega

/-- **a wait of a whole number of seconds** (`AsyncLogging` passes its `int flushInterval_`; `flushInterval * 10^9` is exact
in a `double`: `|flushInterval| < 2^31` and `10^9 = 2^9 * 5^9` with `5^9 < 2^21`, so the product has at most 52
significant bits): for `s ≥ 0` the deadline is the clock reading with `s` added to `tv_sec`; for `s < 0` it is an invalid
`timespec` unless the clock reading happens to have `tv_nsec = 0` -/
theorem deadline_whole_seconds (now : Timespec) (s : Int) (h0 : 0 ≤ now.tv_nsec) (h1 : now.tv_nsec < 1000000000) :
    (0 ≤ s → (waitForSecondsDeadline now (s * 1000000000)).tv_sec = now.tv_sec + s ∧
             (waitForSecondsDeadline now (s * 1000000000)).tv_nsec = now.tv_nsec) ∧
    (s < 0 → 0 < now.tv_nsec → (waitForSecondsDeadline now (s * 1000000000)).tv_nsec < 0) := by
  refine ⟨fun hs => ?_, fun hs hn => deadline_invalid_of_negative now _ (by omega) (by omega)⟩
  simp only [waitForSecondsDeadline, kNanoSecondsPerSecond]
  rw [Int.tmod_eq_emod_of_nonneg (by omega), Int.tdiv_eq_ediv_of_nonneg (by omega)]
  omega

/-- a concrete one: half a second past the second, a wait of -1 s: the deadline is `(tv_sec, -500000000)` -/
theorem deadline_invalid_witness :
    waitForSecondsDeadline ⟨100, 500000000⟩ (-1000000000) = ⟨100, -500000000⟩ := by decide

end MuduoVerif.ThreadSkel
