import MuduoVerif.Proofs.TimerStep
/-! Ghost invariant behind `never_early` and `once` (C06): what every recorded callback run satisfies, how runs are
numbered, and how the run count of a timer relates to its cell. -/
namespace MuduoVerif.Timer
open MuduoVerif.Gen.Timer

/-- a `Timer` cell: the deadline is at least the first one plus one interval per restart; one-shot timers are never
restarted; before the first restart the deadline is the one it was created with -/
def CellOK (c : Cell) : Prop :=
  c.first + (c.runs : Int) * c.delta ≤ c.exp ∧ (c.rep = false → c.runs = 0) ∧ (c.runs = 0 → c.exp = c.first)

/-- one callback run: not before the deadline it was queued under; the k-th run's deadline is at least the first
deadline plus k-1 intervals; a one-shot timer only has a first run -/
def RunOK (r : RunRec) : Prop :=
  1 ≤ r.k ∧ r.exp ≤ r.now ∧ r.first + ((r.k : Int) - 1) * r.delta ≤ r.exp ∧ (r.rep = false → r.k = 1) ∧
    (r.k = 1 → r.exp = r.first)

/-- number of runs of the timer with sequence number `q` -/
def cnt (q : Nat) (l : List RunRec) : Nat := l.countP (fun r => r.seq = q)

theorem cnt_cons (q : Nat) (r : RunRec) (l : List RunRec) : cnt q (r :: l) = cnt q l + (if r.seq = q then 1 else 0) := by
  unfold cnt; rw [List.countP_cons]; simp

/-- runs are numbered: the run that is the k-th of its timer carries k (list newest first) -/
def NumOK : List RunRec → Prop
  | [] => True
  | r :: l => r.k = cnt r.seq l + 1 ∧ NumOK l

/-- the run belongs to the timer in cell `c` at `a` -/
def SameT (r : RunRec) (c : Cell) (a : Addr) : Prop :=
  r.name = c.name ∧ r.addr = a ∧ r.rep = c.rep ∧ r.first = c.first ∧ r.delta = c.delta

structure GH (s : TQ) (D : List Addr) : Prop where
  cell_ok : ∀ a c, s.heap a = some c → CellOK c
  ev_ok : ∀ r ∈ runRecs s.trace, RunOK r
  ev_seq : ∀ r ∈ runRecs s.trace, r.seq ≤ s.numCreated
  r_cnt : ∀ a c, s.heap a = some c → cnt c.seq (runRecs s.trace) = c.runs + (if a ∈ D then 1 else 0)
  r_attr : ∀ a c, s.heap a = some c → ∀ r ∈ runRecs s.trace, r.seq = c.seq → SameT r c a
  r_num : NumOK (runRecs s.trace)
  r_same : ∀ r ∈ runRecs s.trace, ∀ r' ∈ runRecs s.trace, r.seq = r'.seq →
    r.name = r'.name ∧ r.addr = r'.addr ∧ r.rep = r'.rep ∧ r.first = r'.first ∧ r.delta = r'.delta

variable {s s' : TQ} {D D' : List Addr}

/-- cells only disappear, the recorded runs are the same -/
theorem GH.shrink (h : GH s D) (hh : ∀ x c, s'.heap x = some c → s.heap x = some c ∧ (x ∈ D' ↔ x ∈ D))
    (hr : runRecs s'.trace = runRecs s.trace) (hn : s.numCreated ≤ s'.numCreated) : GH s' D' := by
  refine ⟨fun a c hc => h.cell_ok a c (hh a c hc).1, by rw [hr]; exact h.ev_ok, ?_, ?_, ?_, by rw [hr]; exact h.r_num,
    by rw [hr]; exact h.r_same⟩
  · rw [hr]; intro r hr'; exact Nat.le_trans (h.ev_seq r hr') hn
  · intro a c hc
    obtain ⟨h1, h2⟩ := hh a c hc
    rw [hr, h.r_cnt a c h1]
    by_cases hm : a ∈ D
    · rw [if_pos hm, if_pos (h2.2 hm)]
    · rw [if_neg hm, if_neg (fun h' => hm (h2.1 h'))]
  · rw [hr]; intro a c hc; exact h.r_attr a c (hh a c hc).1

theorem GH.ext (h : GH s D) (he : Ext s s') (hh : s'.heap = s.heap) : GH s' D :=
  h.shrink (fun x c hc => ⟨by rw [← hh]; exact hc, Iff.rfl⟩) he.runs he.numCreated

theorem GH.alloc {a : Addr} {c : Cell} (h : GH s D) (hs : c.seq = s.numCreated + 1) (hr : c.runs = 0)
    (hx : c.exp = c.first) (hd : a ∉ D) : GH (allocCell s a c) D := by
  have hfresh : cnt c.seq (runRecs s.trace) = 0 := by
    unfold cnt; rw [List.countP_eq_zero]
    intro r hr' heq
    have := h.ev_seq r hr'
    simp only [decide_eq_true_eq] at heq
    omega
  refine ⟨?_, h.ev_ok, ?_, ?_, ?_, h.r_num, h.r_same⟩
  · intro x cx hcx
    by_cases hxa : x = a
    · subst hxa
      have : some c = some cx := by rw [← hset_same s.heap x c]; exact hcx
      cases this
      refine ⟨by rw [hr, hx]; simp, fun _ => hr, fun _ => hx⟩
    · exact h.cell_ok x cx (by rw [← hset_other s.heap c hxa]; exact hcx)
  · intro r hr'
    show r.seq ≤ c.seq
    have := h.ev_seq r hr'; omega
  · intro x cx hcx
    show cnt cx.seq (runRecs s.trace) = _
    by_cases hxa : x = a
    · subst hxa
      have : some c = some cx := by rw [← hset_same s.heap x c]; exact hcx
      cases this
      rw [hfresh, hr, if_neg hd]
    · exact h.r_cnt x cx (by rw [← hset_other s.heap c hxa]; exact hcx)
  · intro x cx hcx r hr' heq
    by_cases hxa : x = a
    · subst hxa
      have : some c = some cx := by rw [← hset_same s.heap x c]; exact hcx
      cases this
      have := h.ev_seq r hr'
      omega
    · exact h.r_attr x cx (by rw [← hset_other s.heap c hxa]; exact hcx) r hr' heq

/-- the callback of the timer in the live cell `c` at `a` (not yet run in this batch) runs -/
theorem GH.run {B : List (Time × Addr)} {L : List Addr} {a : Addr} {c : Cell} (h : GH s D) (hw : WFp s B L)
    (hc : s.heap a = some c) (hd : a ∉ D) (now clk : Time) (hle : c.exp ≤ now) :
    GH (emit s (.run c.name c.seq (c.runs + 1) a c.rep c.first c.delta c.exp now clk)) (a :: D) := by
  have htr : runRecs (emit s (.run c.name c.seq (c.runs + 1) a c.rep c.first c.delta c.exp now clk)).trace =
      ⟨c.name, c.seq, c.runs + 1, a, c.rep, c.first, c.delta, c.exp, now⟩ :: runRecs s.trace := by
    show runRecs (_ :: s.trace) = _
    rw [runRecs_cons]; rfl
  have hcnt := h.r_cnt a c hc
  rw [if_neg hd] at hcnt
  obtain ⟨k1, k2, k3⟩ := h.cell_ok a c hc
  have hok : RunOK ⟨c.name, c.seq, c.runs + 1, a, c.rep, c.first, c.delta, c.exp, now⟩ := by
    refine ⟨by simp, hle, ?_, ?_, ?_⟩
    · simp only [Nat.cast_add, Nat.cast_one, add_sub_cancel_right]; exact k1
    · intro hrep; simp [k2 hrep]
    · intro hk; exact k3 (by simpa using hk)
  refine ⟨h.cell_ok, ?_, ?_, ?_, ?_, ?_, ?_⟩
  · rw [htr]; intro r hr
    rcases List.mem_cons.1 hr with rfl | hr
    · exact hok
    · exact h.ev_ok r hr
  · rw [htr]; intro r hr
    rcases List.mem_cons.1 hr with rfl | hr
    · exact (hw.seq_le a c hc).2
    · exact h.ev_seq r hr
  · intro x cx hcx0
    have hcx : s.heap x = some cx := hcx0
    rw [htr, cnt_cons, h.r_cnt x cx hcx]
    by_cases hxa : x = a
    · subst hxa
      rw [hc] at hcx; cases hcx
      simp [hd]
    · have hne : c.seq ≠ cx.seq := fun he => hxa (hw.seq_inj x a cx c hcx hc he.symm)
      simp only [hne, if_false, List.mem_cons, hxa, false_or, Nat.add_zero]
  · rw [htr]; intro x cx hcx0 r hr heq
    have hcx : s.heap x = some cx := hcx0
    rcases List.mem_cons.1 hr with rfl | hr
    · have : x = a := hw.seq_inj x a cx c hcx hc heq.symm
      subst this
      rw [hc] at hcx; cases hcx
      exact ⟨rfl, rfl, rfl, rfl, rfl⟩
    · exact h.r_attr x cx hcx r hr heq
  · rw [htr]
    exact ⟨by show c.runs + 1 = cnt c.seq _ + 1; rw [hcnt], h.r_num⟩
  · rw [htr]
    have key : ∀ r ∈ runRecs s.trace, r.seq = c.seq →
        r.name = c.name ∧ r.addr = a ∧ r.rep = c.rep ∧ r.first = c.first ∧ r.delta = c.delta :=
      fun r hr heq => h.r_attr a c hc r hr heq
    intro r hr r' hr' heq
    rcases List.mem_cons.1 hr with rfl | hr <;> rcases List.mem_cons.1 hr' with rfl | hr'
    · exact ⟨rfl, rfl, rfl, rfl, rfl⟩
    · obtain ⟨a1, a2, a3, a4, a5⟩ := key r' hr' heq.symm
      exact ⟨a1.symm, a2.symm, a3.symm, a4.symm, a5.symm⟩
    · exact key r hr heq
    · exact h.r_same r hr r' hr' heq

/-- `Timer::restart(now)` of a timer whose callback ran in this batch -/
theorem GH.restart {a : Addr} {c : Cell} {now : Time} (h : GH s D) (hc : s.heap a = some c) (hd : a ∈ D)
    (hrep : c.rep = true) (hle : c.exp ≤ now) (hD : ∀ x, x ∈ D' ↔ x ∈ D ∧ x ≠ a) :
    GH (setCell s a (restarted c now)) D' := by
  refine ⟨?_, h.ev_ok, h.ev_seq, ?_, ?_, h.r_num, h.r_same⟩
  · intro x cx hcx
    by_cases hxa : x = a
    · subst hxa
      have : some (restarted c now) = some cx := by rw [← hset_same s.heap x (restarted c now)]; exact hcx
      cases this
      obtain ⟨k1, _, _⟩ := h.cell_ok x c hc
      refine ⟨?_, ?_, ?_⟩
      · show c.first + ((c.runs + 1 : Nat) : Int) * c.delta ≤ Gen.Timer.restart c.rep now c.delta
        rw [hrep, restart_repeating]
        have : ((c.runs + 1 : Nat) : Int) * c.delta = (c.runs : Int) * c.delta + c.delta := by
          rw [Nat.cast_add, Nat.cast_one, Int.add_mul, Int.one_mul]
        rw [this]
        unfold Time at *
        omega
      · intro hf
        have : c.rep = false := hf
        rw [hrep] at this; cases this
      · intro h0
        have : c.runs + 1 = 0 := h0
        omega
    · exact h.cell_ok x cx (by rw [← hset_other s.heap (restarted c now) hxa]; exact hcx)
  · intro x cx hcx
    show cnt cx.seq (runRecs s.trace) = _
    by_cases hxa : x = a
    · subst hxa
      have : some (restarted c now) = some cx := by rw [← hset_same s.heap x (restarted c now)]; exact hcx
      cases this
      have := h.r_cnt x c hc
      rw [if_pos hd] at this
      have hnd : x ∉ D' := fun hm => ((hD x).1 hm).2 rfl
      rw [if_neg hnd]
      exact this
    · have hcx' : s.heap x = some cx := by rw [← hset_other s.heap (restarted c now) hxa]; exact hcx
      rw [h.r_cnt x cx hcx']
      by_cases hm : x ∈ D
      · rw [if_pos hm, if_pos ((hD x).2 ⟨hm, hxa⟩)]
      · rw [if_neg hm, if_neg (fun h' => hm ((hD x).1 h').1)]
  · intro x cx hcx r hr heq
    by_cases hxa : x = a
    · subst hxa
      have : some (restarted c now) = some cx := by rw [← hset_same s.heap x (restarted c now)]; exact hcx
      cases this
      exact h.r_attr x c hc r hr heq
    · exact h.r_attr x cx (by rw [← hset_other s.heap (restarted c now) hxa]; exact hcx) r hr heq


/-! ### the model functions -/

variable {B : List (Time × Addr)} {L : List Addr}

theorem addInLoop_heap {a : Addr} {c : Cell} (hc : s.heap a = some c) : (addInLoop s a).heap = s.heap := by
  rw [addInLoop_eq hc]; split
  · rw [armFd_heap]; rfl
  · rfl

theorem cancelInLoop_heap (hw : WFp s B L) (id : TimerId) {x : Addr} {c : Cell}
    (hx : (cancelInLoop s id).heap x = some c) : s.heap x = some c := by
  have hl : (id.addr, id.seq) ∈ s.active → (s.heap id.addr).isSome := by
    intro hm
    obtain ⟨c, h1, _⟩ := hw.a_live _ hm
    exact isSome_of_eq h1
  rw [cancelInLoop_eq id hl] at hx
  split at hx
  · exact (hfree_some hx).2
  · split at hx <;> exact hx

theorem GH.addInLoop {a : Addr} {c : Cell} (h : GH s D) (hc : s.heap a = some c) : GH (Timer.addInLoop s a) D :=
  h.ext (addInLoop_ext s a) (addInLoop_heap hc)

theorem GH.cancelInLoop (hw : WFp s B L) (h : GH s D) (id : TimerId) : GH (Timer.cancelInLoop s id) D :=
  h.shrink (fun _ _ hx => ⟨cancelInLoop_heap hw id hx, Iff.rfl⟩) (cancelInLoop_ext s id).runs
    (cancelInLoop_ext s id).numCreated

theorem GH.addL (hw : WFp s B L) (hD : ∀ x ∈ D, x ∈ B.map (·.2)) (h : GH s D) (name : Nat) (m : Mode) :
    GH (Timer.addL s name m) D := by
  rcases addL_spec s name m with hf | ⟨s1, a, c, h1, h2, _, h4, h5, h6, _, h8⟩
  · exact h.ext hf.ext hf.heap
  · rw [h8]
    have hd : a ∉ D := by
      intro hm
      obtain ⟨e, he, rfl⟩ := List.mem_map.1 (hD a hm)
      obtain ⟨⟨c', hc', _⟩, _⟩ := (hw.frame h1).b_live e he
      rw [h2] at hc'; cases hc'
    have g1 := ((h.ext h1.ext h1.heap).alloc h4 h5 h6 hd).addInLoop (allocCell_heap s1 a c)
    exact g1.ext (bindId_ext _ _ _ _) rfl

theorem GH.execAct (hw : WFp s B L) (hD : ∀ x ∈ D, x ∈ B.map (·.2)) (h : GH s D) (act : Act) :
    GH (Timer.execAct s act) D := by
  cases act with
  | add name m => exact h.addL hw hD name m
  | cancel v => exact h.cancelInLoop hw _

theorem GH.runTimer (hw : WFp s B L) (hD : ∀ x ∈ D, x ∈ B.map (·.2)) (h : GH s D) {now : Time} {e : Time × Addr}
    (he : e ∈ B) (hle : e.1 ≤ now) (hd : e.2 ∉ D) : GH (Timer.runTimer now s e) (e.2 :: D) := by
  obtain ⟨⟨c, hc, hce⟩, _⟩ := hw.b_live e he
  rw [runTimer_eq hc]
  have hD' : ∀ x ∈ e.2 :: D, x ∈ B.map (·.2) := by
    intro x hx
    rcases List.mem_cons.1 hx with rfl | hx
    · exact List.mem_map.2 ⟨e, he, rfl⟩
    · exact hD x hx
  have h0 : GH (emit s (.run c.name c.seq (c.runs + 1) e.2 c.rep c.first c.delta e.1 now s.clock)) (e.2 :: D) := by
    rw [← hce]; exact h.run hw hc hd now s.clock (by rw [hce]; exact hle)
  have := foldl_inv (fun s => WFp s B L ∧ GH s (e.2 :: D)) Timer.execAct (scriptFor s.scripts c.name (c.runs + 1)) _
    ⟨hw.emit (.run c.name c.seq (c.runs + 1) e.2 c.rep c.first c.delta e.1 now s.clock) (by intro x; simp), h0⟩
    (fun s act _ hs => ⟨hs.1.execAct act, hs.2.execAct hs.1 hD' act⟩)
  exact this.2

theorem GH.runFold (now : Time) (hB : ∀ e ∈ B, e.1 ≤ now) (todo : List (Time × Addr)) :
    ∀ (done : List (Time × Addr)) (s : TQ), done ++ todo = B → WFp s B L → GH s (done.map (·.2)) →
      WFp (todo.foldl (Timer.runTimer now) s) B L ∧ GH (todo.foldl (Timer.runTimer now) s) (B.map (·.2)) := by
  induction todo with
  | nil => intro done s hd hw h; rw [List.append_nil] at hd; subst hd; exact ⟨hw, h⟩
  | cons e t ih =>
    intro done s hd hw h
    have he : e ∈ B := by rw [← hd]; simp
    have hnd : e.2 ∉ done.map (·.2) := by
      have := hw.b_nodup
      rw [← hd, List.map_append, List.map_cons] at this
      intro hm
      exact (List.nodup_append.1 this).2.2 _ hm _ List.mem_cons_self rfl
    have hD : ∀ x ∈ done.map (·.2), x ∈ B.map (·.2) := by
      intro x hx; rw [← hd, List.map_append]; exact List.mem_append_left _ hx
    have g := h.runTimer hw hD he (hB e he) hnd
    have g' : GH (Timer.runTimer now s e) ((done ++ [e]).map (·.2)) :=
      g.shrink (fun x c hc => ⟨hc, by simp [or_comm]⟩) rfl (Nat.le_refl _)
    exact ih (done ++ [e]) _ (by rw [List.append_assoc]; exact hd) (hw.runTimer now he) g'

theorem GH.resetOne {e : Time × Addr} (hw : WFp s (e :: B) L) (h : GH s ((e :: B).map (·.2))) {now : Time}
    (hle : e.1 ≤ now) : GH (Timer.resetOne now s e) (B.map (·.2)) := by
  obtain ⟨⟨c, hc, hce⟩, _⟩ := hw.b_live e List.mem_cons_self
  have hnd : e.2 ∉ B.map (·.2) := (List.nodup_cons.1 hw.b_nodup).1
  rw [resetOne_eq hc]
  split
  · rename_i hr
    have hrep : c.rep = true := hr.1
    have g := h.restart (D' := B.map (·.2)) (now := now) hc List.mem_cons_self hrep (by rw [hce]; exact hle) (by
      intro x
      constructor
      · intro hx; exact ⟨List.mem_cons_of_mem _ hx, fun hxe => hnd (hxe ▸ hx)⟩
      · rintro ⟨hx, hxe⟩
        rcases List.mem_cons.1 hx with hx | hx
        · exact absurd hx hxe
        · exact hx)
    exact g.ext ((emit_ext _ _ rfl).trans (Ext.same rfl rfl rfl rfl rfl rfl rfl)) rfl
  · refine h.shrink ?_ rfl (Nat.le_refl _)
    intro x cx hx
    obtain ⟨hxe, hx'⟩ := hfree_some hx
    refine ⟨hx', ?_⟩
    constructor
    · intro hm; exact List.mem_cons_of_mem _ hm
    · intro hm
      rcases List.mem_cons.1 hm with hm | hm
      · exact absurd hm hxe
      · exact hm

theorem GH.resetFold (now : Time) (l : List (Time × Addr)) (s : TQ) (hw : WFp s l L) (hl : ∀ e ∈ l, e.1 ≤ now)
    (h : GH s (l.map (·.2))) : GH (l.foldl (Timer.resetOne now) s) [] := by
  induction l generalizing s with
  | nil => exact h
  | cons x xs ih =>
    exact ih _ (hw.resetOne now) (fun e he => hl e (List.mem_cons_of_mem _ he)) (h.resetOne hw (hl x List.mem_cons_self))

theorem rearm_heap (hw : WFp s B L) : (rearm s).heap = s.heap := by
  rw [rearm_eq hw]
  split
  · rfl
  · split
    · exact armFd_heap _ _
    · rfl

theorem GH.handleRead (hw : WFp s [] L) (h : GH s []) : GH (Timer.handleRead s) [] := by
  unfold Timer.handleRead
  simp only []
  have hw0 : WFp { (readNow s).2 with readable := false } [] L :=
    (hw.frame (readNow_frame s)).congr rfl rfl rfl rfl (hw.frame (readNow_frame s)).no_uaf
  have hg0 : GH { (readNow s).2 with readable := false } [] :=
    h.ext ((readNow_frame s).ext.trans (Ext.same rfl rfl rfl rfl rfl rfl rfl)) (readNow_frame s).heap
  rw [getExpired_eq hw0]
  simp only []
  have hw1 := hw0.take (isExpired (readNow s).1)
  have hw2 : WFp { takeB { (readNow s).2 with readable := false } (isExpired (readNow s).1) with
      calling := true, cancelling := [] } _ L := hw1.congr rfl rfl rfl rfl hw1.no_uaf
  have hg2 : GH { takeB { (readNow s).2 with readable := false } (isExpired (readNow s).1) with
      calling := true, cancelling := [] } [] := hg0.shrink (fun x c hc => ⟨hc, Iff.rfl⟩) rfl (Nat.le_refl _)
  have hle : ∀ e ∈ List.takeWhile (isExpired (readNow s).1) (readNow s).2.timers, e.1 ≤ (readNow s).1 := by
    intro e he
    have := List.all_eq_true.1 (List.all_takeWhile (p := isExpired (readNow s).1) (l := (readNow s).2.timers)) e he
    exact entryExpired_le (by simpa [isExpired] using this)
  obtain ⟨hw3, hg3⟩ := GH.runFold (readNow s).1 hle _ [] _ rfl hw2 hg2
  unfold reset
  generalize List.foldl (Timer.runTimer (readNow s).1) _ _ = s3 at hw3 hg3 ⊢
  have hw3' : WFp { s3 with calling := false } (List.takeWhile (isExpired (readNow s).1) (readNow s).2.timers) L :=
    hw3.congr rfl rfl rfl rfl hw3.no_uaf
  have hg3' : GH { s3 with calling := false } ((List.takeWhile (isExpired (readNow s).1) (readNow s).2.timers).map (·.2)) :=
    hg3.shrink (fun x c hc => ⟨hc, Iff.rfl⟩) rfl (Nat.le_refl _)
  have hw4 := WFp.resetFold (readNow s).1 _ _ hw3'
  exact (GH.resetFold _ _ _ hw3' hle hg3').ext (rearm_ext _) (rearm_heap hw4)

/-! ### over all histories -/

theorem GH.runNext (hw : WF s []) (h : GH s []) : GH (Timer.runNext s) [] := by
  cases hr : s.running with
  | nil => rw [runNext_nil hr]; exact h
  | cons f r =>
    rw [runNext_cons hr]
    have hp := wf_pop hw hr
    have h' : GH { s with running := r } [] := h.shrink (fun x c hc => ⟨hc, Iff.rfl⟩) rfl (Nat.le_refl _)
    cases f with
    | add a =>
      obtain ⟨c, hc⟩ := Option.isSome_iff_exists.1 (hp.p_live a List.mem_cons_self).1
      exact h'.addInLoop hc
    | cancel id => exact h'.cancelInLoop hp id
    | marker k => exact h'.ext (emit_ext _ _ rfl) rfl

theorem GH.quiet (h : GH s []) (hq : Quiet s s') (hh : ∀ x c, s'.heap x = some c → s.heap x = some c) : GH s' [] :=
  h.shrink (fun x c hc => ⟨hh x c hc, Iff.rfl⟩) hq.runs hq.numCreated


theorem addFinish_heap (s : TQ) : (addFinish s).heap = s.heap := by
  cases hp : s.parked with
  | none => rw [addFinish_none hp]
  | some p => obtain ⟨name, a, q⟩ := p; rw [addFinish_some hp]; rfl

theorem GH.addAlloc (h : GH s []) (name : Nat) (m : Mode) : GH (Timer.addAlloc s name m) [] := by
  rcases addAlloc_spec s name m with hf | ⟨s1, a, c, h1, _, _, h4, h5, h6, _, h8⟩
  · exact h.ext hf.ext hf.heap
  · rw [h8]
    exact ((h.ext h1.ext h1.heap).alloc h4 h5 h6 List.not_mem_nil).shrink (fun x c hc => ⟨hc, Iff.rfl⟩) rfl (Nat.le_refl _)

theorem GH.addFinish (h : GH s []) : GH (Timer.addFinish s) [] :=
  h.quiet (addFinish_quiet s) (fun x c hc => by rw [← addFinish_heap s]; exact hc)

theorem GH.step (ht : Top s) (h : GH s []) (i : In) : GH (Timer.step s i) [] := by
  cases i with
  | now t => exact h.shrink (fun x c hc => ⟨hc, Iff.rfl⟩) rfl (Nat.le_refl _)
  | addr a => exact h.shrink (fun x c hc => ⟨hc, Iff.rfl⟩) rfl (Nat.le_refl _)
  | script name k a => exact h.shrink (fun x c hc => ⟨hc, Iff.rfl⟩) rfl (Nat.le_refl _)
  | add who name m =>
    cases who with
    | loop => exact h.addL ht.wf (by intro x hx; cases hx) name m
    | foreign =>
      show GH (if s.parked.isSome then s else Timer.addFinish (Timer.addAlloc s name m)) []
      split
      · exact h
      · exact (h.addAlloc name m).addFinish
  | addAlloc name m => exact h.addAlloc name m
  | addFinish => exact h.addFinish
  | cancel who v k =>
    cases who with
    | loop => exact (h.cancelInLoop ht.wf _).ext (emit_ext _ _ rfl) rfl
    | foreign => exact h.shrink (fun x c hc => ⟨hc, Iff.rfl⟩) rfl (Nat.le_refl _)
  | expire =>
    show GH (match s.alarm with | some _ => { s with alarm := none, readable := true } | none => s) []
    split
    · exact h.shrink (fun x c hc => ⟨hc, Iff.rfl⟩) rfl (Nat.le_refl _)
    · exact h
  | iter =>
    exact iter_inv (fun s => GH s []) (fun s ht h => h.handleRead ht.wf)
      (fun s _ h => h.shrink (fun x c hc => ⟨hc, Iff.rfl⟩) rfl (Nat.le_refl _)) (fun s hw _ h => h.runNext hw) s ht h

theorem run_gh (ins : List In) : GH (run ins) [] := by
  refine run_inv (fun s => GH s []) ?_ (fun _ i ht h => h.step ht i) ins
  refine ⟨?_, ?_, ?_, ?_, ?_, trivial, ?_⟩
  · intro a c hc; cases hc
  · intro r hr; cases hr
  · intro r hr; cases hr
  · intro a c hc; cases hc
  · intro a c hc; cases hc
  · intro r hr; cases hr

/-! ### what the numbering says about one-shot timers -/

theorem cnt_le_one_of_k (q : Nat) (l : List RunRec) (hn : NumOK l) (hk : ∀ r ∈ l, r.seq = q → r.k = 1) : cnt q l ≤ 1 := by
  induction l with
  | nil => simp [cnt]
  | cons r l ih =>
    have ih' := ih hn.2 (fun r' hr' => hk r' (List.mem_cons_of_mem _ hr'))
    rw [cnt_cons]
    split
    · rename_i hq
      have h1 := hk r List.mem_cons_self hq
      have h2 := hn.1
      rw [hq] at h2
      omega
    · omega

theorem cnt_pos_of_mem (q : Nat) (l : List RunRec) {r : RunRec} (hr : r ∈ l) (hq : r.seq = q) : 1 ≤ cnt q l := by
  unfold cnt
  exact List.countP_pos_iff.2 ⟨r, hr, by simpa using hq⟩

end MuduoVerif.Timer
