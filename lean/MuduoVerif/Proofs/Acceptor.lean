import MuduoVerif.Model.Acceptor
/-! Lemmas about the listener model (`Model/Acceptor.lean`) for C11. -/
namespace MuduoVerif.Acceptor
open MuduoVerif.Gen.Acceptor

/-- errnos `sockets::accept` returns to its caller (no `LOG_FATAL`) -/
def Benign : AcceptRes → Prop
  | .ok => True
  | .err e => classifyAccept e = .expected

/-- errnos after which `Acceptor::handleRead` does nothing at all -/
def Silent (e : Nat) : Prop := classifyAccept e = .expected ∧ ¬ emfileTest e

def Ev.isAbort : Ev → Bool
  | .abort _ => true
  | _ => false

/-- the descriptor accounting invariant: nothing the acceptor obtained is lost track of -/
structure AccInv (a : Acc) : Prop where
  noLeak : a.leaked = 0
  account : a.opened = a.closedN + a.held.length + idleCount a.idle
  idleOk : a.idle = if a.alive then .devnull else .closed
  noStale : Ev.staleClose ∉ a.trace

theorem inv_init (cb : Bool) : AccInv { hasCb := cb } :=
  ⟨rfl, rfl, rfl, by simp⟩

@[simp] theorem pop_alive (a : Acc) : (pop a).alive = a.alive := by unfold pop; split <;> rfl
@[simp] theorem pop_listening (a : Acc) : (pop a).listening = a.listening := by unfold pop; split <;> rfl
@[simp] theorem pop_hasCb (a : Acc) : (pop a).hasCb = a.hasCb := by unfold pop; split <;> rfl
@[simp] theorem pop_idle (a : Acc) : (pop a).idle = a.idle := by unfold pop; split <;> rfl
@[simp] theorem pop_naccepted (a : Acc) : (pop a).naccepted = a.naccepted := by unfold pop; split <;> rfl
@[simp] theorem pop_held (a : Acc) : (pop a).held = a.held := by unfold pop; split <;> rfl
@[simp] theorem pop_opened (a : Acc) : (pop a).opened = a.opened := by unfold pop; split <;> rfl
@[simp] theorem pop_closedN (a : Acc) : (pop a).closedN = a.closedN := by unfold pop; split <;> rfl
@[simp] theorem pop_leaked (a : Acc) : (pop a).leaked = a.leaked := by unfold pop; split <;> rfl
@[simp] theorem pop_dead (a : Acc) : (pop a).dead = a.dead := by unfold pop; split <;> rfl
@[simp] theorem pop_trace (a : Acc) : (pop a).trace = a.trace := by unfold pop; split <;> rfl
theorem pop_results (a : Acc) : (pop a).results = a.results.tail := by unfold pop; split <;> simp_all

theorem pop_inv (a : Acc) (h : AccInv a) : AccInv (pop a) :=
  ⟨by simp [h.noLeak], by simp [h.account], by simp [h.idleOk], by simp [h.noStale]⟩

/-- the EMFILE branch, started with the spare descriptor in place: releases it, takes one pending
connection and closes it (or finds none), and re-opens the spare descriptor -/
theorem runIdle_emfile (a : Acc) (hi : a.idle = .devnull) :
    runIdle a emfileSeq =
      match peek a with
      | .ok =>
        { pop a with naccepted := a.naccepted + 1, opened := a.opened + 2, closedN := a.closedN + 2,
                     trace := a.trace ++ [.idleClosed, .accepted (a.naccepted + 1), .closed (a.naccepted + 1), .idleOpened] }
      | .err _ =>
        { pop a with opened := a.opened + 1, closedN := a.closedN + 1, trace := a.trace ++ [.idleClosed, .idleOpened] } := by
  cases hp : peek a with
  | ok =>
    simp [runIdle, emfileSeq, idleOp, closeIdle, acceptIntoIdle, openIdle, setIdle, emit, hi, peek, idleCount] at hp ⊢
    simp [hp]
    cases a; simp_all [pop]; split <;> simp_all
  | err e =>
    simp [runIdle, emfileSeq, idleOp, closeIdle, acceptIntoIdle, openIdle, setIdle, emit, hi, peek, idleCount] at hp ⊢
    simp [hp]
    cases a; simp_all [pop]; split <;> simp_all


theorem accepted_inv (a : Acc) (h : AccInv a) : AccInv (accepted a) := by
  unfold accepted
  cases hc : a.hasCb <;> simp [callbackGetsFd, noCallbackCloses, emit]
  · exact ⟨h.noLeak, by simp [h.account]; omega, h.idleOk, by simp [h.noStale]⟩
  · exact ⟨h.noLeak, by simp [h.account]; omega, h.idleOk, by simp [h.noStale]⟩

theorem failed_inv (a : Acc) (e : Nat) (h : AccInv a) (ha : a.alive = true) : AccInv (failed a e) := by
  unfold failed
  split
  · have hi : a.idle = .devnull := by rw [h.idleOk, ha]; rfl
    rw [runIdle_emfile a hi]
    split
    · exact ⟨by simp [h.noLeak], by simp [h.account, hi, idleCount]; omega, by simp [hi, ha], by simp [h.noStale]⟩
    · exact ⟨by simp [h.noLeak], by simp [h.account, hi, idleCount]; omega, by simp [hi, ha], by simp [h.noStale]⟩
  · exact h

theorem handleRead_inv (a : Acc) (h : AccInv a) (ha : a.alive = true) : AccInv (handleRead a) := by
  unfold handleRead
  split
  · exact accepted_inv _ (pop_inv a h)
  · split
    · exact failed_inv _ _ (pop_inv a h) (by simp [ha])
    · exact ⟨by simp [emit, h.noLeak], by simp [emit, h.account], by simp [emit, h.idleOk], by simp [emit, h.noStale]⟩
    · exact ⟨by simp [emit, h.noLeak], by simp [emit, h.account], by simp [emit, h.idleOk], by simp [emit, h.noStale]⟩

theorem step_inv (a : Acc) (i : Input) (h : AccInv a) : AccInv (step a i) := by
  cases i with
  | listen =>
    simp only [step]; split
    · exact h
    · exact ⟨h.noLeak, h.account, h.idleOk, h.noStale⟩
  | setCallback b => exact ⟨h.noLeak, h.account, h.idleOk, h.noStale⟩
  | envAccept r => exact ⟨h.noLeak, h.account, h.idleOk, h.noStale⟩
  | iter r =>
    simp only [step]; split
    · exact h
    · rename_i hc
      have ha : a.alive = true := by
        cases hh : a.alive <;> simp_all
      exact handleRead_inv a h ha
  | userClose k =>
    simp only [step]; split
    · rename_i hk
      have hl := List.length_erase_of_mem hk
      have hp : 0 < a.held.length := List.length_pos_of_mem hk
      exact ⟨h.noLeak, by simp [emit, h.account, hl]; omega, h.idleOk, by simp [emit, h.noStale]⟩
    · exact h
  | destroy =>
    simp only [step]; split
    · exact h
    · rename_i hc
      have ha : a.alive = true := by cases hh : a.alive <;> simp_all
      have hi : a.idle = .devnull := by rw [h.idleOk, ha]; rfl
      unfold destroy closeIdle
      rw [hi]
      exact ⟨h.noLeak, by simp [emit, h.account, hi, idleCount]; omega, by simp [emit], by simp [emit, h.noStale]⟩

theorem run_inv (ins : List Input) (a : Acc) (h : AccInv a) : AccInv (run a ins) := by
  induction ins generalizing a with
  | nil => exact h
  | cons i rest ih => exact ih _ (step_inv a i h)


/-! ### what `handleRead` does, case by case -/

theorem pop_cons (a : Acc) (r : AcceptRes) (rest : List AcceptRes) (h : a.results = r :: rest) :
    pop a = { a with results := rest } := by
  unfold pop; rw [h]

theorem peek_cons (a : Acc) (r : AcceptRes) (rest : List AcceptRes) (h : a.results = r :: rest) : peek a = r := by
  unfold peek; rw [h]; rfl

/-- a transient failure other than EMFILE: the result is consumed, nothing else happens -/
theorem handleRead_silent (a : Acc) (e : Nat) (rest : List AcceptRes) (hr : a.results = .err e :: rest) (hs : Silent e) :
    handleRead a = { a with results := rest } := by
  unfold handleRead
  rw [peek_cons a _ _ hr]
  simp only [hs.1, failed, if_neg hs.2]
  exact pop_cons a _ _ hr

/-- descriptor exhaustion with a connection pending -/
theorem handleRead_emfile_pending (a : Acc) (e : Nat) (rest : List AcceptRes) (hr : a.results = .err e :: .ok :: rest)
    (hc : classifyAccept e = .expected) (hm : emfileTest e) (hi : a.idle = .devnull) :
    handleRead a = { a with results := rest, naccepted := a.naccepted + 1, opened := a.opened + 2, closedN := a.closedN + 2,
                            trace := a.trace ++ [.idleClosed, .accepted (a.naccepted + 1), .closed (a.naccepted + 1), .idleOpened] } := by
  unfold handleRead
  rw [peek_cons a _ _ hr]
  simp only [hc, failed, if_pos hm]
  rw [pop_cons a _ _ hr, runIdle_emfile { a with results := .ok :: rest } hi]
  simp [peek, pop]

/-- descriptor exhaustion, but the raw `accept` of the EMFILE branch finds nothing (or fails): only the spare
descriptor is cycled -/
theorem handleRead_emfile_none (a : Acc) (e e2 : Nat) (rest : List AcceptRes) (hr : a.results = .err e :: .err e2 :: rest)
    (hc : classifyAccept e = .expected) (hm : emfileTest e) (hi : a.idle = .devnull) :
    handleRead a = { a with results := rest, opened := a.opened + 1, closedN := a.closedN + 1,
                            trace := a.trace ++ [.idleClosed, .idleOpened] } := by
  unfold handleRead
  rw [peek_cons a _ _ hr]
  simp only [hc, failed, if_pos hm]
  rw [pop_cons a _ _ hr, runIdle_emfile { a with results := .err e2 :: rest } hi]
  simp [peek, pop]

theorem handleRead_ok (a : Acc) (rest : List AcceptRes) (hr : a.results = .ok :: rest) :
    handleRead a = accepted { a with results := rest } := by
  unfold handleRead
  rw [peek_cons a _ _ hr, pop_cons a _ _ hr]

/-! ### the listener keeps listening; nothing aborts under expected errors -/

theorem idleOp_keeps (a : Acc) (o : IdleOp) :
    (idleOp a o).listening = a.listening ∧ (idleOp a o).alive = a.alive ∧ (idleOp a o).hasCb = a.hasCb ∧
    (idleOp a o).dead = a.dead ∧ (idleOp a o).held = a.held ∧
    (∃ s, (idleOp a o).trace = a.trace ++ s ∧ ∀ e ∈ s, e.isAbort = false ∧ ∀ k, e ≠ .newConn k) ∧
    (∃ n, (idleOp a o).results = a.results.drop n) := by
  cases o with
  | closeIdle =>
    simp only [idleOp, closeIdle]
    split <;> simp [emit, Ev.isAbort] <;> exact ⟨0, rfl⟩
  | acceptIntoIdle =>
    simp only [idleOp, acceptIntoIdle]
    split <;> simp [emit, setIdle, Ev.isAbort, pop_results] <;> exact ⟨1, by simp⟩
  | openIdle =>
    simp [idleOp, openIdle, emit, setIdle, Ev.isAbort]; exact ⟨0, rfl⟩

theorem runIdle_keeps (ops : List IdleOp) (a : Acc) :
    (runIdle a ops).listening = a.listening ∧ (runIdle a ops).alive = a.alive ∧ (runIdle a ops).hasCb = a.hasCb ∧
    (runIdle a ops).dead = a.dead ∧ (runIdle a ops).held = a.held ∧
    (∃ s, (runIdle a ops).trace = a.trace ++ s ∧ ∀ e ∈ s, e.isAbort = false ∧ ∀ k, e ≠ .newConn k) ∧
    (∃ n, (runIdle a ops).results = a.results.drop n) := by
  induction ops generalizing a with
  | nil => exact ⟨rfl, rfl, rfl, rfl, rfl, ⟨[], by simp [runIdle], by simp⟩, ⟨0, rfl⟩⟩
  | cons o rest ih =>
    obtain ⟨h1, h2, h3, h4, h5, ⟨s1, hs1, hq1⟩, ⟨n1, hn1⟩⟩ := idleOp_keeps a o
    obtain ⟨g1, g2, g3, g4, g5, ⟨s2, hs2, hq2⟩, ⟨n2, hn2⟩⟩ := ih (idleOp a o)
    refine ⟨g1.trans h1, g2.trans h2, g3.trans h3, g4.trans h4, g5.trans h5, ⟨s1 ++ s2, ?_, ?_⟩, ⟨n1 + n2, ?_⟩⟩
    · show (runIdle (idleOp a o) rest).trace = _
      rw [hs2, hs1, List.append_assoc]
    · intro e he
      rcases List.mem_append.mp he with h | h
      · exact hq1 e h
      · exact hq2 e h
    · show (runIdle (idleOp a o) rest).results = _
      rw [hn2, hn1, List.drop_drop]

theorem handleRead_keeps (a : Acc) :
    (handleRead a).listening = a.listening ∧ (handleRead a).alive = a.alive ∧ (handleRead a).hasCb = a.hasCb := by
  unfold handleRead
  split
  · unfold accepted; simp only []
    split
    · split <;> simp [emit]
    · split <;> simp [emit]
  · split
    · unfold failed; split
      · obtain ⟨h1, h2, h3, _⟩ := runIdle_keeps emfileSeq (pop a)
        simp [h1, h2, h3]
      · simp
    · simp [emit]
    · simp [emit]

/-- nothing has aborted and no queued accept result can make it abort -/
structure Safe (a : Acc) : Prop where
  notDead : a.dead = false
  benign : ∀ r ∈ a.results, Benign r
  noAbort : ∀ e ∈ a.trace, e.isAbort = false

theorem benign_peek (a : Acc) (h : ∀ r ∈ a.results, Benign r) : Benign (peek a) := by
  unfold peek
  cases hr : a.results with
  | nil => show classifyAccept 11 = .expected; decide
  | cons r rest => exact h r (by rw [hr]; simp)

theorem handleRead_safe (a : Acc) (h : Safe a) : Safe (handleRead a) := by
  have hb := benign_peek a h.benign
  have htail : ∀ r ∈ (pop a).results, Benign r := by
    intro r hr; rw [pop_results] at hr; exact h.benign r (List.mem_of_mem_tail hr)
  unfold handleRead
  split
  · rename_i hp
    unfold accepted; simp only []
    split
    · split
      · refine ⟨by simp [emit, h.notDead], by simpa [emit] using htail, ?_⟩
        intro e he; simp [emit] at he
        rcases he with he | he | he
        · exact h.noAbort e he
        · rw [he]; rfl
        · rw [he]; rfl
      · refine ⟨by simp [emit, h.notDead], by simpa [emit] using htail, ?_⟩
        intro e he; simp [emit] at he
        rcases he with he | he
        · exact h.noAbort e he
        · rw [he]; rfl
    · split
      · refine ⟨by simp [emit, h.notDead], by simpa [emit] using htail, ?_⟩
        intro e he; simp [emit] at he
        rcases he with he | he | he
        · exact h.noAbort e he
        · rw [he]; rfl
        · rw [he]; rfl
      · refine ⟨by simp [emit, h.notDead], by simpa [emit] using htail, ?_⟩
        intro e he; simp [emit] at he
        rcases he with he | he
        · exact h.noAbort e he
        · rw [he]; rfl
  · rename_i e hp
    rw [hp] at hb
    have hb' : classifyAccept e = .expected := hb
    simp only [hb']
    unfold failed; split
    · obtain ⟨_, _, _, h4, _, ⟨s, hs, hq⟩, ⟨n, hn⟩⟩ := runIdle_keeps emfileSeq (pop a)
      refine ⟨by rw [h4]; simp [h.notDead], ?_, ?_⟩
      · intro r hr; rw [hn] at hr; exact htail r (List.mem_of_mem_drop hr)
      · intro x hx; rw [hs] at hx
        rcases List.mem_append.mp hx with hx | hx
        · exact h.noAbort x (by simpa using hx)
        · exact (hq x hx).1
    · exact ⟨by simp [h.notDead], htail, by simpa using h.noAbort⟩

theorem step_safe (a : Acc) (i : Input) (h : Safe a) (hb : ∀ r, i = .envAccept r → Benign r) : Safe (step a i) := by
  cases i with
  | listen => simp only [step]; split; exact h; exact ⟨h.notDead, h.benign, h.noAbort⟩
  | setCallback b => exact ⟨h.notDead, h.benign, h.noAbort⟩
  | envAccept r =>
    refine ⟨h.notDead, ?_, h.noAbort⟩
    intro x hx
    simp only [step] at hx
    rcases List.mem_append.mp hx with hx | hx
    · exact h.benign x hx
    · simp at hx; rw [hx]; exact hb r rfl
  | iter r => simp only [step]; split; exact h; exact handleRead_safe a h
  | userClose k =>
    simp only [step]; split
    · refine ⟨by simp [emit, h.notDead], by simpa [emit] using h.benign, ?_⟩
      intro e he; simp [emit] at he
      rcases he with he | he
      · exact h.noAbort e he
      · rw [he]; rfl
    · exact h
  | destroy =>
    simp only [step]; split
    · exact h
    · unfold destroy closeIdle
      split
      · refine ⟨by simp [emit, h.notDead], by simpa [emit] using h.benign, ?_⟩
        intro e he; simp [emit] at he
        rcases he with he | he
        · exact h.noAbort e he
        · rw [he]; rfl
      · refine ⟨by simp [emit, h.notDead], by simpa [emit] using h.benign, ?_⟩
        intro e he; simp [emit] at he
        rcases he with he | he
        · exact h.noAbort e he
        · rw [he]; rfl
      · refine ⟨by simp [emit, h.notDead], by simpa [emit] using h.benign, ?_⟩
        intro e he; simp [emit] at he
        rcases he with he | he
        · exact h.noAbort e he
        · rw [he]; rfl
      · exact ⟨by simp [h.notDead], by simpa using h.benign, by simpa using h.noAbort⟩

theorem run_safe (ins : List Input) (a : Acc) (h : Safe a) (hb : ∀ r, .envAccept r ∈ ins → Benign r) : Safe (run a ins) := by
  induction ins generalizing a with
  | nil => exact h
  | cons i rest ih =>
    exact ih _ (step_safe a i h (fun r hr => hb r (by rw [hr]; simp))) (fun r hr => hb r (List.mem_cons_of_mem _ hr))

theorem step_listening (a : Acc) (i : Input) (hl : a.listening = true) (hd : i ≠ .destroy) : (step a i).listening = true := by
  cases i with
  | listen => simp only [step]; split; exact hl; rfl
  | setCallback b => exact hl
  | envAccept r => exact hl
  | iter r => simp only [step]; split; exact hl; rw [(handleRead_keeps a).1]; exact hl
  | userClose k => simp only [step]; split <;> simp [emit, hl]
  | destroy => exact absurd rfl hd

theorem run_listening (ins : List Input) (a : Acc) (hl : a.listening = true) (hd : ∀ i ∈ ins, i ≠ .destroy) :
    (run a ins).listening = true := by
  induction ins generalizing a with
  | nil => exact hl
  | cons i rest ih =>
    exact ih _ (step_listening a i hl (hd i (by simp))) (fun j hj => hd j (List.mem_cons_of_mem _ hj))

/-! ### fault-obliviousness -/

/-- the listener is in service and no accept result is left over -/
structure Ready (a : Acc) : Prop where
  notDead : a.dead = false
  alive : a.alive = true
  listening : a.listening = true
  noResults : a.results = []

/-- one iteration in which `accept` fails with errno `e` -/
def faultIter (e : Nat) : List Input := [.envAccept (.err e), .iter true]

theorem faultIter_noop (a : Acc) (h : Ready a) (e : Nat) (hs : Silent e) : run a (faultIter e) = a := by
  simp only [run, faultIter, List.foldl, step, h.notDead, h.alive, h.listening, h.noResults, List.nil_append]
  simp only [Bool.not_true, Bool.or_self, Bool.false_eq_true, if_false]
  rw [handleRead_silent _ e [] rfl hs]
  have h1 := h.alive; have h2 := h.listening; have h3 := h.noResults; have h4 := h.notDead
  cases a; simp_all

theorem run_append (a : Acc) (xs ys : List Input) : run a (xs ++ ys) = run (run a xs) ys := by
  simp [run, List.foldl_append]

theorem silent_faults_oblivious (a : Acc) (h : Ready a) (es : List Nat) (hs : ∀ e ∈ es, Silent e) (rest : List Input) :
    run a (es.flatMap faultIter ++ rest) = run a rest := by
  induction es with
  | nil => rfl
  | cons e es ih =>
    rw [List.flatMap_cons, List.append_assoc, run_append, faultIter_noop a h e (hs e (by simp))]
    exact ih (fun x hx => hs x (List.mem_cons_of_mem _ hx))

theorem interrupted_poll_noop (a : Acc) (rest : List Input) : run a (.iter false :: rest) = run a rest := by
  simp [run, step]

end MuduoVerif.Acceptor
