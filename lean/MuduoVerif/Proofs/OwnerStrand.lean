import MuduoVerif.Proofs.OwnerExit
/-! Third layer: the base loop's own queue.  What the functors of the model append to the queue of the loop that
runs them are `connectDestroyed` functors only, and those append nothing: the repeated final drain leaves the queue of a
loop that exits empty; afterwards nothing that still has to run is ever queued there (`Y5`), so that no schedule strands
a `connectEstablished` / `connectDestroyed` functor (`goodSched_all`). -/
namespace MuduoVerif.Owner
open MuduoVerif.Gen.Owner
open MuduoVerif.Gen.Conn (StateE forceCloseAccepts shutdownAccepts forceCloseInLoopActs destroyedWhileConnected)

def Task.isDes : Task → Bool
  | .des _ => true
  | _ => false

/-- what `s'` has appended to the base loop's queue; `b`: the code ran on the base loop's thread -/
structure App0 (b : Bool) (s s' : Srv) : Prop where
  q : ∃ ts, s'.q 0 = s.q 0 ++ ts ∧ (∀ u ∈ ts, if b then u.isDes = true else u.mustRun = false)

theorem App0.refl (b : Bool) (s : Srv) : App0 b s s := ⟨[], by simp, by simp⟩

theorem App0.trans {b : Bool} {s s' s'' : Srv} (h1 : App0 b s s') (h2 : App0 b s' s'') : App0 b s s'' := by
  obtain ⟨t1, e1, c1⟩ := h1.q
  obtain ⟨t2, e2, c2⟩ := h2.q
  refine ⟨t1 ++ t2, by rw [e2, e1, List.append_assoc], ?_⟩
  intro u hu
  rcases List.mem_append.mp hu with h | h
  · exact c1 u h
  · exact c2 u h

theorem app0_of_q (b : Bool) (s s' : Srv) (h : s'.q = s.q) : App0 b s s' := ⟨[], by rw [h]; simp, by simp⟩

theorem app0_enq (b : Bool) (s : Srv) (l : Nat) (t : Task) (h : l = 0 → if b then t.isDes = true else t.mustRun = false) :
    App0 b s (s.enq l t) := by
  by_cases hl : l = 0
  · subst hl
    exact ⟨[t], by simp, by intro u hu; rw [List.mem_singleton.mp hu]; exact h rfl⟩
  · exact ⟨[], by rw [enq_q_other _ _ _ _ (Ne.symm hl)]; simp, by simp⟩

theorem app0_reapOne (b : Bool) (s : Srv) (l c : Nat) : App0 b s (reapOne s l c) :=
  app0_of_q b _ _ (by unfold reapOne; split <;> rfl)

theorem connectEstablished_q (s : Srv) (l c : Nat) : (connectEstablished s l c).q = s.q := by
  unfold connectEstablished; split
  · rfl
  · split <;> rfl

theorem connectDestroyed_q (s : Srv) (l c : Nat) : (connectDestroyed s l c).q = s.q := by
  unfold connectDestroyed; split
  · rfl
  · split
    · rfl
    · split <;> rfl

theorem app0_removeInLoop (s : Srv) (l c : Nat) : App0 (decide (l = 0)) s (removeInLoop s l c) := by
  unfold removeInLoop
  split
  · simp only [removeGuarded, dtorExpiresToken, Bool.and_self, if_true]; exact App0.refl _ s
  · split
    · exact app0_of_q _ _ _ rfl
    · rename_i h
      rw [handDestroy_rem]
      have hl : l = 0 := by simpa using h
      refine App0.trans (s' := { s with map := mapErase s.map (s.conn c).name }.emit c _ l) (app0_of_q _ _ _ rfl) (app0_enq _ _ _ _ ?_)
      intro _; simp [hl, Task.isDes]

theorem app0_handleClose (s : Srv) (l c : Nat) : App0 (decide (l = 0)) s (handleClose s l c) := by
  unfold handleClose
  split
  · exact app0_of_q _ _ _ rfl
  · rw [removeConnection_nf]
    have g1 : App0 (decide (l = 0)) s (((s.setConn c { s.conn c with st := .kDisconnected, cause := true }).emit c .down l).emit c .closeCb l) :=
      app0_of_q _ _ _ rfl
    split
    · exact g1.trans (app0_removeInLoop _ l c)
    · rename_i hl
      exact g1.trans (app0_enq _ _ _ _ (by intro _; simp [hl, Task.mustRun]))

theorem app0_forceCloseInLoop (s : Srv) (l c : Nat) : App0 (decide (l = 0)) s (forceCloseInLoop s l c) := by
  unfold forceCloseInLoop
  split
  · exact app0_of_q _ _ _ rfl
  · split
    · exact app0_handleClose s l c
    · exact App0.refl _ s

theorem app0_dtorOne (b : Bool) (s : Srv) (c : Nat) : App0 b s (dtorOne s c) := by
  rw [dtorOne_nf]
  refine App0.trans ?_ (app0_reapOne b _ 0 c)
  split
  · exact app0_of_q b _ _ (by rw [connectDestroyed_q]; rfl)
  · rename_i h
    refine App0.trans (s' := s.setConn c { s.conn c with cause := true }) (app0_of_q b _ _ rfl) (app0_enq b _ _ _ ?_)
    intro h0; exact absurd h0 (by simpa using h)

theorem app0_destroyServer (b : Bool) (s : Srv) : App0 b s (destroyServer s) := by
  unfold destroyServer
  split
  · exact App0.refl _ s
  · have : ∀ (cs : List Nat) (s0 : Srv), App0 b s0 (cs.foldl dtorOne s0) := by
      intro cs
      induction cs with
      | nil => intro s0; exact App0.refl _ s0
      | cons c cs ih => intro s0; exact (app0_dtorOne b s0 c).trans (ih _)
    exact App0.trans (s' := { s with map := [], alive := false }) (app0_of_q b _ _ rfl) (this _ _)

theorem app0_runTask (s : Srv) (l : Nat) (t : Task) : App0 (decide (l = 0)) s (runTask s l t) := by
  cases t <;> simp only [runTask]
  · exact app0_of_q _ _ _ (connectEstablished_q s l _)
  · exact app0_removeInLoop s l _
  · exact app0_of_q _ _ _ (connectDestroyed_q s l _)
  · exact app0_forceCloseInLoop s l _
  · exact App0.refl _ s
  · exact app0_destroyServer _ s


/-! ### the repeated final drain empties the base loop's queue -/

theorem runHead0 (s : Srv) (t : Task) (rest : List Task) (hq : s.q 0 = t :: rest) :
    ∃ app, (runHead s 0).q 0 = rest ++ app ∧ (∀ u ∈ app, u.isDes = true) ∧ (t.isDes = true → app = []) := by
  rw [runHead_cons s 0 t rest hq]
  obtain ⟨ts, e1, c1⟩ := (app0_runTask (pop s 0 t rest) 0 t).q
  refine ⟨ts, by rw [e1]; simp, fun u hu => by simpa using c1 u hu, ?_⟩
  intro hd
  cases t with
  | des c =>
    have : (runTask (pop s 0 (.des c) rest) 0 (.des c)).q 0 = rest := by
      simp only [runTask, connectDestroyed_q]; simp
    rw [this] at e1
    simpa using e1
  | _ => simp [Task.isDes] at hd

theorem iterate_runHead0 (k : Nat) : ∀ s : Srv, k ≤ (s.q 0).length →
    ∃ app, (iterate (fun s => runHead s 0) k s).q 0 = (s.q 0).drop k ++ app ∧ (∀ u ∈ app, u.isDes = true) ∧
      ((∀ t ∈ (s.q 0).take k, t.isDes = true) → app = []) := by
  induction k with
  | zero => intro s _; exact ⟨[], by simp [iterate], by simp, fun _ => rfl⟩
  | succ k ih =>
    intro s hk
    cases hq : s.q 0 with
    | nil => rw [hq] at hk; simp at hk
    | cons t rest =>
      obtain ⟨a1, e1, d1, z1⟩ := runHead0 s t rest hq
      have hk' : k ≤ ((runHead s 0).q 0).length := by rw [e1, List.length_append]; rw [hq] at hk; simp at hk; omega
      obtain ⟨a2, e2, d2, z2⟩ := ih (runHead s 0) hk'
      have hkr : k ≤ rest.length := by rw [hq] at hk; simp at hk; omega
      refine ⟨a1.drop (k - rest.length) ++ a2, ?_, ?_, ?_⟩
      · show (iterate (fun s => runHead s 0) k (runHead s 0)).q 0 = _
        rw [e2, e1, List.drop_append]
        simp [List.append_assoc]
      · intro u hu
        rcases List.mem_append.mp hu with h | h
        · exact d1 u (List.mem_of_mem_drop h)
        · exact d2 u h
      · intro hall
        have ht : t.isDes = true := hall t (by simp)
        have ha1 : a1 = [] := z1 ht
        have : a2 = [] := by
          apply z2
          intro u hu
          rw [e1, ha1, List.append_nil] at hu
          exact hall u (by simp [hu])
        simp [ha1, this]

theorem drainBatch0 (s : Srv) :
    (∀ u ∈ (drainBatch s 0).q 0, u.isDes = true) ∧ ((∀ t ∈ s.q 0, t.isDes = true) → (drainBatch s 0).q 0 = []) := by
  unfold drainBatch
  obtain ⟨hq3, _⟩ := endBatch_q_done (iterate (fun s => runHead s 0) (s.q 0).length s) 0
  obtain ⟨app, e, d, z⟩ := iterate_runHead0 (s.q 0).length s (Nat.le_refl _)
  rw [hq3, e]
  simp only [List.drop_length, List.nil_append]
  refine ⟨d, fun hall => z (fun t ht => hall t (List.mem_of_mem_take ht))⟩

theorem drainAll0 (s : Srv) : (drainAll 0 3 s).q 0 = [] := by
  have h1 := drainBatch0 s
  simp only [drainAll]
  split
  · assumption
  · have h2 := (drainBatch0 (drainBatch s 0)).2 h1.1
    rw [if_pos h2]; exact h2


/-! ### once the base loop has exited, nothing that still has to run is queued to it -/

def Y5 (s : Srv) : Prop := s.exited 0 = true → ∀ t ∈ s.q 0, t.mustRun = false

/-- the base loop's exit flag is untouched, and what is new in its queue is harmless if it has exited -/
structure Keep0 (s s' : Srv) : Prop where
  exited0 : s'.exited 0 = s.exited 0
  q : ∀ u ∈ s'.q 0, u ∈ s.q 0 ∨ (s.exited 0 = true → u.mustRun = false)

theorem Keep0.refl (s : Srv) : Keep0 s s := ⟨rfl, fun _ h => Or.inl h⟩

theorem Keep0.trans {s s' s'' : Srv} (h1 : Keep0 s s') (h2 : Keep0 s' s'') : Keep0 s s'' := by
  refine ⟨h2.exited0.trans h1.exited0, fun u hu => ?_⟩
  rcases h2.q u hu with h | h
  · exact h1.q u h
  · exact Or.inr (fun he => h (h1.exited0.trans he))

theorem Y5.keep {s s' : Srv} (h : Y5 s) (k : Keep0 s s') : Y5 s' := by
  intro he t ht
  rw [k.exited0] at he
  rcases k.q t ht with h1 | h1
  · exact h he t h1
  · exact h1 he

theorem keep0_of_app0 {b : Bool} {s s' : Srv} (h : App0 b s s') (he : s'.exited 0 = s.exited 0)
    (hb : b = true → s.exited 0 = false) : Keep0 s s' := by
  refine ⟨he, fun u hu => ?_⟩
  obtain ⟨ts, e1, c1⟩ := h.q
  rw [e1] at hu
  rcases List.mem_append.mp hu with h1 | h1
  · exact Or.inl h1
  · right; intro hex
    have := c1 u h1
    cases b with
    | false => simpa using this
    | true => rw [hb rfl] at hex; cases hex

theorem keep0_of_sub {s s' : Srv} (he : s'.exited 0 = s.exited 0) (h : ∀ u ∈ s'.q 0, u ∈ s.q 0) : Keep0 s s' :=
  ⟨he, fun u hu => Or.inl (h u hu)⟩

theorem destroyServer_exited (s : Srv) : (destroyServer s).exited = s.exited := by
  have : ∀ (cs : List Nat) (s1 : Srv), (cs.foldl dtorOne s1).exited = s1.exited := by
    intro cs; induction cs with
    | nil => intro s1; rfl
    | cons c cs ih2 => intro s1; exact (ih2 _).trans (ext_dtorOne s1 c).exited
  unfold destroyServer
  split
  · rfl
  · exact this _ _

theorem runTask_exited (s : Srv) (l : Nat) (t : Task) : (runTask s l t).exited = s.exited := by
  by_cases ht : t = .srvDtor
  · subst ht; exact destroyServer_exited s
  · exact (ext_runTask s l t ht).exited

theorem keep0_runHead (s : Srv) (l : Nat) (hl : l = 0 → s.exited 0 = false) : Keep0 s (runHead s l) := by
  cases hq : s.q l with
  | nil => rw [runHead_nil s l hq]; exact Keep0.refl s
  | cons t rest =>
    rw [runHead_cons s l t rest hq]
    have k1 : Keep0 s (pop s l t rest) := keep0_of_sub rfl (fun u hu => mem_pop hq hu)
    refine k1.trans (keep0_of_app0 (app0_runTask (pop s l t rest) l t) (by rw [runTask_exited]) ?_)
    intro hb
    exact hl (by simpa using hb)

theorem keep0_releaseHead (s : Srv) (l : Nat) : Keep0 s (releaseHead s l) := by
  refine keep0_of_sub ?_ (fun u hu => by rw [releaseHead_q] at hu; exact hu)
  cases hd : s.done l with
  | nil => simp only [releaseHead, hd]
  | cons t rest =>
    rw [releaseHead_cons s l t rest hd]
    cases t.conn? with
    | none => rfl
    | some c => simp only; rw [(ext_reapOne _ l c).exited]; rfl

theorem keep0_iterate (f : Srv → Srv) (P : Srv → Prop) (hf : ∀ s, P s → Keep0 s (f s) ∧ P (f s)) (k : Nat) (s : Srv) (hp : P s) :
    Keep0 s (iterate f k s) ∧ P (iterate f k s) := by
  induction k generalizing s with
  | zero => exact ⟨Keep0.refl s, hp⟩
  | succ k ih =>
    obtain ⟨h1, h2⟩ := hf s hp
    obtain ⟨h3, h4⟩ := ih (f s) h2
    exact ⟨h1.trans h3, h4⟩

theorem keep0_drainBatch (s : Srv) (l : Nat) (hl : l ≠ 0) : Keep0 s (drainBatch s l) := by
  unfold drainBatch endBatch
  exact (keep0_iterate _ (fun _ => True) (fun s _ => ⟨keep0_runHead s l (fun h => absurd h hl), trivial⟩) _ s trivial).1.trans
    (keep0_iterate _ (fun _ => True) (fun s _ => ⟨keep0_releaseHead s l, trivial⟩) _ _ trivial).1

theorem keep0_drainAll (l : Nat) (hl : l ≠ 0) (f : Nat) (s : Srv) : Keep0 s (drainAll l f s) := by
  induction f generalizing s with
  | zero => exact Keep0.refl s
  | succ f ih =>
    simp only [drainAll]; split
    · exact keep0_drainBatch s l hl
    · exact (keep0_drainBatch s l hl).trans (ih _)

theorem keep0_dropHead (s : Srv) (l : Nat) : Keep0 s (dropHead s l) := by
  cases hq : s.q l with
  | nil => simp only [dropHead, hq]; exact Keep0.refl s
  | cons t rest =>
    rw [dropHead_cons s l t rest hq]
    have k1 : Keep0 s (dropq s l rest) := keep0_of_sub rfl (fun u hu => mem_dropq hq hu)
    cases t.conn? with
    | none => exact k1
    | some c =>
      refine k1.trans (keep0_of_sub ?_ (fun u hu => ?_))
      · rw [(ext_reapOne _ l c).exited]
      · have : (reapOne (dropq s l rest) l c).q = (dropq s l rest).q := by unfold reapOne; split <;> rfl
        rw [this] at hu; exact hu

theorem y5_step (s : Srv) (hg : GInv s) (hinj : Function.Injective s.nameOf) (hy : Y5 s)
    (hd : s.drain = true) (hr : s.drainRepeats = true) (a : Action) : Y5 (step s a) := by
  cases a with
  | accept =>
    by_cases he : s.exited 0 = true
    · have : accept s = s := by unfold accept; simp [he]
      simp only [step, this]; exact hy
    · intro h
      have := (growA_accept s hg hinj).exited
      simp only [step] at h; rw [this] at h; exact absurd h he
  | run l =>
    simp only [step]; split
    · exact hy
    · rename_i h
      exact hy.keep (keep0_runHead s l (fun h0 => by subst h0; simpa using h))
  | endBatch l =>
    simp only [step, endBatch]
    exact hy.keep (keep0_iterate _ (fun _ => True) (fun s _ => ⟨keep0_releaseHead s l, trivial⟩) _ s trivial).1
  | msg c =>
    simp only [step]; split
    · exact hy.keep (keep0_of_sub rfl (fun u hu => hu))
    · exact hy
  | close c =>
    simp only [step]; split
    · rename_i hr'
      simp only [evReady, Bool.and_eq_true, Bool.not_eq_true'] at hr'
      refine hy.keep (Keep0.trans (keep0_of_app0 (app0_handleClose s _ c) (by rw [(ext_handleClose s _ c rfl).exited]) ?_)
        (keep0_of_app0 (app0_reapOne false _ _ c) (by rw [(ext_reapOne _ _ c).exited]) (fun h => by cases h)))
      intro hb
      have : (s.conn c).loop = 0 := by simpa using hb
      rw [← this]; exact hr'.2
    · exact hy
  | forceClose c thr =>
    simp only [step, forceCloseDispatch_queue, reduceCtorEq, false_and, if_false]
    split
    · refine hy.keep (keep0_of_app0 (b := false) (App0.trans (s' := s.setConn c { s.conn c with st := .kDisconnecting, cause := true })
        (app0_of_q _ _ _ rfl) (app0_enq _ _ _ _ (by intro _; simp [Task.mustRun]))) rfl (fun h => by cases h))
    · exact hy
  | shutdown c thr =>
    simp only [step, shutdownDispatch_queue, reduceCtorEq, false_and, if_false]
    split
    · refine hy.keep (keep0_of_app0 (b := false) (App0.trans (s' := s.setConn c { s.conn c with st := .kDisconnecting })
        (app0_of_q _ _ _ rfl) (app0_enq _ _ _ _ (by intro _; simp [Task.mustRun]))) rfl (fun h => by cases h))
    · exact hy
  | hold c =>
    simp only [step]; split
    · exact hy.keep (keep0_of_sub rfl (fun u hu => hu))
    · exact hy
  | drop c thr =>
    simp only [step]; split
    · refine hy.keep (keep0_of_app0 (b := false) (App0.trans (s' := s.setConn c { s.conn c with user := (s.conn c).user - 1 })
        (app0_of_q _ _ _ rfl) (app0_reapOne _ _ _ _)) ?_ (fun h => by cases h))
      rw [(ext_reapOne _ thr c).exited]; rfl
    · exact hy
  | destroy =>
    exact hy.keep (keep0_of_app0 (app0_destroyServer false s) (by simp only [step]; rw [destroyServer_exited]) (fun h => by cases h))
  | postDestroy =>
    simp only [step]; split
    · exact hy.keep (keep0_of_app0 (b := false) (app0_enq _ _ _ _ (by intro _; simp [Task.mustRun])) rfl (fun h => by cases h))
    · exact hy
  | loopGone l =>
    simp only [step]; split
    · exact hy.keep (keep0_iterate _ (fun _ => True) (fun s _ => ⟨keep0_dropHead s l, trivial⟩) _ s trivial).1
    · exact hy
  | exit l =>
    simp only [step]; split
    · exact hy
    · by_cases hl : l = 0
      · subst hl
        intro _ t ht
        rw [drainAll0] at ht; cases ht
      · have k1 : Keep0 s { s with exited := fun i => if i = l then true else s.exited i } :=
          keep0_of_sub (by simp [Ne.symm hl]) (fun u hu => hu)
        exact hy.keep (k1.trans (keep0_drainAll l hl 3 _))

/-- with the repeated final drain **no schedule** strands a functor that still has to run -/
theorem goodSched_all (as : List Action) : ∀ s, GInv s → XInv s → Y5 s → Function.Injective s.nameOf →
    s.drain = true → s.drainRepeats = true → GoodSched s as := by
  induction as with
  | nil => intro s _ _ _ _ _ _; trivial
  | cons a as ih =>
    intro s hg hx hy hinj hd hr
    have h1 : ∀ l, a = .loopGone l → goneReady s l = true → StrandOK s l := by
      intro l _ hrd
      simp only [goneReady, Bool.and_eq_true, Bool.not_eq_true'] at hrd
      intro t ht c
      have hmr : t.mustRun = false := by
        by_cases h0 : l = 0
        · subst h0; exact hy hrd.1.1 t ht
        · have := (hx.x2 hd l h0 h0 hrd.1.1).1
          rw [this] at ht; cases ht
      constructor <;> (intro heq; subst heq; simp [Task.mustRun] at hmr)
    have hs := same_step s a
    exact ⟨h1, ih (step s a) (ginv_step s hg hinj a h1) (xinv_step s hg hinj hx a) (y5_step s hg hinj hy hd hr a)
      (by rw [hs.2.1]; exact hinj) (by rw [hs.2.2.1]; exact hd) (by rw [hs.2.2.2]; exact hr)⟩

end MuduoVerif.Owner
