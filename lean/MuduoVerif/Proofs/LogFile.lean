import MuduoVerif.Model.LogFile
import MuduoVerif.Proofs.ListPw
import Mathlib.Data.List.Basic
/-! Lemmas about the `LogFile` / `AppendFile` model (C16, sequential half). -/
namespace MuduoVerif.LogFile
open MuduoVerif.Gen.LogFile

/-! ## `AppendFile::append` -/

theorem take_append_take (l : Bytes) (w n k : Nat) :
    (l.drop w).take n ++ (l.drop (w + n)).take k = (l.drop w).take (n + k) ∨ w + n > l.length := by
  by_cases h : w + n > l.length
  · exact Or.inr h
  · left
    list_pw

/-- the loop hands a contiguous piece of the record, starting where it stands, to the stream; when
it is not left through `break` the piece reaches the end of the record and `written == len` -/
theorem appendLoop_spec (rec : Bytes) (fws : List FwRes) :
    ∀ w, w ≤ rec.length →
      ∃ k, w + k ≤ rec.length ∧ (appendLoop rec w fws).out = (rec.drop w).take k ∧
        (appendLoop rec w fws).counted ≤ w + k ∧ w ≤ (appendLoop rec w fws).counted ∧
        ((appendLoop rec w fws).failed = false → w + k = rec.length ∧ (appendLoop rec w fws).counted = rec.length) := by
  induction fws with
  | nil =>
    intro w hw
    unfold appendLoop
    by_cases hc : appendContinues w rec.length
    · refine ⟨rec.length - w, by omega, ?_⟩
      rw [if_pos hc]
      simp only [chunk, appendOffset, appendRequest, appendRemain, appendAdvance, Nat.zero_add]
      refine ⟨trivial, by omega, by omega, fun _ => ⟨by omega, by omega⟩⟩
    · refine ⟨0, by omega, ?_⟩
      have : w = rec.length := by
        unfold appendContinues at hc; omega
      rw [if_neg hc]
      simp [this]
  | cons r rs ih =>
    intro w hw
    unfold appendLoop
    by_cases hc : appendContinues w rec.length
    · rw [if_pos hc]
      by_cases he : appendShort (min r.n (appendRequest (appendRemain rec.length w))) (appendRemain rec.length w) ∧ r.err = true
      · rw [if_pos he]
        refine ⟨min r.n (rec.length - w), by omega, ?_⟩
        simp only [chunk, appendOffset, appendRequest, appendRemain, Nat.zero_add]
        refine ⟨trivial, by omega, by omega, fun h => by simp at h⟩
      · rw [if_neg he]
        simp only [appendRequest, appendRemain, appendAdvance] at *
        have hn : w + min r.n (rec.length - w) ≤ rec.length := by omega
        obtain ⟨k, hk1, hk2, hk3, hk4, hk5⟩ := ih (w + min r.n (rec.length - w)) hn
        refine ⟨min r.n (rec.length - w) + k, by omega, ?_, by omega, by omega, ?_⟩
        · simp only [chunk, appendOffset, Nat.zero_add, hk2]
          rcases take_append_take rec w (min r.n (rec.length - w)) k with h | h
          · exact h
          · omega
        · intro hf
          obtain ⟨h1, h2⟩ := hk5 hf
          exact ⟨by omega, h2⟩
    · refine ⟨0, by omega, ?_⟩
      have : w = rec.length := by
        unfold appendContinues at hc; omega
      rw [if_neg hc]
      simp [this]

theorem appendFile_prefix (rec : Bytes) (fws : List FwRes) :
    ∃ k, k ≤ rec.length ∧ (appendFile rec fws).out = rec.take k ∧ (appendFile rec fws).counted ≤ k := by
  obtain ⟨k, h1, h2, h3, _, _⟩ := appendLoop_spec rec fws 0 (Nat.zero_le _)
  exact ⟨k, by omega, by simpa [appendFile] using h2, by simpa [appendFile] using h3⟩

theorem appendFile_all (rec : Bytes) (fws : List FwRes) (h : (appendFile rec fws).failed = false) :
    (appendFile rec fws).out = rec ∧ (appendFile rec fws).counted = rec.length := by
  obtain ⟨k, h1, h2, _, _, h5⟩ := appendLoop_spec rec fws 0 (Nat.zero_le _)
  obtain ⟨h6, h7⟩ := h5 h
  refine ⟨?_, h7⟩
  have : k = rec.length := by omega
  simp [appendFile, h2, this]

/-- the calls of the loop are contiguous: each request starts where the accepted bytes end -/
theorem appendLoop_calls (rec : Bytes) (fws : List FwRes) :
    ∀ w, w ≤ rec.length →
      (appendLoop rec w fws).out = ((appendLoop rec w fws).calls.map fun c => (rec.drop c.1).take c.2.2).flatten := by
  induction fws with
  | nil =>
    intro w _
    unfold appendLoop
    by_cases hc : appendContinues w rec.length <;> simp [hc, chunk]
  | cons r rs ih =>
    intro w hw
    unfold appendLoop
    by_cases hc : appendContinues w rec.length
    · simp only [hc, if_true]
      by_cases he : appendShort (min r.n (appendRequest (appendRemain rec.length w))) (appendRemain rec.length w) ∧ r.err = true
      · simp [he, chunk]
      · rw [if_neg he]
        have hn : appendAdvance w (min r.n (appendRequest (appendRemain rec.length w))) ≤ rec.length := by
          simp only [appendRequest, appendRemain, appendAdvance]; omega
        simp [ih _ hn, chunk]
    · simp [hc]

/-! ## the files -/

/-- ghost view: the closed files are whole groups of delivered pieces, the current file holds the
last group -/
def FilesInv (s : St) (outs : List Bytes) : Prop :=
  ∃ groups : List (List Bytes), ∃ cg : List Bytes,
    s.closed.map File.content = groups.map List.flatten ∧ s.cur.content = cg.flatten ∧ groups.flatten ++ cg = outs

theorem rollFile_shape (clk : Nat → Int) (s : St) :
    ((rollFile clk s).1.closed = s.closed ∧ (rollFile clk s).1.cur.content = s.cur.content) ∨
    (∃ f, (rollFile clk s).1.closed = s.closed ++ [f] ∧ f.content = s.cur.content ∧ (rollFile clk s).1.cur.content = []) := by
  unfold rollFile
  by_cases h : rollAllowed (clk s.tick) s.lastRoll
  · right; rw [if_pos h]; exact ⟨s.cur.flush, rfl, rfl, rfl⟩
  · left; rw [if_neg h]; exact ⟨rfl, rfl⟩

theorem afterAppend_shape (cfg : Cfg) (clk : Nat → Int) (s : St) :
    ((afterAppend cfg clk s).closed = s.closed ∧ (afterAppend cfg clk s).cur.content = s.cur.content) ∨
    (∃ f, (afterAppend cfg clk s).closed = s.closed ++ [f] ∧ f.content = s.cur.content ∧ (afterAppend cfg clk s).cur.content = []) := by
  unfold afterAppend
  split
  · exact rollFile_shape clk s
  · split
    · split
      · exact rollFile_shape clk _
      · split
        · left; exact ⟨rfl, rfl⟩
        · left; exact ⟨rfl, rfl⟩
    · left; exact ⟨rfl, rfl⟩

theorem FilesInv_of_shape {s s' : St} {outs : List Bytes} (h : FilesInv s outs)
    (hs : (s'.closed = s.closed ∧ s'.cur.content = s.cur.content) ∨
          (∃ f, s'.closed = s.closed ++ [f] ∧ f.content = s.cur.content ∧ s'.cur.content = [])) :
    FilesInv s' outs := by
  obtain ⟨groups, cg, h1, h2, h3⟩ := h
  rcases hs with ⟨a, b⟩ | ⟨f, a, b, c⟩
  · exact ⟨groups, cg, by rw [a, h1], by rw [b, h2], h3⟩
  · refine ⟨groups ++ [cg], [], ?_, by simp [c], by simp [← h3]⟩
    simp [a, h1, b, h2]

theorem FilesInv_afterWrite {s : St} {outs : List Bytes} (h : FilesInv s outs) (o : AppendOut) :
    FilesInv (afterWrite s o) (outs ++ [o.out]) := by
  obtain ⟨groups, cg, h1, h2, h3⟩ := h
  exact ⟨groups, cg ++ [o.out], h1, by simp [afterWrite, h2], by simp [← h3]⟩

theorem delivered_append (ops : List Op) (op : Op) :
    delivered (ops ++ [op]) = delivered ops ++ (match op with | .append rec fws => [(appendFile rec fws).out] | _ => []) := by
  induction ops with
  | nil => cases op <;> simp [delivered]
  | cons o rest ih => cases o <;> simp [delivered, ih]

theorem FilesInv_step (cfg : Cfg) (clk : Nat → Int) {s : St} {outs : List Bytes} (h : FilesInv s outs) (op : Op) :
    FilesInv (step cfg clk s op) (outs ++ (match op with | .append rec fws => [(appendFile rec fws).out] | _ => [])) := by
  cases op with
  | append rec fws =>
    exact FilesInv_of_shape (FilesInv_afterWrite h _) (afterAppend_shape cfg clk _)
  | flush =>
    simp only [List.append_nil]
    exact FilesInv_of_shape h (Or.inl ⟨rfl, rfl⟩)
  | roll =>
    simp only [List.append_nil]
    exact FilesInv_of_shape h (rollFile_shape clk s)

theorem FilesInv_run (cfg : Cfg) (clk : Nat → Int) (ops : List Op) :
    ∀ {s : St} {outs : List Bytes}, FilesInv s outs → FilesInv (run cfg clk s ops) (outs ++ delivered ops) := by
  induction ops with
  | nil => intro s outs h; simpa [run, delivered] using h
  | cons op rest ih =>
    intro s outs h
    have h1 := FilesInv_step cfg clk h op
    have h2 := ih h1
    simp only [run, List.foldl_cons] at *
    cases op <;> simpa [delivered] using h2

theorem init_FilesInv {clk : Nat → Int} {s : St} (h : init clk = some s) : FilesInv s [] := by
  unfold init at h
  split at h
  · cases h; exact ⟨[], [], rfl, rfl, rfl⟩
  · cases h

theorem delivered_eq_records (ops : List Op) (h : noError ops) : delivered ops = records ops := by
  induction ops with
  | nil => rfl
  | cons op rest ih =>
    cases op with
    | append rec fws =>
      simp only [noError] at h
      simp [delivered, records, ih h.2, (appendFile_all rec fws h.1).1]
    | flush => simpa [delivered, records, noError] using ih h
    | roll => simpa [delivered, records, noError] using ih h

/-! ## file names -/

/-- the names (creation seconds) are strictly increasing and the current file is the one created at `lastRoll_` -/
def NamesInv (s : St) : Prop :=
  (s.files.map File.name).Pairwise (· < ·) ∧ s.cur.name = s.lastRoll

theorem NamesInv_congr {s s' : St} (h : NamesInv s) (h1 : s'.closed.map File.name = s.closed.map File.name)
    (h2 : s'.cur.name = s.cur.name) (h3 : s'.lastRoll = s.lastRoll) : NamesInv s' := by
  obtain ⟨a, b⟩ := h
  refine ⟨?_, by rw [h2, h3, b]⟩
  simp only [St.files, List.map_append, List.map_cons, List.map_nil] at a ⊢
  rw [h1, h2]; exact a

theorem NamesInv_rollFile (clk : Nat → Int) {s : St} (h : NamesInv s) : NamesInv (rollFile clk s).1 := by
  unfold rollFile
  by_cases ha : rollAllowed (clk s.tick) s.lastRoll
  · simp only [ha, if_true]
    obtain ⟨h1, h2⟩ := h
    refine ⟨?_, rfl⟩
    simp only [St.files, File.flush, List.map_append, List.map_cons, List.map_nil] at h1 ⊢
    rw [List.pairwise_append]
    refine ⟨h1, by simp, ?_⟩
    intro a ha' b hb
    simp only [List.mem_singleton] at hb
    subst hb
    have hmax : a ≤ s.cur.name := by
      rw [List.pairwise_append] at h1
      simp only [List.mem_append, List.mem_singleton] at ha'
      rcases ha' with ha' | ha'
      · exact Int.le_of_lt (h1.2.2 a ha' _ (by simp))
      · exact Int.le_of_eq ha'
    unfold rollAllowed at ha
    omega
  · simp only [ha, if_false]
    exact h

theorem NamesInv_afterAppend (cfg : Cfg) (clk : Nat → Int) {s : St} (h : NamesInv s) : NamesInv (afterAppend cfg clk s) := by
  unfold afterAppend
  split
  · exact NamesInv_rollFile clk h
  · split
    · split
      · exact NamesInv_rollFile clk (NamesInv_congr h rfl rfl rfl)
      · split
        · exact NamesInv_congr h rfl rfl rfl
        · exact NamesInv_congr h rfl rfl rfl
    · exact NamesInv_congr h rfl rfl rfl

theorem NamesInv_step (cfg : Cfg) (clk : Nat → Int) {s : St} (h : NamesInv s) (op : Op) : NamesInv (step cfg clk s op) := by
  cases op with
  | append rec fws => exact NamesInv_afterAppend cfg clk (NamesInv_congr h rfl rfl rfl)
  | flush => exact NamesInv_congr h rfl rfl rfl
  | roll => exact NamesInv_rollFile clk h

theorem NamesInv_run (cfg : Cfg) (clk : Nat → Int) (ops : List Op) : ∀ {s : St}, NamesInv s → NamesInv (run cfg clk s ops) := by
  induction ops with
  | nil => intro s h; exact h
  | cons op rest ih => intro s h; exact ih (NamesInv_step cfg clk h op)

theorem init_NamesInv {clk : Nat → Int} {s : St} (h : init clk = some s) : NamesInv s := by
  unfold init at h
  split at h
  · cases h; exact ⟨by simp [St.files], rfl⟩
  · cases h

end MuduoVerif.LogFile
