import MuduoVerif.Model.Codec
/-!
Lemmas for `delivered_messages_are_fresh` (C18): with a message object per parsed frame (`perFrame = true`) every
pointer the consumer was handed refers to an object of its own, and no later frame of the same `onMessage` call writes
to it.  Invariant: the handed-out objects are distinct and older than the allocation counter; a new frame is parsed
into object number `allocs`, which nobody holds.
-/
namespace MuduoVerif.Codec
open MuduoVerif.Gen.Codec

/-- the pointers handed out so far are distinct and were all allocated before now -/
structure Heap.Inv (h : Heap) : Prop where
  handed_lt : ∀ o ∈ h.handed, o < h.allocs
  nodup : h.handed.Nodup

theorem content_parseFrame_old (h : Heap) (c : Option Bytes) (dl : Bool) (o : Nat) (ho : o < h.allocs) :
    (h.parseFrame true c dl).content o = h.content o := by
  have hne : (h.allocs == o) = false := by
    simp only [beq_eq_false_iff_ne, ne_eq]; omega
  simp [Heap.content, Heap.parseFrame, hne]

theorem content_parseFrame_new (h : Heap) (c : Option Bytes) (dl : Bool) :
    (h.parseFrame true c dl).content h.allocs = c := by
  simp [Heap.content, Heap.parseFrame]

theorem inv_parseFrame (h : Heap) (hI : h.Inv) (c : Option Bytes) (dl : Bool) : (h.parseFrame true c dl).Inv := by
  constructor
  · intro o ho
    cases dl <;> simp [Heap.parseFrame] at ho ⊢
    · have := hI.handed_lt o ho; omega
    · rcases ho with ho | ho
      · have := hI.handed_lt o ho; omega
      · omega
  · cases dl <;> simp [Heap.parseFrame]
    · exact hI.nodup
    · rw [List.nodup_append]
      refine ⟨hI.nodup, by simp, ?_⟩
      intro a ha b hb
      simp at hb; subst hb
      have := hI.handed_lt a ha; omega

theorem held_parseFrame (h : Heap) (hI : h.Inv) (c : Option Bytes) (dl : Bool) :
    (h.parseFrame true c dl).held.map (·.2) = h.held.map (·.2) ++ (if dl then [c] else []) := by
  have hold : ∀ o ∈ h.handed, (h.parseFrame true c dl).content o = h.content o :=
    fun o ho => content_parseFrame_old h c dl o (hI.handed_lt o ho)
  have hnew := content_parseFrame_new h c dl
  have hmap : h.handed.map (fun o => (h.parseFrame true c dl).content o) = h.handed.map (fun o => h.content o) :=
    List.map_congr_left hold
  cases dl
  · have hh : (h.parseFrame true c false).handed = h.handed := by simp [Heap.parseFrame]
    simp only [Heap.held, List.map_map, hh, Bool.false_eq_true, if_false, List.append_nil]
    exact hmap
  · have hh : (h.parseFrame true c true).handed = h.handed ++ [h.allocs] := by simp [Heap.parseFrame]
    simp only [Heap.held, List.map_map, hh, List.map_append, if_true, List.map_cons, List.map_nil]
    show List.map (fun o => (h.parseFrame true c true).content o) h.handed ++ [(h.parseFrame true c true).content h.allocs] = _
    rw [hmap, hnew]
    rfl

/-- with an object per frame: whatever the consumer was handed before stays what it was, every further message is
handed out in an object of its own and is still there at the end of the call -/
theorem heapOf_perFrame (evs : List Event) : ∀ (h : Heap), h.Inv →
    (heapOf true h evs).Inv ∧
    (heapOf true h evs).held.map (·.2) = h.held.map (·.2) ++ (delivered evs).map some := by
  induction evs with
  | nil => intro h hI; exact ⟨hI, by simp [heapOf, delivered]⟩
  | cons e es ih =>
    intro h hI
    cases e with
    | msg p =>
      have := ih _ (inv_parseFrame h hI (some p) true)
      refine ⟨this.1, ?_⟩
      simp only [heapOf, delivered]
      rw [this.2, held_parseFrame h hI]
      simp
    | err e =>
      simp only [heapOf, delivered]
      split
      · have := ih _ (inv_parseFrame h hI none false)
        refine ⟨this.1, ?_⟩
        rw [this.2, held_parseFrame h hI]
        simp
      · exact ih h hI

theorem Heap.inv_empty : ({} : Heap).Inv := ⟨by simp, by simp⟩

theorem held_fst (h : Heap) : h.held.map (·.1) = h.handed := by
  simp only [Heap.held, List.map_map]
  exact (List.map_congr_left (fun _ _ => rfl)).trans (List.map_id _)

end MuduoVerif.Codec
