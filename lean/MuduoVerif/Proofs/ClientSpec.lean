import MuduoVerif.Model.Client
/-!
The specification automaton of C12 (independent of the model's state): which sequences of
events a client may produce.  `scan tr = some s` means: the trace is legal, and `s` is the
summary of what happened.
-/
namespace MuduoVerif.Client
open MuduoVerif.Gen.Client

/-- the property's schedule: delay before the i-th consecutive retry of a cycle, in ms -/
def specDelay (i : Nat) : Nat := min (500 * 2 ^ i) 30000

/-- life of one socket, as the events tell it -/
inductive Phase | opened | closed | handed | up | down | connClosed
deriving DecidableEq, Repr

structure Spec where
  phases : List Phase := []   -- per socket, in creation order
  ups : Nat := 0              -- UP callbacks since the cycle began
  nretry : Nat := 0           -- retries scheduled since the cycle began
  stopped : Bool := false     -- `stop()` was called and `connect()` was not called since
  gone : Bool := false        -- the client was destroyed
deriving DecidableEq, Repr

def Spec.move (s : Spec) (k : Nat) (frm to : Phase) : Option Spec :=
  if s.phases[k]? = some frm then some { s with phases := s.phases.set k to } else none

def specStep (s : Spec) : Ev → Option Spec
  | .ghost .cycle => some { s with ups := 0, nretry := 0 }
  | .ghost .connect => if s.gone then none else some { s with stopped := false }
  | .ghost .stop => if s.gone then none else some { s with stopped := true }
  | .ghost .destroy => if s.gone then none else some { s with gone := true }
  | .sockCreated k => if k = s.phases.length then some { s with phases := s.phases ++ [.opened] } else none
  | .attempt k _ => if s.phases[k]? = some .opened ∧ k + 1 = s.phases.length ∧ s.stopped = false ∧ s.gone = false then some s else none
  | .sockClosed k => s.move k .opened .closed
  | .handedOver k => s.move k .opened .handed
  | .up k =>
    if s.stopped = false ∧ s.gone = false ∧ s.ups = 0 then ({ s with ups := 1 } : Spec).move k .handed .up else none
  | .down k => s.move k .up .down
  | .connClosed k => s.move k .down .connClosed
  | .shutdownWr k => if s.phases[k]? = some .up ∨ s.phases[k]? = some .down then some s else none
  -- inside the callback that reports connection `k` (UP or DOWN), `connection()` is that connection
  | .query k seen => if seen = some k ∧ (s.phases[k]? = some .up ∨ s.phases[k]? = some .down) then some s else none
  | .retryScheduled i ms _ =>
    if i = s.nretry ∧ ms = specDelay i ∧ s.stopped = false ∧ s.gone = false then some { s with nretry := s.nretry + 1 } else none
  | .abort _ => none
  | .uaf _ => none

def scanFrom (s : Spec) (tr : List Ev) : Option Spec := tr.foldl (fun o e => o.bind (fun s => specStep s e)) (some s)
def scan (tr : List Ev) : Option Spec := scanFrom {} tr

end MuduoVerif.Client
