import MuduoVerif.Proofs.CalendarE
/-! One sixteenth of the 400-year cycle, checked by kernel evaluation (see CalendarCycle.lean). -/
namespace MuduoVerif.CalendarE

theorem cycleDays_9 : checkDays 82188 9132 = true := by decide +kernel

theorem cycleYears_9 : checkYears 225 25 = true := by decide +kernel

end MuduoVerif.CalendarE
