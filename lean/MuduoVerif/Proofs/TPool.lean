import MuduoVerif.Proofs.TPoolB
import MuduoVerif.Proofs.TPoolC
/-! The ThreadPool invariants together: initial state, reachability, states in which nobody can move. -/
namespace MuduoVerif.Monitor

structure PInv (s : PState) : Prop where
  a : PA s
  b : PB s
  c : PC s
  /-- a pool without threads never queues anything -/
  noq : s.n = 0 → s.q = []
  /-- only a task that waits for the gate keeps its worker inside `task()` -/
  gated : ∀ w x, s.pc w = .wGate x → s.kind x.2 = .waits

theorem gated_upd {s : PState} (h : ∀ w x, s.pc w = .wGate x → s.kind x.2 = .waits) {t : Nat} {p : PPc}
    (hp : ∀ x, p = .wGate x → s.kind x.2 = .waits) : ∀ w x, upd s.pc t p w = .wGate x → s.kind x.2 = .waits := by
  intro w x hw
  by_cases hwt : w = t
  · subst hwt; rw [upd_same] at hw; exact hp x hw
  · rw [upd_other _ _ _ _ hwt] at hw; exact h w x hw

theorem pstep_const {s s' : PState} (hs : PStep s s') : s'.n = s.n ∧ s'.maxq = s.maxq := by
  cases hs <;> exact ⟨rfl, rfl⟩

theorem pstep_kind {s s' : PState} (hs : PStep s s') : s'.kind = s.kind := by
  cases hs <;> rfl

theorem pinv_step {s s' : PState} (h : PInv s) (hs : PStep s s') : PInv s' := by
  refine ⟨pa_step h.a hs, pb_step h.b hs, pc_step h.a h.c hs, ?_, ?_⟩
  · cases hs with
    | takeSome t S' x q' hpc ho hS hq => intro hn; have := h.noq hn; rw [hq] at this; cases this
    | runPush t id rest S' hpc hp hn ho hS hroom hr => intro hn'; exact absurd hn' hn
    | _ => exact h.noq
  · cases hs with
    | acq t ho hl hE hF => exact h.gated
    | spur t c ht => exact h.gated
    | takePark t S' hpc ho hS hq hr => exact h.gated
    | runPark t id rest S' hpc hp hn ho hS hfull hr => exact h.gated
    | test t hpc => exact gated_upd h.gated (by intro x hx; split at hx <;> cases hx)
    | exec t x p g hpc hp =>
      refine gated_upd h.gated ?_
      intro y hy
      rcases hp with rfl | ⟨rfl, hk⟩
      · cases hy
      · cases hy; exact hk
    | _ => exact gated_upd h.gated (by intro x hx; cases hx)

theorem pinv_init (n maxq : Nat) (kind : Nat → TKind) (prog : Nat → List POp) (sched : List Nat) :
    PInv (pinit n maxq kind prog sched) := by
  have hpc : ∀ t, (pinit n maxq kind prog sched).pc t = .wTest ∨ (pinit n maxq kind prog sched).pc t = .idle := by
    intro t; simp only [pinit]; split <;> simp
  refine ⟨⟨⟨?_, ?_, ?_⟩, ?_, ?_, ?_, ?_, ?_, ?_, ?_⟩, ⟨rfl, rfl, ?_, ?_, List.nodup_nil, ?_⟩, ⟨?_, ?_, ?_, ?_, ?_⟩, fun _ => rfl, ?_⟩
  · intro c; cases c <;> exact List.nodup_nil
  · intro u c hu; cases hu
  · intro c t ht; cases c <;> simp [pinit, Mon.init, Mon.ws] at ht
  · intro _ hW; exact absurd rfl hW
  · intro _ _ hW; exact absurd rfl hW
  · intro _; exact Nat.zero_le _
  · intro hr; cases hr
  · intro u hu; rcases hpc u with h1 | h1 <;> rw [h1] at hu <;> cases hu
  · intro u hu; rcases hpc u with h1 | h1 <;> rw [h1] at hu <;> cases hu
  · intro u hu; cases hu
  · intro x hx; cases hx
  · intro w x hw; rcases hpc w with h1 | h1 <;> rw [h1] at hw <;> cases hw
  · intro x hx; cases hx
  · intro t
    simp only [pinit]
    by_cases ht : 1 ≤ t ∧ t ≤ n
    · simp [ht, isWorkerPc]
    · simp [ht, isWorkerPc]
  · intro t ht; rcases hpc t with h1 | h1 <;> rw [h1] at ht <;> cases ht
  · intro u i hu; rcases hpc u with h1 | h1 <;> rw [h1] at hu <;> cases hu
  · rintro ⟨t, ht⟩; cases ht
  · intro e he; cases he
  · intro w x hw; rcases hpc w with h1 | h1 <;> rw [h1] at hw <;> cases hw

theorem pinv_reach {s0 s : PState} (h0 : PInv s0) (hr : PReach s0 s) : PInv s := by
  induction hr with
  | refl => exact h0
  | step a _ hs ih => exact pinv_step ih (pstep_sound hs)

theorem preach_const {s0 s : PState} (hr : PReach s0 s) : s.n = s0.n ∧ s.maxq = s0.maxq := by
  induction hr with
  | refl => exact ⟨rfl, rfl⟩
  | step a _ hs ih =>
    obtain ⟨h1, h2⟩ := pstep_const (pstep_sound hs)
    exact ⟨h1.trans ih.1, h2.trans ih.2⟩

theorem preach_kind {s0 s : PState} (hr : PReach s0 s) : s.kind = s0.kind := by
  induction hr with
  | refl => rfl
  | step a _ hs ih => exact (pstep_kind (pstep_sound hs)).trans ih

/-! ### enabledness -/

theorem body_wTest {s : PState} {t : Nat} (h : s.pc t = .wTest) : pstep s (.body t) ≠ none := by
  simp [pstep, h]
theorem body_wExec {s : PState} {t : Nat} {x : Task} (h : s.pc t = .wExec x) : pstep s (.body t) ≠ none := by
  simp [pstep, h]

theorem body_wGate {s : PState} {t : Nat} {x : Task} (h : s.pc t = .wGate x) (hg : s.gate = true) :
    pstep s (.body t) ≠ none := by
  simp [pstep, h, hg]

theorem acq_enabled {s : PState} {t : Nat} (ho : s.owner = none) (hl : s.needsLock t = true) (hE : t ∉ s.ne.W)
    (hF : t ∉ s.nf.W) : pstep s (.acq t) ≠ none := by
  simp only [pstep]
  rw [if_pos ⟨ho, hl, hE, hF⟩]; simp

theorem p_blocked_owner {s : PState} (h : PInv s) (hb : PBlocked s) : s.owner = none := by
  cases ho : s.owner with
  | none => rfl
  | some u =>
    exfalso
    have hbody := (hb u).2
    rcases h.a.ownOk u ho with h1 | h1 | ⟨h1, ⟨hn, id, rest, hp⟩ | ⟨rest, hp⟩⟩
    · simp [pstep, h1, ho] at hbody
    · simp [pstep, h1, ho] at hbody
    · simp [pstep, h1, hp, ho, PState.inline, PState.g_run_g1, hn] at hbody
    · simp [pstep, h1, hp, ho] at hbody

theorem p_blocked_S {s : PState} (h : PInv s) (hb : PBlocked s) : s.ne.S = [] ∧ s.nf.S = [] := by
  have hown := p_blocked_owner h hb
  constructor
  · cases hS : s.ne.S with
    | nil => rfl
    | cons u l =>
      exfalso
      have hu : u ∈ s.ne.S := by rw [hS]; simp
      have hrole : s.pc u = .wTake := h.a.st.role .notEmpty u (Or.inr hu)
      have hW : u ∉ s.ne.W := fun hx => (List.nodup_append.mp (h.a.st.nodup .notEmpty)).2.2 u hx u hu rfl
      have hF : u ∉ s.nf.W := by
        intro hx
        have : s.pc u = .idle := (h.a.st.role .notFull u (Or.inl hx)).1
        rw [hrole] at this; cases this
      exact acq_enabled hown (by simp [PState.needsLock, hrole]) hW hF (hb u).1
  · cases hS : s.nf.S with
    | nil => rfl
    | cons u l =>
      exfalso
      have hu : u ∈ s.nf.S := by rw [hS]; simp
      obtain ⟨hpc, hn, id, rest, hp⟩ := h.a.st.role .notFull u (Or.inr hu)
      have hW : u ∉ s.nf.W := fun hx => (List.nodup_append.mp (h.a.st.nodup .notFull)).2.2 u hx u hu rfl
      have hE : u ∉ s.ne.W := by
        intro hx
        have : s.pc u = .wTake := h.a.st.role .notEmpty u (Or.inl hx)
        rw [hpc] at this; cases this
      exact acq_enabled hown (by simp [PState.needsLock, hpc, hp, PState.inline, PState.g_run_g1, hn]) hE hW (hb u).1

/-- in a state in which nobody can move, a worker is parked (unsignalled) in `take()`, has left its loop, or is
inside a task that waits for the closed gate -/
theorem p_blocked_worker {s : PState} (h : PInv s) (hb : PBlocked s) {w : Nat} (hw : 1 ≤ w ∧ w ≤ s.n) :
    s.pc w = .wDone ∨ (s.pc w = .wTake ∧ w ∈ s.ne.W) ∨ ((∃ x, s.pc w = .wGate x) ∧ s.gate = false) := by
  have hown := p_blocked_owner h hb
  have hwk := (h.c.workers w).mpr hw
  cases hpc : s.pc w with
  | wDone => exact Or.inl rfl
  | wTest => exact absurd (hb w).2 (body_wTest hpc)
  | wExec x => exact absurd (hb w).2 (body_wExec hpc)
  | wGate x =>
    right; right
    refine ⟨⟨x, rfl⟩, ?_⟩
    cases hg : s.gate with
    | false => rfl
    | true => exact absurd (hb w).2 (body_wGate hpc hg)
  | wTake =>
    right; left
    refine ⟨rfl, ?_⟩
    by_cases hE : w ∈ s.ne.W
    · exact hE
    · exfalso
      have hF : w ∉ s.nf.W := by
        intro hx
        have : s.pc w = .idle := (h.a.st.role .notFull w (Or.inl hx)).1
        rw [hpc] at this; cases this
      exact acq_enabled hown (by simp [PState.needsLock, hpc]) hE hF (hb w).1
  | idle => rw [hpc] at hwk; cases hwk
  | stopNotify => rw [hpc] at hwk; cases hwk
  | stopJoin i => rw [hpc] at hwk; cases hwk


/-! ### finished threads stay finished; concrete runs (for the non-vacuity examples) -/

theorem finished_stable {s s' : PState} (hs : PStep s s') {t : Nat} (hf : s.finished t) : s'.finished t := by
  have key : ∀ (u : Nat) (p : PPc) (prog' : Nat → List POp), (s.pc u ≠ .wDone ∧ ¬ (s.pc u = .idle ∧ s.prog u = [])) →
      (∀ x, x ≠ u → prog' x = s.prog x) →
      (upd s.pc u p t = .wDone ∨ (upd s.pc u p t = .idle ∧ prog' t = [])) := by
    intro u p prog' hu hp
    have htu : t ≠ u := by
      rintro rfl
      rcases hf with h1 | h1
      · exact hu.1 h1
      · exact hu.2 h1
    rw [upd_other _ _ _ _ htu, hp t htu]; exact hf
  have nf : ∀ {u : Nat} {p : PPc}, s.pc u = p → p ≠ .wDone → p ≠ .idle → (s.pc u ≠ .wDone ∧ ¬ (s.pc u = .idle ∧ s.prog u = [])) := by
    intro u p h1 h2 h3
    exact ⟨(by rw [h1]; exact h2), (by rw [h1]; intro hc; exact h3 hc.1)⟩
  have ni : ∀ {u : Nat} {op : POp} {rest : List POp}, s.pc u = .idle → s.prog u = op :: rest →
      (s.pc u ≠ .wDone ∧ ¬ (s.pc u = .idle ∧ s.prog u = [])) := by
    intro u op rest h1 h2
    exact ⟨(by rw [h1]; intro hc; cases hc), (by rw [h2]; intro hc; cases hc.2)⟩
  cases hs with
  | acq u ho hl hE hF => exact hf
  | spur u c ht => exact hf
  | takePark u S' hpc ho hS hq hr => exact hf
  | runPark u id rest S' hpc hp hn ho hS hfull hr => exact hf
  | test u hpc => exact key u _ s.prog (nf hpc (by intro hc; cases hc) (by intro hc; cases hc)) (fun _ _ => rfl)
  | takeNone u S' hpc ho hS hq hr => exact key u _ s.prog (nf hpc (by intro hc; cases hc) (by intro hc; cases hc)) (fun _ _ => rfl)
  | takeSome u S' x q' hpc ho hS hq => exact key u _ s.prog (nf hpc (by intro hc; cases hc) (by intro hc; cases hc)) (fun _ _ => rfl)
  | exec u x p g hpc hp => exact key u _ s.prog (nf hpc (by intro hc; cases hc) (by intro hc; cases hc)) (fun _ _ => rfl)
  | pass u x hpc hg => exact key u _ s.prog (nf hpc (by intro hc; cases hc) (by intro hc; cases hc)) (fun _ _ => rfl)
  | openGate u rest hpc hp => exact key u _ _ (ni hpc hp) (fun x hx => upd_other _ _ _ _ hx)
  | runInline u id rest hpc hp hn => exact key u _ _ (ni hpc hp) (fun x hx => upd_other _ _ _ _ hx)
  | runStopped u id rest S' hpc hp hn ho hS hr => exact key u _ _ (ni hpc hp) (fun x hx => upd_other _ _ _ _ hx)
  | runPush u id rest S' hpc hp hn ho hS hroom hr => exact key u _ _ (ni hpc hp) (fun x hx => upd_other _ _ _ _ hx)
  | stopFlag u rest hpc hp ho => exact key u _ s.prog (ni hpc hp) (fun _ _ => rfl)
  | stopNotify u hpc ho hn => exact key u _ s.prog (nf hpc (by intro hc; cases hc) (by intro hc; cases hc)) (fun _ _ => rfl)
  | stopNotify0 u hpc ho hn => exact key u _ _ (nf hpc (by intro hc; cases hc) (by intro hc; cases hc)) (fun x hx => upd_other _ _ _ _ hx)
  | joinNext u i hpc hd hi => exact key u _ s.prog (nf hpc (by intro hc; cases hc) (by intro hc; cases hc)) (fun _ _ => rfl)
  | joinLast u i hpc hd hi => exact key u _ _ (nf hpc (by intro hc; cases hc) (by intro hc; cases hc)) (fun x hx => upd_other _ _ _ _ hx)

theorem finished_reach {s0 s : PState} (hr : PReach s0 s) {t : Nat} (hf : s0.finished t) : s.finished t := by
  induction hr with
  | refl => exact hf
  | step a _ hs ih => exact finished_stable (pstep_sound hs) ih

theorem blocked_of_finished {s : PState} (h : ∀ t, s.finished t) : PBlocked s := by
  intro t
  rcases h t with h1 | ⟨h1, h2⟩
  · constructor
    · simp [pstep, PState.needsLock, h1]
    · simp [pstep, h1]
  · constructor
    · simp [pstep, PState.needsLock, h1, h2]
    · simp [pstep, h1, h2]

def runP (s : PState) : List Act → Option PState
  | [] => some s
  | a :: as => (pstep s a).bind fun s' => runP s' as

theorem runP_reach {s0 s : PState} {as : List Act} (h : runP s0 as = some s) : PReach s0 s := by
  induction as generalizing s0 with
  | nil => cases h; exact .refl
  | cons a as ih =>
    simp only [runP] at h
    cases hs : pstep s0 a with
    | none => rw [hs] at h; cases h
    | some s1 =>
      rw [hs] at h
      have h1 : PReach s1 s := ih h
      clear ih h
      induction h1 with
      | refl => exact .step a .refl hs
      | step b _ hb ih2 => exact .step b ih2 hb

/-- one worker, `maxQueueSize` 1, one caller: `run 7; run 8; stop` -/
def demoPool : Nat → List POp
  | 2 => [.run 7, .run 8, .stop]
  | _ => []

/-- the worker parks first; the caller's second `run` finds the queue full and waits; the worker takes
and runs 7, the caller is woken and queues 8, then stops the pool while 8 is still queued -/
def demoPoolActs : List Act :=
  [.body 1, .acq 1, .body 1,            -- worker: reads running_, take(): parks on notEmpty_
   .acq 2, .body 2,                      -- run 7: pushed, notify
   .acq 2, .body 2,                      -- run 8: queue full, parks on notFull_
   .acq 1, .body 1, .body 1,             -- worker: takes 7 (notifies notFull_), runs it
   .acq 2, .body 2,                      -- run 8: pushed
   .acq 2, .body 2, .body 2,             -- stop: flag, broadcasts
   .body 1,                              -- worker reads running_ == false and leaves
   .body 2]                              -- join returns

/-- two workers, unbounded queue, one caller: `run 7; run 8; stop` where task 7 waits for the gate and task 8 opens it -/
def demoDep : Nat → List POp
  | 3 => [.run 7, .run 8, .stop]
  | _ => []

def demoDepKind : Nat → TKind
  | 7 => .waits
  | 8 => .opens
  | _ => .plain

/-- both workers park; the caller queues 7 and 8 (each `run` wakes one worker); worker 1 takes 7 and blocks at the
gate inside the task, worker 2 takes 8 and opens the gate, worker 1 gets out; then the pool is stopped -/
def demoDepActs : List Act :=
  [.body 1, .acq 1, .body 1, .body 2, .acq 2, .body 2,
   .acq 3, .body 3, .acq 3, .body 3,
   .acq 1, .body 1, .body 1,             -- worker 1: takes 7, calls it: parked at the gate
   .acq 2, .body 2, .body 2,             -- worker 2: takes 8, calls it: the gate is open
   .body 1,                              -- worker 1 leaves task 7
   .acq 3, .body 3, .body 3,             -- stop: flag, broadcasts
   .body 1, .body 2,                     -- both workers read running_ == false and leave
   .body 3, .body 3]                     -- the two joins

end MuduoVerif.Monitor
