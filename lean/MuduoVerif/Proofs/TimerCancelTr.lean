import MuduoVerif.Proofs.TimerStep
/-! Trace vocabulary of C07 `cancel_final`: which runs / restarts of the timer `q` come after a processed `cancel(a, q)`.
Everything is computable (`Bool`/`Nat`), so concrete histories can be checked by `decide`. -/
namespace MuduoVerif.Timer
open MuduoVerif.Gen.Timer

def isReg (a : Addr) (q : Nat) : Ev → Bool
  | .registered a' q' _ => decide (a' = a ∧ q' = q)
  | _ => false
def isCancel (a : Addr) (q : Nat) : Ev → Bool
  | .cancel a' q' _ _ => decide (a' = a ∧ q' = q)
  | _ => false
/-- the cancel found the timer in `activeTimers_` (it was pending, not in the batch being run) -/
def isCancelFound (a : Addr) (q : Nat) : Ev → Bool
  | .cancel a' q' _ f => decide (a' = a ∧ q' = q) && f
  | _ => false
/-- the cancel was processed outside an expiry batch -/
def isCancelIdle (a : Addr) (q : Nat) : Ev → Bool
  | .cancel a' q' ib _ => decide (a' = a ∧ q' = q) && !ib
  | _ => false
def isRunOf (q : Nat) : Ev → Bool
  | .run _ q' _ _ _ _ _ _ _ _ => decide (q' = q)
  | _ => false
def isRestartOf (q : Nat) : Ev → Bool
  | .restarted _ q' _ => decide (q' = q)
  | _ => false

/-- `addTimerInLoop` has registered the timer (a, q) -/
def regB (a : Addr) (q : Nat) (t : List Ev) : Bool := t.any (isReg a q)

/-- does a cancel count: always (`needReg = false`), or only when the timer was registered when it was processed -/
def qual (needReg : Bool) (a : Addr) (q : Nat) (older : List Ev) : Bool := !needReg || regB a q older

/-- some (qualifying) `cancel(a, q)` has been processed (trace newest first) -/
def markAll (nr : Bool) (a : Addr) (q : Nat) : List Ev → Bool
  | [] => false
  | ev :: r => markAll nr a q r || (isCancel a q ev && qual nr a q r)

/-- ... one that found the timer pending, or was processed outside a batch -/
def markOut (nr : Bool) (a : Addr) (q : Nat) : List Ev → Bool
  | [] => false
  | ev :: r => markOut nr a q r || isCancelFound a q ev || (isCancelIdle a q ev && qual nr a q r)

/-- number of events satisfying `p` that come after the oldest point at which `m` holds -/
def after (m : List Ev → Bool) (p : Ev → Bool) : List Ev → Nat
  | [] => 0
  | ev :: r => if m r then after m p r + (if p ev then 1 else 0) else 0

/-- `m` stays true once true -/
def Mono (m : List Ev → Bool) : Prop := ∀ ev r, m r = true → m (ev :: r) = true

theorem markAll_mono (nr : Bool) (a : Addr) (q : Nat) : Mono (markAll nr a q) := by
  intro ev r h; simp [markAll, h]
theorem markOut_mono (nr : Bool) (a : Addr) (q : Nat) : Mono (markOut nr a q) := by
  intro ev r h; simp [markOut, h]

theorem after_zero_of_not {m : List Ev → Bool} (hm : Mono m) (p : Ev → Bool) {t : List Ev} (h : m t = false) :
    after m p t = 0 := by
  cases t with
  | nil => rfl
  | cons ev r =>
    have : m r = false := by
      cases hr : m r with
      | false => rfl
      | true => rw [hm ev r hr] at h; cases h
    simp [after, this]

theorem after_cons_of_not {m : List Ev → Bool} (p : Ev → Bool) {ev : Ev} {r : List Ev} (h : m r = false) :
    after m p (ev :: r) = 0 := by simp [after, h]

theorem after_cons_of_mark {m : List Ev → Bool} (p : Ev → Bool) {ev : Ev} {r : List Ev} (h : m r = true) :
    after m p (ev :: r) = after m p r + (if p ev then 1 else 0) := by simp [after, h]

theorem after_cons_skip {m : List Ev → Bool} (hm : Mono m) {p : Ev → Bool} {ev : Ev} (r : List Ev) (h : p ev = false) :
    after m p (ev :: r) = after m p r := by
  cases hr : m r with
  | true => rw [after_cons_of_mark p hr, h]; rfl
  | false => rw [after_cons_of_not p hr, after_zero_of_not hm p hr]

theorem markAll_imp_reg {a : Addr} {q : Nat} {t : List Ev} (h : markAll true a q t = true) : regB a q t = true := by
  induction t with
  | nil => cases h
  | cons ev r ih =>
    simp only [markAll, qual, Bool.not_true, Bool.false_or, Bool.or_eq_true, Bool.and_eq_true] at h
    unfold regB; rw [List.any_cons]
    rcases h with h | ⟨_, h⟩
    · have := ih h; unfold regB at this; rw [this]; simp
    · unfold regB at h; rw [h]; simp

theorem regB_cons (a : Addr) (q : Nat) (ev : Ev) (r : List Ev) : regB a q (ev :: r) = (isReg a q ev || regB a q r) := by
  unfold regB; rw [List.any_cons]

/-- the event says nothing about the timer (a, q) -/
def Silent (a : Addr) (q : Nat) (ev : Ev) : Prop :=
  isReg a q ev = false ∧ isCancel a q ev = false ∧ isRunOf q ev = false ∧ isRestartOf q ev = false

theorem isCancelFound_of (a : Addr) (q : Nat) {ev : Ev} (h : isCancel a q ev = false) : isCancelFound a q ev = false := by
  cases ev <;> simp_all [isCancel, isCancelFound]
theorem isCancelIdle_of (a : Addr) (q : Nat) {ev : Ev} (h : isCancel a q ev = false) : isCancelIdle a q ev = false := by
  cases ev <;> simp_all [isCancel, isCancelIdle]

/-- the trace functions of (a, q) agree on two traces -/
structure TrSame (a : Addr) (q : Nat) (t t' : List Ev) : Prop where
  mall : markAll true a q t' = markAll true a q t
  mout : markOut true a q t' = markOut true a q t
  a_run : after (markAll true a q) (isRunOf q) t' = after (markAll true a q) (isRunOf q) t
  a_rst : after (markAll true a q) (isRestartOf q) t' = after (markAll true a q) (isRestartOf q) t
  o_run : after (markOut true a q) (isRunOf q) t' = after (markOut true a q) (isRunOf q) t
  o_rst : after (markOut true a q) (isRestartOf q) t' = after (markOut true a q) (isRestartOf q) t

theorem TrSame.refl (a : Addr) (q : Nat) (t : List Ev) : TrSame a q t t := ⟨rfl, rfl, rfl, rfl, rfl, rfl⟩

/-- an event that is not a cancel / run / restart of (a, q) -/
def Silent' (a : Addr) (q : Nat) (ev : Ev) : Prop :=
  isCancel a q ev = false ∧ isRunOf q ev = false ∧ isRestartOf q ev = false

theorem Silent.weak {a : Addr} {q : Nat} {ev : Ev} (h : Silent a q ev) : Silent' a q ev := h.2

theorem regB_silent {a : Addr} {q : Nat} {ev : Ev} (h : Silent a q ev) (t : List Ev) : regB a q (ev :: t) = regB a q t := by
  rw [regB_cons, h.1]; rfl

theorem TrSame.silent {a : Addr} {q : Nat} {ev : Ev} (h : Silent' a q ev) (t : List Ev) : TrSame a q t (ev :: t) := by
  obtain ⟨h2, h3, h4⟩ := h
  refine ⟨by simp [markAll, h2], by simp [markOut, isCancelFound_of a q h2, isCancelIdle_of a q h2],
    after_cons_skip (markAll_mono _ _ _) t h3, after_cons_skip (markAll_mono _ _ _) t h4,
    after_cons_skip (markOut_mono _ _ _) t h3, after_cons_skip (markOut_mono _ _ _) t h4⟩

theorem TrSame.trans {a : Addr} {q : Nat} {t t' t'' : List Ev} (h : TrSame a q t t') (h' : TrSame a q t' t'') :
    TrSame a q t t'' :=
  ⟨h'.mall.trans h.mall, h'.mout.trans h.mout, h'.a_run.trans h.a_run, h'.a_rst.trans h.a_rst,
   h'.o_run.trans h.o_run, h'.o_rst.trans h.o_rst⟩

theorem silent_arm (a : Addr) (q : Nat) (ns : Int) (now : Time) : Silent a q (.arm ns now) := ⟨rfl, rfl, rfl, rfl⟩
theorem silent_added (a : Addr) (q : Nat) (n : Nat) (x : Addr) (y : Nat) : Silent a q (.added n x y) := ⟨rfl, rfl, rfl, rfl⟩
theorem silent_processed (a : Addr) (q : Nat) (k : Nat) : Silent a q (.processed k) := ⟨rfl, rfl, rfl, rfl⟩

/-! ### from the counters to the split form -/

theorem mark_append {m : List Ev → Bool} (hm : Mono m) (post : List Ev) {r : List Ev} (h : m r = true) :
    m (post ++ r) = true := by
  induction post with
  | nil => exact h
  | cons ev p ih => exact hm ev _ ih

theorem countP_le_after {m : List Ev → Bool} (hm : Mono m) (p : Ev → Bool) (post : List Ev) {r : List Ev}
    (h : m r = true) : post.countP p ≤ after m p (post ++ r) := by
  induction post with
  | nil => simp
  | cons ev po ih =>
    rw [List.cons_append, after_cons_of_mark p (mark_append hm po h), List.countP_cons]
    split <;> omega

end MuduoVerif.Timer
