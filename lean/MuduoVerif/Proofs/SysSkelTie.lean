import MuduoVerif.Generated.SysSkel
import MuduoVerif.Generated.Acceptor
/-!
# T1 tie for the system-call layer (the "primitives" of the connection, listener, client, dispatch, loop, timer and
address engines)

`Gen.SysSkel.<fn>` is the statement skeleton `vlib/gen/sysskel.py` extracts from /repo's current `SocketsOps.cc`,
`Socket.cc/.h`, `InetAddress.cc/.h`, `Endian.h`, `Poller.cc`, `poller/DefaultPoller.cc`, the constructors / destructors of
the two pollers, `Channel::tie`, `createEventfd` and `createTimerfd` on every run; `Decl.<fn>`
(`Model/SysSkelDecl.lean`) is what the engines' models assume of that function.  Each `skeleton_<fn>` is closed by
`decide`: it holds exactly as long as the source performs the same system calls with the same printed arguments, the same
calls of other muduo functions, stores, log statements of level ERROR and above, assertions and returns (of the same
printed values), in the same order, under the same nesting of the same printed conditions, loops and `switch` labels.
The property modules re-export the parts they depend on: `C11.io_primitives_are_single_syscalls`,
`C02.socket_dtor_closes_once`, `C09.default_poller_choice`, `C20.inet_text_conversions_tied`.
-/
namespace MuduoVerif.SysSkel

set_option maxRecDepth 8192

theorem skeleton_sockaddrCastConstIn6 : Gen.SysSkel.sockaddrCastConstIn6 = Decl.sockaddrCastConstIn6 := by decide
theorem skeleton_sockaddrCastIn6 : Gen.SysSkel.sockaddrCastIn6 = Decl.sockaddrCastIn6 := by decide
theorem skeleton_sockaddrCastConstIn : Gen.SysSkel.sockaddrCastConstIn = Decl.sockaddrCastConstIn := by decide
theorem skeleton_sockaddrInCast : Gen.SysSkel.sockaddrInCast = Decl.sockaddrInCast := by decide
theorem skeleton_sockaddrIn6Cast : Gen.SysSkel.sockaddrIn6Cast = Decl.sockaddrIn6Cast := by decide
theorem skeleton_createNonblockingOrDie : Gen.SysSkel.createNonblockingOrDie = Decl.createNonblockingOrDie := by decide
theorem skeleton_bindOrDie : Gen.SysSkel.bindOrDie = Decl.bindOrDie := by decide
theorem skeleton_listenOrDie : Gen.SysSkel.listenOrDie = Decl.listenOrDie := by decide
theorem skeleton_socketsAccept : Gen.SysSkel.socketsAccept = Decl.socketsAccept := by decide
theorem skeleton_socketsConnect : Gen.SysSkel.socketsConnect = Decl.socketsConnect := by decide
theorem skeleton_socketsRead : Gen.SysSkel.socketsRead = Decl.socketsRead := by decide
theorem skeleton_socketsReadv : Gen.SysSkel.socketsReadv = Decl.socketsReadv := by decide
theorem skeleton_socketsWrite : Gen.SysSkel.socketsWrite = Decl.socketsWrite := by decide
theorem skeleton_socketsClose : Gen.SysSkel.socketsClose = Decl.socketsClose := by decide
theorem skeleton_socketsShutdownWrite : Gen.SysSkel.socketsShutdownWrite = Decl.socketsShutdownWrite := by decide
theorem skeleton_socketsToIpPort : Gen.SysSkel.socketsToIpPort = Decl.socketsToIpPort := by decide
theorem skeleton_socketsToIp : Gen.SysSkel.socketsToIp = Decl.socketsToIp := by decide
theorem skeleton_fromIpPort4 : Gen.SysSkel.fromIpPort4 = Decl.fromIpPort4 := by decide
theorem skeleton_fromIpPort6 : Gen.SysSkel.fromIpPort6 = Decl.fromIpPort6 := by decide
theorem skeleton_getSocketError : Gen.SysSkel.getSocketError = Decl.getSocketError := by decide
theorem skeleton_getLocalAddr : Gen.SysSkel.getLocalAddr = Decl.getLocalAddr := by decide
theorem skeleton_getPeerAddr : Gen.SysSkel.getPeerAddr = Decl.getPeerAddr := by decide
theorem skeleton_isSelfConnect : Gen.SysSkel.isSelfConnect = Decl.isSelfConnect := by decide
theorem skeleton_hostToNetwork64 : Gen.SysSkel.hostToNetwork64 = Decl.hostToNetwork64 := by decide
theorem skeleton_hostToNetwork32 : Gen.SysSkel.hostToNetwork32 = Decl.hostToNetwork32 := by decide
theorem skeleton_hostToNetwork16 : Gen.SysSkel.hostToNetwork16 = Decl.hostToNetwork16 := by decide
theorem skeleton_networkToHost64 : Gen.SysSkel.networkToHost64 = Decl.networkToHost64 := by decide
theorem skeleton_networkToHost32 : Gen.SysSkel.networkToHost32 = Decl.networkToHost32 := by decide
theorem skeleton_networkToHost16 : Gen.SysSkel.networkToHost16 = Decl.networkToHost16 := by decide
theorem skeleton_socketCtor : Gen.SysSkel.socketCtor = Decl.socketCtor := by decide
theorem skeleton_socketFd : Gen.SysSkel.socketFd = Decl.socketFd := by decide
theorem skeleton_socketDtor : Gen.SysSkel.socketDtor = Decl.socketDtor := by decide
theorem skeleton_getTcpInfo : Gen.SysSkel.getTcpInfo = Decl.getTcpInfo := by decide
theorem skeleton_getTcpInfoString : Gen.SysSkel.getTcpInfoString = Decl.getTcpInfoString := by decide
theorem skeleton_bindAddress : Gen.SysSkel.bindAddress = Decl.bindAddress := by decide
theorem skeleton_socketListen : Gen.SysSkel.socketListen = Decl.socketListen := by decide
theorem skeleton_socketAccept : Gen.SysSkel.socketAccept = Decl.socketAccept := by decide
theorem skeleton_socketShutdownWrite : Gen.SysSkel.socketShutdownWrite = Decl.socketShutdownWrite := by decide
theorem skeleton_setTcpNoDelay : Gen.SysSkel.setTcpNoDelay = Decl.setTcpNoDelay := by decide
theorem skeleton_setReuseAddr : Gen.SysSkel.setReuseAddr = Decl.setReuseAddr := by decide
theorem skeleton_setReusePort : Gen.SysSkel.setReusePort = Decl.setReusePort := by decide
theorem skeleton_setKeepAlive : Gen.SysSkel.setKeepAlive = Decl.setKeepAlive := by decide
theorem skeleton_inetCtorPort : Gen.SysSkel.inetCtorPort = Decl.inetCtorPort := by decide
theorem skeleton_inetCtorIpPort : Gen.SysSkel.inetCtorIpPort = Decl.inetCtorIpPort := by decide
theorem skeleton_inetCtorIn : Gen.SysSkel.inetCtorIn = Decl.inetCtorIn := by decide
theorem skeleton_inetCtorIn6 : Gen.SysSkel.inetCtorIn6 = Decl.inetCtorIn6 := by decide
theorem skeleton_inetFamily : Gen.SysSkel.inetFamily = Decl.inetFamily := by decide
theorem skeleton_inetGetSockAddr : Gen.SysSkel.inetGetSockAddr = Decl.inetGetSockAddr := by decide
theorem skeleton_inetSetSockAddrInet6 : Gen.SysSkel.inetSetSockAddrInet6 = Decl.inetSetSockAddrInet6 := by decide
theorem skeleton_inetPortNetEndian : Gen.SysSkel.inetPortNetEndian = Decl.inetPortNetEndian := by decide
theorem skeleton_inetToIpPort : Gen.SysSkel.inetToIpPort = Decl.inetToIpPort := by decide
theorem skeleton_inetToIp : Gen.SysSkel.inetToIp = Decl.inetToIp := by decide
theorem skeleton_inetIpv4NetEndian : Gen.SysSkel.inetIpv4NetEndian = Decl.inetIpv4NetEndian := by decide
theorem skeleton_inetPort : Gen.SysSkel.inetPort = Decl.inetPort := by decide
theorem skeleton_inetResolve : Gen.SysSkel.inetResolve = Decl.inetResolve := by decide
theorem skeleton_inetSetScopeId : Gen.SysSkel.inetSetScopeId = Decl.inetSetScopeId := by decide
theorem skeleton_newDefaultPoller : Gen.SysSkel.newDefaultPoller = Decl.newDefaultPoller := by decide
theorem skeleton_pollerCtor : Gen.SysSkel.pollerCtor = Decl.pollerCtor := by decide
theorem skeleton_pollerDtor : Gen.SysSkel.pollerDtor = Decl.pollerDtor := by decide
theorem skeleton_pollerHasChannel : Gen.SysSkel.pollerHasChannel = Decl.pollerHasChannel := by decide
theorem skeleton_epollCtor : Gen.SysSkel.epollCtor = Decl.epollCtor := by decide
theorem skeleton_epollDtor : Gen.SysSkel.epollDtor = Decl.epollDtor := by decide
theorem skeleton_epollOperationToString : Gen.SysSkel.epollOperationToString = Decl.epollOperationToString := by decide
theorem skeleton_pollCtor : Gen.SysSkel.pollCtor = Decl.pollCtor := by decide
theorem skeleton_pollDtor : Gen.SysSkel.pollDtor = Decl.pollDtor := by decide
theorem skeleton_channelTie : Gen.SysSkel.channelTie = Decl.channelTie := by decide
theorem skeleton_createEventfd : Gen.SysSkel.createEventfd = Decl.createEventfd := by decide
theorem skeleton_createTimerfd : Gen.SysSkel.createTimerfd = Decl.createTimerfd := by decide

/-- every extracted skeleton is the declared one -/
theorem skeletons_agree :
    Gen.SysSkel.sockaddrCastConstIn6 = Decl.sockaddrCastConstIn6 ∧
    Gen.SysSkel.sockaddrCastIn6 = Decl.sockaddrCastIn6 ∧
    Gen.SysSkel.sockaddrCastConstIn = Decl.sockaddrCastConstIn ∧
    Gen.SysSkel.sockaddrInCast = Decl.sockaddrInCast ∧
    Gen.SysSkel.sockaddrIn6Cast = Decl.sockaddrIn6Cast ∧
    Gen.SysSkel.createNonblockingOrDie = Decl.createNonblockingOrDie ∧
    Gen.SysSkel.bindOrDie = Decl.bindOrDie ∧
    Gen.SysSkel.listenOrDie = Decl.listenOrDie ∧
    Gen.SysSkel.socketsAccept = Decl.socketsAccept ∧
    Gen.SysSkel.socketsConnect = Decl.socketsConnect ∧
    Gen.SysSkel.socketsRead = Decl.socketsRead ∧
    Gen.SysSkel.socketsReadv = Decl.socketsReadv ∧
    Gen.SysSkel.socketsWrite = Decl.socketsWrite ∧
    Gen.SysSkel.socketsClose = Decl.socketsClose ∧
    Gen.SysSkel.socketsShutdownWrite = Decl.socketsShutdownWrite ∧
    Gen.SysSkel.socketsToIpPort = Decl.socketsToIpPort ∧
    Gen.SysSkel.socketsToIp = Decl.socketsToIp ∧
    Gen.SysSkel.fromIpPort4 = Decl.fromIpPort4 ∧
    Gen.SysSkel.fromIpPort6 = Decl.fromIpPort6 ∧
    Gen.SysSkel.getSocketError = Decl.getSocketError ∧
    Gen.SysSkel.getLocalAddr = Decl.getLocalAddr ∧
    Gen.SysSkel.getPeerAddr = Decl.getPeerAddr ∧
    Gen.SysSkel.isSelfConnect = Decl.isSelfConnect ∧
    Gen.SysSkel.hostToNetwork64 = Decl.hostToNetwork64 ∧
    Gen.SysSkel.hostToNetwork32 = Decl.hostToNetwork32 ∧
    Gen.SysSkel.hostToNetwork16 = Decl.hostToNetwork16 ∧
    Gen.SysSkel.networkToHost64 = Decl.networkToHost64 ∧
    Gen.SysSkel.networkToHost32 = Decl.networkToHost32 ∧
    Gen.SysSkel.networkToHost16 = Decl.networkToHost16 ∧
    Gen.SysSkel.socketCtor = Decl.socketCtor ∧
    Gen.SysSkel.socketFd = Decl.socketFd ∧
    Gen.SysSkel.socketDtor = Decl.socketDtor ∧
    Gen.SysSkel.getTcpInfo = Decl.getTcpInfo ∧
    Gen.SysSkel.getTcpInfoString = Decl.getTcpInfoString ∧
    Gen.SysSkel.bindAddress = Decl.bindAddress ∧
    Gen.SysSkel.socketListen = Decl.socketListen ∧
    Gen.SysSkel.socketAccept = Decl.socketAccept ∧
    Gen.SysSkel.socketShutdownWrite = Decl.socketShutdownWrite ∧
    Gen.SysSkel.setTcpNoDelay = Decl.setTcpNoDelay ∧
    Gen.SysSkel.setReuseAddr = Decl.setReuseAddr ∧
    Gen.SysSkel.setReusePort = Decl.setReusePort ∧
    Gen.SysSkel.setKeepAlive = Decl.setKeepAlive ∧
    Gen.SysSkel.inetCtorPort = Decl.inetCtorPort ∧
    Gen.SysSkel.inetCtorIpPort = Decl.inetCtorIpPort ∧
    Gen.SysSkel.inetCtorIn = Decl.inetCtorIn ∧
    Gen.SysSkel.inetCtorIn6 = Decl.inetCtorIn6 ∧
    Gen.SysSkel.inetFamily = Decl.inetFamily ∧
    Gen.SysSkel.inetGetSockAddr = Decl.inetGetSockAddr ∧
    Gen.SysSkel.inetSetSockAddrInet6 = Decl.inetSetSockAddrInet6 ∧
    Gen.SysSkel.inetPortNetEndian = Decl.inetPortNetEndian ∧
    Gen.SysSkel.inetToIpPort = Decl.inetToIpPort ∧
    Gen.SysSkel.inetToIp = Decl.inetToIp ∧
    Gen.SysSkel.inetIpv4NetEndian = Decl.inetIpv4NetEndian ∧
    Gen.SysSkel.inetPort = Decl.inetPort ∧
    Gen.SysSkel.inetResolve = Decl.inetResolve ∧
    Gen.SysSkel.inetSetScopeId = Decl.inetSetScopeId ∧
    Gen.SysSkel.newDefaultPoller = Decl.newDefaultPoller ∧
    Gen.SysSkel.pollerCtor = Decl.pollerCtor ∧
    Gen.SysSkel.pollerDtor = Decl.pollerDtor ∧
    Gen.SysSkel.pollerHasChannel = Decl.pollerHasChannel ∧
    Gen.SysSkel.epollCtor = Decl.epollCtor ∧
    Gen.SysSkel.epollDtor = Decl.epollDtor ∧
    Gen.SysSkel.epollOperationToString = Decl.epollOperationToString ∧
    Gen.SysSkel.pollCtor = Decl.pollCtor ∧
    Gen.SysSkel.pollDtor = Decl.pollDtor ∧
    Gen.SysSkel.channelTie = Decl.channelTie ∧
    Gen.SysSkel.createEventfd = Decl.createEventfd ∧
    Gen.SysSkel.createTimerfd = Decl.createTimerfd :=
  ⟨skeleton_sockaddrCastConstIn6, skeleton_sockaddrCastIn6, skeleton_sockaddrCastConstIn, skeleton_sockaddrInCast,
   skeleton_sockaddrIn6Cast, skeleton_createNonblockingOrDie, skeleton_bindOrDie, skeleton_listenOrDie,
   skeleton_socketsAccept, skeleton_socketsConnect, skeleton_socketsRead, skeleton_socketsReadv,
   skeleton_socketsWrite, skeleton_socketsClose, skeleton_socketsShutdownWrite, skeleton_socketsToIpPort,
   skeleton_socketsToIp, skeleton_fromIpPort4, skeleton_fromIpPort6, skeleton_getSocketError,
   skeleton_getLocalAddr, skeleton_getPeerAddr, skeleton_isSelfConnect, skeleton_hostToNetwork64,
   skeleton_hostToNetwork32, skeleton_hostToNetwork16, skeleton_networkToHost64, skeleton_networkToHost32,
   skeleton_networkToHost16, skeleton_socketCtor, skeleton_socketFd, skeleton_socketDtor, skeleton_getTcpInfo,
   skeleton_getTcpInfoString, skeleton_bindAddress, skeleton_socketListen, skeleton_socketAccept,
   skeleton_socketShutdownWrite, skeleton_setTcpNoDelay, skeleton_setReuseAddr, skeleton_setReusePort,
   skeleton_setKeepAlive, skeleton_inetCtorPort, skeleton_inetCtorIpPort, skeleton_inetCtorIn,
   skeleton_inetCtorIn6, skeleton_inetFamily, skeleton_inetGetSockAddr, skeleton_inetSetSockAddrInet6,
   skeleton_inetPortNetEndian, skeleton_inetToIpPort, skeleton_inetToIp, skeleton_inetIpv4NetEndian,
   skeleton_inetPort, skeleton_inetResolve, skeleton_inetSetScopeId, skeleton_newDefaultPoller,
   skeleton_pollerCtor, skeleton_pollerDtor, skeleton_pollerHasChannel, skeleton_epollCtor, skeleton_epollDtor,
   skeleton_epollOperationToString, skeleton_pollCtor, skeleton_pollDtor, skeleton_channelTie,
   skeleton_createEventfd, skeleton_createTimerfd⟩

/-! ## The errno `switch` of `sockets::accept` is the table the listener model classifies with -/

/-- the `switch (savedErrno)` body of the declared (= extracted, `skeleton_socketsAccept`) `sockets::accept` -/
def acceptSwitchBody : List Skel :=
  match Decl.socketsAccept with
  | [_, _, _, .ite _ [_, _, .switch _ body] _, _] => body
  | _ => []

/-- The label groups of that `switch` are exactly `Gen.Acceptor.acceptTable` (extracted by `vlib/gen/acceptor.py` from the
same function, the table `Acceptor.handleRead` classifies with): first group = the `expected` entries (`errno` restored,
-1 returned), second group = the `unexpected` ones, and `default` (`acceptDefault = .unknown`) - both `LOG_FATAL`. -/
theorem accept_switch_is_acceptTable :
    labelGroups acceptSwitchBody =
      [ (Gen.Acceptor.acceptTable.filter (fun e => e.2 = .expected)).map (fun e => toString e.1),
        (Gen.Acceptor.acceptTable.filter (fun e => e.2 = .unexpected)).map (fun e => toString e.1),
        ["default"] ] ∧
    Gen.Acceptor.acceptDefault = .unknown ∧
    Gen.Acceptor.acceptTable.all (fun e => e.2 = .expected ∨ e.2 = .unexpected) = true := by decide

end MuduoVerif.SysSkel
