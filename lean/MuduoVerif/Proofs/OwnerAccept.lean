import MuduoVerif.Proofs.OwnerOps
import Mathlib.Data.List.Induction
namespace MuduoVerif.Owner
open MuduoVerif.Gen.Owner
open MuduoVerif.Gen.Conn (StateE forceCloseAccepts shutdownAccepts forceCloseInLoopActs destroyedWhileConnected)

/-- the record `newConnection` constructs -/
def newConn (l nm : Nat) : Conn := { loop := l, name := nm, st := .kConnecting, alive := true, fdOpen := true }

/-- the state after `newConnection` has inserted the connection into the map, before the hand-off -/
def accepted (s : Srv) (l : Nat) : Srv :=
  { s with n := s.n + 1, pool := (Pool.getNextLoop s.pool).2, nextId := s.nextId + idStep,
           conn := fun i => if i = s.n then newConn l (s.nameOf s.nextId) else s.conn i,
           map := mapInsert s.map (s.nameOf s.nextId) s.n, trace := s.trace ++ [⟨s.n, .new, 0⟩] }

theorem accept_nf (s : Srv) (ha : s.alive = true) (he : s.exited 0 = false) (hfind : mapFind s.map (s.nameOf s.nextId) = none) :
    accept s =
      (if loopIndex (Pool.getNextLoop s.pool).1 = 0 then connectEstablished (accepted s 0) 0 s.n
       else (accepted s (loopIndex (Pool.getNextLoop s.pool).1)).enq (loopIndex (Pool.getNextLoop s.pool).1) (.est s.n)) := by
  unfold accept
  simp only [ha, he, Bool.not_true, Bool.or_self, Bool.false_eq_true, if_false, hfind, establishDispatch, establishTarget, target,
    true_and, if_true]
  split
  · rename_i h
    have h' : loopIndex (Pool.getNextLoop s.pool).1 = 0 := h.symm
    rw [if_pos h']
    simp only [accepted, newConn, h', ha]
  · rename_i h
    have h' : ¬ loopIndex (Pool.getNextLoop s.pool).1 = 0 := fun x => h x.symm
    rw [if_neg h']
    simp only [accepted, newConn, ha]


theorem autoStep_ne_init (a : Auto) (k : Kind) : autoStep a k ≠ some {} := by
  intro h
  cases k <;> simp only [autoStep] at h <;> (try split at h) <;> simp_all

theorem no_event_of_life_init (c : Nat) (tr : List Ev) (h : life c tr = some {}) : ∀ e ∈ tr, e.conn ≠ c := by
  induction tr using List.reverseRecOn with
  | nil => intro e he; cases he
  | append_singleton tr x ih =>
    rw [life_snoc] at h
    unfold lifeStep at h
    by_cases hx : x.conn = c
    · rw [if_pos hx] at h
      cases hl : life c tr with
      | none => rw [hl] at h; cases h
      | some a => rw [hl] at h; exact absurd h (autoStep_ne_init a x.kind)
    · rw [if_neg hx] at h
      intro e he
      rcases List.mem_append.mp he with h1 | h1
      · exact ih h e h1
      · rw [List.mem_singleton.mp h1]; exact hx

section accept
variable (s : Srv) (h : GInv s) (hinj : Function.Injective s.nameOf)
include h hinj

theorem name_fresh : ∀ e ∈ s.map, e.1 ≠ s.nameOf s.nextId := by
  intro e he heq
  have hlt := h.mapOK.lt e he
  have hk := h.mapOK.keys e he
  rw [hk, (h.conns e.2 hlt).core.name, h.rest.nextId] at heq
  have := hinj heq
  simp only [idStep] at this
  omega

theorem mapFind_fresh : mapFind s.map (s.nameOf s.nextId) = none := by
  unfold mapFind
  rw [Option.map_eq_none_iff, List.find?_eq_none]
  intro e he
  simpa using name_fresh s h hinj e he

theorem mapInsert_fresh : mapInsert s.map (s.nameOf s.nextId) s.n = (s.nameOf s.nextId, s.n) :: s.map := by
  unfold mapInsert
  congr 1
  rw [List.filter_eq_self]
  intro e he
  simpa using name_fresh s h hinj e he

theorem picked_loop : loopIndex (Pool.getNextLoop s.pool).1 = (if s.L = 0 then 0 else s.n % s.L + 1) ∧
    (Pool.getNextLoop s.pool).2 = Pool.afterNext (Pool.start s.L) (s.n + 1) := by
  rw [h.rest.pool]
  by_cases hL : s.L = 0
  · have h0 : (Pool.start s.L).n = 0 := by simp [Pool.start, hL]
    rw [Pool.afterNext_zero _ h0, Pool.afterNext_zero _ h0, Pool.getNextLoop_zero _ h0]
    simp [loopIndex, hL]
  · have hpos : 0 < s.L := by omega
    rw [Pool.afterNext_start _ _ hpos, Pool.afterNext_start _ _ hpos]
    have hlt : (⟨s.L, s.n % s.L⟩ : Pool.Pool).next < (⟨s.L, s.n % s.L⟩ : Pool.Pool).n := Nat.mod_lt _ hpos
    rw [Pool.getNextLoop_pos _ hlt]
    simp [loopIndex, hL, Nat.add_mod]

/-- connections other than the new one do not notice `newConnection` -/
theorem agree_accepted (l c : Nat) (hc : c ≠ s.n) : Agree s (accepted s l) c := by
  refine ⟨?_, fun _ => rfl, fun _ => rfl, ?_, rfl, rfl, rfl, ?_⟩
  · simp [accepted, hc]
  · simp only [accepted, Srv.inMap, mapInsert_fresh s h hinj, List.any_cons]
    have : (s.n == c) = false := by simpa using Ne.symm hc
    simp [this]
  · simp only [accepted]
    exact life_emit_other s .new 0 (Ne.symm hc)

theorem grest_accepted (l : Nat) (hl : l = if s.L = 0 then 0 else s.n % s.L + 1) (ha : s.alive = true) : GRest (accepted s l) := by
  have hm := h.mapOK
  refine ⟨⟨?_, ?_, ?_, ?_⟩, ?_, ?_, ?_, ?_, ?_⟩
  · intro e he
    simp only [accepted, mapInsert_fresh s h hinj, List.mem_cons] at he ⊢
    rcases he with he | he
    · subst he; simp [newConn]
    · have hlt := hm.lt e he
      have : e.2 ≠ s.n := by omega
      simp only [this, if_false]
      exact hm.keys e he
  · simp only [accepted, mapInsert_fresh s h hinj, List.map_cons, List.nodup_cons]
    refine ⟨?_, hm.nodup⟩
    intro hmem
    obtain ⟨e, he, heq⟩ := List.mem_map.mp hmem
    exact name_fresh s h hinj e he heq
  · intro e he
    simp only [accepted, mapInsert_fresh s h hinj, List.mem_cons] at he ⊢
    rcases he with he | he
    · subst he; simp
    · have := hm.lt e he; omega
  · intro c c' hc hc' heq
    simp only [accepted] at hc hc' heq
    have key : ∀ i, i < s.n → (s.conn i).name ≠ s.nameOf s.nextId := by
      intro i hi heq2
      rw [(h.conns i hi).core.name, h.rest.nextId] at heq2
      have := hinj heq2
      simp only [idStep] at this
      omega
    by_cases h1 : c = s.n <;> by_cases h2 : c' = s.n
    · omega
    · simp only [h1, if_true, h2, if_false, newConn] at heq
      exact absurd heq.symm (key c' (by omega))
    · simp only [h1, if_false, h2, if_true, newConn] at heq
      exact absurd heq (key c (by omega))
    · simp only [h1, h2, if_false] at heq
      exact hm.names c c' (by omega) (by omega) heq
  · simp only [accepted]; rw [h.rest.nextId]; simp [Nat.add_mul]; omega
  · simp only [accepted]; exact (picked_loop s h hinj).2
  · intro c hc
    simp only [accepted] at hc ⊢
    by_cases h1 : c = s.n
    · simp [h1, newConn, hl]
    · simp only [h1, if_false]; exact h.rest.assigned c (by omega)
  · intro e he
    simp only [accepted, List.mem_append, List.mem_singleton] at he
    rcases he with he | he
    · have hlt : e.conn < s.n := by
        apply Decidable.byContradiction; intro hge
        have hf := (h.fresh e.conn (by omega)).2.1
        exact no_event_of_life_init _ _ hf e he rfl
      have := h.rest.aff e he
      unfold AffOK at this ⊢
      have hne : e.conn ≠ s.n := by omega
      simpa [accepted, hne] using this
    · subst he; simp [AffOK]
  · intro hd; simp [accepted, ha] at hd

theorem ginv_accept : GInv (accept s) := by
  by_cases hgo : s.alive = true ∧ s.exited 0 = false
  swap
  · have : accept s = s := by
      unfold accept
      cases ha : s.alive <;> cases he : s.exited 0 <;> simp_all
    rw [this]; exact h
  obtain ⟨ha, he⟩ := hgo
  rw [accept_nf s ha he (mapFind_fresh s h hinj)]
  obtain ⟨hpick, _⟩ := picked_loop s h hinj
  have hfr := h.fresh s.n (Nat.le_refl _)
  have hnoq : ∀ l, (s.q l).filter (isIo s.n) = [] := by
    intro l; rw [List.filter_eq_nil_iff]; intro t ht hio
    have := hfr.1 l t ht; rw [isIo_about hio] at this; cases this
  have hnorem : (s.q 0).count (.rem s.n) = 0 := by
    rw [List.count_eq_zero]; intro hm
    have := hfr.1 0 _ hm; simp at this
  have hnomem : ∀ l t, about s.n t = true → t ∉ s.q l := by
    intro l t hab hm; have := hfr.1 l t hm; rw [hab] at this; cases this
  have hlife : life s.n (s.trace ++ [⟨s.n, .new, 0⟩]) = some { born := true } := by
    rw [life_snoc, hfr.2.1]; simp [lifeStep, autoStep]
  have hinm : ∀ l, (accepted s l).inMap s.n = true := by
    intro l; simp [accepted, Srv.inMap, mapInsert_fresh s h hinj]
  have hname : s.nameOf s.nextId = s.nameOf (idInitial + s.n * idStep) := by rw [h.rest.nextId]
  split
  · -- the base loop serves the connection: `connectEstablished` runs inside `newConnection`
    rename_i hl0
    have hL : s.L = 0 := by
      rw [hpick] at hl0; split at hl0 <;> omega
    have hce : connectEstablished (accepted s 0) 0 s.n =
        ((accepted s 0).setConn s.n { newConn 0 (s.nameOf s.nextId) with st := .kConnected, registered := true }).emit s.n .up 0 := by
      simp [connectEstablished, accepted, newConn]
    rw [hce]
    have hgr : GRest (accepted s 0) := grest_accepted s h hinj 0 (by simp [hL]) ha
    have e1 : Ext (accepted s 0) ((accepted s 0).setConn s.n { newConn 0 (s.nameOf s.nextId) with st := .kConnected, registered := true }) :=
      ext_setConn _ _ _ (by simp [accepted, newConn]) (by simp [accepted, newConn])
    refine ⟨?_, ?_, hgr.ext (e1.trans (ext_emit _ s.n .up 0 (by simp [AffOK, accepted, newConn])))⟩
    · intro c hc
      simp only [emit_n, setConn_n] at hc
      by_cases hcn : c = s.n
      · subst hcn
        refine ⟨⟨?_, ?_, ?_, ?_, ?_, ?_, ?_⟩, ?_, ?_⟩
        · simp [newConn]
        · intro l'
          simp only [emit_conn, setConn_conn_self, emit_q, setConn_q]
          exact ⟨fun _ => ⟨hnomem _ _ (by simp), hnomem _ _ (by simp), hnomem _ _ (by simp)⟩, fun _ => hnomem _ _ (by simp)⟩
        · unfold RowP ioQ remN
          simp only [emit_conn, setConn_conn_self, emit_q, setConn_q, emit_alive, setConn_alive, inMap_emit, inMap_setConn, hinm]
          right; left
          simp [accepted, hnoq, hnorem, isUp, ha]
        · simp
        · simp [newConn]
        · simp [newConn, hname, accepted]
        · refine ⟨{ born := true, cb := .up }, ?_, rfl, ?_, ?_, ?_, ?_⟩
          · simp only [emit_trace, setConn_trace, life_snoc]
            have : (accepted s 0).trace = s.trace ++ [⟨s.n, .new, 0⟩] := rfl
            rw [this, hlife]; simp [lifeStep, autoStep]
          · simp [clsOf]
          · simp
          · simp [newConn]
          · intro _; simp [hinm]
        · unfold Srv.held; simp [hinm, newConn]
        · simp [newConn]
      · have hlt : c < s.n := by simp only [accepted] at hc; omega
        exact (h.conns c hlt).agree ((agree_accepted s h hinj 0 c hcn).trans
          ((agree_setConn _ _ (Ne.symm hcn)).trans (agree_emit _ _ _ (Ne.symm hcn))))
    · intro c hc
      simp only [emit_n, setConn_n] at hc
      have hcn : c ≠ s.n := by simp only [accepted] at hc; omega
      have hge : s.n ≤ c := by simp only [accepted] at hc; omega
      exact agree_fresh ((agree_accepted s h hinj 0 c hcn).trans
          ((agree_setConn _ _ (Ne.symm hcn)).trans (agree_emit _ _ _ (Ne.symm hcn)))).c (h.fresh c hge)
  · -- an io loop serves it: `connectEstablished` is queued there
    rename_i hl0
    generalize hl : loopIndex (Pool.getNextLoop s.pool).1 = l at *
    have hlL : l ≤ s.L := by
      rw [hpick]; split
      · omega
      · rename_i hL; have := Nat.mod_lt s.n (Nat.pos_of_ne_zero hL); omega
    have hgr : GRest (accepted s l) := grest_accepted s h hinj l hpick ha
    refine ⟨?_, ?_, hgr.ext (ext_enq _ _ _)⟩
    · intro c hc
      simp only [enq_n] at hc
      by_cases hcn : c = s.n
      · subst hcn
        have hcl : ((accepted s l).enq l (.est s.n)).conn s.n = newConn l (s.nameOf s.nextId) := by simp [accepted]
        refine ⟨⟨?_, ?_, ?_, ?_, ?_, ?_, ?_⟩, ?_, ?_⟩
        · rw [hcl]; simpa [newConn, accepted] using hlL
        · intro l'
          rw [hcl]
          simp only [newConn, enq_q]
          have hq : (accepted s l).q = s.q := rfl
          rw [hq]
          refine ⟨fun hne => ?_, fun hne => ?_⟩
          · simp only [hne, if_false]
            exact ⟨hnomem _ _ (by simp), hnomem _ _ (by simp), hnomem _ _ (by simp)⟩
          · split
            · simp only [List.mem_append, List.mem_singleton, reduceCtorEq, or_false]; exact hnomem _ _ (by simp)
            · exact hnomem _ _ (by simp)
        · unfold RowP ioQ remN
          rw [hcl]
          have hq : (accepted s l).q = s.q := rfl
          simp only [newConn, enq_q_self, enq_q_other _ _ _ _ (Ne.symm hl0), enq_alive, inMap_enq, hinm, hq]
          left
          simp [List.filter_append, hnoq, isIo, hnorem, accepted, ha, hl0]
        · rw [hcl]; simp [newConn]
          have hq : (accepted s l).q = s.q := rfl
          rw [hq]; exact hnomem _ _ (by simp)
        · rw [hcl]; simp [newConn]
        · rw [hcl]; simp [newConn, hname, accepted]
        · refine ⟨{ born := true }, ?_, rfl, ?_, ?_, ?_, ?_⟩
          · have : ((accepted s l).enq l (.est s.n)).trace = s.trace ++ [⟨s.n, .new, 0⟩] := rfl
            rw [this, hlife]
          · rw [hcl]; simp [newConn, clsOf]
          · rw [hcl]; simp [newConn]
          · rw [hcl]; simp [newConn]
          · intro _; simp [hinm]
        · rw [hcl]; unfold Srv.held; simp [hinm, newConn]
        · rw [hcl]; simp [newConn]
      · have hlt : c < s.n := by simp only [accepted] at hc; omega
        exact (h.conns c hlt).agree ((agree_accepted s h hinj l c hcn).trans
          (agree_enq _ _ (by simp [about, Task.conn?, Ne.symm hcn])))
    · intro c hc
      simp only [enq_n] at hc
      have hcn : c ≠ s.n := by simp only [accepted] at hc; omega
      have hge : s.n ≤ c := by simp only [accepted] at hc; omega
      exact agree_fresh ((agree_accepted s h hinj l c hcn).trans
          (agree_enq _ _ (by simp [about, Task.conn?, Ne.symm hcn]))).c (h.fresh c hge)

end accept

end MuduoVerif.Owner
