import MuduoVerif.Proofs.CalendarE
/-! One sixteenth of the 400-year cycle, checked by kernel evaluation (see CalendarCycle.lean). -/
namespace MuduoVerif.CalendarE

theorem cycleDays_1 : checkDays 9132 9132 = true := by decide +kernel

theorem cycleYears_1 : checkYears 25 25 = true := by decide +kernel

end MuduoVerif.CalendarE
