import MuduoVerif.Proofs.CalendarE
/-! One sixteenth of the 400-year cycle, checked by kernel evaluation (see CalendarCycle.lean). -/
namespace MuduoVerif.CalendarE

theorem cycleDays_0 : checkDays 0 9132 = true := by decide +kernel

theorem cycleYears_0 : checkYears 0 25 = true := by decide +kernel

end MuduoVerif.CalendarE
