import MuduoVerif.Proofs.CalendarE
/-! One sixteenth of the 400-year cycle, checked by kernel evaluation (see CalendarCycle.lean). -/
namespace MuduoVerif.CalendarE

theorem cycleDays_10 : checkDays 91320 9132 = true := by decide +kernel

theorem cycleYears_10 : checkYears 250 25 = true := by decide +kernel

end MuduoVerif.CalendarE
