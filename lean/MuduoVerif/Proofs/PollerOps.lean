import MuduoVerif.Proofs.PollerReach
/-! generic facts about the back-end calls and `applyOp` of the dispatch-engine model (C09) -/
namespace MuduoVerif.Poller
open MuduoVerif.Gen.Poller

/-- output of a back-end call: `epoll_ctl` results, their log lines, a failed assertion -/
def Ev.isBack : Ev → Bool
  | .ctl .. => true
  | .syserr => true
  | .fatal => true
  | .abort _ => true
  | _ => false

def Ev.isFatal : Ev → Bool
  | .fatal => true
  | .abort _ => true
  | _ => false

/-- a failed `epoll_ctl` and its log line -/
def Ev.isCtlFailure : Ev → Bool
  | .ctl _ _ _ .ok => false
  | .ctl .. => true
  | .syserr => true
  | .fatal => true
  | _ => false

/-- a failed system call or a failed assertion -/
def Ev.isFailure (e : Ev) : Bool := e.isCtlFailure || e.isAbort

/-- what `Poller::updateChannel/removeChannel` may change: the poller's own bookkeeping, the slot
index of channels, back-end output, and whether the process is alive -/
structure BackStep (s t : State) : Prop where
  be : t.be = s.be
  ev : ∀ c, (t.chans c).events = (s.chans c).events
  rev : ∀ c, (t.chans c).revents = (s.chans c).revents
  added : ∀ c, (t.chans c).added = (s.chans c).added
  hooks : t.hooks = s.hooks
  handling : t.handling = s.handling
  cur : t.cur = s.cur
  active : t.active = s.active
  iteration : t.iteration = s.iteration
  evsize : t.evsize = s.evsize
  out : ∃ l, t.out = s.out ++ l ∧ (∀ e ∈ l, e.isBack = true) ∧
    (t.dead = false → s.dead = false ∧ ∀ e ∈ l, e.isFatal = false)

theorem BackStep.rfl' (s : State) : BackStep s s :=
  ⟨rfl, fun _ => rfl, fun _ => rfl, fun _ => rfl, rfl, rfl, rfl, rfl, rfl, rfl, [], by simp, by simp, by simp⟩

theorem BackStep.trans {a b c : State} (f : BackStep a b) (g : BackStep b c) : BackStep a c := by
  obtain ⟨l1, h1, n1, d1⟩ := f.out
  obtain ⟨l2, h2, n2, d2⟩ := g.out
  refine ⟨g.be.trans f.be, fun x => (g.ev x).trans (f.ev x), fun x => (g.rev x).trans (f.rev x),
    fun x => (g.added x).trans (f.added x), g.hooks.trans f.hooks, g.handling.trans f.handling,
    g.cur.trans f.cur, g.active.trans f.active, g.iteration.trans f.iteration,
    g.evsize.trans f.evsize, l1 ++ l2, by rw [h2, h1, List.append_assoc], ?_, ?_⟩
  · intro e he
    rcases List.mem_append.1 he with h | h
    · exact n1 e h
    · exact n2 e h
  · intro hd
    obtain ⟨hb, hl2⟩ := d2 hd
    obtain ⟨ha, hl1⟩ := d1 hb
    refine ⟨ha, ?_⟩
    intro e he
    rcases List.mem_append.1 he with h | h
    · exact hl1 e h
    · exact hl2 e h

theorem backStep_abort (s : State) (w : String) : BackStep s (abort s w) :=
  ⟨rfl, fun _ => rfl, fun _ => rfl, fun _ => rfl, rfl, rfl, rfl, rfl, rfl, rfl, [.abort w], rfl,
    by simp [Ev.isBack], by simp [abort]⟩

/-- a record update that touches only the poller's bookkeeping and slot indices -/
theorem backStep_book (s : State) (chans : Nat → Chan) (cmap) (pollfds) (kernel)
    (h : ∀ x, (chans x).events = (s.chans x).events ∧ (chans x).revents = (s.chans x).revents ∧
      (chans x).added = (s.chans x).added) :
    BackStep s { s with chans := chans, cmap := cmap, pollfds := pollfds, kernel := kernel } :=
  ⟨rfl, fun x => (h x).1, fun x => (h x).2.1, fun x => (h x).2.2, rfl, rfl, rfl, rfl, rfl, rfl, [],
    by simp, by simp, by simp⟩

theorem backStep_setIndex (s : State) (c : Nat) (i : Int) : BackStep s (setIndex s c i) := by
  refine backStep_book s _ s.cmap s.pollfds s.kernel ?_
  intro x; by_cases hx : x = c <;> simp [hx]

theorem backStep_setCmap (s : State) (fd : Int) (v) : BackStep s (setCmap s fd v) :=
  backStep_book s s.chans _ s.pollfds s.kernel (fun _ => ⟨rfl, rfl, rfl⟩)

theorem backStep_emit (s : State) (e : Ev) (hb : e.isBack = true) (hf : e.isFatal = false) :
    BackStep s (emit s e) :=
  ⟨rfl, fun _ => rfl, fun _ => rfl, fun _ => rfl, rfl, rfl, rfl, rfl, rfl, rfl, [e], rfl,
    by simpa using hb, by simpa [emit] using fun h => ⟨h, hf⟩⟩

theorem backStep_die (s : State) (e : Ev) (hb : e.isBack = true) :
    BackStep s { emit s e with dead := true } :=
  ⟨rfl, fun _ => rfl, fun _ => rfl, fun _ => rfl, rfl, rfl, rfl, rfl, rfl, rfl, [e], rfl,
    by simpa using hb, by simp⟩

theorem backStep_kernel (s : State) (k : Int → Option Nat) : BackStep s { s with kernel := k } :=
  backStep_book s s.chans s.cmap s.pollfds k (fun _ => ⟨rfl, rfl, rfl⟩)

theorem backStep_ctl (s : State) (op c : Nat) : BackStep s (ctl s op c) := by
  unfold ctl
  simp only
  split
  · split
    · split
      · exact (backStep_emit s _ rfl rfl).trans (backStep_emit _ _ rfl rfl)
      · exact (backStep_emit s _ rfl rfl).trans (backStep_die _ _ rfl)
    · exact (backStep_emit s _ rfl rfl).trans (backStep_kernel _ _)
  · split
    · split
      · exact (backStep_emit s _ rfl rfl).trans (backStep_emit _ _ rfl rfl)
      · exact (backStep_emit s _ rfl rfl).trans (backStep_die _ _ rfl)
    · split
      · exact (backStep_emit s _ rfl rfl).trans (backStep_kernel _ _)
      · exact (backStep_emit s _ rfl rfl).trans (backStep_kernel _ _)

theorem backStep_pollUpdate (s : State) (c : Nat) : BackStep s (pollUpdate s c) := by
  unfold pollUpdate
  simp only
  split
  · split
    · exact backStep_abort _ _
    · refine backStep_book s _ _ _ s.kernel ?_
      intro x; by_cases hx : x = c <;> simp [hx]
  · split
    · exact backStep_abort _ _
    · split
      · exact backStep_abort _ _
      · split
        · exact backStep_abort _ _
        · exact backStep_book s s.chans s.cmap _ s.kernel (fun _ => ⟨rfl, rfl, rfl⟩)

theorem backStep_pollRemove (s : State) (c : Nat) : BackStep s (pollRemove s c) := by
  unfold pollRemove
  simp only
  split
  · exact backStep_abort _ _
  · split
    · exact backStep_abort _ _
    · split
      · exact backStep_abort _ _
      · split
        · exact backStep_abort _ _
        · split
          · exact backStep_abort _ _
          · split
            · refine backStep_book s _ _ _ s.kernel ?_
              intro x; by_cases hx : x = c <;> simp [hx]
            · split
              · exact backStep_abort _ _
              · split
                · exact backStep_abort _ _
                · rename_i m _
                  refine backStep_book s _ _ _ s.kernel ?_
                  intro x
                  by_cases hx : x = c
                  · simp [hx]
                  · by_cases hm : x = m
                    · subst hm; simp [hx]
                    · simp [hx, hm]

theorem backStep_epollUpdate (s : State) (c : Nat) : BackStep s (epollUpdate s c) := by
  unfold epollUpdate
  simp only
  split
  · split
    · split
      · exact backStep_abort _ _
      · split
        · exact (backStep_setCmap s _ _).trans (backStep_setIndex _ _ _)
        · exact ((backStep_setCmap s _ _).trans (backStep_setIndex _ _ _)).trans (backStep_ctl _ _ _)
    · split
      · exact backStep_abort _ _
      · split
        · exact BackStep.rfl' s
        · exact (backStep_setIndex _ _ _).trans (backStep_ctl _ _ _)
  · split
    · exact backStep_abort _ _
    · split
      · exact backStep_abort _ _
      · split
        · exact (backStep_ctl _ _ _).trans (backStep_setIndex _ _ _)
        · exact backStep_ctl _ _ _

theorem backStep_epollRemove (s : State) (c : Nat) : BackStep s (epollRemove s c) := by
  unfold epollRemove
  simp only
  split
  · exact backStep_abort _ _
  · split
    · exact backStep_abort _ _
    · split
      · exact backStep_abort _ _
      · split
        · exact ((backStep_setCmap s _ _).trans (backStep_ctl _ _ _)).trans (backStep_setIndex _ _ _)
        · exact (backStep_setCmap s _ _).trans (backStep_setIndex _ _ _)

theorem backStep_updateChannel (s : State) (c : Nat) : BackStep s (updateChannel s c) := by
  unfold updateChannel
  split
  · exact backStep_pollUpdate s c
  · exact backStep_epollUpdate s c

theorem backStep_removeChannel (s : State) (c : Nat) : BackStep s (removeChannel s c) := by
  unfold removeChannel
  split
  · exact backStep_pollRemove s c
  · exact backStep_epollRemove s c


/-! ### the shape of `applyOp` -/

def OpKind.isUpdate : OpKind → Bool
  | .remove => false
  | .recreate => false
  | _ => true

/-- the documented preconditions, as the model tests them -/
def accepts (s : State) (c : Nat) : OpKind → Prop
  | .remove => removeOk s c
  | .recreate => recreateOk s c
  | _ => True
instance : Decidable (accepts s c k) := by cases k <;> unfold accepts <;> infer_instance

theorem applyOp_dead {s : State} (h : s.dead = true) (c k) : applyOp s c k = s := by
  simp [applyOp, h]

theorem applyOp_reject {s : State} (hd : s.dead = false) {c k} (h : ¬ accepts s c k) :
    applyOp s c k = emit s (.reject c k) := by
  cases k <;> simp_all [applyOp, accepts]

theorem applyOp_update {s : State} (hd : s.dead = false) {c k} (h : k.isUpdate = true) :
    applyOp s c k = report (updateChannel (setInterest s c k) c) c k := by
  cases k <;> simp_all [applyOp, OpKind.isUpdate]

theorem applyOp_remove {s : State} (hd : s.dead = false) {c} (h : removeOk s c) :
    applyOp s c .remove =
      report (removeChannel (setChan s c { s.chans c with added := false }) c) c .remove := by
  simp [applyOp, hd, h]

theorem applyOp_recreate {s : State} (hd : s.dead = false) {c} (h : recreateOk s c) :
    applyOp s c .recreate = report (setChan s c {}) c .recreate := by
  simp [applyOp, hd, h]

/-! ### the effect of an accepted operation, whatever the back-end -/

/-- the channel's interest word after an accepted operation -/
def opEvents : OpKind → Nat → Nat
  | .recreate, _ => 0
  | k, e => newEvents k e

def opRevents : OpKind → Nat → Nat
  | .recreate, _ => 0
  | _, r => r

/-- registered after an accepted operation? -/
def opAdded : OpKind → Bool
  | .remove => false
  | .recreate => false
  | _ => true

/-- the effect of an accepted operation `k` on channel `c`, whatever the back-end: the spec-level
fields of the channels, the rest of the loop's state untouched, and the output: back-end events, then
— unless the process died — the operation's report -/
structure OpStep (s t : State) (c : Nat) (k : OpKind) : Prop where
  be : t.be = s.be
  hooks : t.hooks = s.hooks
  handling : t.handling = s.handling
  cur : t.cur = s.cur
  active : t.active = s.active
  iteration : t.iteration = s.iteration
  evsize : t.evsize = s.evsize
  ev : ∀ x, (t.chans x).events = if x = c then opEvents k (s.chans c).events else (s.chans x).events
  rev : ∀ x, (t.chans x).revents = if x = c then opRevents k (s.chans c).revents else (s.chans x).revents
  added : ∀ x, (t.chans x).added = if x = c then opAdded k else (s.chans x).added
  out : ∃ l, (∀ e ∈ l, e.isBack = true) ∧
    (t.dead = false → (∀ e ∈ l, e.isFatal = false) ∧
      t.out = s.out ++ l ++ [.op c k (t.chans c).events (t.chans c).index]) ∧
    (t.dead = true → t.out = s.out ++ l)

/-- `report` after a back-end call on a prepared state -/
theorem opStep_of {s p b : State} {c : Nat} {k : OpKind}
    (hbe : p.be = s.be) (hh : p.hooks = s.hooks) (hha : p.handling = s.handling) (hc : p.cur = s.cur)
    (hact : p.active = s.active) (hit : p.iteration = s.iteration) (hes : p.evsize = s.evsize)
    (hev : ∀ x, (p.chans x).events = if x = c then opEvents k (s.chans c).events else (s.chans x).events)
    (hrev : ∀ x, (p.chans x).revents = if x = c then opRevents k (s.chans c).revents else (s.chans x).revents)
    (hadd : ∀ x, (p.chans x).added = if x = c then opAdded k else (s.chans x).added)
    (hout : p.out = s.out) (hb : BackStep p b) :
    OpStep s (report b c k) c k := by
  obtain ⟨l, hl, hlb, hla⟩ := hb.out
  unfold report
  cases hbd : b.dead with
  | true =>
    simp only [if_true]
    refine ⟨hb.be.trans hbe, hb.hooks.trans hh, hb.handling.trans hha, hb.cur.trans hc, hb.active.trans hact,
      hb.iteration.trans hit, hb.evsize.trans hes, fun x => (hb.ev x).trans (hev x),
      fun x => (hb.rev x).trans (hrev x), fun x => (hb.added x).trans (hadd x), l, hlb, ?_, ?_⟩
    · intro h; rw [hbd] at h; exact absurd h (by simp)
    · intro _; rw [hl, hout]
  | false =>
    simp only [Bool.false_eq_true, if_false]
    refine ⟨hb.be.trans hbe, hb.hooks.trans hh, hb.handling.trans hha, hb.cur.trans hc, hb.active.trans hact,
      hb.iteration.trans hit, hb.evsize.trans hes, fun x => (hb.ev x).trans (hev x),
      fun x => (hb.rev x).trans (hrev x), fun x => (hb.added x).trans (hadd x), l, hlb, ?_, ?_⟩
    · intro _
      refine ⟨(hla hbd).2, ?_⟩
      simp only [emit, hl, hout]
    · intro h; simp only [emit] at h; rw [hbd] at h; exact absurd h (by simp)

theorem applyOp_opStep {s : State} (hd : s.dead = false) {c : Nat} {k : OpKind} (hacc : accepts s c k) :
    OpStep s (applyOp s c k) c k := by
  cases hk : k.isUpdate with
  | true =>
    rw [applyOp_update hd hk]
    refine opStep_of (p := setInterest s c k) rfl rfl rfl rfl rfl rfl rfl ?_ ?_ ?_ rfl (backStep_updateChannel _ c)
    · intro x; by_cases hx : x = c
      · subst hx; cases k <;> simp_all [setInterest, opEvents, OpKind.isUpdate]
      · simp [setInterest, hx]
    · intro x; by_cases hx : x = c
      · subst hx; cases k <;> simp_all [setInterest, opRevents, OpKind.isUpdate]
      · simp [setInterest, hx]
    · intro x; by_cases hx : x = c
      · subst hx; cases k <;> simp_all [setInterest, opAdded, OpKind.isUpdate]
      · simp [setInterest, hx]
  | false =>
    cases k with
    | remove =>
      have hr : removeOk s c := hacc
      rw [applyOp_remove hd hr]
      refine opStep_of (p := setChan s c { s.chans c with added := false }) rfl rfl rfl rfl rfl rfl rfl ?_ ?_ ?_ rfl (backStep_removeChannel _ c)
      · intro x; by_cases hx : x = c
        · subst hx; simp [setChan, opEvents, newEvents]
        · simp [setChan, hx]
      · intro x; by_cases hx : x = c
        · subst hx; simp [setChan, opRevents]
        · simp [setChan, hx]
      · intro x; by_cases hx : x = c
        · subst hx; simp [setChan, opAdded]
        · simp [setChan, hx]
    | recreate =>
      have hr : recreateOk s c := hacc
      rw [applyOp_recreate hd hr]
      refine opStep_of (p := setChan s c {}) rfl rfl rfl rfl rfl rfl rfl ?_ ?_ ?_ rfl (BackStep.rfl' _)
      · intro x; by_cases hx : x = c
        · subst hx; simp [setChan, opEvents]
        · simp [setChan, hx]
      · intro x; by_cases hx : x = c
        · subst hx; simp [setChan, opRevents]
        · simp [setChan, hx]
      · intro x; by_cases hx : x = c
        · subst hx; simp [setChan, opAdded]
        · simp [setChan, hx]
    | _ => simp [OpKind.isUpdate] at hk


theorem applyOp_cases (s : State) (c : Nat) (k : OpKind) :
    (s.dead = true ∧ applyOp s c k = s) ∨
    (s.dead = false ∧ ¬ accepts s c k ∧ applyOp s c k = emit s (.reject c k)) ∨
    (s.dead = false ∧ accepts s c k ∧ OpStep s (applyOp s c k) c k) := by
  cases hd : s.dead with
  | true => exact .inl ⟨rfl, applyOp_dead hd c k⟩
  | false =>
    by_cases h : accepts s c k
    · exact .inr (.inr ⟨rfl, h, applyOp_opStep hd h⟩)
    · exact .inr (.inl ⟨rfl, h, applyOp_reject hd h⟩)

theorem applyOp_be (s : State) (c k) : (applyOp s c k).be = s.be := by
  rcases applyOp_cases s c k with ⟨_, h⟩ | ⟨_, _, h⟩ | ⟨_, _, h⟩
  · rw [h]
  · rw [h]; rfl
  · exact h.be

theorem applyOp_handling (s : State) (c k) : (applyOp s c k).handling = s.handling := by
  rcases applyOp_cases s c k with ⟨_, h⟩ | ⟨_, _, h⟩ | ⟨_, _, h⟩
  · rw [h]
  · rw [h]; rfl
  · exact h.handling

end MuduoVerif.Poller
