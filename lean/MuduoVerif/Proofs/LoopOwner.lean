import MuduoVerif.Proofs.LoopElt
/-!
# The documented use of `EventLoopThread` (C05 `clean_shutdown`)

One owner thread: `startLoop()`, then any number of submissions, then (optionally) the destructor; user code never
calls `quit()` on the thread's loop.  Under this discipline the exceptional all-blocked state of
`stuck_analysis` (`EarlyDestroy`) cannot occur.
-/
set_option linter.unnecessarySimpa false
namespace MuduoVerif.Loop
open MuduoVerif.Gen.Loop

/-- calls that only hand work to the loop (`bury`, the death of an inline call's functor object, is put there by the
model itself: its destructor body is user code of the same kind, `BodiesInv.dtbl`) -/
def userSub : Sub → Bool
  | .queue _ | .run _ | .post _ | .bury _ => true
  | _ => false

def userOnly (l : List Sub) : Bool := l.all userSub

theorem userOnly_cons {x : Sub} {l : List Sub} : userOnly (x :: l) = true ↔ userSub x = true ∧ userOnly l = true := by
  simp [userOnly]

/-- no task body, no destructor of a functor's captured state (and nothing the loop thread is executing) calls
`quit()`, `startLoop()` or the destructor -/
structure BodiesInv (s : St) : Prop where
  tbl : ∀ x, userOnly (s.tbl x) = true
  dtbl : ∀ x, userOnly (s.dtbl x) = true
  stack : ∀ b, b ∈ s.stack → userOnly b = true
  lpc : s.lpc ≠ .quitStored
  selfq : s.selfQuit = false

theorem runTop_bodies {s : St} (h : BodiesInv s) : BodiesInv (runTop s) ∧ (runTop s).qreq = s.qreq := by
  obtain ⟨h1, hd, h2, h3, h4⟩ := h
  unfold runTop
  split
  · split <;> exact ⟨⟨h1, hd, h2, by simp, h4⟩, rfl⟩
  · rename_i hq; exact absurd hq h3
  · split
    · exact ⟨⟨h1, hd, h2, h3, h4⟩, rfl⟩
    · rename_i rest hs
      refine ⟨⟨h1, hd, ?_, h3, h4⟩, rfl⟩
      intro b hb; exact h2 b (by rw [hs]; exact List.mem_cons_of_mem _ hb)
    all_goals (rename_i hs; have hb := h2 _ (by rw [hs]; exact List.mem_cons_self))
    all_goals (have hr := (userOnly_cons.mp hb).2)
    all_goals (have hx := (userOnly_cons.mp hb).1)
    all_goals (try (simp [userSub] at hx; done))
    · refine ⟨⟨h1, hd, ?_, by simp, h4⟩, rfl⟩
      intro b hb'
      rcases List.mem_cons.mp hb' with rfl | hb'
      · exact hr
      · exact h2 b (by rw [hs]; exact List.mem_cons_of_mem _ hb')
    · split
      · refine ⟨⟨h1, hd, ?_, h3, h4⟩, rfl⟩
        intro b hb'
        rcases List.mem_cons.mp hb' with rfl | hb'
        · exact h1 _
        rcases List.mem_cons.mp hb' with rfl | hb'
        · exact userOnly_cons.mpr ⟨rfl, hr⟩
        · exact h2 b (by rw [hs]; exact List.mem_cons_of_mem _ hb')
      · refine ⟨⟨h1, hd, ?_, by simp, h4⟩, rfl⟩
        intro b hb'
        rcases List.mem_cons.mp hb' with rfl | hb'
        · exact hr
        · exact h2 b (by rw [hs]; exact List.mem_cons_of_mem _ hb')
    · refine ⟨⟨h1, hd, ?_, h3, h4⟩, rfl⟩
      intro b hb'
      rcases List.mem_cons.mp hb' with rfl | hb'
      · exact hr
      · exact h2 b (by rw [hs]; exact List.mem_cons_of_mem _ hb')
    · split
      · refine ⟨⟨h1, hd, ?_, h3, h4⟩, rfl⟩
        intro b hb'
        rcases List.mem_cons.mp hb' with rfl | hb'
        · exact hr
        · exact h2 b (by rw [hs]; exact List.mem_cons_of_mem _ hb')
      · refine ⟨⟨h1, hd, ?_, h3, h4⟩, rfl⟩
        intro b hb'
        rcases List.mem_cons.mp hb' with rfl | hb'
        · exact hd _
        rcases List.mem_cons.mp hb' with rfl | hb'
        · exact hr
        · exact h2 b (by rw [hs]; exact List.mem_cons_of_mem _ hb')

/-- (`EventLoopThread` scenario: its `loop()` is not entered again) -/
theorem stepLoop_bodies {s : St} (he : s.elt = true) (h : BodiesInv s) :
    BodiesInv (stepLoop s) ∧ (stepLoop s).qreq = s.qreq := by
  have hr := runTop_bodies h
  obtain ⟨h1, hd, h2, h3, h4⟩ := h
  loop_cases
  all_goals (first
    | exact hr
    | (refine ⟨⟨?_, ?_, ?_, ?_, ?_⟩, ?_⟩ <;> simp_all))

theorem stepOther_bodies {s : St} (k : Nat) (h : BodiesInv s) : BodiesInv (stepOther s k) := by
  have e : (stepOther s k).tbl = s.tbl ∧ (stepOther s k).dtbl = s.dtbl ∧ (stepOther s k).stack = s.stack ∧
      (stepOther s k).lpc = s.lpc ∧ (stepOther s k).selfQuit = s.selfQuit := by
    other_cases
    all_goals (refine ⟨?_, ?_, ?_, ?_, ?_⟩ <;> simp [setThr, touch] <;> (repeat' split) <;> rfl)
  obtain ⟨e1, ed, e2, e3, e4⟩ := e
  exact ⟨by rw [e1]; exact h.tbl, by rw [ed]; exact h.dtbl, by rw [e2]; exact h.stack, by rw [e3]; exact h.lpc,
    by rw [e4]; exact h.selfq⟩

/-- where the owner thread (T0) stands in `startLoop(); submissions…; [~EventLoopThread()]`, and what that means for
the shared state; `tail` is `[]` or `[destroy]` -/
def OwnerOk (tail : List Sub) (s : St) : Prop :=
  match (s.thr 0).pc with
  | .idle =>
      (s.phase = .unborn ∧ s.qreq = false ∧ ∃ b, userOnly b = true ∧ (s.thr 0).prog = .startLoop :: (b ++ tail))
    ∨ (s.loopPtr = true ∧ s.qreq = false ∧ ∃ b, userOnly b = true ∧ (s.thr 0).prog = b ++ tail)
    ∨ (s.phase = .dead ∧ s.qreq = true ∧ (s.thr 0).prog = [] ∧ tail = [.destroy])
  | .appended => s.loopPtr = true ∧ s.qreq = false ∧ ∃ b, userOnly b = true ∧ (s.thr 0).prog = b ++ tail
  | .quitStored => False
  | .sCheck => s.qreq = false ∧ ∃ b, userOnly b = true ∧ (s.thr 0).prog = b ++ tail
  | .sWaiting => s.qreq = false ∧ ∃ b, userOnly b = true ∧ (s.thr 0).prog = b ++ tail
  | .dEntry => s.loopPtr = true ∧ s.qreq = false ∧ (s.thr 0).prog = [] ∧ tail = [.destroy]
  | .dBeforeQuit => s.qreq = false ∧ (s.thr 0).prog = [] ∧ tail = [.destroy]
  | .dStored => s.qreq = true ∧ (s.thr 0).prog = [] ∧ tail = [.destroy]
  | .dJoin => s.qreq = true ∧ (s.thr 0).prog = [] ∧ tail = [.destroy]

structure OwnerInv (tail : List Sub) (s : St) : Prop where
  elt : s.elt = true
  bodies : BodiesInv s
  quit : QuitInv s
  eltInv : EltInv s
  others : ∀ k, k ≠ 0 → k ≠ 1 → s.thr k = { pc := .idle, prog := [] }
  owner : OwnerOk tail s

end MuduoVerif.Loop
namespace MuduoVerif.Loop
open MuduoVerif.Gen.Loop

/-- the loop thread's step, seen from the owner: `loop_` stays published as long as nobody has called `quit()` -/
theorem stepLoop_owner {tail : List Sub} {s : St} (h : OwnerInv tail s) : OwnerInv tail (stepLoop s) := by
  obtain ⟨he, hb, hq, hi, ho, hw⟩ := h
  obtain ⟨t1, t2, t3, t4, mv⟩ := stepLoop_move s
  obtain ⟨hb', hqr⟩ := stepLoop_bodies he hb
  have hL : s.L = 1 := by simp [St.L, he]
  have hq' : QuitInv (stepLoop s) := stepLoop_quit hq
  have hi' : EltInv (stepLoop s) := stepLoop_eltInv hi
  refine ⟨by rw [t2]; exact he, hb', hq', hi', by rw [t1]; exact ho, ?_⟩
  -- what the owner needs from the loop thread's move
  have keepPtr : s.loopPtr = true → s.qreq = false → (stepLoop s).loopPtr = true := by
    intro hl hf
    cases mv with
    | same hs => rw [hs.loopPtr]; exact hl
    | born _ _ _ e1 _ => rw [e1]; exact hl
    | publish _ _ _ _ hl' _ _ => exact hl'
    | run _ _ _ e1 _ _ => rw [e1]; exact hl
    | die hp _ _ _ _ _ _ =>
      have := hq.goneReq (Or.inr (Or.inr (by simp [hp, exited]))); simp [hf] at this
    | again _ hel _ _ _ _ _ => simp [he] at hel
  have keepUnborn : s.phase = .unborn → (stepLoop s).phase = .unborn := by
    intro hp; unfold stepLoop stepLoopFD stepLoopG; simp [hp]
  have keepDead : s.phase = .dead → (stepLoop s).phase = .dead := by
    intro hp; unfold stepLoop stepLoopFD stepLoopG; simp [hp]
  unfold OwnerOk at hw ⊢
  rw [t1, hqr]
  cases hpc : (s.thr 0).pc <;> simp only [hpc] at hw ⊢
  · rcases hw with ⟨a, b, c⟩ | ⟨a, b, c⟩ | ⟨a, b, c⟩
    · exact Or.inl ⟨keepUnborn a, b, c⟩
    · exact Or.inr (Or.inl ⟨keepPtr a b, b, c⟩)
    · exact Or.inr (Or.inr ⟨keepDead a, b, c⟩)
  · exact ⟨keepPtr hw.1 hw.2.1, hw.2.1, hw.2.2⟩
  · exact hw
  · exact hw
  · exact ⟨keepPtr hw.1 hw.2.1, hw.2.1, hw.2.2⟩
  · exact hw
  · exact hw
  · exact hw

end MuduoVerif.Loop
namespace MuduoVerif.Loop
open MuduoVerif.Gen.Loop

theorem stepOther_elt (s : St) (k : Nat) : (stepOther s k).elt = s.elt := by
  other_cases
  all_goals simp [setThr]

/-- a thread without program does nothing -/
theorem stepOther_idle_nil {s : St} {k : Nat} (h : s.thr k = { pc := .idle, prog := [] }) :
    stepOther s k = { s with out := none } := by
  unfold stepOther; simp [h, stepIdle]

theorem ownerOk_congr {tail : List Sub} {s s' : St} (ht : s'.thr 0 = s.thr 0) (hp : s'.phase = s.phase)
    (hl : s'.loopPtr = s.loopPtr) (hq : s'.qreq = s.qreq) (h : OwnerOk tail s) : OwnerOk tail s' := by
  unfold OwnerOk at h ⊢; rw [ht, hp, hl, hq]; exact h

theorem tail_cases {tail : List Sub} (ht : tail = [] ∨ tail = [.destroy]) {x : Sub} {r : List Sub} {b : List Sub}
    (hb : userOnly b = true) (hp : x :: r = b ++ tail) :
    (∃ b', b = x :: b' ∧ userSub x = true ∧ userOnly b' = true ∧ r = b' ++ tail) ∨
    (b = [] ∧ tail = [.destroy] ∧ x = .destroy ∧ r = []) := by
  cases b with
  | nil =>
    right
    rcases ht with ht | ht
    · subst ht; simp at hp
    · subst ht; simp at hp; exact ⟨rfl, rfl, hp.1, hp.2⟩
  | cons y b' =>
    left
    simp at hp
    obtain ⟨rfl, rfl⟩ := hp
    exact ⟨b', rfl, (userOnly_cons.mp hb).1, (userOnly_cons.mp hb).2, rfl⟩

/-- the owner's own step -/
theorem stepOwner_ok {tail : List Sub} (htail : tail = [] ∨ tail = [.destroy]) {s : St} (h : OwnerInv tail s) :
    OwnerOk tail (stepOther s 0) := by
  obtain ⟨he, hb, hq, hi, ho, hw⟩ := h
  have t1 := dtorLocks_tie; have t2 := dtorJoinsIfStarted_tie; have t3 := startWaitsWhile_tie
  have t4 := quitWakes_foreign
  unfold OwnerOk at hw
  cases hpc : (s.thr 0).pc <;> simp only [hpc] at hw
  · -- idle
    rcases hw with ⟨hph, hqf, b, hbu, hprog⟩ | ⟨hl, hqf, b, hbu, hprog⟩ | ⟨hph, hqt, hprog, htl⟩
    · -- before startLoop
      simp [OwnerOk, stepOther, hpc, stepIdle, hprog, he, hph, setThr, hqf]
      exact hbu
    · -- after startLoop, before the destructor
      cases hpr : (s.thr 0).prog with
      | nil =>
        have hb0 := List.append_eq_nil_iff.mp (show b ++ tail = [] by rw [← hprog, hpr])
        simp [OwnerOk, stepOther, hpc, stepIdle, hpr]
        exact Or.inl ⟨hl, hqf, [], rfl, rfl, hb0.2⟩
      | cons x r =>
        rw [hpr] at hprog
        rcases tail_cases htail hbu hprog with ⟨b', rfl, hx, hbu', hr⟩ | ⟨rfl, htl, rfl, rfl⟩
        · cases x <;> simp [userSub] at hx
          · simp [OwnerOk, stepOther, hpc, stepIdle, hpr, doAppend, setThr, hl, hqf]
            exact ⟨b', hbu', hr⟩
          · by_cases hin : runInline false
            · simp [OwnerOk, stepOther, hpc, stepIdle, hpr, hin, setThr, hl, hqf]
              exact Or.inr ⟨b', hbu', hr⟩
            · simp [OwnerOk, stepOther, hpc, stepIdle, hpr, hin, doAppend, setThr, hl, hqf]
              exact ⟨b', hbu', hr⟩
          · simp [OwnerOk, stepOther, hpc, stepIdle, hpr, setThr, hl, hqf]
            exact Or.inr ⟨b', hbu', hr⟩
          · simp [OwnerOk, stepOther, hpc, stepIdle, hpr, silent, setThr, hl, hqf]
            exact Or.inr ⟨b', hbu', hr⟩
        · simp [OwnerOk, stepOther, hpc, stepIdle, hpr, he, setThr, hl, hqf, htl]
    · -- joined
      simp [OwnerOk, stepOther, hpc, stepIdle, hprog]
      exact Or.inr ⟨hph, hqt, htl⟩
  · -- appended
    obtain ⟨hl, hqf, b, hbu, hprog⟩ := hw
    by_cases hg : wakeGuard false s.calling s.looping
    · simp [OwnerOk, stepOther, hpc, stepAppended, hg, doWake, setThr, hl, hqf]
      exact Or.inr ⟨b, hbu, hprog⟩
    · simp [OwnerOk, stepOther, hpc, stepAppended, hg, silent, setThr, hl, hqf]
      exact Or.inr ⟨b, hbu, hprog⟩
  · -- sCheck
    obtain ⟨hqf, b, hbu, hprog⟩ := hw
    by_cases hm : s.mtx = true
    · simp [OwnerOk, stepOther, hpc, stepSCheck, hm, hqf]; exact ⟨b, hbu, hprog⟩
    · by_cases hl : s.loopPtr = true
      · simp [OwnerOk, stepOther, hpc, stepSCheck, hm, hl, setThr, hqf]
        exact Or.inr ⟨b, hbu, hprog⟩
      · -- nobody has quit the loop, so the loop thread cannot have finished
        have hnf : s.finished = false := by
          cases hf : s.finished with
          | false => rfl
          | true =>
            have hd := hi.fin.2.mp hf
            have := hq.goneReq (Or.inr (Or.inr (by simp [hd, exited])))
            simp [hqf] at this
        simp [OwnerOk, stepOther, hpc, stepSCheck, hm, hl, hnf, setThr, hqf]; exact ⟨b, hbu, hprog⟩
  · -- sWaiting
    obtain ⟨hqf, b, hbu, hprog⟩ := hw
    by_cases hm : (s.waiting || s.mtx) = true
    · simp [OwnerOk, stepOther, hpc, stepSWaiting, hm, hqf]; exact ⟨b, hbu, hprog⟩
    · simp [OwnerOk, stepOther, hpc, stepSWaiting, hm, t3, silent, setThr, hqf]; exact ⟨b, hbu, hprog⟩
  · -- dEntry
    obtain ⟨hl, hqf, hprog, htl⟩ := hw
    by_cases hm : s.mtx = true
    · simp [OwnerOk, stepOther, hpc, stepDEntry, hm, t1, hl, hqf, hprog, htl]
    · simp [OwnerOk, stepOther, hpc, stepDEntry, hm, t1, hl, setThr, hqf, hprog, htl]
  · -- dBeforeQuit
    obtain ⟨hqf, hprog, htl⟩ := hw
    simp [OwnerOk, stepOther, hpc, doQuitStore, setThr, hprog, htl]
  · -- dStored
    obtain ⟨hqt, hprog, htl⟩ := hw
    simp [OwnerOk, stepOther, hpc, stepDStored, t4, doWake, setThr, hqt, hprog, htl]
  · -- dJoin
    obtain ⟨hqt, hprog, htl⟩ := hw
    by_cases hd : s.phase = .dead
    · simp [OwnerOk, stepOther, hpc, stepDJoin, hd, setThr, hqt, hprog, htl]
    · simp [OwnerOk, stepOther, hpc, stepDJoin, hd, hqt, hprog, htl]

end MuduoVerif.Loop
namespace MuduoVerif.Loop
open MuduoVerif.Gen.Loop

theorem step_owner {tail : List Sub} (htail : tail = [] ∨ tail = [.destroy]) {s : St} (k : Nat)
    (h : OwnerInv tail s) : OwnerInv tail (step s k) := by
  have hL : s.L = 1 := by simp [St.L, h.elt]
  unfold step
  split
  · exact stepLoop_owner h
  · rename_i hk
    have hk1 : k ≠ 1 := by rw [hL] at hk; exact hk
    have frame := stepOther_frame s k
    refine ⟨by rw [stepOther_elt]; exact h.elt, stepOther_bodies k h.bodies, stepOther_quit k hk h.quit,
      stepOther_eltInv k hk h.eltInv, ?_, ?_⟩
    · intro j hj0 hj1
      by_cases hjk : j = k
      · subst hjk
        rw [stepOther_idle_nil (h.others j hj0 hj1)]; exact h.others j hj0 hj1
      · rw [frame j hjk]; exact h.others j hj0 hj1
    · by_cases hk0 : k = 0
      · subst hk0; exact stepOwner_ok htail h
      · rw [stepOther_idle_nil (h.others k hk0 hk1)]
        exact ownerOk_congr rfl rfl rfl rfl h.owner

theorem init_owner (wl : Bool) (tbl dtbl : TaskId → List Sub) (pre body tail : List Sub)
    (htbl : ∀ x, userOnly (tbl x) = true) (hdtbl : ∀ x, userOnly (dtbl x) = true) (hpre : userOnly pre = true)
    (hbody : userOnly body = true) :
    OwnerInv tail (init true wl tbl dtbl pre [] (fun k => if k = 0 then .startLoop :: (body ++ tail) else [])) := by
  refine ⟨rfl, ⟨htbl, hdtbl, ?_, by simp [init], rfl⟩, init_quit _ _ _ _ _ _ _, init_eltInv _ _ _ _ _ _ _, ?_, ?_⟩
  · intro b hb
    simp only [init] at hb
    split at hb
    · simp at hb
    · simp at hb; subst hb; exact hpre
  · intro k hk0 _; simp [init, hk0]
  · simp [OwnerOk, init]; exact hbody

/-- under the documented use of `EventLoopThread` a state in which nobody can move is a clean end -/
theorem owner_stuck {tail : List Sub} {s : St} (h : OwnerInv tail s) (hs : Stuck s) :
    (s.thr 0).pc = .idle ∧ (s.thr 0).prog = [] ∧ s.uafDtor = false ∧
    ((tail = [.destroy] ∧ s.phase = .dead ∧ s.qreq = true) ∨ (tail = [] ∧ IdleInPoll s)) := by
  have hL : s.L = 1 := by simp [St.L, h.elt]
  have h0 : (0 : Nat) ≠ s.L := by rw [hL]; decide
  obtain ⟨hall, hloop⟩ := stuck_analysis h.quit h.eltInv hs
  have hw := h.owner
  unfold OwnerOk at hw
  rcases hall 0 h0 with hf | ⟨hpc, _, hqf⟩
  · simp [finished, h0] at hf
    obtain ⟨hpc, hprog⟩ := hf
    refine ⟨hpc, hprog, h.eltInv.noUaf, ?_⟩
    simp only [hpc] at hw
    rcases hw with ⟨_, _, b, _, hp⟩ | ⟨hl, hqf, b, _, hp⟩ | ⟨hph, hqt, _, htl⟩
    · rw [hprog] at hp; simp at hp
    · right
      rw [hprog] at hp
      have hb0 := List.append_eq_nil_iff.mp hp.symm
      refine ⟨hb0.2, ?_⟩
      rcases hloop with hfl | hi
      · exfalso
        have hr := (h.eltInv.ptr hl).1
        simp [finished, h.elt] at hfl
        rcases hfl with hd | hd <;> simp [hd, running] at hr
      · exact hi
    · exact Or.inl ⟨htl, hph, hqt⟩
  · exfalso
    simp only [hpc] at hw
    simp [hw.1] at hqf

end MuduoVerif.Loop
