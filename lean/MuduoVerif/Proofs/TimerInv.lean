import MuduoVerif.Proofs.Timer
import Mathlib.Data.List.Nodup
/-! The structural invariant of the timer engine (`WF`): `timers_` and `activeTimers_` hold the same timers,
every `Timer*` the queue can still reach is live, sequence numbers are bounded by `s_numCreated_`, and no step so far
dereferenced a freed `Timer`.  `B` is the expiry batch `handleRead` is working on (empty outside). -/
namespace MuduoVerif.Timer
open MuduoVerif.Gen.Timer

def addsOf : List Functor → List Addr
  | [] => []
  | .add a :: r => a :: addsOf r
  | .cancel _ :: r => addsOf r
  | .marker _ :: r => addsOf r

theorem addsOf_append (l r : List Functor) : addsOf (l ++ r) = addsOf l ++ addsOf r := by
  induction l with
  | nil => rfl
  | cons f l ih => cases f <;> simp [addsOf, ih]

/-- timers handed to the loop (`queueInLoop`) whose `addTimerInLoop` has not run yet -/
def limbo (s : TQ) : List Addr := addsOf (s.running ++ s.pending)

/-! ### small facts -/

theorem chk_live {s : TQ} {a : Addr} (h : (s.heap a).isSome) : chk s a = s := by simp [chk, h]

theorem cellAt_eq {s : TQ} {a : Addr} {c : Cell} (h : s.heap a = some c) : cellAt s a = c := by simp [cellAt, h]

theorem mem_insEntry {e x : Time × Addr} {l : List (Time × Addr)} : x ∈ insEntry e l ↔ x = e ∨ x ∈ l := by
  induction l with
  | nil => simp [insEntry]
  | cons y ys ih =>
    unfold insEntry
    split
    · simp
    · simp [ih]; tauto

theorem entryLt_trans {a b c : Int × Nat} (h1 : entryLt a b) (h2 : entryLt b c) : entryLt a c := by
  obtain ⟨a1, a2⟩ := a; obtain ⟨b1, b2⟩ := b; obtain ⟨c1, c2⟩ := c
  simp only [entryLt, Time, Addr] at *
  omega

theorem entryLt_total {a b : Int × Nat} (h : ¬ entryLt a b) (hne : a ≠ b) : entryLt b a := by
  obtain ⟨a1, a2⟩ := a; obtain ⟨b1, b2⟩ := b
  have : ¬ (a1 = b1 ∧ a2 = b2) := by
    rintro ⟨rfl, rfl⟩; exact hne rfl
  simp only [entryLt, Time, Addr] at *
  omega

theorem entryLt_irrefl (a : Int × Nat) : ¬ entryLt a a := by
  obtain ⟨a1, a2⟩ := a
  simp only [entryLt, Time, Addr]; omega

theorem pairwise_insEntry {e : Time × Addr} {l : List (Time × Addr)} (h : l.Pairwise entryLt)
    (hne : ∀ x ∈ l, x ≠ e) : (insEntry e l).Pairwise entryLt := by
  induction l with
  | nil => simp [insEntry]
  | cons y ys ih =>
    unfold insEntry
    rw [List.pairwise_cons] at h
    split
    · rename_i hlt
      refine List.pairwise_cons.2 ⟨?_, List.pairwise_cons.2 h⟩
      intro x hx
      rcases List.mem_cons.1 hx with rfl | hx
      · exact hlt
      · exact entryLt_trans hlt (h.1 x hx)
    · rename_i hlt
      refine List.pairwise_cons.2 ⟨?_, ih h.2 (fun x hx => hne x (List.mem_cons_of_mem _ hx))⟩
      intro x hx
      rcases mem_insEntry.1 hx with rfl | hx
      · exact entryLt_total hlt (fun h' => hne y (List.mem_cons_self) h'.symm)
      · exact h.1 x hx


structure WFp (s : TQ) (B : List (Time × Addr)) (L : List Addr) : Prop where
  t_live : ∀ e ∈ s.timers, ∃ c, s.heap e.2 = some c ∧ c.exp = e.1 ∧ (e.2, c.seq) ∈ s.active
  a_live : ∀ p ∈ s.active, ∃ c, s.heap p.1 = some c ∧ c.seq = p.2 ∧ (c.exp, p.1) ∈ s.timers
  sorted : s.timers.Pairwise entryLt
  a_nodup : s.active.Nodup
  b_live : ∀ e ∈ B, (∃ c, s.heap e.2 = some c ∧ c.exp = e.1) ∧ ∀ q, (e.2, q) ∉ s.active
  b_nodup : (B.map (·.2)).Nodup
  p_live : ∀ a ∈ L, (s.heap a).isSome ∧ (∀ q, (a, q) ∉ s.active) ∧ a ∉ B.map (·.2)
  p_nodup : L.Nodup
  owned : ∀ a c, s.heap a = some c → (a, c.seq) ∈ s.active ∨ a ∈ B.map (·.2) ∨ a ∈ L
  seq_le : ∀ a c, s.heap a = some c → 0 < c.seq ∧ c.seq ≤ s.numCreated
  seq_inj : ∀ a a' c c', s.heap a = some c → s.heap a' = some c' → c.seq = c'.seq → a = a'
  addr_ok : ∀ a c, s.heap a = some c → 0 < a ∧ a < sentinelAddr
  no_uaf : ∀ a, Ev.uaf a ∉ s.trace


theorem WFp.congr {s s' : TQ} {B : List (Time × Addr)} {L : List Addr} (h : WFp s B L) (hh : s'.heap = s.heap)
    (ht : s'.timers = s.timers) (ha : s'.active = s.active) (hn : s'.numCreated = s.numCreated)
    (hu : ∀ a, Ev.uaf a ∉ s'.trace) : WFp s' B L := by
  exact ⟨by simpa [hh, ht, ha] using h.t_live, by simpa [hh, ht, ha] using h.a_live, by simpa [ht] using h.sorted,
    by simpa [ha] using h.a_nodup,
    by simpa [hh, ha] using h.b_live, h.b_nodup, by simpa [hh, ha] using h.p_live, h.p_nodup,
    by simpa [hh, ha] using h.owned,
    by simpa [hh, hn] using h.seq_le, by simpa [hh] using h.seq_inj, by simpa [hh] using h.addr_ok, hu⟩

theorem hset_same (h : Addr → Option Cell) (a : Addr) (c : Cell) : hset h a c a = some c := by simp [hset]
theorem hset_other (h : Addr → Option Cell) {a x : Addr} (c : Cell) (hx : x ≠ a) : hset h a c x = h x := by simp [hset, hx]
theorem hfree_same (h : Addr → Option Cell) (a : Addr) : hfree h a a = none := by simp [hfree]
theorem hfree_other (h : Addr → Option Cell) {a x : Addr} (hx : x ≠ a) : hfree h a x = h x := by simp [hfree, hx]
theorem hfree_some {h : Addr → Option Cell} {a x : Addr} {c : Cell} (hx : hfree h a x = some c) : x ≠ a ∧ h x = some c := by
  unfold hfree at hx; split at hx
  · cases hx
  · exact ⟨by assumption, hx⟩

/-- `insert`: into both sets -/
def ins (s : TQ) (a : Addr) (c : Cell) : TQ :=
  { s with timers := insEntry (c.exp, a) s.timers, active := (a, c.seq) :: s.active }

variable {s : TQ} {B : List (Time × Addr)} {L : List Addr}

theorem WFp.not_active_of_none (h : WFp s B L) {a : Addr} (hn : s.heap a = none) (q : Nat) : (a, q) ∉ s.active := by
  intro hm
  obtain ⟨c, h1, _⟩ := h.a_live _ hm
  rw [hn] at h1; cases h1

theorem WFp.ins {a : Addr} {c : Cell} (h : WFp s B (a :: L)) (hc : s.heap a = some c) : WFp (ins s a c) B L := by
  have hp := h.p_live a (List.mem_cons_self)
  have hna : ∀ q, (a, q) ∉ s.active := hp.2.1
  have haB : a ∉ B.map (·.2) := hp.2.2
  have hnd := List.nodup_cons.1 h.p_nodup
  refine ⟨?_, ?_, ?_, ?_, ?_, h.b_nodup, ?_, hnd.2, ?_, h.seq_le, h.seq_inj, h.addr_ok, h.no_uaf⟩
  · intro e he
    rcases mem_insEntry.1 he with rfl | he
    · exact ⟨c, hc, rfl, List.mem_cons_self⟩
    · obtain ⟨c', h1, h2, h3⟩ := h.t_live e he
      exact ⟨c', h1, h2, List.mem_cons_of_mem _ h3⟩
  · intro p hp'
    rcases List.mem_cons.1 hp' with rfl | hp'
    · exact ⟨c, hc, rfl, mem_insEntry.2 (Or.inl rfl)⟩
    · obtain ⟨c', h1, h2, h3⟩ := h.a_live p hp'
      exact ⟨c', h1, h2, mem_insEntry.2 (Or.inr h3)⟩
  · apply pairwise_insEntry h.sorted
    intro x hx hxe
    obtain ⟨c', h1, h2, h3⟩ := h.t_live x hx
    subst hxe
    exact hna _ h3
  · exact List.nodup_cons.2 ⟨hna _, h.a_nodup⟩
  · intro e he
    obtain ⟨h1, h2⟩ := h.b_live e he
    refine ⟨h1, ?_⟩
    intro q hq
    rcases List.mem_cons.1 hq with heq | hq
    · have : e.2 = a := (Prod.mk.inj heq).1
      exact haB (List.mem_map.2 ⟨e, he, this⟩)
    · exact h2 q hq
  · intro x hx
    obtain ⟨h1, h2, h3⟩ := h.p_live x (List.mem_cons_of_mem _ hx)
    refine ⟨h1, ?_, h3⟩
    intro q hq
    rcases List.mem_cons.1 hq with heq | hq
    · have : x = a := (Prod.mk.inj heq).1
      exact hnd.1 (this ▸ hx)
    · exact h2 q hq
  · intro x cx hx
    rcases h.owned x cx hx with h1 | h1 | h1
    · exact Or.inl (List.mem_cons_of_mem _ h1)
    · exact Or.inr (Or.inl h1)
    · rcases List.mem_cons.1 h1 with rfl | h1
      · have hx : s.heap x = some cx := hx
        rw [hc] at hx; cases hx; exact Or.inl List.mem_cons_self
      · exact Or.inr (Or.inr h1)

theorem WFp.alloc {a : Addr} {c : Cell} (h : WFp s B L) (hf : s.heap a = none) (ha : 0 < a ∧ a < sentinelAddr)
    (hs : c.seq = s.numCreated + 1) :
    WFp { s with heap := hset s.heap a c, numCreated := c.seq } B (a :: L) := by
  have ne_of_live : ∀ {x : Addr} {cx : Cell}, s.heap x = some cx → x ≠ a := by
    intro x cx hx hxa; rw [hxa, hf] at hx; cases hx
  refine ⟨?_, ?_, h.sorted, h.a_nodup, ?_, h.b_nodup, ?_, ?_, ?_, ?_, ?_, ?_, h.no_uaf⟩
  · intro e he
    obtain ⟨c', h1, h2, h3⟩ := h.t_live e he
    exact ⟨c', by show hset s.heap a c e.2 = _; rw [hset_other _ _ (ne_of_live h1)]; exact h1, h2, h3⟩
  · intro p hp
    obtain ⟨c', h1, h2, h3⟩ := h.a_live p hp
    exact ⟨c', by show hset s.heap a c p.1 = _; rw [hset_other _ _ (ne_of_live h1)]; exact h1, h2, h3⟩
  · intro e he
    obtain ⟨⟨c', h1, h2⟩, h3⟩ := h.b_live e he
    exact ⟨⟨c', by show hset s.heap a c e.2 = _; rw [hset_other _ _ (ne_of_live h1)]; exact h1, h2⟩, h3⟩
  · intro x hx
    rcases List.mem_cons.1 hx with rfl | hx
    · refine ⟨by show (hset s.heap x c x).isSome = true; rw [hset_same]; rfl, h.not_active_of_none hf, ?_⟩
      intro hm
      obtain ⟨e, he, rfl⟩ := List.mem_map.1 hm
      obtain ⟨⟨c', h1, _⟩, _⟩ := h.b_live e he
      rw [hf] at h1; cases h1
    · obtain ⟨h1, h2, h3⟩ := h.p_live x hx
      refine ⟨?_, h2, h3⟩
      show (hset s.heap a c x).isSome = true
      unfold hset; split
      · rfl
      · exact h1
  · refine List.nodup_cons.2 ⟨?_, h.p_nodup⟩
    intro hm
    have := (h.p_live a hm).1
    rw [hf] at this; cases this
  · intro x cx hx
    by_cases hxa : x = a
    · subst hxa; exact Or.inr (Or.inr List.mem_cons_self)
    · have hx' : s.heap x = some cx := by rw [← hset_other s.heap c hxa]; exact hx
      rcases h.owned x cx hx' with h1 | h1 | h1
      · exact Or.inl h1
      · exact Or.inr (Or.inl h1)
      · exact Or.inr (Or.inr (List.mem_cons_of_mem _ h1))
  · intro x cx hx
    show 0 < cx.seq ∧ cx.seq ≤ c.seq
    by_cases hxa : x = a
    · subst hxa
      have : some c = some cx := by rw [← hset_same s.heap x c]; exact hx
      cases this; omega
    · have hx' : s.heap x = some cx := by rw [← hset_other s.heap c hxa]; exact hx
      have := h.seq_le x cx hx'; omega
  · intro x x' cx cx' hx hx' he
    by_cases hxa : x = a <;> by_cases hxa' : x' = a
    · rw [hxa, hxa']
    · subst hxa
      have e1 : some c = some cx := by rw [← hset_same s.heap x c]; exact hx
      have e2 : s.heap x' = some cx' := by rw [← hset_other s.heap c hxa']; exact hx'
      cases e1
      have := h.seq_le x' cx' e2; omega
    · subst hxa'
      have e1 : some c = some cx' := by rw [← hset_same s.heap x' c]; exact hx'
      have e2 : s.heap x = some cx := by rw [← hset_other s.heap c hxa]; exact hx
      cases e1
      have := h.seq_le x cx e2; omega
    · have e1 : s.heap x = some cx := by rw [← hset_other s.heap c hxa]; exact hx
      have e2 : s.heap x' = some cx' := by rw [← hset_other s.heap c hxa']; exact hx'
      exact h.seq_inj x x' cx cx' e1 e2 he
  · intro x cx hx
    by_cases hxa : x = a
    · subst hxa; exact ha
    · have hx' : s.heap x = some cx := by rw [← hset_other s.heap c hxa]; exact hx
      exact h.addr_ok x cx hx'


theorem WFp.relabel {L' : List Addr} (h : WFp s B L) (hm : ∀ x, x ∈ L' ↔ x ∈ L) (hn : L'.Nodup) : WFp s B L' :=
  ⟨h.t_live, h.a_live, h.sorted, h.a_nodup, h.b_live, h.b_nodup, fun a ha => h.p_live a ((hm a).1 ha), hn,
    fun a c hc => by
      rcases h.owned a c hc with h1 | h1 | h1
      · exact Or.inl h1
      · exact Or.inr (Or.inl h1)
      · exact Or.inr (Or.inr ((hm a).2 h1)),
    h.seq_le, h.seq_inj, h.addr_ok, h.no_uaf⟩

/-- the head of the batch is taken out of it (its cell updated, same sequence number) and floats -/
theorem WFp.b_to_l {e : Time × Addr} {c c' : Cell} (h : WFp s (e :: B) L) (hc : s.heap e.2 = some c)
    (hs : c'.seq = c.seq) : WFp { s with heap := hset s.heap e.2 c' } B (e.2 :: L) := by
  have hbe := h.b_live e List.mem_cons_self
  have hnd : e.2 ∉ B.map (·.2) ∧ (B.map (·.2)).Nodup := List.nodup_cons.1 h.b_nodup
  have heL : e.2 ∉ L := fun hm => (h.p_live _ hm).2.2 (by simp)
  have ne_act : ∀ {x : Addr} {q : Nat}, (x, q) ∈ s.active → x ≠ e.2 := by
    intro x q hm hx; subst hx; exact hbe.2 q hm
  refine ⟨?_, ?_, h.sorted, h.a_nodup, ?_, hnd.2, ?_, List.nodup_cons.2 ⟨heL, h.p_nodup⟩, ?_, ?_, ?_, ?_, h.no_uaf⟩
  · intro x hx
    obtain ⟨cx, h1, h2, h3⟩ := h.t_live x hx
    exact ⟨cx, by show hset s.heap e.2 c' x.2 = _; rw [hset_other _ _ (ne_act h3)]; exact h1, h2, h3⟩
  · intro p hp
    obtain ⟨cx, h1, h2, h3⟩ := h.a_live p hp
    exact ⟨cx, by show hset s.heap e.2 c' p.1 = _; rw [hset_other _ _ (ne_act hp)]; exact h1, h2, h3⟩
  · intro x hx
    obtain ⟨⟨cx, h1, h2⟩, h3⟩ := h.b_live x (List.mem_cons_of_mem _ hx)
    have : x.2 ≠ e.2 := fun hh => hnd.1 (List.mem_map.2 ⟨x, hx, hh⟩)
    exact ⟨⟨cx, by show hset s.heap e.2 c' x.2 = _; rw [hset_other _ _ this]; exact h1, h2⟩, h3⟩
  · intro x hx
    rcases List.mem_cons.1 hx with rfl | hx
    · exact ⟨by show (hset s.heap e.2 c' e.2).isSome = true; rw [hset_same]; rfl, hbe.2, hnd.1⟩
    · obtain ⟨h1, h2, h3⟩ := h.p_live x hx
      refine ⟨?_, h2, fun hm => h3 (List.mem_cons_of_mem _ hm)⟩
      show (hset s.heap e.2 c' x).isSome = true
      unfold hset; split
      · rfl
      · exact h1
  · intro x cx hx
    by_cases hxa : x = e.2
    · subst hxa; exact Or.inr (Or.inr List.mem_cons_self)
    · have hx' : s.heap x = some cx := by rw [← hset_other s.heap c' hxa]; exact hx
      rcases h.owned x cx hx' with h1 | h1 | h1
      · exact Or.inl h1
      · rcases List.mem_cons.1 h1 with h1 | h1
        · exact absurd h1 hxa
        · exact Or.inr (Or.inl h1)
      · exact Or.inr (Or.inr (List.mem_cons_of_mem _ h1))
  · intro x cx hx
    by_cases hxa : x = e.2
    · subst hxa
      have : some c' = some cx := by rw [← hset_same s.heap e.2 c']; exact hx
      cases this; rw [hs]; exact h.seq_le _ _ hc
    · have hx' : s.heap x = some cx := by rw [← hset_other s.heap c' hxa]; exact hx
      exact h.seq_le x cx hx'
  · intro x x' cx cx' hx hx' he
    have get : ∀ {y : Addr} {cy : Cell}, hset s.heap e.2 c' y = some cy → ∃ cz, s.heap y = some cz ∧ cz.seq = cy.seq := by
      intro y cy hy
      by_cases hya : y = e.2
      · subst hya
        have : some c' = some cy := by rw [← hset_same s.heap e.2 c']; exact hy
        cases this; exact ⟨c, hc, hs.symm⟩
      · exact ⟨cy, by rw [← hset_other s.heap c' hya]; exact hy, rfl⟩
    obtain ⟨cz, h1, h2⟩ := get hx
    obtain ⟨cz', h1', h2'⟩ := get hx'
    exact h.seq_inj x x' cz cz' h1 h1' (by rw [h2, h2', he])
  · intro x cx hx
    by_cases hxa : x = e.2
    · subst hxa; exact h.addr_ok _ _ hc
    · have hx' : s.heap x = some cx := by rw [← hset_other s.heap c' hxa]; exact hx
      exact h.addr_ok x cx hx'

/-- the head of the batch is deleted -/
theorem WFp.drop {e : Time × Addr} (h : WFp s (e :: B) L) : WFp { s with heap := hfree s.heap e.2 } B L := by
  have hbe := h.b_live e List.mem_cons_self
  have hnd : e.2 ∉ B.map (·.2) ∧ (B.map (·.2)).Nodup := List.nodup_cons.1 h.b_nodup
  have ne_act : ∀ {x : Addr} {q : Nat}, (x, q) ∈ s.active → x ≠ e.2 := by
    intro x q hm hx; subst hx; exact hbe.2 q hm
  refine ⟨?_, ?_, h.sorted, h.a_nodup, ?_, hnd.2, ?_, h.p_nodup, ?_, ?_, ?_, ?_, h.no_uaf⟩
  · intro x hx
    obtain ⟨cx, h1, h2, h3⟩ := h.t_live x hx
    exact ⟨cx, by show hfree s.heap e.2 x.2 = _; rw [hfree_other _ (ne_act h3)]; exact h1, h2, h3⟩
  · intro p hp
    obtain ⟨cx, h1, h2, h3⟩ := h.a_live p hp
    exact ⟨cx, by show hfree s.heap e.2 p.1 = _; rw [hfree_other _ (ne_act hp)]; exact h1, h2, h3⟩
  · intro x hx
    obtain ⟨⟨cx, h1, h2⟩, h3⟩ := h.b_live x (List.mem_cons_of_mem _ hx)
    have : x.2 ≠ e.2 := fun hh => hnd.1 (List.mem_map.2 ⟨x, hx, hh⟩)
    exact ⟨⟨cx, by show hfree s.heap e.2 x.2 = _; rw [hfree_other _ this]; exact h1, h2⟩, h3⟩
  · intro x hx
    obtain ⟨h1, h2, h3⟩ := h.p_live x hx
    have : x ≠ e.2 := fun hh => h3 (by simp [hh])
    refine ⟨?_, h2, fun hm => h3 (List.mem_cons_of_mem _ hm)⟩
    show (hfree s.heap e.2 x).isSome = true
    rw [hfree_other _ this]; exact h1
  · intro x cx hx
    obtain ⟨hxa, hx'⟩ := hfree_some hx
    rcases h.owned x cx hx' with h1 | h1 | h1
    · exact Or.inl h1
    · rcases List.mem_cons.1 h1 with h1 | h1
      · exact absurd h1 hxa
      · exact Or.inr (Or.inl h1)
    · exact Or.inr (Or.inr h1)
  · intro x cx hx; exact h.seq_le x cx (hfree_some hx).2
  · intro x x' cx cx' hx hx' he; exact h.seq_inj x x' cx cx' (hfree_some hx).2 (hfree_some hx').2 he
  · intro x cx hx; exact h.addr_ok x cx (hfree_some hx).2

/-- `cancelInLoop` found the pair: erase from both sets, delete -/
theorem WFp.erase {a : Addr} {q : Nat} {c : Cell} (h : WFp s B L) (hm : (a, q) ∈ s.active) (hc : s.heap a = some c) :
    WFp { s with timers := s.timers.filter (fun e => e ≠ (c.exp, a)),
                 active := s.active.filter (fun p => p ≠ (a, q)),
                 heap := hfree s.heap a } B L := by
  have hq : c.seq = q := by
    obtain ⟨c', h1, h2, _⟩ := h.a_live _ hm
    rw [hc] at h1; cases h1; exact h2
  refine ⟨?_, ?_, h.sorted.filter _, h.a_nodup.filter _, ?_, h.b_nodup, ?_, h.p_nodup, ?_, ?_, ?_, ?_, h.no_uaf⟩
  · intro x hx
    obtain ⟨hx1, hx2⟩ := List.mem_filter.1 hx
    have hx2 : x ≠ (c.exp, a) := by simpa using hx2
    obtain ⟨cx, h1, h2, h3⟩ := h.t_live x hx1
    have hxa : x.2 ≠ a := by
      intro hh
      rw [hh, hc] at h1; cases h1
      exact hx2 (Prod.ext h2.symm hh)
    refine ⟨cx, by show hfree s.heap a x.2 = _; rw [hfree_other _ hxa]; exact h1, h2, ?_⟩
    refine List.mem_filter.2 ⟨h3, ?_⟩
    simp only [ne_eq, decide_eq_true_eq]
    intro hh; exact hxa (Prod.mk.inj hh).1
  · intro p hp
    obtain ⟨hp1, hp2⟩ := List.mem_filter.1 hp
    have hp2 : p ≠ (a, q) := by simpa using hp2
    obtain ⟨cx, h1, h2, h3⟩ := h.a_live p hp1
    have hpa : p.1 ≠ a := by
      intro hh
      rw [hh, hc] at h1; cases h1
      exact hp2 (Prod.ext hh (by rw [← h2, hq]))
    refine ⟨cx, by show hfree s.heap a p.1 = _; rw [hfree_other _ hpa]; exact h1, h2, ?_⟩
    refine List.mem_filter.2 ⟨h3, ?_⟩
    simp only [ne_eq, decide_eq_true_eq]
    intro hh; exact hpa (Prod.mk.inj hh).2
  · intro x hx
    obtain ⟨⟨cx, h1, h2⟩, h3⟩ := h.b_live x hx
    have hxa : x.2 ≠ a := fun hh => h3 q (hh ▸ hm)
    exact ⟨⟨cx, by show hfree s.heap a x.2 = _; rw [hfree_other _ hxa]; exact h1, h2⟩,
      fun q' hq' => h3 q' (List.mem_filter.1 hq').1⟩
  · intro x hx
    obtain ⟨h1, h2, h3⟩ := h.p_live x hx
    have hxa : x ≠ a := fun hh => h2 q (hh ▸ hm)
    exact ⟨by show (hfree s.heap a x).isSome = true; rw [hfree_other _ hxa]; exact h1,
      fun q' hq' => h2 q' (List.mem_filter.1 hq').1, h3⟩
  · intro x cx hx
    obtain ⟨hxa, hx'⟩ := hfree_some hx
    rcases h.owned x cx hx' with h1 | h1 | h1
    · refine Or.inl (List.mem_filter.2 ⟨h1, ?_⟩)
      simp only [ne_eq, decide_eq_true_eq]
      intro hh; exact hxa (Prod.mk.inj hh).1
    · exact Or.inr (Or.inl h1)
    · exact Or.inr (Or.inr h1)
  · intro x cx hx; exact h.seq_le x cx (hfree_some hx).2
  · intro x x' cx cx' hx hx' he; exact h.seq_inj x x' cx cx' (hfree_some hx).2 (hfree_some hx').2 he
  · intro x cx hx; exact h.addr_ok x cx (hfree_some hx).2


theorem WFp.timers_nodup (h : WFp s B L) : s.timers.Nodup :=
  h.sorted.imp (fun {a b} hab heq => by subst heq; exact entryLt_irrefl _ hab)

theorem WFp.timers_addr_inj (h : WFp s B L) {x y : Time × Addr} (hx : x ∈ s.timers) (hy : y ∈ s.timers)
    (he : x.2 = y.2) : x = y := by
  obtain ⟨cx, h1, h2, _⟩ := h.t_live x hx
  obtain ⟨cy, g1, g2, _⟩ := h.t_live y hy
  rw [he, g1] at h1; cases h1
  exact Prod.ext (by rw [← h2, ← g2]) he

/-- `getExpired`: the entries before the sentry leave both sets and form the batch -/
theorem WFp.take (h : WFp s [] L) (p : Time × Addr → Bool) :
    WFp { s with timers := s.timers.dropWhile p,
                 active := s.active.filter (fun x => ¬ ∃ e ∈ s.timers.takeWhile p, x = (e.2, (cellAt s e.2).seq)) }
      (s.timers.takeWhile p) L := by
  have hsplit : s.timers.takeWhile p ++ s.timers.dropWhile p = s.timers := List.takeWhile_append_dropWhile
  have hT : ∀ {x}, x ∈ s.timers.takeWhile p → x ∈ s.timers := fun hx => (List.takeWhile_sublist p).subset hx
  have hD : ∀ {x}, x ∈ s.timers.dropWhile p → x ∈ s.timers := fun hx => (List.dropWhile_sublist p).subset hx
  have hnd : (s.timers.takeWhile p ++ s.timers.dropWhile p).Nodup := by rw [hsplit]; exact h.timers_nodup
  have hdisj : ∀ {x}, x ∈ s.timers.takeWhile p → x ∈ s.timers.dropWhile p → False :=
    fun hx hy => (List.disjoint_of_nodup_append hnd) hx hy
  refine ⟨?_, ?_, h.sorted.sublist (List.dropWhile_sublist p), h.a_nodup.filter _, ?_, ?_, ?_, h.p_nodup, ?_,
    h.seq_le, h.seq_inj, h.addr_ok, h.no_uaf⟩
  · intro x hx
    obtain ⟨cx, h1, h2, h3⟩ := h.t_live x (hD hx)
    refine ⟨cx, h1, h2, List.mem_filter.2 ⟨h3, ?_⟩⟩
    simp only [decide_eq_true_eq]
    rintro ⟨e, he, heq⟩
    have := h.timers_addr_inj (hD hx) (hT he) (Prod.mk.inj heq).1
    exact hdisj (this ▸ he) hx
  · intro q hq
    obtain ⟨hq1, hq2⟩ := List.mem_filter.1 hq
    simp only [decide_eq_true_eq] at hq2
    obtain ⟨cx, h1, h2, h3⟩ := h.a_live q hq1
    refine ⟨cx, h1, h2, ?_⟩
    rcases List.mem_append.1 (hsplit ▸ h3) with h4 | h4
    · exact absurd ⟨(cx.exp, q.1), h4, Prod.ext rfl (by simp [cellAt, h1, h2])⟩ hq2
    · exact h4
  · intro e he
    obtain ⟨ce, h1, h2, h3⟩ := h.t_live e (hT he)
    refine ⟨⟨ce, h1, h2⟩, ?_⟩
    intro q hq
    obtain ⟨hq1, hq2⟩ := List.mem_filter.1 hq
    simp only [decide_eq_true_eq] at hq2
    obtain ⟨cx, g1, g2, _⟩ := h.a_live _ hq1
    apply hq2
    refine ⟨e, he, Prod.ext rfl ?_⟩
    have g1 : s.heap e.2 = some cx := g1
    simp [cellAt, g1, g2]
  · refine List.Nodup.map_on ?_ (hnd.of_append_left)
    intro x hx y hy hxy
    exact h.timers_addr_inj (hT hx) (hT hy) hxy
  · intro a ha
    obtain ⟨h1, h2, _⟩ := h.p_live a ha
    refine ⟨h1, fun q hq => h2 q (List.mem_filter.1 hq).1, ?_⟩
    intro hm
    obtain ⟨e, he, rfl⟩ := List.mem_map.1 hm
    obtain ⟨ce, _, _, g3⟩ := h.t_live e (hT he)
    exact h2 _ g3
  · intro x cx hx
    rcases h.owned x cx hx with h1 | h1 | h1
    · by_cases hex : ∃ e ∈ s.timers.takeWhile p, (x, cx.seq) = (e.2, (cellAt s e.2).seq)
      · obtain ⟨e, he, heq⟩ := hex
        exact Or.inr (Or.inl (List.mem_map.2 ⟨e, he, (Prod.mk.inj heq).1.symm⟩))
      · exact Or.inl (List.mem_filter.2 ⟨h1, by simpa using hex⟩)
    · simp at h1
    · exact Or.inr (Or.inr h1)


/-! ### the state transformers the engine is made of, and the model functions as compositions of them -/

def allocCell (s : TQ) (a : Addr) (c : Cell) : TQ := { s with heap := hset s.heap a c, numCreated := c.seq }
def eraseT (s : TQ) (a : Addr) (q : Nat) (c : Cell) : TQ :=
  { s with timers := s.timers.filter (fun e => e ≠ (c.exp, a)), active := s.active.filter (fun p => p ≠ (a, q)),
           heap := hfree s.heap a }
def remember (s : TQ) (a : Addr) (q : Nat) : TQ := { s with cancelling := (a, q) :: s.cancelling }
def takeB (s : TQ) (p : Time × Addr → Bool) : TQ :=
  { s with timers := s.timers.dropWhile p,
           active := s.active.filter (fun x => ¬ ∃ e ∈ s.timers.takeWhile p, x = (e.2, (cellAt s e.2).seq)) }
def setCell (s : TQ) (a : Addr) (c : Cell) : TQ := { s with heap := hset s.heap a c }
def freeCell (s : TQ) (a : Addr) : TQ := { s with heap := hfree s.heap a }

theorem isSome_of_eq {h : Addr → Option Cell} {a : Addr} {c : Cell} (hc : h a = some c) : (h a).isSome = true := by
  rw [hc]; rfl

theorem insertTimer_eq {a : Addr} {c : Cell} (hc : s.heap a = some c) :
    insertTimer s a = (ins s a c, decide (insertEarliestChanged s.timers.isEmpty c.exp (firstExp s.timers))) := by
  unfold insertTimer
  simp only [chk_live (isSome_of_eq hc), cellAt_eq hc, ins]

theorem addInLoop_eq {a : Addr} {c : Cell} (hc : s.heap a = some c) :
    addInLoop s a =
      if insertEarliestChanged s.timers.isEmpty c.exp (firstExp s.timers)
      then armFd (ins (emit s (.registered a c.seq c.exp)) a c) c.exp
      else ins (emit s (.registered a c.seq c.exp)) a c := by
  have hc' : (emit s (.registered a c.seq c.exp)).heap a = some c := hc
  unfold addInLoop
  simp only [chk_live (isSome_of_eq hc), cellAt_eq hc, insertTimer_eq hc', addRearms, decide_eq_true_eq]
  have hc'' : (ins (emit s (.registered a c.seq c.exp)) a c).heap a = some c := hc
  simp only [chk_live (isSome_of_eq hc''), cellAt_eq hc'']
  rfl

theorem cancelInLoop_eq (id : TimerId) (hl : (id.addr, id.seq) ∈ s.active → (s.heap id.addr).isSome) :
    cancelInLoop s id =
      if (id.addr, id.seq) ∈ s.active then eraseT (emit s (.cancel id.addr id.seq s.calling (decide ((id.addr, id.seq) ∈ s.active)))) id.addr id.seq (cellAt s id.addr)
      else if s.calling = true then remember (emit s (.cancel id.addr id.seq s.calling (decide ((id.addr, id.seq) ∈ s.active)))) id.addr id.seq
      else emit s (.cancel id.addr id.seq s.calling (decide ((id.addr, id.seq) ∈ s.active))) := by
  unfold cancelInLoop
  by_cases hm : (id.addr, id.seq) ∈ s.active
  · have hl' : ((emit s (.cancel id.addr id.seq s.calling (decide ((id.addr, id.seq) ∈ s.active)))).heap id.addr).isSome := hl hm
    have hm' : (id.addr, id.seq) ∈ (emit s (.cancel id.addr id.seq s.calling (decide ((id.addr, id.seq) ∈ s.active)))).active := hm
    simp only [cancelErases, hm', decide_true, if_true, chk_live hl', if_pos hm]
    rfl
  · have hm' : (id.addr, id.seq) ∉ (emit s (.cancel id.addr id.seq s.calling (decide ((id.addr, id.seq) ∈ s.active)))).active := hm
    simp only [cancelErases, cancelRemembers, hm', decide_false, if_false, Bool.false_eq_true, not_false_eq_true,
      true_and, if_neg hm]
    rfl


/-- `s'` differs from `s` only in what the environment supplies / what was consumed of it -/
structure Frame (s s' : TQ) : Prop where
  heap : s'.heap = s.heap
  timers : s'.timers = s.timers
  active : s'.active = s.active
  numCreated : s'.numCreated = s.numCreated
  calling : s'.calling = s.calling
  cancelling : s'.cancelling = s.cancelling
  alarm : s'.alarm = s.alarm
  readable : s'.readable = s.readable
  armedAt : s'.armedAt = s.armedAt
  pending : s'.pending = s.pending
  running : s'.running = s.running
  vars : s'.vars = s.vars
  scripts : s'.scripts = s.scripts
  parked : s'.parked = s.parked
  trace : s'.trace = s.trace

theorem Frame.refl (s : TQ) : Frame s s := ⟨rfl, rfl, rfl, rfl, rfl, rfl, rfl, rfl, rfl, rfl, rfl, rfl, rfl, rfl, rfl⟩
theorem Frame.trans {s s' s'' : TQ} (h : Frame s s') (h' : Frame s' s'') : Frame s s'' :=
  ⟨h'.heap.trans h.heap, h'.timers.trans h.timers, h'.active.trans h.active, h'.numCreated.trans h.numCreated,
   h'.calling.trans h.calling, h'.cancelling.trans h.cancelling, h'.alarm.trans h.alarm, h'.readable.trans h.readable,
   h'.armedAt.trans h.armedAt, h'.pending.trans h.pending, h'.running.trans h.running, h'.vars.trans h.vars,
   h'.scripts.trans h.scripts, h'.parked.trans h.parked, h'.trace.trans h.trace⟩

theorem readNow_frame (s : TQ) : Frame s (readNow s).2 := by
  unfold readNow; split <;> exact ⟨rfl, rfl, rfl, rfl, rfl, rfl, rfl, rfl, rfl, rfl, rfl, rfl, rfl, rfl, rfl⟩

theorem deadlineOf_frame (s : TQ) (m : Mode) : Frame s (deadlineOf s m).2 := by
  cases m <;> simp only [deadlineOf]
  · exact Frame.refl s
  · exact readNow_frame s
  · exact readNow_frame s

theorem allocTimer_spec (s : TQ) (name : Nat) (m : Mode) :
    (∃ s', allocTimer s name m = (none, s') ∧ Frame s s') ∨
    (∃ s1 a c, Frame s s1 ∧ s1.heap a = none ∧ (0 < a ∧ a < sentinelAddr) ∧ c.seq = s1.numCreated + 1 ∧ c.runs = 0 ∧
      c.exp = c.first ∧ c.name = name ∧ allocTimer s name m = (some a, allocCell s1 a c)) := by
  unfold allocTimer
  split
  · exact Or.inl ⟨s, rfl, Frame.refl s⟩
  · have hf : Frame s (deadlineOf { s with started := name :: s.started } m).2 :=
      Frame.trans (s' := { s with started := name :: s.started })
        ⟨rfl, rfl, rfl, rfl, rfl, rfl, rfl, rfl, rfl, rfl, rfl, rfl, rfl, rfl, rfl⟩ (deadlineOf_frame _ m)
    simp only []
    split
    · exact Or.inl ⟨_, rfl, Frame.trans hf ⟨rfl, rfl, rfl, rfl, rfl, rfl, rfl, rfl, rfl, rfl, rfl, rfl, rfl, rfl, rfl⟩⟩
    · rename_i a rest hadd
      split
      · exact Or.inl ⟨_, rfl, Frame.trans hf ⟨rfl, rfl, rfl, rfl, rfl, rfl, rfl, rfl, rfl, rfl, rfl, rfl, rfl, rfl, rfl⟩⟩
      · rename_i hok
        simp only [not_or, not_not, Bool.not_eq_true, Option.isSome_eq_false_iff, Option.isNone_iff_eq_none] at hok
        exact Or.inr ⟨{ (deadlineOf { s with started := name :: s.started } m).2 with addrs := rest }, a,
          ⟨nextSequence (deadlineOf { s with started := name :: s.started } m).2.numCreated,
            (deadlineOf { s with started := name :: s.started } m).1.1,
            (deadlineOf { s with started := name :: s.started } m).1.2.1,
            (deadlineOf { s with started := name :: s.started } m).1.2.2, name,
            (deadlineOf { s with started := name :: s.started } m).1.1, 0⟩,
          Frame.trans hf ⟨rfl, rfl, rfl, rfl, rfl, rfl, rfl, rfl, rfl, rfl, rfl, rfl, rfl, rfl, rfl⟩, hok.1,
          ⟨Nat.pos_of_ne_zero hok.2.1, hok.2.2⟩, rfl, rfl, rfl, rfl, rfl⟩


/-! ### small transformers: what they leave alone -/

theorem readNow_fst_mem (s : TQ) : (readNow s).1 = (readNow s).2.clock := by
  unfold readNow; split <;> rfl

@[simp] theorem armFd_heap (s : TQ) (w : Time) : (armFd s w).heap = s.heap := (readNow_frame s).heap
@[simp] theorem armFd_timers (s : TQ) (w : Time) : (armFd s w).timers = s.timers := (readNow_frame s).timers
@[simp] theorem armFd_active (s : TQ) (w : Time) : (armFd s w).active = s.active := (readNow_frame s).active
@[simp] theorem armFd_numCreated (s : TQ) (w : Time) : (armFd s w).numCreated = s.numCreated := (readNow_frame s).numCreated
@[simp] theorem armFd_calling (s : TQ) (w : Time) : (armFd s w).calling = s.calling := (readNow_frame s).calling
@[simp] theorem armFd_cancelling (s : TQ) (w : Time) : (armFd s w).cancelling = s.cancelling := (readNow_frame s).cancelling
@[simp] theorem armFd_pending (s : TQ) (w : Time) : (armFd s w).pending = s.pending := (readNow_frame s).pending
@[simp] theorem armFd_running (s : TQ) (w : Time) : (armFd s w).running = s.running := (readNow_frame s).running
@[simp] theorem armFd_vars (s : TQ) (w : Time) : (armFd s w).vars = s.vars := (readNow_frame s).vars
@[simp] theorem armFd_scripts (s : TQ) (w : Time) : (armFd s w).scripts = s.scripts := (readNow_frame s).scripts
@[simp] theorem armFd_parked (s : TQ) (w : Time) : (armFd s w).parked = s.parked := (readNow_frame s).parked
theorem armFd_trace (s : TQ) (w : Time) :
    (armFd s w).trace = .arm ((howMuchTimeFromNow w (readNow s).1).1 * 1000000000 + (howMuchTimeFromNow w (readNow s).1).2)
      (readNow s).1 :: s.trace := by
  show _ :: (readNow s).2.trace = _
  rw [(readNow_frame s).trace]
  rfl

theorem WFp.emit (h : WFp s B L) (e : Ev) (he : ∀ a, e ≠ .uaf a) : WFp (emit s e) B L :=
  h.congr rfl rfl rfl rfl (by
    intro a hm
    rcases List.mem_cons.1 hm with h1 | h1
    · exact he a h1.symm
    · exact h.no_uaf a h1)

theorem WFp.frame {s' : TQ} (h : WFp s B L) (f : Frame s s') : WFp s' B L :=
  h.congr f.heap f.timers f.active f.numCreated (by rw [f.trace]; exact h.no_uaf)

theorem WFp.armFd (h : WFp s B L) (w : Time) : WFp (armFd s w) B L :=
  h.congr (armFd_heap s w) (armFd_timers s w) (armFd_active s w) (armFd_numCreated s w) (by
    rw [armFd_trace]
    intro a hm
    rcases List.mem_cons.1 hm with h1 | h1
    · cases h1
    · exact h.no_uaf a h1)

theorem WFp.bindId (h : WFp s B L) (name : Nat) (a : Addr) (q : Nat) : WFp (bindId s name a q) B L :=
  WFp.emit (s := { s with vars := (name, ⟨a, q⟩) :: s.vars }) (h.congr rfl rfl rfl rfl h.no_uaf) _ (by intro x; simp)

/-! ### the model functions preserve `WFp` -/

theorem WFp.addInLoop {a : Addr} {c : Cell} (h : WFp s B (a :: L)) (hc : s.heap a = some c) : WFp (addInLoop s a) B L := by
  rw [addInLoop_eq hc]
  have h1 : WFp (Timer.ins (Timer.emit s (.registered a c.seq c.exp)) a c) B L :=
    WFp.ins (h.emit _ (by intro x; simp)) hc
  split
  · exact h1.armFd _
  · exact h1

theorem WFp.cancelInLoop (h : WFp s B L) (id : TimerId) : WFp (cancelInLoop s id) B L := by
  have hl : (id.addr, id.seq) ∈ s.active → (s.heap id.addr).isSome := by
    intro hm
    obtain ⟨c, h1, _⟩ := h.a_live _ hm
    exact isSome_of_eq h1
  rw [cancelInLoop_eq id hl]
  have he : WFp (Timer.emit s (.cancel id.addr id.seq s.calling (decide ((id.addr, id.seq) ∈ s.active)))) B L := h.emit _ (by intro x; simp)
  split
  · rename_i hm
    obtain ⟨c, h1, _⟩ := h.a_live _ hm
    rw [cellAt_eq h1]
    exact he.erase hm h1
  · split
    · exact he.congr rfl rfl rfl rfl he.no_uaf
    · exact he

theorem addL_spec (s : TQ) (name : Nat) (m : Mode) :
    Frame s (addL s name m) ∨
    (∃ s1 a c, Frame s s1 ∧ s1.heap a = none ∧ (0 < a ∧ a < sentinelAddr) ∧ c.seq = s1.numCreated + 1 ∧ c.runs = 0 ∧
      c.exp = c.first ∧ c.name = name ∧ addL s name m = bindId (addInLoop (allocCell s1 a c) a) name a c.seq) := by
  rcases allocTimer_spec s name m with ⟨s', h1, h2⟩ | ⟨s1, a, c, h1, h2, h3, h4, h5, h6, h7, h8⟩
  · left; unfold addL; rw [h1]; exact h2
  · right
    refine ⟨s1, a, c, h1, h2, h3, h4, h5, h6, h7, ?_⟩
    unfold addL; rw [h8]
    simp [addTimerDerefsAfterHandOver, cellAt, allocCell, hset_same]

theorem allocCell_heap (s : TQ) (a : Addr) (c : Cell) : (allocCell s a c).heap a = some c := hset_same _ _ _

theorem WFp.addL (h : WFp s B L) (name : Nat) (m : Mode) : WFp (addL s name m) B L := by
  rcases addL_spec s name m with hf | ⟨s1, a, c, h1, h2, h3, h4, h5, h6, h7, h8⟩
  · exact h.frame hf
  · rw [h8]
    exact (((h.frame h1).alloc h2 h3 h4).addInLoop (allocCell_heap s1 a c)).bindId _ _ _

theorem WFp.execAct (h : WFp s B L) (act : Act) : WFp (execAct s act) B L := by
  cases act with
  | add name m => exact h.addL name m
  | cancel v => exact h.cancelInLoop _

theorem foldl_inv {α β : Type} (P : α → Prop) (f : α → β → α) (l : List β) (a : α) (h0 : P a)
    (hstep : ∀ a b, b ∈ l → P a → P (f a b)) : P (l.foldl f a) := by
  induction l generalizing a with
  | nil => exact h0
  | cons x xs ih =>
    exact ih (f a x) (hstep a x List.mem_cons_self h0) (fun a b hb => hstep a b (List.mem_cons_of_mem _ hb))

theorem runTimer_eq {now : Time} {e : Time × Addr} {c : Cell} (hc : s.heap e.2 = some c) :
    runTimer now s e = (scriptFor s.scripts c.name (c.runs + 1)).foldl execAct
      (emit s (.run c.name c.seq (c.runs + 1) e.2 c.rep c.first c.delta e.1 now s.clock)) := by
  unfold runTimer
  simp only [chk_live (isSome_of_eq hc), cellAt_eq hc]
  rfl

theorem WFp.runTimer (h : WFp s B L) (now : Time) {e : Time × Addr} (he : e ∈ B) : WFp (runTimer now s e) B L := by
  obtain ⟨⟨c, hc, _⟩, _⟩ := h.b_live e he
  rw [runTimer_eq hc]
  exact foldl_inv (fun s => WFp s B L) _ _ _ (h.emit _ (by intro x; simp)) (fun s act _ hs => hs.execAct act)


theorem foldl_chk_live (l : List (Time × Addr)) (s : TQ) (h : ∀ e ∈ l, (s.heap e.2).isSome) :
    l.foldl (fun s e => chk s e.2) s = s := by
  induction l with
  | nil => rfl
  | cons x xs ih =>
    rw [List.foldl_cons, chk_live (h x List.mem_cons_self)]
    exact ih (fun e he => h e (List.mem_cons_of_mem _ he))

theorem getExpired_eq (h : WFp s B L) (now : Time) :
    getExpired s now = (s.timers.takeWhile (isExpired now), takeB s (isExpired now)) := by
  unfold getExpired
  simp only []
  rw [foldl_chk_live]
  · rfl
  · intro e he
    obtain ⟨c, h1, _⟩ := h.t_live e ((List.takeWhile_sublist _).subset he)
    exact isSome_of_eq h1

/-- the cell of a repeating timer after `restart(now)` -/
def restarted (c : Cell) (now : Time) : Cell := { c with exp := restart c.rep now c.delta, runs := c.runs + 1 }

theorem resetOne_eq {now : Time} {e : Time × Addr} {c : Cell} (hc : s.heap e.2 = some c) :
    resetOne now s e =
      if resetRestarts c.rep (decide ((e.2, c.seq) ∈ s.cancelling))
      then ins (emit (setCell s e.2 (restarted c now)) (.restarted e.2 c.seq (restarted c now).exp)) e.2 (restarted c now)
      else freeCell s e.2 := by
  unfold resetOne
  simp only [chk_live (isSome_of_eq hc), cellAt_eq hc]
  split
  · have : (emit { s with heap := hset s.heap e.2 { c with exp := restart c.rep now c.delta, runs := c.runs + 1 } }
        (.restarted e.2 c.seq (restart c.rep now c.delta))).heap e.2 = some (restarted c now) := hset_same _ _ _
    rw [insertTimer_eq this]
    rfl
  · rfl

theorem WFp.resetOne {e : Time × Addr} (h : WFp s (e :: B) L) (now : Time) : WFp (resetOne now s e) B L := by
  obtain ⟨⟨c, hc, _⟩, _⟩ := h.b_live e List.mem_cons_self
  rw [resetOne_eq hc]
  split
  · exact WFp.ins ((h.b_to_l (c' := restarted c now) hc rfl).emit _ (by intro x; simp)) (hset_same _ _ _)
  · exact h.drop

theorem WFp.resetFold (now : Time) (l : List (Time × Addr)) (s : TQ) (h : WFp s l L) :
    WFp (l.foldl (Timer.resetOne now) s) [] L := by
  induction l generalizing s with
  | nil => exact h
  | cons x xs ih => exact ih _ (h.resetOne now)

theorem rearm_eq (h : WFp s B L) :
    rearm s = match s.timers with
      | [] => s
      | e :: _ => if 0 < e.1 then armFd s e.1 else s := by
  unfold rearm
  cases ht : s.timers with
  | nil => simp [resetHasNext, resetRearms, timestampValid, timestampInvalid]
  | cons e r =>
    obtain ⟨c, h1, h2, _⟩ := h.t_live e (by rw [ht]; exact List.mem_cons_self)
    simp only [resetHasNext, List.isEmpty_cons, Bool.false_eq_true, not_false_eq_true, if_true, resetRearms,
      timestampValid, chk_live (isSome_of_eq h1), cellAt_eq h1, h2]

theorem WFp.rearm (h : WFp s B L) : WFp (rearm s) B L := by
  rw [rearm_eq h]
  split
  · exact h
  · split
    · exact h.armFd _
    · exact h

theorem WFp.handleRead (h : WFp s [] L) : WFp (Timer.handleRead s) [] L := by
  unfold Timer.handleRead
  simp only []
  have h0 : WFp { (readNow s).2 with readable := false } [] L :=
    (h.frame (readNow_frame s)).congr rfl rfl rfl rfl (h.frame (readNow_frame s)).no_uaf
  rw [getExpired_eq h0]
  simp only []
  have h1 := h0.take (isExpired (readNow s).1)
  have h2 : WFp { takeB { (readNow s).2 with readable := false } (isExpired (readNow s).1) with
      calling := true, cancelling := [] } _ L := h1.congr rfl rfl rfl rfl h1.no_uaf
  have h3 := foldl_inv (fun s' => WFp s' (List.takeWhile (isExpired (readNow s).1) (readNow s).2.timers) L) (Timer.runTimer (readNow s).1)
    _ _ h2 (fun s' e he hs => hs.runTimer _ he)
  refine WFp.rearm (WFp.resetFold _ _ _ ?_)
  exact h3.congr rfl rfl rfl rfl h3.no_uaf


/-! ### what the functions that run on the loop thread leave alone (no hypotheses) -/

/-- what a `run` event records (all but the clock) -/
structure RunRec where
  name : Nat
  seq : Nat
  k : Nat
  addr : Addr
  rep : Bool
  first : Time
  delta : Int
  exp : Time
  now : Time
deriving DecidableEq, Repr

def runRec : Ev → Option RunRec
  | .run name seq k addr rep first delta exp now _ => some ⟨name, seq, k, addr, rep, first, delta, exp, now⟩
  | _ => none

/-- the callback runs a trace records, newest first -/
def runRecs (t : List Ev) : List RunRec := t.filterMap runRec

theorem runRecs_cons (e : Ev) (t : List Ev) : runRecs (e :: t) = (runRec e).toList ++ runRecs t := by
  unfold runRecs; rw [List.filterMap_cons]; cases runRec e <;> rfl

/-- `s'` is a later state reached without queueing anything: same functor queues, same batch flag, the trace only grew -/
structure ExtW (s s' : TQ) : Prop where
  pending : s'.pending = s.pending
  running : s'.running = s.running
  calling : s'.calling = s.calling
  scripts : s'.scripts = s.scripts
  parked : s'.parked = s.parked
  trace : s.trace <:+ s'.trace
  numCreated : s.numCreated ≤ s'.numCreated

/-- ... and without running a callback -/
structure Ext (s s' : TQ) : Prop extends ExtW s s' where
  runs : runRecs s'.trace = runRecs s.trace

theorem ExtW.refl (s : TQ) : ExtW s s := ⟨rfl, rfl, rfl, rfl, rfl, List.suffix_refl _, Nat.le_refl _⟩
theorem ExtW.trans {s s' s'' : TQ} (h : ExtW s s') (h' : ExtW s' s'') : ExtW s s'' :=
  ⟨h'.pending.trans h.pending, h'.running.trans h.running, h'.calling.trans h.calling, h'.scripts.trans h.scripts,
   h'.parked.trans h.parked, h.trace.trans h'.trace, Nat.le_trans h.numCreated h'.numCreated⟩
theorem Ext.refl (s : TQ) : Ext s s := ⟨ExtW.refl s, rfl⟩
theorem Ext.trans {s s' s'' : TQ} (h : Ext s s') (h' : Ext s' s'') : Ext s s'' :=
  ⟨h.toExtW.trans h'.toExtW, h'.runs.trans h.runs⟩
/-- same but for the fields named -/
theorem Ext.same {s s' : TQ} (h1 : s'.pending = s.pending) (h2 : s'.running = s.running) (h3 : s'.calling = s.calling)
    (h4 : s'.scripts = s.scripts) (h5 : s'.parked = s.parked) (h6 : s'.trace = s.trace)
    (h7 : s'.numCreated = s.numCreated) : Ext s s' :=
  ⟨⟨h1, h2, h3, h4, h5, by rw [h6]; exact List.suffix_refl _, by rw [h7]⟩, by rw [h6]⟩
theorem Frame.ext {s s' : TQ} (h : Frame s s') : Ext s s' :=
  Ext.same h.pending h.running h.calling h.scripts h.parked h.trace h.numCreated

theorem emit_ext (s : TQ) (e : Ev) (he : runRec e = none) : Ext s (emit s e) :=
  ⟨⟨rfl, rfl, rfl, rfl, rfl, List.suffix_cons _ _, Nat.le_refl _⟩, by
    show runRecs (e :: s.trace) = _; rw [runRecs_cons, he]; rfl⟩
theorem emit_extW (s : TQ) (e : Ev) : ExtW s (emit s e) := ⟨rfl, rfl, rfl, rfl, rfl, List.suffix_cons _ _, Nat.le_refl _⟩
theorem chk_ext (s : TQ) (a : Addr) : Ext s (chk s a) := by
  unfold chk; split
  · exact Ext.refl s
  · exact emit_ext s _ rfl
theorem armFd_ext (s : TQ) (w : Time) : Ext s (armFd s w) :=
  ⟨⟨armFd_pending s w, armFd_running s w, armFd_calling s w, armFd_scripts s w, armFd_parked s w,
   by rw [armFd_trace]; exact List.suffix_cons _ _, by rw [armFd_numCreated]⟩, by
    rw [armFd_trace, runRecs_cons]; rfl⟩
theorem insertTimer_ext (s : TQ) (a : Addr) : Ext s (insertTimer s a).1 :=
  (chk_ext s a).trans (Ext.same rfl rfl rfl rfl rfl rfl rfl)
theorem addInLoop_ext (s : TQ) (a : Addr) : Ext s (addInLoop s a) := by
  unfold addInLoop
  have h1 := ((chk_ext s a).trans (emit_ext _ (.registered a (cellAt s a).seq (cellAt s a).exp) rfl)).trans
    (insertTimer_ext _ a)
  simp only []
  split
  · exact h1.trans ((chk_ext _ a).trans (armFd_ext _ _))
  · exact h1
theorem cancelInLoop_ext (s : TQ) (id : TimerId) : Ext s (cancelInLoop s id) := by
  unfold cancelInLoop
  simp only []
  split
  · exact ((emit_ext s _ rfl).trans (chk_ext _ _)).trans (Ext.same rfl rfl rfl rfl rfl rfl rfl)
  · split
    · exact (emit_ext s _ rfl).trans (Ext.same rfl rfl rfl rfl rfl rfl rfl)
    · exact emit_ext s _ rfl
theorem bindId_ext (s : TQ) (name : Nat) (a : Addr) (q : Nat) : Ext s (bindId s name a q) :=
  Ext.trans (s' := { s with vars := (name, ⟨a, q⟩) :: s.vars }) (Ext.same rfl rfl rfl rfl rfl rfl rfl)
    (emit_ext _ _ rfl)
theorem addL_ext (s : TQ) (name : Nat) (m : Mode) : Ext s (addL s name m) := by
  rcases addL_spec s name m with hf | ⟨s1, a, c, h1, _, _, h4, _, _, _, h8⟩
  · exact hf.ext
  · rw [h8]
    refine h1.ext.trans (Ext.trans (s' := allocCell s1 a c) ?_ ((addInLoop_ext _ a).trans (bindId_ext _ _ _ _)))
    exact ⟨⟨rfl, rfl, rfl, rfl, rfl, List.suffix_refl _, by show s1.numCreated ≤ c.seq; omega⟩, rfl⟩
theorem execAct_ext (s : TQ) (act : Act) : Ext s (execAct s act) := by
  cases act with
  | add name m => exact addL_ext s name m
  | cancel v => exact cancelInLoop_ext s _
theorem foldl_ext {β : Type} (f : TQ → β → TQ) (hf : ∀ s b, Ext s (f s b)) (l : List β) (s : TQ) : Ext s (l.foldl f s) := by
  induction l generalizing s with
  | nil => exact Ext.refl s
  | cons x xs ih => exact (hf s x).trans (ih _)
theorem foldl_extW {β : Type} (f : TQ → β → TQ) (hf : ∀ s b, ExtW s (f s b)) (l : List β) (s : TQ) :
    ExtW s (l.foldl f s) := by
  induction l generalizing s with
  | nil => exact ExtW.refl s
  | cons x xs ih => exact (hf s x).trans (ih _)
theorem runTimer_extW (now : Time) (s : TQ) (e : Time × Addr) : ExtW s (runTimer now s e) := by
  unfold runTimer
  exact ((chk_ext s e.2).toExtW.trans (emit_extW _ _)).trans (foldl_ext _ execAct_ext _ _).toExtW
theorem resetOne_ext (now : Time) (s : TQ) (e : Time × Addr) : Ext s (resetOne now s e) := by
  unfold resetOne
  simp only []
  split
  · refine (chk_ext s e.2).trans (Ext.trans ?_ (insertTimer_ext _ _))
    exact Ext.trans (s' := { chk s e.2 with heap := hset (chk s e.2).heap e.2 _ })
      (Ext.same rfl rfl rfl rfl rfl rfl rfl) (emit_ext _ _ rfl)
  · exact (chk_ext s e.2).trans (Ext.same rfl rfl rfl rfl rfl rfl rfl)
theorem rearm_ext (s : TQ) : Ext s (rearm s) := by
  unfold rearm
  have hr : ∀ r : Time × TQ, Ext s r.2 → Ext s (if resetRearms r.1 then armFd r.2 r.1 else r.2) := by
    intro r h; split
    · exact h.trans (armFd_ext _ _)
    · exact h
  apply hr
  split
  · split
    · exact chk_ext s _
    · exact Ext.refl s
  · exact Ext.refl s
theorem getExpired_ext (s : TQ) (now : Time) : Ext s (getExpired s now).2 := by
  unfold getExpired
  simp only []
  exact (foldl_ext _ (fun (s : TQ) (e : Time × Addr) => chk_ext s e.2) _ _).trans (Ext.same rfl rfl rfl rfl rfl rfl rfl)
theorem reset_ext (s : TQ) (l : List (Time × Addr)) (now : Time) : Ext s (reset s l now) := by
  unfold reset
  exact (foldl_ext _ (resetOne_ext now) _ _).trans (rearm_ext _)

/-- `handleRead` (the batch flag is cleared at the end) -/
theorem handleRead_extW (s : TQ) (hc : s.calling = false) : ExtW s (handleRead s) := by
  unfold handleRead
  simp only []
  have h1 : Ext s { (readNow s).2 with readable := false } :=
    (readNow_frame s).ext.trans (Ext.same rfl rfl rfl rfl rfl rfl rfl)
  have h2 := (h1.trans (getExpired_ext _ (readNow s).1)).toExtW
  generalize (getExpired { (readNow s).2 with readable := false } (readNow s).1) = g at h2
  have h3 := foldl_extW _ (runTimer_extW (readNow s).1) g.1 { g.2 with calling := true, cancelling := [] }
  generalize List.foldl (runTimer (readNow s).1) { g.2 with calling := true, cancelling := [] } g.1 = s3 at h3
  have h4 : ExtW s { s3 with calling := false } :=
    ⟨by show s3.pending = _; rw [h3.pending]; exact h2.pending, by show s3.running = _; rw [h3.running]; exact h2.running,
     hc.symm, by show s3.scripts = _; rw [h3.scripts]; exact h2.scripts,
     by show s3.parked = _; rw [h3.parked]; exact h2.parked,
     h2.trace.trans h3.trace, Nat.le_trans h2.numCreated h3.numCreated⟩
  exact h4.trans (reset_ext _ _ _).toExtW

end MuduoVerif.Timer
