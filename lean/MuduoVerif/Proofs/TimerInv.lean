import MuduoVerif.Proofs.Timer
/-! The structural invariant of the timer engine (`WF`): `timers_` and `activeTimers_` hold the same timers,
every `Timer*` the queue can still reach is live, sequence numbers are bounded by `s_numCreated_`, and no step so far
dereferenced a freed `Timer`.  `B` is the expiry batch `handleRead` is working on (empty outside). -/
namespace MuduoVerif.Timer
open MuduoVerif.Gen.Timer

def addsOf : List Functor → List Addr
  | [] => []
  | .add a :: r => a :: addsOf r
  | .cancel _ :: r => addsOf r
  | .marker _ :: r => addsOf r

theorem addsOf_append (l r : List Functor) : addsOf (l ++ r) = addsOf l ++ addsOf r := by
  induction l with
  | nil => rfl
  | cons f l ih => cases f <;> simp [addsOf, ih]

/-- timers handed to the loop (`queueInLoop`) whose `addTimerInLoop` has not run yet -/
def limbo (s : TQ) : List Addr := addsOf (s.running ++ s.pending)

structure WF (s : TQ) (B : List (Time × Addr)) : Prop where
  t_live : ∀ e ∈ s.timers, ∃ c, s.heap e.2 = some c ∧ c.exp = e.1 ∧ (e.2, c.seq) ∈ s.active
  a_live : ∀ p ∈ s.active, ∃ c, s.heap p.1 = some c ∧ c.seq = p.2 ∧ (c.exp, p.1) ∈ s.timers
  sorted : s.timers.Pairwise entryLt
  b_live : ∀ e ∈ B, (s.heap e.2).isSome ∧ ∀ q, (e.2, q) ∉ s.active
  b_nodup : (B.map (·.2)).Nodup
  p_live : ∀ a ∈ limbo s, (s.heap a).isSome ∧ (∀ q, (a, q) ∉ s.active) ∧ a ∉ B.map (·.2)
  p_nodup : (limbo s).Nodup
  seq_le : ∀ a c, s.heap a = some c → c.seq ≤ s.numCreated
  no_uaf : ∀ a, Ev.uaf a ∉ s.trace

theorem WF.congr {s s' : TQ} {B : List (Time × Addr)} (h : WF s B) (hh : s'.heap = s.heap)
    (ht : s'.timers = s.timers) (ha : s'.active = s.active) (hn : s'.numCreated = s.numCreated)
    (hr : s'.running = s.running) (hp : s'.pending = s.pending) (hu : ∀ a, Ev.uaf a ∉ s'.trace) : WF s' B := by
  have hl : limbo s' = limbo s := by simp [limbo, hr, hp]
  exact ⟨by simpa [hh, ht, ha] using h.t_live, by simpa [hh, ht, ha] using h.a_live, by simpa [ht] using h.sorted,
    by simpa [hh, ha] using h.b_live, h.b_nodup, by simpa [hl, hh, ha] using h.p_live, by simpa [hl] using h.p_nodup,
    by simpa [hh, hn] using h.seq_le, hu⟩

/-! ### small facts -/

theorem chk_live {s : TQ} {a : Addr} (h : (s.heap a).isSome) : chk s a = s := by simp [chk, h]

theorem cellAt_eq {s : TQ} {a : Addr} {c : Cell} (h : s.heap a = some c) : cellAt s a = c := by simp [cellAt, h]

theorem mem_insEntry {e x : Time × Addr} {l : List (Time × Addr)} : x ∈ insEntry e l ↔ x = e ∨ x ∈ l := by
  induction l with
  | nil => simp [insEntry]
  | cons y ys ih =>
    unfold insEntry
    split
    · simp
    · simp [ih]; tauto

theorem entryLt_trans {a b c : Int × Nat} (h1 : entryLt a b) (h2 : entryLt b c) : entryLt a c := by
  obtain ⟨a1, a2⟩ := a; obtain ⟨b1, b2⟩ := b; obtain ⟨c1, c2⟩ := c
  simp only [entryLt] at *
  dsimp only at *
  omega

theorem entryLt_total {a b : Int × Nat} (h : ¬ entryLt a b) (hne : a ≠ b) : entryLt b a := by
  obtain ⟨a1, a2⟩ := a; obtain ⟨b1, b2⟩ := b
  simp only [entryLt] at *
  dsimp only at *
  have : ¬ (a1 = b1 ∧ a2 = b2) := by
    rintro ⟨rfl, rfl⟩; exact hne rfl
  omega

theorem entryLt_irrefl (a : Int × Nat) : ¬ entryLt a a := by
  obtain ⟨a1, a2⟩ := a
  simp only [entryLt]; dsimp only; omega

theorem pairwise_insEntry {e : Time × Addr} {l : List (Time × Addr)} (h : l.Pairwise entryLt)
    (hne : ∀ x ∈ l, x ≠ e) : (insEntry e l).Pairwise entryLt := by
  induction l with
  | nil => simp [insEntry]
  | cons y ys ih =>
    unfold insEntry
    rw [List.pairwise_cons] at h
    split
    · rename_i hlt
      refine List.pairwise_cons.2 ⟨?_, List.pairwise_cons.2 h⟩
      intro x hx
      rcases List.mem_cons.1 hx with rfl | hx
      · exact hlt
      · exact entryLt_trans hlt (h.1 x hx)
    · rename_i hlt
      refine List.pairwise_cons.2 ⟨?_, ih h.2 (fun x hx => hne x (List.mem_cons_of_mem _ hx))⟩
      intro x hx
      rcases mem_insEntry.1 hx with rfl | hx
      · exact entryLt_total hlt (fun h' => hne y (List.mem_cons_self) h'.symm)
      · exact h.1 x hx

end MuduoVerif.Timer
