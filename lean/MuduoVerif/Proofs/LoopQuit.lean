import MuduoVerif.Proofs.LoopBase
/-!
# `quit_not_lost`, `quit_in_callback` (C05): the ties of C05 to the generated definitions and the quit invariant
-/
set_option linter.unnecessarySimpa false
namespace MuduoVerif.Loop
open MuduoVerif.Gen.Loop

/-! ## the T1 tie: what the C05 proofs need from the generated definitions -/

theorem quitWakes_foreign : quitWakes false := by unfold quitWakes; simp
theorem quitWakes_loop : ¬ quitWakes true := by unfold quitWakes; simp
theorem quitResetAtEntry_tie : quitResetAtEntry = false := rfl
theorem quitResetAtExit_tie : quitResetAtExit = true := rfl
theorem dtorLocks_tie : dtorLocks = true := rfl
theorem dtorJoinsIfStarted_tie : dtorJoinsIfStarted = true := rfl
theorem publishNotifies_tie : publishNotifies = true := rfl
theorem clearLocks_tie : clearLocks = true := rfl
theorem startWaitsWhile_tie : startWaitsWhile = true := rfl
theorem finishSets_tie : finishSets = true := rfl
theorem finishNotifies_tie : finishNotifies = true := rfl
theorem startChecksFinished_tie : startChecksFinished = true := rfl
/-- the parts of the code's shape that the model of quit / EventLoopThread takes for granted -/
theorem shape_tie_quit : quitStoresFirst = true ∧ whileTestsQuit = true ∧ publishLocks = true := ⟨rfl, rfl, rfl⟩

/-- bring the ties into the context of a case analysis -/
macro "qties" : tactic => `(tactic| (
  have := quitResetAtEntry_tie; have := quitResetAtExit_tie
  have := dtorLocks_tie; have := dtorJoinsIfStarted_tie
  have := publishNotifies_tie; have := clearLocks_tie; have := startWaitsWhile_tie
  have := finishSets_tie; have := finishNotifies_tie; have := startChecksFinished_tie
  have := quitWakes_foreign; have := quitWakes_loop))

/-! ## the invariant -/

structure QuitInv (s : St) : Prop where
  kept : s.qreq = true → s.quit = true ∨ exited s.phase = true
  woken : s.phase = .polling → s.quit = true →
    0 < s.ev ∨ inflightF s.thr s.L .quitStored ∨ inflightF s.thr s.L .dStored
  selfq : s.selfQuit = true → s.qreq = true
  selfNoPoll : s.selfQuit = true → s.phase ≠ .polling
  quitReq : s.quit = true → s.qreq = true
  goneReq : s.phase = .atExit ∨ s.final = true ∨ exited s.phase = true → s.qreq = true

theorem runTop_quit {s : St} (h : QuitInv s) (ht : taskPhase s.phase = true) : QuitInv (runTop s) := by
  obtain ⟨h1, h2, h3, h4, h5, h6⟩ := h
  have hp : s.phase ≠ .polling := by intro hh; simp [hh, taskPhase] at ht
  unfold runTop
  repeat' split
  all_goals (refine ⟨?_, ?_, ?_, ?_, ?_, ?_⟩ <;> simp_all)

theorem stepLoop_quit {s : St} (h : QuitInv s) : QuitInv (stepLoop s) := by
  have hr := runTop_quit h
  obtain ⟨h1, h2, h3, h4, h5, h6⟩ := h
  qties
  loop_cases
  all_goals (first
    | exact hr (by simp [*, taskPhase])
    | (refine ⟨?_, ?_, ?_, ?_, ?_, ?_⟩ <;> simp_all [exited, St.L]))
theorem stepOther_quit {s : St} (k : Nat) (hk : k ≠ s.L) (h : QuitInv s) : QuitInv (stepOther s k) := by
  obtain ⟨h1, h2, h3, h4, h5, h6⟩ := h
  qties
  other_cases
  all_goals refine ⟨?_, ?_, ?_, ?_, ?_, ?_⟩
  all_goals (try (simp_all [exited, St.L]; done))
  all_goals (intro hp hq)
  all_goals (first
    | (refine Or.inl ?_; simp; done)
    | (refine Or.inr (Or.inl ⟨k, ?_, ?_⟩) <;> (first | (simpa [St.L] using hk) | (simp; done)); done)
    | (refine Or.inr (Or.inr ⟨k, ?_, ?_⟩) <;> (first | (simpa [St.L] using hk) | (simp; done)); done)
    | (rcases h2 (by simpa using hp) (by simpa using hq) with hh | hh | hh
       · exact Or.inl (by simpa using hh)
       · refine Or.inr (Or.inl (inflight_keep_of (k := k) hh ?_ ?_ ?_)) <;>
           (first | (simp [*]; done) | (intro j hj; simp [hj]; done))
       · refine Or.inr (Or.inr (inflight_keep_of (k := k) hh ?_ ?_ ?_)) <;>
           (first | (simp [*]; done) | (intro j hj; simp [hj]; done))))

theorem step_quit {s : St} (k : Nat) (h : QuitInv s) : QuitInv (step s k) := by
  unfold step; split
  · exact stepLoop_quit h
  · rename_i hk; exact stepOther_quit k hk h

theorem run_quit {s : St} (sched : List Nat) (h : QuitInv s) : QuitInv (run s sched) :=
  run_invariant (fun _ k h => step_quit k h) h sched

theorem init_quit (elt wl : Bool) (tbl) (dtbl) (pre) (again) (progs) : QuitInv (init elt wl tbl dtbl pre again progs) := by
  cases elt <;> (refine ⟨?_, ?_, ?_, ?_, ?_, ?_⟩ <;> simp [init, exited])

end MuduoVerif.Loop
