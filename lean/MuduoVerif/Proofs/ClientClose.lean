import MuduoVerif.Proofs.ClientConnector
/-! Preservation of `Mid` by the functions of the connection and by `restart`. -/
namespace MuduoVerif.Client
open MuduoVerif.Gen.Client

/-- `updConn`'s map -/
def updRec (k : Nat) (f : ConnRec → ConnRec) : ConnRec → ConnRec := fun r => if r.sock == k then f r else r

theorem updConn_eq (c : C) (k : Nat) (f : ConnRec → ConnRec) : updConn c k f = { c with conns := c.conns.map (updRec k f) } := rfl

theorem mem_map_upd {cs : List ConnRec} {k : Nat} {f : ConnRec → ConnRec} {y : ConnRec} (h : y ∈ cs.map (updRec k f)) :
    ∃ x ∈ cs, y = updRec k f x := by
  obtain ⟨x, hx, rfl⟩ := List.mem_map.mp h
  exact ⟨x, hx, rfl⟩

theorem findIn_upd {cs : List ConnRec} (k j : Nat) (f : ConnRec → ConnRec) (hf : ∀ r, (f r).sock = r.sock) :
    findIn (cs.map (updRec k f)) j = (findIn cs j).map (updRec k f) := findIn_map k j f hf

theorem socks_upd {cs : List ConnRec} (k : Nat) (f : ConnRec → ConnRec) (hf : ∀ r, (f r).sock = r.sock) :
    (cs.map (updRec k f)).map (·.sock) = cs.map (·.sock) := by
  rw [List.map_map]; apply List.map_congr_left; intro x _
  simp only [Function.comp, updRec]; split <;> simp [hf]

def goDown : ConnRec → ConnRec := fun r => { r with st := .disconnected, chanOn := false }

macro "mid_auto2" : tactic =>
  `(tactic| (first | assumption | grind [attempting, held, nRetry_snoc_retry, nRetry_snoc_park, Task.plain, Task.holds, updRec, goDown] | skip))

set_option maxHeartbeats 1000000 in
/-- DOWN of a connection whose close callback is `detail::removeConnection` -/
theorem closeDetached_mid (c : C) (r r0 : List Task) (ph : Bool) (hr0 : r0 = r ∨ r0 = Task.forceCloseInLoop k :: r)
    (hi : Mid c r0 ph) (x : ConnRec)
    (hx : findIn c.conns k = some x) (hst : x.st ≠ .disconnected) (hcb : x.closeCb = .detached) :
    Mid { c with conns := c.conns.map (updRec k goDown), trace := c.trace ++ [.down k],
                 pending := c.pending ++ [.connectDestroyed k] } r ph := by
  obtain ⟨hxm, hxs⟩ := findIn_some hx
  have hdes : x.destroyed = false := by
    cases h : x.destroyed
    · rfl
    · exact absurd (hi.c4 x hxm h).1 hst
  have hk : c.sockSt[k]? = some SockSt.handedOver := by rw [← hxs]; exact hi.c1 x hxm
  have hmem := @mem_map_upd c.conns k goDown
  have hfind := fun j => @findIn_upd c.conns k j goDown (fun _ => rfl)
  have hsocks := @socks_upd c.conns k goDown (fun _ => rfl)
  have hfs := @findIn_some c.conns
  have hfk : findIn (c.conns.map (updRec k goDown)) k = some (goDown x) := by
    rw [hfind, hx]; simp [updRec, hxs]
  have htr := hi.tr.down (cs' := c.conns.map (updRec k goDown)) hk hx hdes hst hfk hdes rfl (by
    intro j hj; rw [hfind]
    cases h : findIn c.conns j with
    | none => rfl
    | some y => have := (findIn_some h).2; simp [updRec, this, hj])
  rcases hr0 with rfl | rfl
  all_goals obtain ⟨notDead, a1, a2, a3, a4, a5, a6, a7, a8, a9, a10, a11, a13, a14, a15, a16, s1, c1, c2, c3, c4, c5, c6, c7, c8, c9, c10, g1, g3, h1, t1⟩ := hi
  all_goals constructor
  all_goals mid_auto2

/-- DOWN of a connection whose close callback is `TcpClient::removeConnection` (without the reconnect) -/
theorem closeClient_mid (c : C) (r : List Task) (ph : Bool) (hi : Mid c r ph) (k : Nat) (x : ConnRec)
    (hx : findIn c.conns k = some x) (hst : x.st ≠ .disconnected) (hcb : x.closeCb = .client) :
    Mid { c with conns := c.conns.map (updRec k goDown), trace := c.trace ++ [.down k],
                 connection := none,
                 pending := c.pending ++ [.connectDestroyed k] } r ph := by
  obtain ⟨hxm, hxs⟩ := findIn_some hx
  have hdes : x.destroyed = false := by
    cases h : x.destroyed
    · rfl
    · exact absurd (hi.c4 x hxm h).1 hst
  have hk : c.sockSt[k]? = some SockSt.handedOver := by rw [← hxs]; exact hi.c1 x hxm
  have hmem := @mem_map_upd c.conns k goDown
  have hfind := fun j => @findIn_upd c.conns k j goDown (fun _ => rfl)
  have hsocks := @socks_upd c.conns k goDown (fun _ => rfl)
  have hfs := @findIn_some c.conns
  obtain ⟨hal, hcn⟩ := hi.c6 x hxm hst hcb
  rw [hxs] at hcn
  have hfk : findIn (c.conns.map (updRec k goDown)) k = some (goDown x) := by
    rw [hfind, hx]; simp [updRec, hxs]
  have htr := hi.tr.down (cs' := c.conns.map (updRec k goDown)) hk hx hdes hst hfk hdes rfl (by
    intro j hj; rw [hfind]
    cases h : findIn c.conns j with
    | none => rfl
    | some y => have := (findIn_some h).2; simp [updRec, this, hj])
  obtain ⟨notDead, a1, a2, a3, a4, a5, a6, a7, a8, a9, a10, a11, a13, a14, a15, a16, s1, c1, c2, c3, c4, c5, c6, c7, c8, c9, c10, g1, g3, h1, t1⟩ := hi
  constructor
  all_goals mid_auto2

/-- `Connector::restart()` from `TcpClient::removeConnection` -/
theorem restart_mid (c : C) (r : List Task) (ph : Bool) (hi : Mid c r ph) (hch : c.chan = none) (hcn : c.connection = none)
    (hna : ¬ attempting c.cstate c.timers) (hns : .startCycle ∉ r ++ c.pending) (hal : c.clientAlive = true)
    (htc : c.tConnect = true) : Mid (restart c) r ph := by
  have hsr : c.stopReq = false := by
    cases h : c.stopReq
    · rfl
    · have := (hi.g3 h).2; rw [htc] at this; cases this
  have hon : c.chanOn = false := by
    cases h : c.chanOn
    · rfl
    · obtain ⟨k, hk, _⟩ := hi.a3 h; rw [hch] at hk; cases hk
  have hnt : nRetry c.timers = 0 := by
    cases h : nRetry c.timers
    · rfl
    · exact absurd (.inr (by omega)) hna
  have htr := hi.tr.cycle
  have hd0 := gen_kInit
  unfold restart
  apply startInLoop_mid
  · obtain ⟨notDead, a1, a2, a3, a4, a5, a6, a7, a8, a9, a10, a11, a13, a14, a15, a16, s1, c1, c2, c3, c4, c5, c6, c7, c8, c9, c10, g1, g3, h1, t1⟩ := hi
    constructor
    all_goals mid_auto2
  · exact ⟨rfl, hch, hcn, hnt, hns, rfl, fun _ => hal⟩

end MuduoVerif.Client
